#!/usr/bin/env python3
"""Regenerates MANIFEST.json from the table below (kept in one place so that it stays valid)."""
import json

CLAIMED = {
    "C01": dict(
        text="Lean theorems: the Python codec model (PyCodec, a transliteration of serde.py over the byte-level _Buffer) "
             "refines the canonical Wire codec, and decode(encode v) = v for every closed type tree, width and in-range value "
             "(structural induction, no bounds). Tie: per-run differential of fcp.serde against the compiled Lean model on generated "
             "schemas/values, every alignment, plus _Buffer operation sequences.",
        note="Trusted: Lean kernel + propext/Classical.choice/Quot.sound; the hand-written model is tied to serde.py only by the sampled "
             "correspondence; floats as IEEE words (NaN excluded), strings as their UTF-8 bytes (any text; the count is the number of bytes), Python flattens Optional[Optional[T]] Some(None).",
        technique="Lean 4 proof (structural induction) + model/implementation correspondence check",
        ref="DESIGN.md section 8, C01"),
    "C02": dict(
        text="Lean theorems: pyEncode = encBytes (canonical Wire bytes) and pyDecode agrees with the canonical decoder on every "
             "byte string; structural facts of the format (field order, LSB-first, two's complement, u32 counts, u8 flag, zero padding) "
             "and injectivity. The project's 26 cross-language vectors are translated to Lean on every run and kernel-checked against Wire "
             "(decide +kernel). Tie: per-run differential of fcp.serde against Wire/PyCodec in both directions.",
        note="Trusted: Lean kernel + standard axioms; vector translator (harness/translators.py); sampled correspondence; "
             "the C++ side of 'canonical' is C03's business.",
        technique="Lean 4 proof (refinement to a canonical codec) + translated test vectors + correspondence check",
        ref="DESIGN.md section 8, C02"),
    "C04": dict(
        text="Lean theorems about the model of PackedEncoder (generate = flattening in ascending field id with a bit cursor): "
             "leaves tile [0, total) (Tiles, by induction over fuel/fields/array indices), hence no gaps, no overlaps, total = sum of widths; "
             "every leaf's width is its own type's wire width, its options are exactly the signal block of its declared field name and its byte "
             "order comes from them; the result is independent of the encoder's history. Tie: per-run differential of generate() over random "
             "histories on one encoder, with direct tiling/uniqueness/history oracles.",
        note="Name uniqueness is checked by the harness under the guard NamesSeparable (recorded finding: a_<i> collision); "
             "Value.type objects are not compared.",
        technique="Lean 4 proof (invariant by induction over the flattening) + correspondence check over call histories",
        ref="DESIGN.md section 8, C04"),
    "C05": dict(
        text="Lean theorems about the description fcp_dbc hands to cantools (one message per CAN binding, one signal per layout leaf): message length "
             "= ceil(bits/8) <= 8 and bits <= 64; signal k has leaf k's length, position (MSB-shifted by 7 for non-little-endian), signedness, float flag, "
             "unit, byte order, multiplexer role / ids / switch; a frame packed per the layout decodes to every leaf's value (Intel, and byte-aligned Motorola); "
             "the per-bus files are a partition of the CAN bindings (distinct buses, each file exactly its bus's messages in binding order). Tie: the "
             "generated DBC text is read back by an independent reader in the harness and compared with the model's description per bus; frames packed by "
             "the Lean layout packing are decoded through the generated DBC with cantools.",
        note="cantools' printer is not modelled; decode-through-DBC is proved for Intel signals and for byte-aligned whole-byte Motorola signals (C05_decode_pack_both); "
             "multiplexing and the per-bus partition are theorems about the description (C05_multiplexing, C05_bus_partition).",
        technique="Lean 4 proof (layout tiling => DBC geometry, decode-pack identity) + differential check through an independent DBC reader",
        ref="DESIGN.md section 8, C05"),
    "C10": dict(
        text="Lean theorems about the model of GeneratorManager.generate as an effect on an abstract file system: verdict error => directory "
             "unchanged and the error returned (gate_reject); verdict ok => success, every returned path holds exactly the returned contents and every "
             "other path is as the plug-in left it (gate_accept, with the C plug-in's *.c/*.h clearing modelled). The model is small; the assurance "
             "rests mainly on the tie: real command vs model over schemas violating each general/plug-in rule at any position x {dbc, can_c, cpp, nop} "
             "x pre-existing directory contents, with before/after snapshots.",
        note="Partial by nature: the verifier's verdict and the plug-in's file list are taken from separate real calls; OS file-system semantics "
             "are trusted.",
        technique="Lean 4 proof (gating logic over an abstract FS; Result/catch glue as Except: a rejection travels unchanged) + snapshot-based correspondence check + Result pipelines on the real classes",
        ref="DESIGN.md section 8, C10"),
    "C17": dict(
        text="Partial. Lean theorems: the {path: contents} map and the resulting directory do not depend on the order in which a generator emits its "
             "files (Perm + Nodup paths). That each generator is a function of the schema alone is exercised by the harness: fresh subprocesses under "
             "several PYTHONHASHSEED values and a long-lived process that generates other schemas first and then the schema twice from one object, "
             "comparing file maps modulo the documented stamp line.",
        note="Hash randomisation, dict/set ordering and hidden process state are CPython behaviour the model carries only as a permutation.",
        technique="Lean 4 proof (order-independence of the output map) + multi-process / hash-seed / history correspondence",
        ref="DESIGN.md section 8, C17"),
    "C14": dict(
        text="Lean theorems: a binding whose resolved struct has no static size (any string / dynamic array / optional, at any depth) has no layout, so DBC "
             "generation fails and the C plug-in's verification rejects it; a layout wider than 64 bits is rejected by the DBC writer and by the C "
             "verification; every emitted signal lies inside its message (start+len <= 8*dlc <= 64) and signals are pairwise disjoint. Uses generate_static "
             "(layout size = static wire size). Tie: bindings of 57..200 bits with the excess in any position and every placement of a variable-size field, "
             "real fcp_dbc outcome vs model; geometry of every generated DBC re-checked by the independent reader; the C command in C10's harness.",
        note="An escaping exception of the DBC generator counts as 'fails with an error'.",
        technique="Lean 4 proof (size of layout = static wire size; rejection lemmas) + differential check around the 64-bit limit",
        ref="DESIGN.md section 8, C14"),
    "C15": dict(
        text="Lean theorems: with distinct ids the sorted field list is invariant under permutation of the declarations (insertion sort is a stable "
             "permutation + Perm.eq_of_pairwise); hence for twin schemas the closed type tree, the Python codec bytes, the packed layout and the DBC "
             "description coincide. Tie: every generated schema is paired with a declaration-permuted twin and pushed through the Python codec, "
             "the packed encoder and the DBC generator.",
        note="The generated C is covered by compiled twins; the C++ back end is covered by C03's harness; duplicate field ids are outside the theorem.",
        technique="Lean 4 proof (sorting is permutation-invariant => all back-end models agree) + twin-schema differential check",
        ref="DESIGN.md section 8, C15"),
    "C06": dict(
        text="Lean theorems about the model of the generated C runtime on the uint64 word (mask, shift, OR / shift, mask, sign-extend): the OR of the "
             "tiled signals is the number whose bits are the layout packing of the values (encodeWord_eq, via shiftLeft_add_eq_or_of_lt and induction over "
             "the tiling), data byte k is the k-th group of 8 packing bits, DLC = ceil(bits/8), and decode(encode v) = v for every in-range value "
             "(unsigned and two's-complement signed). Tie: fcp_can_c output from /repo's current templates is compiled with gcc together with a generated "
             "harness and run on boundary/random values; frames and decoded values are compared with the model.",
        note="Advertised subset only (flat structs, little-endian, scale 1, offset 0, no mux); floats compared by value after decode (-0.0 == +0.0); "
             "the unaligned uint64 store is UB in ISO C and relied upon on x86-64; 'compiles' is decided by gcc.",
        technique="Lean 4 proof (bit-field OR = concatenation; decode-encode identity) + compiled-code correspondence",
        ref="DESIGN.md section 8, C06"),
    "C07": dict(
        text="Lean theorem, at token level against a reference recursive-descent parser for the whole FCP grammar: C07_parse_print - every "
             "printing of a file (relation FileToks over every production: structs with fields/ids/types/parameters, enums, bindings with "
             "aliases, extension fields and signal blocks, services with methods, devices, module imports; every choice of the optional "
             "separators; arbitrary line numbers; types and values nested to any depth) parses back to exactly that file, and fuel is never the "
             "reason for an error; one default binding per struct. Character level: C07_lex_print - the reference lexer maps every printing of a "
             "token list (relation Render: any run of spaces, tabs, line feeds, // and /* */ comments before each token and at the end; "
             "identifiers, numbers with sign/fraction/exponent, strings with escapes, the 13 symbols; each token followed by something that "
             "cannot continue it) back to that list with the line every token starts on; C07_text_to_file composes both levels. The agreement "
             "of the real Lark/Earley front end with the reference front end is covered by the tie: the real front end, the Lean reference front end (lexer + "
             "parser + transformer actions) and the printed description are compared on generated texts over every production under canonical, "
             "dense and random formatting, strings with escapes included.",
        note="Partial in one respect: Lark's Earley engine is not modelled - the theorems are about the reference front end, which the real one "
             "is compared with on every run. Domain: word-like tokens separated, parameters written with parentheses; numbers start with a "
             "digit or a sign.",
        technique="Lean 4 proof (parse-print inverse for the whole grammar, token and character level) + three-way differential check",
        ref="DESIGN.md section 8, C07"),
    "C08": dict(
        text="Lean theorems about the reference front end (parser + transformer actions folded in source order + module loading over an abstract file "
             "system): every accepted tree, for any file system and any depth of imports, has all struct/enum references (at any nesting depth) resolving to "
             "a declared struct/enum of the tagged kind (invariant by induction over the declaration list and over import depth); a reference at any depth to "
             "a name not declared so far is an error whose first message names the type and whose chain names the enclosing struct; a struct is not visible "
             "to its own fields. Tie: generated schemas with forward/self/undeclared references at any depth, real Result and FcpV2.get_type on every field "
             "type vs the model, error texts compared verbatim.",
        note="Kinds are unambiguous under unique type names (verifier rule, C09).",
        technique="Lean 4 proof (resolver invariant by induction over declarations and imports) + differential check",
        ref="DESIGN.md section 8, C08"),
    "C11": dict(
        text="Lean theorems about the reference front end: it is total (a tree or an error value for every file system, root and fuel); a syntax "
             "error is an error value citing its file; and C11_error_lines: every line it cites for a lexical or syntax error lies between 1 and "
             "the number of lines of the source - the lexer's bookkeeping (lex_lines) composed with a safety invariant carried through every "
             "production of the parser (SyntaxLines.lean). Rendering is modelled too (Render.lean = Logger.error / log_node / log_location): "
             "C11_render_iff - an error value can be rendered exactly when every citation resolves (source registered under its full path or "
             "base name, line not beyond the last line); C11_quoted_line - the line printed under a citation is that line of that source; "
             "C11_syntax_error_renders - the lexical and syntax errors of the reference front end always render. That no exception escapes the "
             "REAL parser, that every error renders with existing cited lines, and that each rendered diagnostic (colour codes and "
             "[x.py:n] entries stripped) equals the model's text is checked by the harness on random text, every kind of prefix, token-level "
             "mutations, out-of-domain literals, line-ending conventions and errors of every stage placed deep inside imported modules.",
        note="Partial in one respect: exception propagation (Lark VisitError, beartype, assert) is CPython behaviour a model cannot exhibit. "
             "C11_all_error_lines covers every stage (lexical, syntax, elaboration, imports to any depth): each entry of every error chain of "
             "the reference loader cites an existing line of a file of the tree; C11_load_errors_render_partial: such a chain renders when the "
             "registry holds each file under its (unambiguous) base name - namesake module files, which the implementation tells apart by full "
             "path, are covered by the correspondence only.",
        technique="Lean 4 proof (totality, cited-line bounds for lexer and parser, rendering model of Logger.error) + malformed-input streams and rendered-text correspondence against the real parser",
        ref="DESIGN.md section 8, C11"),
    "C20": dict(
        text="Lean theorems about the reference module loader. C20_split_general: a file may import any number of modules at any positions between "
             "its own declarations, each module again split the same way to any import depth (relation Split2; dotted paths resolved relative to "
             "the importing file); every moved block is self-contained (mentions no type name declared before it outside the module); then loading "
             "the root yields the same tree as the single file and fails exactly when it fails. Proof by a frame lemma (C20_frame: after a context "
             "whose type names a block does not mention, the block elaborates to the context merged with its own result), stickiness of errors and "
             "file names occurring only inside error values. Also: a missing module file is an error naming the file; an error inside a module is "
             "wrapped in an error naming the module and citing the import line; all five declaration lists are merged. Tie: generated schemas "
             "split into module trees on a temp directory (nested prefixes, independent clusters with namesake files in different directories and "
             "depths, bindings/devices moved away from their structs) vs their single-file twin, with injected syntax / resolution / semantic "
             "errors and deleted files; the first citation of an error raised in a module must be the module.",
        note="The theorem is about the reference loader; its agreement with the real parser is the correspondence. Error *values* are compared "
             "by the tie only (the theorem speaks of success/failure and the tree).",
        technique="Lean 4 proof (split-equivalence in general position via a frame lemma, induction over the module tree) + split-vs-single differential check",
        ref="DESIGN.md section 8, C20"),
    "C03": dict(
        text="Lean theorems: `Cpp.cppEnc`/`Cpp.cppDec` model the generated Encode/Decode members (same composition over the type tree as the "
             "template, every scalar through Buffer::PushWord's bit loop on a possibly signed carrier and Buffer::GetWord's bit loop, XOR/subtract "
             "sign extension with its 64-bit exception, cast to the carrier). Proved for all types and in-range values: encoder bytes = canonical "
             "bytes = Python codec bytes; decoder = canonical decoder on every bit string; round trip; carrier is the least standard width >= n; "
             "sign extension = two's complement for every 1<=n<=c<=64; enum width minimal. Tie: schemas over every type constructor generated with "
             "fcp_cpp, compiled with g++ -std=c++17 (ASan+UBSan) with a generic JSON driver, encoder bytes vs model, decoder vs value, plus one schema "
             "with every width 1..64 and enum maxima up to 2^63 at their boundary values and the carrier/enum-width functions exhaustively on 1..64 / around powers of two; every per-protocol header fcp_<protocol>.h is "
             "compiled with a driver of its own and must answer like fcp.h. The rpc layer (rpc.py: wrapper structs, ServiceId / MethodId enums) "
             "is modelled (Rpc.lean): C03_rpc_keeps_user_types - every user type resolves to the same closed type in the extended schema the "
             "headers are rendered from; C03_accepted_generates - a schema that passes the general checks and the C++ plug-in's service check "
             "makes generate_rpc return; generate_rpc is compared with the model on service edge cases and fleet schemas, and a probe of 24 "
             "service declarations demands: accepted => generates and fcp.h + rpc.h + client/server headers compile.",
        note="'compiles as C++17' is decided by g++ on the sampled schemas, not by a theorem; the client/server templates are compile-checked only; values travel "
             "as JSON (no infinities/NaN); decode of truncated input is outside the property and not modelled. Recorded finding "
             "reserved-word-identifiers (names that are C++ keywords are written verbatim) and rpc-derived-name-clash (a declared name equal to a derived "
             "wrapper / id-enum name) shown on their witnesses; fixed: fcp_default.h namespace, service checks (35b0f7d), rpc names (d1ce970), wrapper table (88563f4).",
        technique="Lean 4 proof (refinement of the generated codec to the canonical wire format) + compiled-code differential check",
        ref="DESIGN.md section 8, C03"),
    "C13": dict(
        text="Lean theorems: run-time decoder `Cpp.dynDec` (shared bit cursor, int64 cast) = static decoder on every bit string and every supported "
             "type; run-time encoder `Cpp.dynEnc` (one shared Buffer, every scalar through PushWord on a 64-bit carrier) = static encoder = canonical "
             "bytes for every type and in-range value (C13_encode_same, C13_encode_canonical), round trip through the run-time codec; enum width "
             "formula ceil(log2(max+1)) = static width. The reflection link is C12. Tie: one process loads the reflection binary produced by the "
             "Python tool and answers static and run-time encode/decode for the same values (sub-byte fields, signed negatives, every container "
             "kind, enum boundaries, every width 1..64).",
        note="The encoder equality became a full theorem after the repair of the whole-byte run-time encoder (known_findings.json, fixed: "
             "dynamic-encode-not-bit-packed); the pre-repair behaviour is kept as Cpp.oldDynEnc with its counterexample. Enumerators named vs "
             "numbered handled in the JSON glue; values travel as JSON (no NaN/inf). Recorded finding enumerator-beyond-i32: enumerators >= 2^31 "
             "do not reach the run-time codec intact (i32 in reflection.fcp, C12); such enums are kept out of the C13 batches and shown on a witness.",
        technique="Lean 4 proof (decoder and encoder equality with the generated codec) + compiled-code differential check",
        ref="DESIGN.md section 8, C13"),
    "C18": dict(
        text="Lean theorems over `Cpp.encodeFrame`/`Cpp.decodeFrame` (first matching binding, strnlen bus tag, zero-padded 8-byte data): frame = "
             "(bus padded, id, number of canonical bytes, bytes padded); decode(encode) = (name, value) for distinct names and (id, bus) keys; "
             "unmatched (id, bus) -> unknown; static = run-time for decoding. Tie: compiled static and run-time CAN wrappers (ASan+UBSan) vs the "
             "Lean frame model on encodes, decodes of matching frames and of frames with altered id / bus / bus prefix.",
        note="Since fixes 6533a8d / 3cf67a4 the model cuts bus names to the four characters of the tag (Binding.tag) and identifiers are unbounded; "
             "the old comparison is kept as oldDecodeFrame with C18_old_long_bus_counterexample. Bindings without a bus are outside the property; altered frames that match another binding are decoded only when their data is an encoding of a value of that binding (enumerators, finite floats). Recorded finding enumerator-beyond-i32 (see C12/C13) shown on its witness.",
        technique="Lean 4 proof (frame model: lookup + padding lemmas + codec round trip) + compiled-code differential check",
        ref="DESIGN.md section 8, C18"),
    "C12": dict(
        text="Lean theorems: `reflect` models FcpV2.reflection() and every reflection() method (flattened type chains, str(value) of extension values, "
             "optional unit/range/meta); whenever the record fits the reflection schema (wf reflTy, decidable) the Python codec round trip returns it "
             "(from the C01 refinement); the type chain determines the type (unchain ∘ chain = id for non-numeric leaves); the record lists every "
             "struct/enum/binding/service; `C12_in_range_exact`: wf reflTy (reflect S) = InReflRange S, the bounds spelt out on the schema (ids in u32, "
             "enumerators and positions in i32, version in u16, texts valid UTF-8 of fewer than 2^32 bytes, lists < 2^32), so `C12_lossless_in_range` states losslessness for exactly "
             "that class, and the two recorded findings (negative id, enumerator beyond i32) are kernel-checked ways of leaving it. reflection.fcp is translated to Lean on every run and the kernel re-checks that struct Fcp resolves to the "
             "hand-written reflTy. Tie: generated schemas over every node kind, real record vs model record, serde round trip, bytes vs canonical.",
        note="Source positions are inputs of the model; recorded findings: negative field ids (u32), enumerators outside i32, enumerator -2^31 (the decoder's signed-min defect); strings "
             "are valid UTF-8 (texts outside ASCII included since fix 31f16fa). 25 % of the schemas are spread over module files, and the reflected declarations are compared with the generator's own "
             "description (not only with the parsed tree).",
        technique="Lean 4 proof (record model + codec round trip + chain inverse) + translated reflection schema + differential check",
        ref="DESIGN.md section 8, C12"),
    "C09": dict(
        text="Lean theorems: the model of Verifier.verify (category loop, registered checks in registration order, the code's own count>1 idiom) "
             "returns ok iff WellFormed S, iff WellFormed S and DbcOk S with the DBC checks, iff WellFormed S and COk S with the C checks; and the "
             "verdict is invariant under permuting each declaration list (Perm.nodup_iff; for the C set via congruence of the layout under unique "
             "type names). Tie: schema trees built directly as FcpV2 objects (exhaustive small scope in the thorough tier) x 3 check sets x permuted "
             "twin, real verdict and first failing rule against the model.",
        note="Trees with cyclic struct references (hand-built only) are skipped; which rule fails first is read from the message text and only recorded in the evidence (the property is about the verdict).",
        technique="Lean 4 proof (decision logic = decidable specification, permutation invariance) + exhaustive small-scope correspondence",
        ref="DESIGN.md section 8, C09"),
    "C19": dict(
        text="Lean theorems: the model of can_send_<dev>_msgs_scheduled (static last_call_t / last_send_t[], uint32 wrap-around, unsigned "
             "comparison with the period literal) refines, for every list of periods and every call history, the per-message reference automaton of "
             "the statement (messages do not interfere); consecutive transmissions are at least P apart (mod 2^32, and in real time when gaps are "
             "below 2^32); period -1 is never sent; a due message is sent. Tie: the generated <dev>_can.c is compiled with gcc from /repo's current "
             "templates and run on generated histories (exhaustive short histories in the thorough tier) against the model and a reference automaton.",
        note="Frame payload correctness beyond byte-aligned unsigned fields is C06's business; gcc and the C runtime are trusted.",
        technique="Lean 4 proof (refinement to a reference automaton by induction over call histories) + compiled-code correspondence",
        ref="DESIGN.md section 8, C19"),
    "C16": dict(
        text="Lean theorems: every strict byte prefix of a valid encoding makes pyDecode return an error (C16_truncation, from "
             "dec_prefix_none by induction over the type tree), a returned value accounts for bits that were present "
             "(C16_no_fabrication from dec_consumes), and pyDecode errs whenever the canonical decoder fails (short payloads). "
             "Work: `reads` counts the decoder's read_word calls (same recursion, failing read included) and C16_work_bounded proves "
             "reads <= weight(schema) * (1 + 8*#bytes) for every type without a zero-width element type under a dynamic array (PosWidth); "
             "C16_zero_width_counterexample shows the guard is needed. "
             "Tie: every truncation point and corrupted length prefixes up to 2^32-1 against the model; the implementation's read_word "
             "call count must not exceed the model's `reads` on any decode job (today they are equal; fewer calls, e.g. block reads, stay "
             "covered by the proved bound a fortiori).",
        note="zero-width element types under a dynamic array are a recorded finding (known_findings.json) and exactly the complement of "
             "the theorem's guard; Python-level work other than read_word calls (list appends, dict building) is proportional to it and "
             "not separately modelled.",
        technique="Lean 4 proof (prefix lemma + work bound by structural induction) + correspondence check with call counting",
        ref="DESIGN.md section 8, C16"),
}
ALL = [f"C{n:02d}" for n in range(1, 21)]


def main():
    checks = []
    for pid, c in CLAIMED.items():
        checks.append({
            "property_id": pid,
            "quick_cmd": f"/venv/bin/python check.py {pid} --tier quick",
            "thorough_cmd": f"/venv/bin/python check.py {pid} --tier thorough",
            "evidence_file": f"evidence/{pid}.json",
            "replay_cmd_template": f"/venv/bin/python check.py {pid} --replay {{path}}",
            "engine": "lean4+harness",
            "level_claimed": {"category": "proof", "text": c["text"], "design_ref": c["ref"]},
            "level_note": c["note"],
            "technique": c["technique"],
        })
    na = [{"property_id": p, "reason": "check not built yet in this round (planned; see DESIGN.md section 11)"}
          for p in ALL if p not in CLAIMED]
    m = {
        "version": 1,
        "setup_cmd": "cd lean && lake build",
        "hooks": {
            "guard": "FCP_CORE_VERIF",
            "enable": "no source hooks are needed: every observable is a public function, a generated file or a compiled program's stdout",
            "baseline_off_cmd": "cd /repo && /venv/bin/python -m pytest -ra -q -p no:cacheprovider --timeout=900 --continue-on-collection-errors",
            "source_commits": [],
            "add_only": True,
        },
        "engines": [{"name": "lean4+harness", "path": "lean/ , harness/ , check.py",
                     "serves_properties": sorted(CLAIMED),
                     "kind_free_text": "Lean 4 models + theorems (lake build, #print axioms audit) and a Python correspondence harness "
                                       "driving /repo in-process against the compiled Lean driver"}],
        "checks": checks,
        "not_applicable": na,
        "notes": "See DESIGN.md. known_findings.json lists fixed defects and recorded findings.",
    }
    json.dump(m, open("MANIFEST.json", "w"), indent=1)


if __name__ == "__main__":
    main()
