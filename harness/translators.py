"""Translators for repo data files that *are* specifications: they are re-translated to
Lean on every run and re-checked by the kernel (`decide`)."""
import json
import re

from .common import LEAN, REPO
from . import gen


# ------------------------------------------------------------------ Lean term printers


def lean_str(s):
    return json.dumps(s)


def ty_lean(sd, t, fuel=50):
    """closed `Ty` term of a `to_dict()` type (fields in ascending id, stable)"""
    if fuel == 0:
        raise ValueError("type too deep")
    k = t["type"]
    if k == "unsigned":
        return f"(.uint {int(t['name'][1:])})"
    if k == "signed":
        return f"(.sint {int(t['name'][1:])})"
    if k == "float":
        return ".f32"
    if k == "double":
        return ".f64"
    if k == "str":
        return ".str"
    if k == "Enum":
        e = next(e for e in sd["enums"] if e["name"] == t["name"])
        m = max(x["value"] for x in e["enumeration"])
        bits = 1 if m <= 1 else m.bit_length()
        return f"(.enum {bits})"
    if k == "Struct":
        s = next(s for s in sd["structs"] if s["name"] == t["name"])
        out = ".unit"
        for f in reversed(sorted(s["fields"], key=lambda f: f["field_id"])):
            out = f"(.field {lean_str(f['name'])} {lean_int(f['field_id'])} {ty_lean(sd, f['type'], fuel - 1)} {out})"
        return out
    if k == "Array":
        return f"(.arr {ty_lean(sd, t['underlying_type'], fuel - 1)} {t['size']})"
    if k == "DynamicArray":
        return f"(.dyn {ty_lean(sd, t['underlying_type'], fuel - 1)})"
    if k == "Optional":
        return f"(.opt {ty_lean(sd, t['underlying_type'], fuel - 1)})"
    raise ValueError(k)


def lean_int(i):
    return f"({i})" if i < 0 else str(i)


def val_lean(mv):
    """model value (JSON shape of the line protocol) → `Val` term"""
    if mv is None:
        return ".none"
    if isinstance(mv, bool):
        raise ValueError("bool")
    if isinstance(mv, int):
        return f"(.int {lean_int(mv)})"
    if isinstance(mv, dict):
        if "s" in mv:
            return f"(.str [{', '.join(str(c) for c in mv['s'])}])"
        return f"(.some {val_lean(mv['some'])})"
    if isinstance(mv, list):
        out = ".nil"
        for x in reversed(mv):
            out = f"(.cons {val_lean(x)} {out})"
        return out
    raise ValueError(mv)


# ------------------------------------------------------------------ fcp_tests.json

CONSTS = {
    "ULONG_MAX": (1 << 64) - 1,
    "LLONG_MAX": (1 << 63) - 1,
    "LLONG_MIN": -(1 << 63),
}


def _scalar(sd, t, raw):
    """(python value, model value) of a vector literal"""
    k = t["type"]
    if k in ("unsigned", "signed"):
        if raw in CONSTS:
            v = CONSTS[raw]
        else:
            v = int(raw, 0)
        return v, v
    if k == "float":
        x = float(raw)
        return x, gen.f2w32(x)
    if k == "double":
        x = float(raw)
        return x, gen.f2w64(x)
    if k == "str":
        return raw, {"s": list(raw.encode("utf-8"))}
    if k == "Enum":
        e = next(e for e in sd["enums"] if e["name"] == t["name"])
        v = next(x["value"] for x in e["enumeration"] if x["name"] == raw)
        return v, v
    if k in ("Array", "DynamicArray"):
        xs = [_scalar(sd, t["underlying_type"], r) for r in raw]
        return [x[0] for x in xs], [x[1] for x in xs]
    if k == "Optional":
        if raw is None:
            return None, None
        p, m = _scalar(sd, t["underlying_type"], raw)
        return p, {"some": m}
    raise ValueError(k)


def load_vectors(schema_dicts):
    """[(suite, test name, schema file, struct, py value, model value, bytes)]"""
    suites = json.loads((REPO / "tests" / "standardized" / "fcp_tests.json").read_text())
    out = []
    for suite in suites:
        sd = schema_dicts[suite["schema"]]
        for t in suite["tests"]:
            st = next(s for s in sd["structs"] if s["name"] == t["datatype"])
            py = {}
            for xp, raw in t["decoded"].items():
                sname, fname = xp.split(":")
                f = next(f for f in st["fields"] if f["name"] == fname)
                py[fname] = _scalar(sd, f["type"], raw)
            mv = [py[f["name"]][1] for f in sorted(st["fields"], key=lambda f: f["field_id"])]
            pyv = {k: v[0] for k, v in py.items()}
            by = [int(b, 0) if isinstance(b, str) else int(b) for b in t["encoded"]]
            out.append((suite["name"], t["name"], suite["schema"], t["datatype"], pyv, mv, by))
    return out


def write_vectors_lean(schema_dicts, vectors):
    d = LEAN / "Generated"
    d.mkdir(exist_ok=True)
    lines = [
        "import FcpModel",
        "/-! GENERATED on every run from tests/standardized/fcp_tests.json — kernel-checked tests",
        "    of the canonical `Wire` specification against the project's cross-language vectors. -/",
        "namespace Fcp.Vectors",
        "open Fcp",
    ]
    names = []
    for suite, name, schema, struct, pyv, mv, by in vectors:
        sd = schema_dicts[schema]
        ty = ty_lean(sd, {"type": "Struct", "name": struct})
        ident = re.sub(r"\W", "_", f"{suite}_{name}")
        bl = "[" + ", ".join(str(b) for b in by) + "]"
        lines.append(f"theorem {ident}_enc : encBytes {ty} {val_lean(mv)} = {bl} := by decide +kernel")
        lines.append(f"theorem {ident}_dec : decBytes {ty} {bl} = some {val_lean(mv)} := by decide +kernel")
        names.append(ident)
    lines.append("end Fcp.Vectors")
    (d / "Vectors.lean").write_text("\n".join(lines) + "\n")
    return names
