"""C06: the generated C CAN code (compiled with gcc) against the Lean `CanC` model and the
layout packing.  Also feeds C15 (declaration-permuted twins through the C back end)."""
import json
import random

from . import cbuild, gen
from .common import Report, run_driver_parallel, seed, log
from .impl import run_cases, schema_to_wire

NAMES = ["Ma", "Mb", "Mc"]


def snake(n):
    return "".join(["_" + c.lower() if c.isupper() else c for c in n]).lstrip("_")


def gen_flat(rng):
    """flat CAN schema: 1..3 messages of 1..8 signals, <= 64 bits each"""
    d = gen.Desc()
    d.enums = gen.gen_enums(rng, rng.randint(0, 2))
    # enum names of every spelling (a type's kind is not to be guessed from the first letter of its name)
    # (a small pool, and most enums keep the generator's E0 / E1: same-named enums of other widths in the schemas one worker
    # process sees one after the other stay frequent)
    pool = rng.sample(["fan_mode", "ignition", "idle_state", "flags", "Status", "int_kind", "float_kind"], len(d.enums))
    d.enums = [(pool[k] if rng.random() < 0.35 else en, [(f"{pool[k]}_{vn}", v) for vn, v in es]) for k, (en, es) in enumerate(d.enums)]
    enames = [e[0] for e in d.enums]
    extra = []
    d.msgs = []  # (binding name, struct name) in source order
    used_ids = set()
    for k in range(rng.randint(1, 3)):
        fields = []
        total = 0
        for j in range(rng.randint(1, 8)):
            if total >= 64:
                break
            t = gen.scalar_type(rng, enames, hi=64 - total)
            w = {"u": None, "i": None}.get(t[0], 0)
            if t[0] in ("u", "i"):
                w = t[1]
            elif t[0] == "f32":
                w = 32
            elif t[0] == "f64":
                w = 64
            else:
                w = gen.enum_bits(d.enum(t[1]))
            if total + w > 64:
                continue
            fields.append((f"f{j}", j, t))
            total += w
        if not fields:
            fields = [("f0", 0, ("u", 8))]
        ids = list(range(len(fields)))
        if rng.random() < 0.5:
            rng.shuffle(ids)
        fields = [(fn, ids[i], t) for i, (fn, _, t) in enumerate(fields)]
        d.structs.append((NAMES[k], fields))
        # bindings: the struct under its own name, under an alias only (`as`), or both (two messages of one struct);
        # the C API of a message carries the *binding's* name
        r = rng.random()
        bnames = [NAMES[k]] if r < 0.6 else [NAMES[k] + "Fast"] if r < 0.75 else [NAMES[k], NAMES[k] + "Fast"] if r < 0.9 \
            else [NAMES[k] + "Slow", NAMES[k] + "Fast"]
        for bn in bnames:
            while True:
                # identifier 0 is an identifier like any other (a quarter of the schemas have a message with it)
                fid = 0 if (not used_ids and rng.random() < 0.25) else rng.randint(0, 2047)
                if fid not in used_ids:
                    break
            used_ids.add(fid)
            alias = "" if bn == NAMES[k] else f" as {bn}"
            extra.append(f'impl can for {NAMES[k]}{alias} {{\n    id: {fid},\n    device: "ecu",\n}}')
            d.msgs.append((bn, NAMES[k]))
    d.extra = "\n".join(extra) + "\n"
    return d


def permuted(d, rng):
    p = d.permuted(rng)
    p.msgs = list(d.msgs)
    return p


def leaf_values(rng, d, name):
    """one in-range value per field in id order; floats as IEEE words"""
    vals = []
    for fn, fid, t in d.sorted_fields(name):
        if t[0] == "u":
            n = t[1]
            vals.append(rng.choice([0, 1, (1 << n) - 1, 1 << (n - 1), rng.getrandbits(n)]))
        elif t[0] == "i":
            n = t[1]
            lo, hi = -(1 << (n - 1)), (1 << (n - 1)) - 1
            vals.append(max(lo, min(hi, rng.choice([lo, -1, 0, 1, hi, rng.randint(lo, hi)]))))
        elif t[0] == "f32":
            vals.append(gen.f32_word(rng))
        elif t[0] == "f64":
            vals.append(gen.f64_word(rng))
        else:
            es = d.enum(t[1])
            vals.append(rng.choice(es)[1])
    return vals


def main_c(d):
    out = ['#include <stdio.h>', '#include <stdlib.h>', '#include <string.h>', '#include <stdint.h>',
           '#include <inttypes.h>', '#include "ecu_can.h"', ""]
    out.append("static void pf(const CanFrame *f) { printf(\"E %u %u\", (unsigned) f->id, (unsigned) f->dlc);"
               " for (int i = 0; i < 8; i++) printf(\" %u\", (unsigned) f->data[i]); printf(\"\\n\"); }")
    out.append("int main(void) {\n    int mi;\n    while (scanf(\"%d\", &mi) == 1) {")
    for k, (name, sname) in enumerate(d.msgs):
        fs = d.struct(sname)
        sn = snake(name)
        out.append(f"        if (mi == {k}) {{")
        out.append(f"            CanMsg{name} m; memset(&m, 0, sizeof m);")
        for fn, fid, t in sorted(fs, key=lambda f: f[1]):
            if t[0] == "f32":
                out.append(f"            {{ unsigned long long w; scanf(\"%llu\", &w); uint32_t x = (uint32_t) w; memcpy(&m.{fn}, &x, 4); }}")
            elif t[0] == "f64":
                out.append(f"            {{ unsigned long long w; scanf(\"%llu\", &w); uint64_t x = w; memcpy(&m.{fn}, &x, 8); }}")
            elif t[0] == "i":
                out.append(f"            {{ long long w; scanf(\"%lld\", &w); m.{fn} = (__typeof__(m.{fn})) w; }}")
            else:
                out.append(f"            {{ unsigned long long w; scanf(\"%llu\", &w); m.{fn} = (__typeof__(m.{fn})) w; }}")
        out.append(f"            CanFrame f = can_encode_msg_{sn}(&m);")
        out.append("            pf(&f);")
        out.append(f"            CanMsg{name} r = can_decode_msg_{sn}(&f);")
        out.append('            printf("D");')
        for fn, fid, t in sorted(fs, key=lambda f: f[1]):
            if t[0] == "f32":
                out.append(f"            {{ uint32_t x; memcpy(&x, &r.{fn}, 4); printf(\" %llu\", (unsigned long long) x); }}")
            elif t[0] == "f64":
                out.append(f"            {{ uint64_t x; memcpy(&x, &r.{fn}, 8); printf(\" %llu\", (unsigned long long) x); }}")
            elif t[0] == "i":
                out.append(f"            printf(\" %lld\", (long long) r.{fn});")
            else:
                out.append(f"            printf(\" %llu\", (unsigned long long) r.{fn});")
        out.append('            printf("\\n");')
        out.append("        }")
    out.append("    }\n    return 0;\n}")
    return "\n".join(out) + "\n"


def same_value(t, a, b):
    """decoded vs original: integers exactly; floats by value (so that -0.0 == +0.0)"""
    if t[0] == "f32":
        return gen.w2f32(a) == gen.w2f32(b)
    if t[0] == "f64":
        return gen.w2f64(a) == gen.w2f64(b)
    return a == b


def run(prop, tier, replay=None):
    rep = Report(prop, tier)
    rng = random.Random(seed() * 48611 + 6)
    rep.check_proofs()
    run_core(rep, prop, tier, rng)
    reserved_word_witness(rep)
    rep.cov["rule"] = ("flat CAN schemas (1..3 messages x 1..8 signals: u/i 1..64 bits, f32, f64, enums; any order; <= 64 bits) "
                       "generated with fcp_can_c from /repo's templates, compiled with gcc, run on boundary/random values; "
                       "distinct by schema text; every (message, value) is one evaluation")
    rep.assumptions += ["floats are compared by value after decode (the runtime's x*1.0f+0.0f turns -0.0 into +0.0)",
                        "unaligned uint64_t store into CanFrame.data is UB in ISO C and relied upon (x86-64)"]
    return rep.finish()


def reserved_word_witness(rep):
    """recorded finding reserved-word-identifiers on its witness (silent once the generated C compiles)"""
    from .common import load_findings
    if not any(f.get("property") == "C06" and f.get("id") == "reserved-word-identifiers" and f.get("status") == "open"
               for f in load_findings()):
        return
    text = 'version: "3"\n\nstruct S {\n    register @ 0: u8,\n}\nimpl can for S {\n    id: 10,\n    device: "ecu",\n}\n'
    g = run_cases("harness.cbuild", "w_gen_c", [{"text": text}], timeout_s=60)[0]
    if "ok" not in g or "ecu_can.c" not in g["ok"]["files"]:
        return
    d_, exe, out = cbuild.build(g["ok"]["files"], "#include \"ecu_can.h\"\nint main(void) { return 0; }\n")
    try:
        rep.hist("reserved_word_witness", "compiles" if exe else "does not compile")
        if exe is None:
            rep.known_finding("a field named like a C reserved word is accepted by parser and verifier and written verbatim: the "
                              "generated C does not compile (witness: struct S { register @0: u8 } bound to CAN)")
    finally:
        if d_:
            cbuild.cleanup(d_)


def run_core(rep, prop, tier, rng):
    n, nv = (48, 20) if tier == "quick" else (1200, 40)
    if prop == "C15":
        n, nv = (24, 6) if tier == "quick" else (300, 10)
    descs = [gen_flat(rng) for _ in range(n)]
    if prop == "C15":
        descs = descs[: n // 2]
        descs = descs + [permuted(d, rng) for d in descs]
    gens = run_cases("harness.cbuild", "w_gen_c", [{"text": d.text()} for d in descs], timeout_s=60)
    vals = []
    for k, d in enumerate(descs):
        vs = []
        base = descs[k - len(descs) // 2] if prop == "C15" and k >= len(descs) // 2 else None
        for mi, (name, sname) in enumerate(d.msgs):
            rep.hist("binding", "own name" if name == sname else "alias")
            for _ in range(nv):
                vs.append((mi, leaf_values(rng, d, sname)))
        vals.append(vs)
    if prop == "C15":
        half = len(descs) // 2
        for k in range(half):
            vals[half + k] = vals[k]

    def build_one(k):
        g = gens[k]
        if "ok" not in g:
            return None, None, json.dumps(g)[:1500]
        if "ecu_can.c" not in g["ok"]["files"]:
            return None, None, "no ecu_can.c generated: " + str(sorted(g["ok"]["files"]))
        return cbuild.build(g["ok"]["files"], main_c(descs[k]))

    builds = cbuild.parallel(build_one, range(len(descs)))
    try:
        def run_one(k):
            d_, exe, out = builds[k]
            if exe is None:
                return None
            text = "".join(f"{mi} " + " ".join(str(v) for v in vs) + "\n" for mi, vs in vals[k])
            return cbuild.run(exe, text)

        outs = cbuild.parallel(run_one, range(len(descs)))
    finally:
        for d_, exe, out in builds:
            if d_:
                cbuild.cleanup(d_)
    # model
    lcases = []
    lidx = []
    for k, d in enumerate(descs):
        if "ok" not in gens[k]:
            continue
        sd = gens[k]["ok"]["schema"]
        w = schema_to_wire(sd)
        can_ix = [i for i, im in enumerate(sd["impls"]) if im["protocol"] == "can"]
        for mi, (name, sname) in enumerate(d.msgs):
            ix = next(i for i in can_ix if sd["impls"][i]["name"] == name and sd["impls"][i]["type"] == sname)
            lcases.append({"op": "canc", "schema": w, "impl": ix, "values": [vs for m2, vs in vals[k] if m2 == mi]})
            lidx.append((k, mi))
    mres = dict(zip(lidx, run_driver_parallel(lcases)))
    results = {}
    for k, d in enumerate(descs):
        text = d.text()
        rep.count(text)
        b = builds[k]
        if b[1] is None:
            rep.cov["disagreements_checked"] += 1
            rep.hist("outcome", "no-compile")
            rep.violation({"kind": "compile", "schema": text, "compiler": (b[2] or "")[-1200:],
                           "what": "the generated C does not compile (or generation raised)"})
            continue
        rc, so, se = outs[k]
        lines = [l for l in so.split("\n") if l.strip()]
        if rc != 0 or len(lines) != 2 * len(vals[k]):
            rep.violation({"kind": "harness-output", "schema": text, "rc": rc, "stderr": se[-300:], "stdout": so[:300]},
                          no_input=True)
            continue
        rep.hist("outcome", "ran")
        counters = {}
        res_k = []
        for j, (mi, vs) in enumerate(vals[k]):
            name, sname = d.msgs[mi]
            sf = d.sorted_fields(sname)
            e = [int(x) for x in lines[2 * j].split()[1:]]
            dec = [int(x) for x in lines[2 * j + 1].split()[1:]]
            res_k.append((mi, e))
            m = mres[(k, mi)]
            cj = counters.get(mi, 0)
            counters[mi] = cj + 1
            mf = m["frames"][cj]
            rep.cov["evaluations"] += 1
            rep.sample({"schema": text, "message": name, "values": vs, "frame": e, "decoded": dec}, limit=3)
            for (fn, fid, t) in sf:
                rep.hist("signal_types", t[0] + (str(t[1]) if t[0] in "ui" and t[1] in (8, 16, 32, 64) else ""))
            base = {"schema": text, "message": name, "values": vs, "fields": [[fn, gen.type_text(t)] for fn, _, t in sf]}
            exp_frame = [mf["id"], mf["dlc"]] + mf["data"]
            if e != exp_frame:
                rep.cov["disagreements_checked"] += 1
                rep.violation(dict(base, kind="encode", observed=e, expected=exp_frame, layout_packing=mf["packing"],
                                   what="frame (id, dlc, data) differs from the layout packing of the value"))
                break
            if len(dec) != len(vs) or not all(same_value(t, a, b) for (fn, fid, t), a, b in zip(sf, dec, vs)):
                rep.cov["disagreements_checked"] += 1
                rep.violation(dict(base, kind="decode", observed=dec, frame=e,
                                   what="decode(encode(v)) != v in the generated C"))
                break
        results[k] = res_k
    if prop == "C15":
        half = len(descs) // 2
        for k in range(half):
            if k in results and half + k in results and results[k] != results[half + k]:
                rep.cov["disagreements_checked"] += 1
                rep.violation({"kind": "twin-c", "schema": descs[k].text(), "twin": descs[half + k].text(),
                               "what": "generated C frames change when field declarations are permuted (ids fixed)"})
