"""C19: the generated C scheduler `can_send_<dev>_msgs_scheduled` against the Lean `Sched` model."""
import itertools
import json
import random

from . import cbuild
from .common import Report, run_driver_parallel, seed, log
from .impl import run_cases

W = 1 << 32
NAMES = ["Ma", "Mb", "Mc", "Md"] + [f"Mx{k}" for k in range(4, 80)]
FIELD_TYPES = [("u8", 8), ("u16", 16), ("u32", 32)]


DEVNAMES = ["ecu", "dash"]


def gen_device(rng, nmsg=None, periods=None, two=False):
    nmsg = nmsg or rng.randint(2 if two else 1, 4)
    msgs = []
    for k in range(nmsg):
        nf = rng.randint(1, 2)
        fields = [rng.choice(FIELD_TYPES) for _ in range(nf)]
        while sum(w for _, w in fields) > 64:
            fields.pop()
        if periods is not None:
            p = periods[k]
        else:
            p = rng.choice([-1, 0, 0, 1, 2, 3, 5, 10, 15, 20, 100, 1000, 65536, (1 << 31) - 1])  # 0: due on every new timestamp
        # "no period" is written either as `period: -1` or by leaving the field out
        msgs.append({"name": NAMES[k], "id": (rng.randint(0, 2047) if nmsg <= 4 else 100 + k), "period": p, "fields": fields,
                     "omit_period": p == -1 and rng.random() < 0.6, "dev": 0})
        if periods is None and p > 0 and p < 100000 and rng.random() < 0.2:
            # a period written as a float: whole-number floats (10.0, 1e1) and fractions; on integer timestamps "at least P
            # elapsed" is "at least ceil(P) elapsed", which is what the reference automaton and the model are given
            if rng.random() < 0.5:
                msgs[-1]["period_text"] = rng.choice([f"{p}.0", f"{p}e0"])
            else:
                msgs[-1]["period_text"] = f"{p - 1}.{rng.choice([25, 5, 75])}"
    if two:
        # two devices in one schema, both schedulers linked into one program (each has its own call history)
        for m in msgs:
            m["dev"] = rng.randint(0, 1)
        msgs[0]["dev"], msgs[1]["dev"] = 0, 1
        # at least one periodic message per device, so that a call which wrongly does nothing is visible
        for dv in (0, 1):
            mine = [m for m in msgs if m["dev"] == dv]
            if all(m["period"] == -1 for m in mine):
                mine[0]["period"] = rng.choice([1, 2, 3, 5, 10])
                mine[0]["omit_period"] = False
    return {"msgs": msgs, "two": two}


def device_text(dev):
    out = ['version: "3"', ""]
    for m in dev["msgs"]:
        out.append(f"struct {m['name']} {{")
        for j, (t, w) in enumerate(m["fields"]):
            out.append(f"    f{j} @ {j}: {t},")
        out.append("}")
        per = "" if m.get("omit_period") else f"    period: {m.get('period_text', m['period'])},\n"
        out.append(f"impl can for {m['name']} {{\n    id: {m['id']},\n    device: \"{DEVNAMES[m.get('dev', 0)]}\",\n{per}}}")
    return "\n".join(out) + "\n"


def _snake(name):
    return "".join(["_" + c.lower() if c.isupper() else c for c in name]).lstrip("_")


def main_c(dev):
    ndev = 2 if dev.get("two") else 1
    sets = {0: [], 1: []}
    for m in dev["msgs"]:
        sn = _snake(m["name"])
        for j, (t, w) in enumerate(m["fields"]):
            sets[m.get("dev", 0)].append(f"            dev{m.get('dev', 0)}.{sn}.f{j} = (uint{w}_t) v;")
    incl = "".join(f'#include "{DEVNAMES[k]}_can.h"\n' for k in range(ndev))
    decl = "".join(f"    CanDevice{DEVNAMES[k].capitalize()} dev{k};\n    memset(&dev{k}, 0, sizeof dev{k});\n" for k in range(ndev))
    body = ""
    for k in range(ndev):
        body += (f"        if (d == {k}) {{\n" + "\n".join(sets[k]) + "\n"
                 '            printf("C\\n");\n'
                 f"            can_send_{DEVNAMES[k]}_msgs_scheduled(&dev{k}, (uint32_t) t, snd);\n        }}\n")
    return (
        '#include <stdio.h>\n#include <stdlib.h>\n#include <string.h>\n#include <stdint.h>\n' + incl +
        "static void snd(const CanFrame *f) {\n"
        '    printf("F %u %u", (unsigned) f->id, (unsigned) f->dlc);\n'
        '    for (int i = 0; i < 8; i++) printf(" %u", (unsigned) f->data[i]);\n'
        '    printf("\\n");\n}\n'
        "int main(void) {\n" + decl +
        "    unsigned long long d, t, v;\n"
        '    while (scanf("%llu %llu %llu", &d, &t, &v) == 3) {\n' + body +
        "    }\n    return 0;\n}\n"
    )


def expected_frame(m, v):
    data = []
    for t, w in m["fields"]:
        x = v & ((1 << w) - 1)
        data += [(x >> (8 * i)) & 0xFF for i in range(w // 8)]
    dlc = len(data)
    return [m["id"], dlc] + data + [0] * (8 - len(data))


def gen_history(rng, dev, length):
    """calls (time, value, device index); with two devices mostly the usual tick loop `ecu(t); dash(t);` (both schedulers
    called with the same timestamp), sometimes only one of them or in the other order"""
    ps = [m["period"] for m in dev["msgs"] if m["period"] > 0] or [5]
    # (with period 0 among the messages the delta 0 - the same timestamp again - is what matters; it is always in the alphabet)
    t = 0
    out = []
    for _ in range(length):
        P = rng.choice(ps)
        d = rng.choice([0, 1, max(P - 1, 0), P, P + 1, 2 * P, W - 1, W - P, rng.randint(0, 3 * P)])
        t = (t + d) % W
        if dev.get("two"):
            order = rng.choice([[0, 1], [0, 1], [1, 0], [0], [1]])
            for dv in order:
                out.append((t, rng.getrandbits(32), dv))
        else:
            out.append((t, rng.getrandbits(32), 0))
    return out


def parse_output(text):
    calls = []
    for line in text.split("\n"):
        if line == "C":
            calls.append([])
        elif line.startswith("F "):
            calls[-1].append([int(x) for x in line.split()[1:]])
        elif line.strip():
            raise ValueError("unparseable harness output: " + line[:80])
    return calls


def reference(dev, hist):
    """the 10-line reference automaton of the property statement (direct oracle), one per device"""
    last_call = {0: 0, 1: 0}
    last_tx = [0] * len(dev["msgs"])
    out = []
    for t, v, dv in hist:
        sent = []
        if t != last_call[dv]:
            for i, m in enumerate(dev["msgs"]):
                if m.get("dev", 0) != dv:
                    continue
                P = m["period"]
                if P != -1 and (t - last_tx[i]) % W >= P % W:
                    sent.append(expected_frame(m, v))
                    last_tx[i] = t
        last_call[dv] = t
        out.append(sent)
    return out


def run(prop, tier, replay=None):
    rep = Report(prop, tier)
    rng = random.Random(seed() * 104729 + 19)
    rep.check_proofs()
    ndev, nhist = (24, 40) if tier == "quick" else (200, 150)
    # every eighth device is large (more messages than the bits of a machine word of 32 or 64 bits)
    devs = [gen_device(rng, two=(k % 3 == 2), nmsg=(rng.choice([33, 40, 66]) if k % 8 == 5 else None)) for k in range(ndev)]
    for d in devs:
        rep.hist("messages_per_schema", len(d["msgs"]) if len(d["msgs"]) < 5 else "33+")
    hists = [[gen_history(rng, d, rng.randint(1, 30 if tier == "quick" else 200)) for _ in range(nhist)] for d in devs]
    exhaustive = False
    if tier == "thorough":
        # all histories of length <= 5 over the delta alphabet, for 1 and 2 messages
        for periods in ([3], [-1], [2, 5], [4, -1]):
            d = gen_device(rng, nmsg=len(periods), periods=periods)
            P = max([p for p in periods if p > 0] or [1])
            alpha = [0, 1, P - 1, P, P + 1, 2 * P, W - 1]
            hs = []
            for n in range(1, 6):
                for deltas in itertools.product(alpha, repeat=n):
                    t = 0
                    h = []
                    for dl in deltas:
                        t = (t + dl) % W
                        h.append((t, t & 0xFF, 0))
                    hs.append(h)
            devs.append(d)
            hists.append(hs)
        exhaustive = True
    gens = run_cases("harness.cbuild", "w_gen_c", [{"text": device_text(d)} for d in devs], timeout_s=60)

    def build_one(k):
        g = gens[k]
        if "ok" not in g:
            return None, None, str(g)
        return cbuild.build(g["ok"]["files"], main_c(devs[k]))

    builds = cbuild.parallel(build_one, range(len(devs)))
    try:
        jobs = []
        for k, (d, exe, out) in enumerate(builds):
            if exe is None:
                rep.cov["disagreements_checked"] += 1
                rep.violation({"kind": "compile", "schema": device_text(devs[k]), "compiler": (out or "")[-1500:],
                               "what": "generated C does not compile / generation failed"})
                continue
            for h in hists[k]:
                jobs.append((k, h))

        def run_one(job):
            k, h = job
            rc, so, se = cbuild.run(builds[k][1], "".join(f"{dv} {t} {v}\n" for t, v, dv in h))
            return rc, so

        outs = cbuild.parallel(run_one, jobs)
    finally:
        for d, exe, out in builds:
            if d:
                cbuild.cleanup(d)
    # the Lean model is asked per device: its messages and its own call times
    mjobs = []
    for k, h in jobs:
        for dv in ((0, 1) if devs[k].get("two") else (0,)):
            mjobs.append({"op": "sched", "periods": [m["period"] for m in devs[k]["msgs"] if m.get("dev", 0) == dv],
                          "times": [t for t, _, d_ in h if d_ == dv]})
    mflat = run_driver_parallel(mjobs)
    mres, pos = [], 0
    for k, h in jobs:
        nd = 2 if devs[k].get("two") else 1
        mres.append(mflat[pos:pos + nd])
        pos += nd
    for (k, h), (rc, so), ms in zip(jobs, outs, mres):
        dev = devs[k]
        rep.count(json.dumps([device_text(dev), h]))
        rep.sample({"device": device_text(dev), "history": h[:10], "output": so[:300]}, limit=3)
        rep.hist("history_length", min(len(h), 50) // 10 * 10)
        base = {"device": device_text(dev), "history": h}
        try:
            calls = parse_output(so)
            if rc != 0 or len(calls) != len(h):
                raise ValueError(f"exit {rc}, {len(calls)} calls for {len(h)} inputs")
        except Exception as ex:
            rep.violation(dict(base, kind="harness-output", error=str(ex), output=so[:500]), no_input=True)
            continue
        ref = reference(dev, h)
        if calls != ref:
            bad = next(i for i in range(len(h)) if calls[i] != ref[i])
            rep.cov["disagreements_checked"] += 1
            rep.violation(dict(base, kind="schedule", call_index=bad, observed=calls[bad], expected=ref[bad],
                               what="frames sent on a call differ from the reference automaton"))
            continue
        # correspondence with the Lean model (which messages are sent on which call)
        rep.hist("devices_in_program", 2 if dev.get("two") else 1)
        for dv, m in enumerate(ms):
            mine = [mm for mm in dev["msgs"] if mm.get("dev", 0) == dv]
            flags = [[any(f[0] == mm["id"] and f == expected_frame(mm, v) for f in c) for mm in mine]
                     for c, (t, v, d_) in zip(calls, h) if d_ == dv]
            if len({mm["id"] for mm in dev["msgs"]}) == len(dev["msgs"]) and flags != m.get("sent"):
                rep.cov["disagreements_checked"] += 1
                rep.violation(dict(base, kind="sched-correspondence", device_index=dv, observed=flags, expected=m.get("sent"),
                                   what="compiled scheduler and Lean Sched model disagree"), no_input=True)
                break
    if exhaustive:
        rep.cov["exhaustive"] = True
        rep.cov["exhaustive_scope"] = "periods [3], [-1], [2,5], [4,-1]: all histories of length <= 5 over deltas {0,1,P-1,P,P+1,2P,2^32-1}"
    rep.cov["rule"] = ("devices with 1..4 messages (periods from {-1,1,2,3,5,10,15,20,100,1000,65536,2^31-1}); the generated "
                       "<dev>_can.c compiled with gcc; one process per history (static state); histories over time deltas "
                       "{0,1,P-1,P,P+1,2P,2^32-1,2^32-P,random}; distinct by (device, history)")
    rep.assumptions.append("frame payloads are byte-aligned unsigned fields (payload correctness in general is C06)")
    return rep.finish()
