// Driver around one per-protocol header fcp_<protocol>.h (the same template as fcp.h, restricted to the bindings of
// one protocol, in namespace fcp::<protocol>).  Built with -DPROTO_HEADER="\"fcp_x.h\"" -DPROTO_NS=x.
//   PE <name> <json>   EncodeJson -> B <hex> | N | X <what>
//   PD <name> <hex>    DecodeJson -> J <json> | N | X <what>
#include <iostream>
#include <sstream>
#include <string>
#include <vector>
#include <cstdint>
#include <stdexcept>

#include PROTO_HEADER

using json = nlohmann::json;

static std::string hex(const std::vector<std::uint8_t>& v) {
    static const char* d = "0123456789abcdef";
    std::string s;
    for (auto b : v) { s.push_back(d[b >> 4]); s.push_back(d[b & 15]); }
    return s.empty() ? "-" : s;
}

static std::vector<std::uint8_t> unhex(const std::string& s) {
    std::vector<std::uint8_t> v;
    if (s == "-") return v;
    for (std::size_t i = 0; i + 1 < s.size(); i += 2) v.push_back(std::stoi(s.substr(i, 2), nullptr, 16));
    return v;
}

int main() {
    fcp::PROTO_NS::StaticSchema st;
    std::string line;
    while (std::getline(std::cin, line)) {
        std::istringstream is(line);
        std::string cmd, name;
        is >> cmd >> name;
        try {
            if (cmd == "PE") {
                std::string rest;
                std::getline(is, rest);
                auto r = st.EncodeJson(name, json::parse(rest));
                if (r.has_value()) std::cout << "B " << hex(r.value()) << "\n"; else std::cout << "N\n";
            } else if (cmd == "PD") {
                std::string h;
                is >> h;
                auto r = st.DecodeJson(name, unhex(h));
                if (r.has_value()) std::cout << "J " << r.value().dump() << "\n"; else std::cout << "N\n";
            } else {
                std::cout << "X bad-command\n";
            }
        } catch (const std::exception& e) {
            std::string w = e.what();
            for (auto& c : w) if (c == '\n') c = ' ';
            std::cout << "X " << w << "\n";
        }
    }
    return 0;
}
