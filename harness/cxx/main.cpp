// Generic stdin/stdout driver around the generated C++ (fcp.h, dynamic.h, can_*.h).
// One command per line; one answer per line.
//   SE <name> <json>            static EncodeJson      -> B <hex> | N | X <what>
//   SD <name> <hex>             static DecodeJson      -> J <json> | N | X <what>
//   DE <name> <json> / DD <name> <hex>                 dynamic schema (reflection binary = argv[1])
//   CE <s|d> <name> <json>      CAN encode             -> F <bushex> <sid> <dlc> <datahex> | N | X
//   CD <s|d> <bushex> <sid> <dlc> <datahex>            -> M <name> <json> | N | X
#include <iostream>
#include <sstream>
#include <fstream>
#include <string>
#include <vector>
#include <cstdint>
#include <cmath>
#include <limits>
#include <memory>
#include <stdexcept>

#include "fcp.h"
#include "dynamic.h"
#include "can.h"
#include "can_static_schema.h"
#include "can_dynamic_schema.h"

using json = nlohmann::json;

static std::string hex(const std::vector<std::uint8_t>& v) {
    static const char* d = "0123456789abcdef";
    std::string s;
    for (auto b : v) { s.push_back(d[b >> 4]); s.push_back(d[b & 15]); }
    return s.empty() ? "-" : s;
}

static std::vector<std::uint8_t> unhex(const std::string& s) {
    std::vector<std::uint8_t> v;
    if (s == "-") return v;
    for (std::size_t i = 0; i + 1 < s.size(); i += 2) v.push_back(std::stoi(s.substr(i, 2), nullptr, 16));
    return v;
}

int main(int argc, char** argv) {
    fcp::StaticSchema st;
    fcp::dynamic::DynamicSchema dyn;
    bool have_dyn = false;
    std::string dyn_err;
    if (argc > 1) {
        try {
            std::ifstream f(argv[1], std::ios::binary);
            std::stringstream ss;
            ss << f.rdbuf();
            // the schema is loaded into a temporary object, refreshed once (loading the same description again must change
            // nothing), COPIED into the long-lived one, and the temporary is destroyed before the copy is used: a copy must
            // own everything it refers to
            {
                auto tmp = std::make_unique<fcp::dynamic::DynamicSchema>();
                tmp->LoadBinarySchema(ss.str());
                tmp->LoadBinarySchema(ss.str());
                dyn = *tmp;
            }
            have_dyn = true;
        } catch (const std::exception& e) {
            dyn_err = e.what();
        }
    }
    // a first run-time CAN schema object over ANOTHER reflection record (argv[2]) serves one frame before the schema under
    // test is used: nothing of it may be shared with later objects
    static fcp::dynamic::DynamicSchema dyn0;
    static std::shared_ptr<fcp::can::Can> can_0;
    if (argc > 2) {
        try {
            std::ifstream f(argv[2], std::ios::binary);
            std::stringstream ss;
            ss << f.rdbuf();
            dyn0.LoadBinarySchema(ss.str());
            can_0 = std::make_shared<fcp::can::Can>(std::make_shared<fcp::can::CanDynamicSchema>(dyn0));
            fcp::can::frame_t f0{};
            f0.bus[0] = 'b';
            f0.sid = 7;
            f0.dlc = 1;
            f0.data[0] = 42;
            (void) can_0->Decode(f0);
            (void) can_0->Encode("PrimerMsg", json::parse("{\"v\": 1}"));
        } catch (const std::exception&) {
        }
    }
    std::string line;
    while (std::getline(std::cin, line)) {
        std::istringstream is(line);
        std::string cmd;
        is >> cmd;
        try {
            if (cmd == "SE" || cmd == "DE") {
                std::string name;
                is >> name;
                std::string rest;
                std::getline(is, rest);
                json j = json::parse(rest);
                if (cmd == "DE" && !have_dyn) { std::cout << "X no-dynamic-schema " << dyn_err << "\n"; continue; }
                auto r = (cmd == "SE") ? st.EncodeJson(name, j) : dyn.EncodeJson(name, j);
                if (r.has_value()) std::cout << "B " << hex(r.value()) << "\n"; else std::cout << "N\n";
            } else if (cmd == "SD" || cmd == "DD") {
                std::string name, h;
                is >> name >> h;
                if (cmd == "DD" && !have_dyn) { std::cout << "X no-dynamic-schema " << dyn_err << "\n"; continue; }
                auto r = (cmd == "SD") ? st.DecodeJson(name, unhex(h)) : dyn.DecodeJson(name, unhex(h));
                if (r.has_value()) std::cout << "J " << r.value().dump() << "\n"; else std::cout << "N\n";
            } else if (cmd == "CE" || cmd == "CD") {
                std::string which;
                is >> which;
                // one long-lived wrapper per schema kind, used for every frame of the run (as an application would):
                // whatever a wrapper remembers from earlier frames must not show in later ones
                static std::shared_ptr<fcp::can::Can> can_s, can_d;
                if (which == "s") {
                    if (!can_s) can_s = std::make_shared<fcp::can::Can>(std::make_shared<fcp::can::CanStaticSchema>());
                } else {
                    if (!have_dyn) { std::cout << "X no-dynamic-schema " << dyn_err << "\n"; continue; }
                    if (!can_d) can_d = std::make_shared<fcp::can::Can>(std::make_shared<fcp::can::CanDynamicSchema>(dyn));
                }
                fcp::can::Can& can = (which == "s") ? *can_s : *can_d;
                if (cmd == "CE") {
                    std::string name;
                    is >> name;
                    std::string rest;
                    std::getline(is, rest);
                    auto r = can.Encode(name, json::parse(rest));
                    if (!r.has_value()) { std::cout << "N\n"; continue; }
                    auto f = r.value();
                    std::vector<std::uint8_t> bus(f.bus.begin(), f.bus.end()), data(f.data.begin(), f.data.end());
                    std::cout << "F " << hex(bus) << " " << f.sid << " " << (int) f.dlc << " " << hex(data) << "\n";
                } else {
                    std::string bh, dh;
                    unsigned sid, dlc;
                    is >> bh >> sid >> dlc >> dh;
                    fcp::can::frame_t f{};
                    auto bus = unhex(bh);
                    auto data = unhex(dh);
                    for (std::size_t i = 0; i < 4 && i < bus.size(); i++) f.bus[i] = (char) bus[i];
                    for (std::size_t i = 0; i < 8 && i < data.size(); i++) f.data[i] = data[i];
                    f.sid = sid;
                    f.dlc = dlc;
                    auto r = can.Decode(f);
                    if (r.has_value()) std::cout << "M " << r.value().first << " " << r.value().second.dump() << "\n";
                    else std::cout << "N\n";
                }
            } else {
                std::cout << "X bad-command\n";
            }
        } catch (const std::exception& e) {
            std::string w = e.what();
            for (auto& c : w) if (c == '\n') c = ' ';
            std::cout << "X " << w << "\n";
        }
    }
    return 0;
}
