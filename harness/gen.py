"""Seeded generators: type trees, schemas (as FCP text), values."""
import struct as _struct

WIDTH_HOT = [1, 2, 3, 7, 8, 9, 15, 16, 17, 31, 32, 33, 63, 64]
ENUM_MAX_HOT = [0, 1, 2, 3, 4, 5, 7, 8, 15, 16, 255, 256, 1000, 65535, 65536]
# maxima where a float log2 is at its limits: powers of two, their successors and (since fix f704145, which computes the
# width from the integer bit length) their predecessors 2^k - 1 for k >= 49, which the float formula over-allocated
ENUM_MAX_BIG = [2 ** 31, 2 ** 32, 2 ** 32 + 1, 2 ** 49 - 1, 2 ** 49, 2 ** 49 + 1, 2 ** 52, 2 ** 53 - 1, 2 ** 53 + 1, 2 ** 62 - 1, 2 ** 62,
                2 ** 62 + 1, 2 ** 63 - 1, 2 ** 63, 2 ** 64 - 1]


WIDE_CHARS = ["\u00b0", "\u00e9", "\u00fc", "\u03a9", "\u20ac", "\u4e2d", "\U0001f600", "\u0080", "\u07ff", "\u0800", "\uffff",
              "\U00010000", "\U0010ffff", "\u00ff", "\ufeff", "\u2028", "\ufffd"]


def text_bytes(s):
    """a text as the wire carries it: its UTF-8 bytes"""
    return list(s.encode("utf-8"))


def width(rng, hi=64):
    if rng.random() < 0.5:
        w = rng.choice(WIDTH_HOT)
    else:
        w = rng.randint(1, 64)
    return min(w, hi)


def scalar_type(rng, enums, hi=64, floats=True, want_enum=True):
    r = rng.random()
    if r < 0.35:
        return ("u", width(rng, hi))
    if r < 0.65:
        return ("i", width(rng, hi))
    if r < 0.75 and floats and hi >= 32:
        return ("f32",)
    if r < 0.85 and floats and hi >= 64:
        return ("f64",)
    if enums and want_enum:
        return ("enum", rng.choice(enums))
    return ("u", width(rng, hi))


def type_tree(rng, depth, enums, structs, var=True):
    """random type; `var` allows str / dynamic arrays / optionals"""
    r = rng.random()
    if depth <= 0 or r < 0.45:
        if var and rng.random() < 0.12:
            return ("str",)
        if structs and rng.random() < 0.2:
            return ("struct", rng.choice(structs))
        return scalar_type(rng, enums)
    if r < 0.62:
        return ("arr", type_tree(rng, depth - 1, enums, structs, var), rng.choice([0, 1, 1, 2, 3, 4, 7]))
    if var and r < 0.8:
        return ("dyn", type_tree(rng, depth - 1, enums, structs, var))
    if var and r < 0.95:
        return ("opt", type_tree(rng, depth - 1, enums, structs, var))
    if structs:
        return ("struct", rng.choice(structs))
    return scalar_type(rng, enums)


def type_text(t):
    k = t[0]
    if k == "u":
        return f"u{t[1]}"
    if k == "i":
        return f"i{t[1]}"
    if k in ("f32", "f64", "str"):
        return k
    if k in ("enum", "struct"):
        return t[1]
    if k == "arr":
        return f"[{type_text(t[1])}, {t[2]}]"
    if k == "dyn":
        return f"[{type_text(t[1])}]"
    if k == "opt":
        return f"Optional[{type_text(t[1])}]"
    raise ValueError(t)


class Desc:
    """A schema description: enums {name: [(ename, value)]}, structs [(name, [(fname, id, type)])]
    in declaration order, extra text (impls ...)."""

    def __init__(self):
        self.enums = []  # (name, [(ename, value)])
        self.structs = []  # (name, [(fname, id, type)])
        self.extra = ""
        self.params = {}  # (struct, field) -> text of the field's parameters (" | unit(...) | range(...)")

    def text(self):
        out = ['version: "3"', ""]
        for name, es in self.enums:
            out.append(f"enum {name} {{")
            for en, v in es:
                out.append(f"    {en} = {v},")
            out.append("}")
        for name, fs in self.structs:
            out.append(f"struct {name} {{")
            for fn, fid, t in fs:
                out.append(f"    {fn} @ {fid}: {type_text(t)}{self.params.get((name, fn), '')},")
            out.append("}")
        return "\n".join(out) + "\n" + self.extra

    def struct(self, name):
        for n, fs in self.structs:
            if n == name:
                return fs
        raise KeyError(name)

    def enum(self, name):
        for n, es in self.enums:
            if n == name:
                return es
        raise KeyError(name)

    def sorted_fields(self, name):
        return sorted(self.struct(name), key=lambda f: f[1])

    def permuted(self, rng):
        """declaration-permuted twin: same ids, fields written in another order"""
        d = Desc()
        d.enums = list(self.enums)
        d.extra = self.extra
        d.params = dict(self.params)
        for name, fs in self.structs:
            fs2 = list(fs)
            rng.shuffle(fs2)
            d.structs.append((name, fs2))
        return d


def kind_swapped_primer(d):
    """a schema in which every struct name of `d` is an enum and every enum name a struct, each of them used as a field type:
    parsed earlier in the same process, nothing of it may stick to the names"""
    pr = ['version: "3"']
    names = [("struct", n) for n, _ in d.structs] + [("enum", n) for n, _ in d.enums]
    for k, n in names:
        pr.append(f"enum {n} {{ PA = 0, PB = 1, }}" if k == "struct" else f"struct {n} {{ pz @ 0: u8, }}")
    pr.append("struct PrimerUser {" + " ".join(f"pf{j} @ {j}: Optional[[{n}, 2]], pg{j} @ {100 + j}: {n}," for j, (_, n) in enumerate(names)) + " }")
    return "\n".join(pr) + "\n"


def module_files(d, rng, tail_module=None):
    """the schema of `d` spread over files: main.fcp first declares an enum and a struct of its own, then imports
    `a/types.fcp` (all enums and the first structs of `d`: a prefix is closed under declare-before-use) and the namesake
    `b/types.fcp` (an independent module: `tail_module` or one small struct), then declares the rest.  The declarations of `d`
    keep their order, so every struct and enum of `d` means in the merged schema what it means in `d.text()`."""
    k = rng.randint(0, len(d.structs))
    one = Desc()
    one.enums, one.structs, one.params = d.enums, d.structs[:k], d.params
    rest = Desc()
    rest.structs, rest.params, rest.extra = d.structs[k:], d.params, d.extra
    lead = "enum Lead0 {\n    LA = 0,\n    LB = 3,\n}\nstruct LeadS {\n    z @ 0: Lead0,\n    w @ 1: u3,\n}\n"
    body = rest.text().split("\n", 2)[2] if rest.structs or rest.extra else ""
    return {"main.fcp": 'version: "3"\n\n' + lead + "mod a.types;\nmod b.types;\n" + body,
            "a/types.fcp": one.text(),
            "b/types.fcp": 'version: "3"\n\n' + (tail_module or "struct Tail9 {\n    t @ 0: u8,\n}\n")}


def gen_enums(rng, n, big=False):
    enums = []
    for k in range(n):
        mx = rng.choice(ENUM_MAX_HOT) if rng.random() < 0.7 else rng.randint(0, 70000)
        if big and rng.random() < 0.15:
            mx = rng.choice(ENUM_MAX_BIG)
        cnt = rng.randint(1, 4)
        vals = {mx}
        while len(vals) < min(cnt, mx + 1):
            vals.add(rng.randint(0, mx))
        vals = list(vals)
        rng.shuffle(vals)
        enums.append((f"E{k}", [(f"V{k}x{j}", v) for j, v in enumerate(vals)]))
    return enums


def big_ids(rng, nf):
    """distinct field ids up to 2^32-1 whose low bytes collide or run against the real order"""
    highs = rng.sample([0, 1, 2, 3, 255, 256, 257, 65535, 65536, 70000, (1 << 24) - 1, (1 << 24) - 2], nf) if nf <= 12 \
        else rng.sample(range(0, 1 << 24), nf)
    return [h * 256 + rng.randint(0, 3) for h in highs]


def gen_codec_desc(rng, max_structs=4, max_fields=6, depth=3, var=True, dup_ids=True):
    d = Desc()
    d.enums = gen_enums(rng, rng.randint(0, 2), big=True)
    enames = [e[0] for e in d.enums]
    nstructs = rng.randint(1, max_structs)
    for s in range(nstructs):
        nf = rng.randint(1, max_fields)
        ids = rng.sample(range(0, 3 * nf + 1), nf)
        if rng.random() < 0.5:
            ids.sort()
        if rng.random() < 0.2:
            ids = big_ids(rng, nf)
        if dup_ids and nf >= 2 and rng.random() < 0.1:
            # two fields with one id (accepted by parser and verifier): both are fields of the struct, the one declared first
            # comes first on the wire
            a, b = rng.sample(range(nf), 2)
            ids[b] = ids[a]
        fields = []
        prev = [x[0] for x in d.structs]
        for j in range(nf):
            fields.append((f"f{j}", ids[j], type_tree(rng, depth, enames, prev, var)))
        d.structs.append((f"S{s}", fields))
    return d


def boundary_descs():
    """deterministic family: each leaf kind T alone, after a pad of 7/8/15 bits, before such a pad, inside a nested struct
    and behind a string - so that T's last bit falls on either side of a byte boundary (truncation by one byte must be
    noticed for every one of them, including 1-bit leaves and single-valued enums)"""
    enums = [("Z0", [("Only", 0)]), ("Z1", [("Off", 0), ("On", 1)]), ("Z5", [("A", 0), ("B", 5)])]
    leaves = [("u", 1), ("i", 1), ("enum", "Z0"), ("enum", "Z1"), ("enum", "Z5"), ("u", 7), ("u", 8), ("u", 9), ("i", 64),
              ("f32",), ("opt", ("u", 1)), ("opt", ("enum", "Z0")), ("dyn", ("u", 1)), ("dyn", ("enum", "Z0")),
              ("arr", ("enum", "Z0"), 3), ("arr", ("u", 1), 9), ("str",)]
    out = []
    for li, leaf in enumerate(leaves):
        d = Desc()
        d.enums = list(enums)
        d.all_structs = True
        k = 0
        for pad in (0, 7, 8, 15):
            fs = ([("p", 0, ("u", pad))] if pad else []) + [("x", 1, leaf)]
            d.structs.append((f"B{k}", fs)); k += 1
            if pad:
                d.structs.append((f"B{k}", [("x", 0, leaf), ("p", 1, ("u", pad))])); k += 1
        d.structs.append(("In", [("a", 0, ("u", 8)), ("m", 1, leaf)]))
        d.structs.append((f"B{k}", [("s", 0, ("str",)), ("in", 1, ("struct", "In"))])); k += 1
        d.structs.append((f"B{k}", [("in", 0, ("struct", "In")), ("t", 1, ("enum", "Z0"))])); k += 1
        out.append(d)
    return out


def fixed_of_variable_descs():
    """deterministic family: structs whose only variable-size parts sit inside FIXED-size arrays (`[str, 1]`, `[Optional[u16], 2]`,
    an array of structs that hold a string), small enough to fit a machine word at their minimum size: "fixed length" must not be
    read off the outermost constructor"""
    out = []
    for leaf in (("arr", ("str",), 1), ("arr", ("opt", ("u", 16)), 2), ("arr", ("dyn", ("u", 8)), 1), ("arr", ("struct", "VIn"), 2),
                 ("arr", ("arr", ("opt", ("u", 3)), 2), 2)):
        d = Desc()
        d.all_structs = True
        d.structs.append(("VIn", [("s", 0, ("str",)), ("k", 1, ("u", 4))]))
        d.structs.append(("FV0", [("id", 0, ("u", 8)), ("x", 1, leaf)]))
        d.structs.append(("FV1", [("x", 0, leaf), ("t", 1, ("u", 5))]))
        d.structs.append(("FV2", [("in", 0, ("struct", "FV0")), ("t", 1, ("u", 3))]))
        out.append(d)
    return out


# ------------------------------------------------------------------ values


def f32_word(rng):
    while True:
        r = rng.random()
        if r < 0.3:
            w = rng.choice([0, 0x80000000, 0x3F800000, 0xBF800000, 1, 0x7F7FFFFF, 0x00800000, 0x7F800000, 0xFF800000])
        else:
            w = rng.getrandbits(32)
        if (w & 0x7F800000) == 0x7F800000 and (w & 0x7FFFFF) != 0:
            continue  # NaN
        return w


def f64_word(rng):
    while True:
        r = rng.random()
        if r < 0.3:
            w = rng.choice([0, 1 << 63, 0x3FF0000000000000, 0xBFF0000000000000, 1, 0x7FEFFFFFFFFFFFFF, 0x7FF0000000000000])
        else:
            w = rng.getrandbits(64)
        if (w & 0x7FF0000000000000) == 0x7FF0000000000000 and (w & 0xFFFFFFFFFFFFF) != 0:
            continue
        return w


def w2f32(w):
    return _struct.unpack("<f", _struct.pack("<I", w))[0]


def w2f64(w):
    return _struct.unpack("<d", _struct.pack("<Q", w))[0]


def f2w32(x):
    return _struct.unpack("<I", _struct.pack("<f", x))[0]


def f2w64(x):
    return _struct.unpack("<Q", _struct.pack("<d", x))[0]


def enum_bits(es):
    m = max(v for _, v in es)
    return 1 if m <= 1 else m.bit_length()


def gen_value(rng, d: Desc, t, long_ok=True):
    """(python value for the implementation, model value as JSON-able)"""
    k = t[0]
    if k == "u":
        n = t[1]
        v = rng.choice([0, 1, (1 << n) - 1, 1 << (n - 1), rng.getrandbits(n)])
        return v, v
    if k == "i":
        n = t[1]
        lo, hi = -(1 << (n - 1)), (1 << (n - 1)) - 1
        v = rng.choice([lo, -1, 0, 1, hi, rng.randint(lo, hi)])
        v = max(lo, min(hi, v))
        return v, v
    if k == "f32":
        w = f32_word(rng)
        return w2f32(w), w
    if k == "f64":
        w = f64_word(rng)
        return w2f64(w), w
    if k == "str":
        r = rng.random()
        if r < 0.2:
            n = 0
        elif r < 0.9 or not long_ok:
            n = rng.randint(1, 8)
        else:
            n = rng.randint(40, 120)
        # texts: mostly 7-bit, now and then characters of two, three and four UTF-8 bytes (the wire carries the UTF-8 bytes,
        # the count in front of them is the number of BYTES)
        txt = "".join(chr(rng.randint(0, 127)) if rng.random() < 0.85 else rng.choice(WIDE_CHARS) for _ in range(n))
        if n and rng.random() < 0.08:
            # characters that codecs like to treat specially at the START of a text: a byte-order mark, a NUL, a replacement mark
            txt = rng.choice(["\ufeff", "\ufeff\ufeff", "\x00", "\ufffd"]) + txt[1:]
        return txt, {"s": text_bytes(txt)}
    if k == "enum":
        es = d.enum(t[1])
        if rng.random() < 0.8:
            v = rng.choice(es)[1]
        else:
            v = rng.getrandbits(enum_bits(es))
        return v, v
    if k == "struct":
        pv = {}
        for fn, fid, ft in d.struct(t[1]):
            pv[fn] = gen_value(rng, d, ft, long_ok)
        py = {fn: pv[fn][0] for fn in pv}
        mv = [pv[fn][1] for fn, _, _ in d.sorted_fields(t[1])]
        return py, mv
    if k == "arr":
        xs = [gen_value(rng, d, t[1], long_ok) for _ in range(t[2])]
        return [x[0] for x in xs], [x[1] for x in xs]
    if k == "dyn":
        r = rng.random()
        if r < 0.2:
            n = 0
        elif r < 0.93 or not long_ok:
            n = rng.randint(1, 4)
        else:
            n = rng.randint(20, 40)
        xs = [gen_value(rng, d, t[1], False) for _ in range(n)]
        return [x[0] for x in xs], [x[1] for x in xs]
    if k == "opt":
        if rng.random() < 0.35:
            return None, None
        p, m = gen_value(rng, d, t[1], long_ok)
        if p is None:
            # Python flattens Optional[Optional[T]]: Some(None) is not a Python value
            return None, None
        return p, {"some": m}
    raise ValueError(t)


def to_model(d: Desc, t, py):
    """canonical model value of an implementation value (decode result)"""
    k = t[0]
    if k in ("u", "i", "enum"):
        if isinstance(py, bool) or not isinstance(py, int):
            raise TypeError(f"expected int for {t}, got {type(py).__name__}")
        return py
    if k == "f32":
        if not isinstance(py, float):
            raise TypeError("expected float")
        return f2w32(py)
    if k == "f64":
        if not isinstance(py, float):
            raise TypeError("expected float")
        return f2w64(py)
    if k == "str":
        if not isinstance(py, str):
            raise TypeError("expected str")
        return {"s": text_bytes(py)}
    if k == "struct":
        if not isinstance(py, dict):
            raise TypeError("expected dict")
        names = [fn for fn, _, _ in d.struct(t[1])]
        if sorted(py.keys()) != sorted(names):
            raise TypeError(f"keys {sorted(py.keys())} != {sorted(names)}")
        return [to_model(d, ft, py[fn]) for fn, _, ft in d.sorted_fields(t[1])]
    if k in ("arr", "dyn"):
        if not isinstance(py, list):
            raise TypeError("expected list")
        return [to_model(d, t[1], x) for x in py]
    if k == "opt":
        if py is None:
            return None
        return {"some": to_model(d, t[1], py)}
    raise ValueError(t)


def shape_stats(d: Desc, t, acc, off=0):
    """constructor histogram of a type"""
    acc[t[0]] = acc.get(t[0], 0) + 1
    if t[0] in ("arr", "dyn", "opt"):
        shape_stats(d, t[1], acc)
    elif t[0] == "struct":
        for _, _, ft in d.struct(t[1]):
            shape_stats(d, ft, acc)


def canon_nan(d, t, mv):
    """replace NaN words by a marker (CPython quiets signalling NaNs when widening f32)"""
    k = t[0]
    try:
        if k == "f32" and isinstance(mv, int):
            return "nan" if (mv & 0x7F800000) == 0x7F800000 and (mv & 0x7FFFFF) else mv
        if k == "f64" and isinstance(mv, int):
            return "nan" if (mv & 0x7FF0000000000000) == 0x7FF0000000000000 and (mv & 0xFFFFFFFFFFFFF) else mv
        if k == "struct" and isinstance(mv, list):
            return [canon_nan(d, ft, x) for (_, _, ft), x in zip(d.sorted_fields(t[1]), mv)]
        if k in ("arr", "dyn") and isinstance(mv, list):
            return [canon_nan(d, t[1], x) for x in mv]
        if k == "opt" and isinstance(mv, dict) and "some" in mv:
            inner = canon_nan(d, t[1], mv["some"])
            # Python flattens nested optionals: Some(None) is observed as None
            return None if inner is None else {"some": inner}
    except Exception:
        pass
    return mv


def canon_smin(d, t, mv):
    """class of the recorded finding: at a signed field, the minimum -2^(N-1) and the value +2^(N-1)
    (which the unfixed decoder returns for it) are identified"""
    k = t[0]
    try:
        if k == "i" and isinstance(mv, int) and not isinstance(mv, bool):
            return "smin" if abs(mv) == 1 << (t[1] - 1) and mv in (-(1 << (t[1] - 1)), 1 << (t[1] - 1)) else mv
        if k == "struct" and isinstance(mv, list):
            return [canon_smin(d, ft, x) for (_, _, ft), x in zip(d.sorted_fields(t[1]), mv)]
        if k in ("arr", "dyn") and isinstance(mv, list):
            return [canon_smin(d, t[1], x) for x in mv]
        if k == "opt" and isinstance(mv, dict) and "some" in mv:
            return {"some": canon_smin(d, t[1], mv["some"])}
    except Exception:
        pass
    return mv
