"""C07 / C08 / C11 / C20: the real front end (`fcp.parser`) against the Lean reference front end
(`Syntax` + `Frontend`) and against the description the text was printed from."""
import json
import os
import random

from .common import Report, run_driver_parallel, seed, log, load_findings
from .impl import run_cases

# ------------------------------------------------------------------ implementation side


def _canon_val(v):
    if isinstance(v, bool):
        return str(v)
    if isinstance(v, float):
        return {"f": repr(v)}
    if isinstance(v, list):
        return [_canon_val(x) for x in v]
    if isinstance(v, dict):
        return [[k, _canon_val(x)] for k, x in v.items()]
    return v


def canon_tree(sd):
    """`to_dict()` → comparison shape (dicts as ordered pair lists, floats as repr)"""
    out = {"structs": [], "enums": sd.get("enums", []), "impls": [], "services": sd.get("services", []), "devices": []}
    for s in sd.get("structs", []):
        fs = []
        for f in s["fields"]:
            g = {"name": f["name"], "field_id": f["field_id"], "type": f["type"]}
            for k in ("unit",):
                if f.get(k) is not None:
                    g[k] = f[k]
            for k in ("min_value", "max_value"):
                if f.get(k) is not None:
                    g[k] = repr(float(f[k]))
            fs.append(g)
        out["structs"].append({"name": s["name"], "fields": fs})
    for i in sd.get("impls", []):
        out["impls"].append({"name": i["name"], "protocol": i["protocol"], "type": i["type"],
                             "fields": [[k, _canon_val(v)] for k, v in i.get("fields", {}).items()],
                             "signals": [{"name": sb["name"], "fields": [[k, _canon_val(v)] for k, v in sb.get("fields", {}).items()]}
                                         for sb in i.get("signals", [])]})
    for d in sd.get("devices", []):
        out["devices"].append({"name": d["name"], "fields": [[k, _canon_val(v)] for k, v in d.get("fields", {}).items()]})
    return out


_REUSED_LOGGER = None
WORKROOT = None


def _default_logger(fn):
    """the Logger object a call without a logger argument uses (looked up through decorators); a fresh one if the
    signature has no such default any more"""
    import inspect
    from fcp.error import Logger
    try:
        for prm in inspect.signature(fn).parameters.values():
            if isinstance(prm.default, Logger):
                return prm.default
    except (TypeError, ValueError):
        pass
    return Logger({})


def w_parse(case):
    """files: {relative path: text}; root: relative path.  Returns Ok tree / Err chain / exception."""
    import shutil
    import tempfile
    from pathlib import Path
    from fcp.parser import get_fcp, get_fcp_from_string
    from fcp.error import Logger
    from fcp.specs.type import StructType, EnumType, ArrayType, DynamicArrayType, OptionalType

    if case.get("workroot"):
        # one directory per worker process, re-used for every case: files are rewritten at the same paths, as when a
        # user edits a schema and parses it again in a long-lived process
        d = os.path.join(case["workroot"], "w%d" % os.getpid())
        shutil.rmtree(d, ignore_errors=True)
        os.makedirs(d)
    else:
        d = tempfile.mkdtemp(prefix="fcpfe_")
    try:
        for rel, text in case["files"].items():
            p = os.path.join(d, rel)
            os.makedirs(os.path.dirname(p), exist_ok=True)
            with open(p, "w", newline="") as f:
                f.write(text)
        for link, target in (case.get("links") or {}).items():
            lp = os.path.join(d, link)
            os.makedirs(os.path.dirname(lp), exist_ok=True)
            os.symlink(target, lp)
        if case.get("primer"):
            # an unrelated schema parsed first in the same process: nothing it declared or resolved may leak
            try:
                get_fcp_from_string(case["primer"], Logger({}))
            except BaseException:
                pass
        lmode = case.get("logger", "fresh")
        global _REUSED_LOGGER
        try:
            if lmode == "default":
                # the documented way to call the parser: no logger argument (a default object shared by all calls)
                if case.get("from_string"):
                    r = get_fcp_from_string(case["files"][case["root"]])
                    logger = _default_logger(get_fcp_from_string)
                else:
                    r = get_fcp(os.path.join(d, case["root"]))
                    logger = _default_logger(get_fcp)
            else:
                if lmode == "reused":
                    if _REUSED_LOGGER is None:
                        _REUSED_LOGGER = Logger({})
                    logger = _REUSED_LOGGER
                else:
                    logger = Logger({})
                if case.get("from_string"):
                    r = get_fcp_from_string(case["files"][case["root"]], logger)
                else:
                    r = get_fcp(os.path.join(d, case["root"]), logger)
        except BaseException as e:
            if isinstance(e, KeyboardInterrupt):
                raise
            return {"exc": type(e).__name__, "msg": str(e)[:200]}
        if r.is_ok():
            fcp = r.unwrap()
            # C08: every reference at any depth resolves to a declaration of the tagged kind
            bad = []

            # looked up in the declaration lists themselves (not through the tree's helper methods): a reference
            # needs a declaration of its own kind; a namesake of the other kind does not disturb it
            snames = {x.name for x in fcp.structs}
            enames = {x.name for x in fcp.enums}

            def walk(t, where):
                if isinstance(t, StructType):
                    if t.name not in snames:
                        bad.append(where + ":" + t.name)
                elif isinstance(t, EnumType):
                    if t.name not in enames:
                        bad.append(where + ":" + t.name)
                elif isinstance(t, (ArrayType, DynamicArrayType, OptionalType)):
                    walk(t.underlying_type, where)

            for s in fcp.structs:
                for f in s.fields:
                    walk(f.type, s.name + "." + f.name)
            return {"ok": canon_tree(fcp.to_dict()), "dangling": bad}
        # the text the parser was given: a file is read in text mode (universal newlines: CR and CR LF arrive as LF), a
        # string is taken as it is; imported modules are always files
        def _as_read(rel, text):
            if case.get("from_string") and rel == case["root"]:
                return text
            return text.replace("\r\n", "\n").replace("\r", "\n")

        given = {rel: _as_read(rel, text) for rel, text in case["files"].items()}
        err = r.err()
        msgs = []
        for m, node, _ in err.msg:
            ent = {"text": str(m)}
            if node is not None:
                ent["file"] = Path(node.meta.filename).name
                ent["line"] = node.meta.line
                try:  # which of the files written for this case is meant (modules may share a base name)
                    ent["rel"] = os.path.relpath(os.path.realpath(node.meta.filename), os.path.realpath(d))
                except Exception:
                    pass
            msgs.append(ent)
        try:
            rendered = logger.error(err)
            rend = len(rendered)
        except BaseException as e:  # noqa
            rend = "raised " + type(e).__name__ + ": " + str(e)[:80]
        # cited lines must exist in the named source
        cited = []
        for ent in msgs:
            if "file" in ent:
                src = given.get(ent.get("rel", ""))
                if src is None:
                    for rel, text in given.items():
                        if os.path.basename(rel) == ent["file"]:
                            src = text
                exists = src is not None and 1 <= ent["line"] <= len(src.split("\n"))
                cited.append([ent["file"], ent["line"], bool(exists)])
        # ... and the line quoted under a citation is that line of that file (citations are rendered in message order)
        quoted = []
        if isinstance(rend, int):
            import re as _re
            plain = _re.sub(r"\x1b\[[0-9;]*m", "", rendered)
            shown = _re.findall(r"\[([^\]\[\n]*):(\d+)\][ \t]*\n[ \t]*\|[ \t]*\n[ \t]*(\d+) \|(?: (.*))?", plain)
            shown = [x for x in shown if not x[0].endswith(".py")]
            withfile = [ent for ent in msgs if "file" in ent]
            if len(shown) == len(withfile):
                for (fn, ln, ln2, qt), ent in zip(shown, withfile):
                    src = given.get(ent.get("rel", ""))
                    if src is None:
                        continue
                    lines = src.split("\n")
                    want = lines[ent["line"] - 1] if 1 <= ent["line"] <= len(lines) else None
                    ok = want is not None and int(ln) == ent["line"] == int(ln2) and (qt or "").split() == want.split()
                    quoted.append([ent.get("rel"), ent["line"], (qt or "")[:80], (want or "")[:80], bool(ok)])
        out = {"err": msgs, "rendered": rend, "cited": cited, "quoted": quoted}
        if isinstance(rend, int):
            # for the rendering model (FcpModel/Render.lean): the logger's registry as it is now, the chain with each node's
            # full path and base name, and the text without colour codes and without the entries that name the place in the
            # implementation which created the message ([<file>.py:<line>])
            try:
                rmsgs = []
                for m, node, _ in err.msg:
                    ent = {"text": str(m), "cite": None}
                    if node is not None:
                        fp = Path(node.meta.filename)
                        ent["cite"] = {"full": str(fp.resolve()), "base": fp.name, "line": int(node.meta.line)}
                    rmsgs.append(ent)
                out["render_case"] = {"sources": [[str(k), str(v)] for k, v in logger.sources.items()], "msgs": rmsgs}
                out["rendered_plain"] = _re.sub(r"\n   \u21b3 \[[^\]\n]*\.py:\d+\]", "", plain)
            except Exception as e:  # noqa
                out["render_case_error"] = str(e)[:100]
        return out
    finally:
        if not case.get("workroot"):
            shutil.rmtree(d, ignore_errors=True)


def with_workroot(jobs, rng, root):
    """give every job the shared work root and one of the three ways of passing a logger"""
    for j in jobs:
        j["workroot"] = root
        j["logger"] = rng.choice(["fresh", "fresh", "default", "reused"])
    return jobs


# ------------------------------------------------------------------ descriptions and printing

WORDS = ["alpha", "beta", "gamma", "delta", "eps", "zeta", "eta", "theta", "Foo", "Bar", "baz_1", "_x", "Qux9"]
RESERVED = {"version", "struct", "enum", "impl", "for", "as", "signal", "service", "method", "returns", "device",
            "mod", "Optional", "f32", "f64", "str"}


class Desc:
    def __init__(self):
        self.decls = []  # dicts with "k"
        self.version = "3"


def rnd_value(rng, depth=2):
    r = rng.random()
    if r < 0.3:
        return ("num", str(rng.choice([0, 1, 7, 10, 255, 2047, -1, -42, 123456789012])))
    if r < 0.42:
        return ("num", rng.choice(["0.5", "-2.25", "1e3", "3.0", "+4", "-0.0", "10.", ".5", "6E-2"]))
    if r < 0.6:
        return ("str", rng.choice(["", "V", "m/s", "hello world", "a b  c", "x:y", "{}", "//nc", "/* nc */", "ü", "\u00b0C", "\u03a9", "\u20ac/h", "\U0001f600", "\u4e2d",
                                   'rim 17\\"', '\\"lead', 'mid\\"dle', 'back\\\\', 'tab\\t', " pad ", "'q'"]))
    if r < 0.8 or depth == 0:
        return ("ident", rng.choice(WORDS))
    return ("arr", [rnd_value(rng, depth - 1) for _ in range(rng.randint(1, 3))])


def rnd_type(rng, depth, structs, enums):
    r = rng.random()
    if depth <= 0 or r < 0.5:
        c = rng.random()
        if c < 0.35:
            return ("u", rng.choice([1, 7, 8, 16, 31, 32, 64, 9, 99]))
        if c < 0.6:
            return ("i", rng.choice([1, 8, 15, 32, 64, 5]))
        if c < 0.68:
            return ("f32",)
        if c < 0.76:
            return ("f64",)
        if c < 0.84:
            return ("str",)
        if structs and c < 0.93:
            return ("struct", rng.choice(structs))
        if enums:
            return ("enum", rng.choice(enums))
        return ("u", 8)
    if r < 0.7:
        return ("arr", rnd_type(rng, depth - 1, structs, enums), rng.choice([0, 1, 2, 3, 16, 255]))
    if r < 0.85:
        return ("dyn", rnd_type(rng, depth - 1, structs, enums))
    return ("opt", rnd_type(rng, depth - 1, structs, enums))


def gen_desc(rng, max_decls=8, used=None):
    d = Desc()
    structs, enums, services = [], [], []
    used = set() if used is None else used

    def fresh(prefix):
        while True:
            n = prefix + rng.choice(WORDS).capitalize() + str(rng.randint(0, 99))
            if prefix in ("S", "E") and rng.random() < 0.5:
                # a small pool shared by structs and enums: over the descriptions parsed by one process the same name
                # is a struct in one schema and an enum in the next
                n = "T" + rng.choice(WORDS[:6]).capitalize() + str(rng.randint(0, 2))
            if n not in used and n not in RESERVED:
                used.add(n)
                return n

    n = rng.randint(1, max_decls)
    for _ in range(n):
        r = rng.random()
        if r < 0.35 or not structs:
            name = fresh("S")
            fields = []
            for j in range(rng.randint(1, 5)):
                params = []
                if rng.random() < 0.3:
                    params.append(("unit", [rng.choice([("str", "V"), ("str", "m/s^2"), ("ident", "kg"), ("str", ""), ("str", 'in\\"'), ("str", "\u00b0C"), ("str", "\u03bcm"),
                                                        ("str", " deg ")])]))
                if rng.random() < 0.25:
                    params.append(("range", [("num", rng.choice(["0.0", "-1.5", "1e-3"])), ("num", rng.choice(["1.0", "99.75", "2e6"]))]))
                if params and rng.random() < 0.15:
                    params.append(params[0])  # repeated parameter: later wins
                fields.append({"name": rng.choice(WORDS) + str(j), "id": rng.choice([j, j, 10 * j + 3, 100 - j]),
                               "type": rnd_type(rng, 3, structs, enums), "params": params})
            d.decls.append({"k": "struct", "name": name, "fields": fields})
            structs.append(name)
        elif r < 0.5:
            name = fresh("E")
            items = [(rng.choice(WORDS).upper() + str(j), rng.choice([j, j * 3, 255, 65535, -1])) for j in range(rng.randint(1, 4))]
            if rng.random() < 0.12:
                # the ends of the i32 that carries an enumerator in the reflection record, and just beyond them
                items[-1] = (items[-1][0], rng.choice([2 ** 31 - 1, -2 ** 31, 2 ** 31 - 1, -2 ** 31, 2 ** 31, 2 ** 32 + 5, -2 ** 31 - 1]))
            d.decls.append({"k": "enum", "name": name, "items": items})
            enums.append(name)
        elif r < 0.75:
            ty = rng.choice(structs) if rng.random() < 0.9 else fresh("Missing")
            items = []
            for j in range(rng.randint(1, 4)):
                if rng.random() < 0.3:
                    # signal block names may repeat inside one binding: every block stays, in source order
                    prior = [it[1] for it in items if it[0] == "signal"]
                    sname = rng.choice(prior) if prior and rng.random() < 0.3 else rng.choice(WORDS) + str(j)
                    items.append(("signal", sname,
                                  [(rng.choice(["endianess", "mux_count", "mux_signal", "scale"]) , rnd_value(rng)) for _ in range(rng.randint(1, 3))]))
                else:
                    items.append(("field", rng.choice(["id", "bus", "device", "period", "endianess", "note"]), rnd_value(rng)))
            alias = None if rng.random() < 0.6 else fresh("A")
            d.decls.append({"k": "impl", "protocol": rng.choice(["can", "uart", "default", "eth"]), "type": ty,
                            "alias": alias, "items": items})
        elif r < 0.87:
            name = fresh("Svc")
            nm = rng.randint(1, 4)
            mids = rng.sample(range(0, 12), nm)  # ids in any order: the tree keeps source order, not id order
            if rng.random() < 0.3:
                mids = [rng.randint(0, 2) for _ in range(nm)]  # nothing forbids two methods with one id: both stay
            ms = [{"name": rng.choice(WORDS) + str(j), "input": rng.choice(structs), "id": mids[j], "output": rng.choice(structs)}
                  for j in range(nm)]
            d.decls.append({"k": "service", "name": name, "id": rng.randint(0, 200), "methods": ms})
            services.append(name)
        else:
            fields = [(rng.choice(["services", "address", "tags"]), ("arr", [("ident", s) for s in services] or [("num", "1")]) if rng.random() < 0.5 else rnd_value(rng))
                      for _ in range(rng.randint(1, 3))]
            d.decls.append({"k": "device", "name": fresh("dev"), "fields": fields})
    return d


# ---- tokens


def type_toks(t):
    k = t[0]
    if k in ("u", "i"):
        return [k + str(t[1])]
    if k in ("f32", "f64", "str"):
        return [k]
    if k in ("struct", "enum", "named"):
        return [t[1]]
    if k == "arr":
        return ["["] + type_toks(t[1]) + [",", str(t[2]), "]"]
    if k == "dyn":
        return ["["] + type_toks(t[1]) + ["]"]
    if k == "opt":
        return ["Optional", "["] + type_toks(t[1]) + ["]"]
    raise ValueError(t)


def value_toks(v):
    if v[0] == "num":
        return [v[1]]
    if v[0] == "str":
        return ['"' + v[1] + '"']
    if v[0] == "ident":
        return [v[1]]
    out = ["["]
    for i, x in enumerate(v[1]):
        if i:
            out.append(",")
        out += value_toks(x)
    return out + ["]"]


def decl_toks(rng, dc, canonical=False):
    k = dc["k"]
    t = []
    opt = (lambda p: False) if canonical else (lambda p: rng.random() < p)
    if k == "struct":
        t += ["struct", dc["name"], "{"]
        for f in dc["fields"]:
            t += [f["name"], "@", str(f["id"]), ":"] + type_toks(f["type"])
            if f["params"] and opt(0.5):
                t.append("|")
            for i, (pn, args) in enumerate(f["params"]):
                t += [pn, "("]
                for j, a in enumerate(args):
                    t += value_toks(a)
                    if j < len(args) - 1 or opt(0.3):
                        t.append(",")
                t.append(")")
                if opt(0.4):
                    t.append("|")
            t.append(",")
        t.append("}")
    elif k == "enum":
        t += ["enum", dc["name"], "{"]
        for n, v in dc["items"]:
            t += [n, "=", str(v), ","]
        t.append("}")
    elif k == "impl":
        t += ["impl", dc["protocol"], "for", dc["type"]]
        if dc["alias"]:
            if canonical or opt(0.6):
                t.append("as")
            t.append(dc["alias"])
        t.append("{")
        for it in dc["items"]:
            if it[0] == "field":
                t += [it[1], ":"] + value_toks(it[2]) + [","]
            else:
                t += ["signal", it[1], "{"]
                for kk, vv in it[2]:
                    t += [kk, ":"] + value_toks(vv) + [","]
                t += ["}", ","]
        t.append("}")
    elif k == "service":
        t += ["service", dc["name"], "@", str(dc["id"]), "{"]
        for m in dc["methods"]:
            t += ["method", m["name"], "(", m["input"], ")", "@", str(m["id"]), "returns", m["output"], ","]
        t.append("}")
    elif k == "device":
        t += ["device", dc["name"], "{"]
        for kk, vv in dc["fields"]:
            t += [kk, ":"] + value_toks(vv) + [","]
        t.append("}")
    elif k == "mod":
        t += ["mod"]
        for i, p in enumerate(dc["path"]):
            if i:
                t.append(".")
            t.append(p)
        t.append(";")
    elif k == "raw":
        t += dc["toks"]
    return t


def desc_toks(rng, d, canonical=False):
    t = ["version", ":", '"' + d.version + '"']
    for dc in d.decls:
        t += decl_toks(rng, dc, canonical)
    return t


def wordlike(tok):
    c = tok[0]
    return c.isalnum() or c in "_+-." or tok[-1].isalnum()


COMMENTS = [" /* c */ ", " // line comment\n", "/* multi\n line */", "/**/", " //\n",
            # runs of stars before the closing slash (even and odd), stars and slashes inside, quotes inside
            "/** doc **/", "/**** banner ****/", "/***/", "/* a * b / c */", "/* \"q\" 'r' */", "/*/ x */", " // /* not a block\n",
            "/* // not a line */"]


def render(rng, toks, style):
    """style: 'canon' (single spaces / newlines), 'dense' (no optional space), 'wild' (random ignorables)"""
    out = []
    for i, tk in enumerate(toks):
        if i:
            need = wordlike(toks[i - 1]) and wordlike(tk)
            # a '.' module separator next to identifiers needs no space, but `mod a.b` does after `mod`
            if style == "canon":
                sep = "\n" if toks[i - 1] in ("{", ",", ";", "}") or (i == 3) else " "
            elif style == "dense":
                sep = " " if need else ""
            else:
                choices = [" ", "  ", "\n", "\t", "\n\n"] + COMMENTS
                if not need:
                    choices += ["", ""]
                sep = rng.choice(choices)
                if rng.random() < 0.2:
                    sep += rng.choice(choices) if not need else rng.choice([" ", "\n"] + COMMENTS)
            # never glue a sign or a dot onto a following digit from another token
            if sep == "" and (toks[i - 1] in ("+", "-", ".") or (toks[i - 1][-1].isdigit() and tk[0] == ".")):
                sep = " "
            # `/` never appears as a token; `*` neither: comments cannot be created by gluing
            out.append(sep)
        out.append(tk)
    return "".join(out) + rng.choice(["", "\n", " // end", "\n/* end */\n"])


# ---- the tree a description denotes (third party: expected by construction)


def exp_type(t):
    k = t[0]
    if k == "u":
        return {"name": "u" + str(t[1]), "type": "unsigned"}
    if k == "i":
        return {"name": "i" + str(t[1]), "type": "signed"}
    if k == "f32":
        return {"name": "f32", "type": "float"}
    if k == "f64":
        return {"name": "f64", "type": "double"}
    if k == "str":
        return {"type": "str"}
    if k == "struct":
        return {"name": t[1], "type": "Struct"}
    if k == "enum":
        return {"name": t[1], "type": "Enum"}
    if k == "arr":
        return {"underlying_type": exp_type(t[1]), "size": t[2], "type": "Array"}
    if k == "dyn":
        return {"underlying_type": exp_type(t[1]), "type": "DynamicArray"}
    if k == "opt":
        return {"underlying_type": exp_type(t[1]), "type": "Optional"}
    raise ValueError(t)


def exp_value(v):
    if v[0] == "num":
        try:
            return int(v[1])
        except ValueError:
            return {"f": repr(float(v[1]))}
    if v[0] in ("str", "ident"):
        return v[1]
    return [exp_value(x) for x in v[1]]


def dict_pairs(kvs):
    out = []
    for k, v in kvs:
        for e in out:
            if e[0] == k:
                e[1] = v
                break
        else:
            out.append([k, v])
    return out


def exp_tree(d):
    out = {"structs": [], "enums": [], "impls": [], "services": [], "devices": []}
    for dc in d.decls:
        k = dc["k"]
        if k == "struct":
            fs = []
            for f in dc["fields"]:
                g = {"name": f["name"], "field_id": f["id"], "type": exp_type(f["type"])}
                for pn, args in dict_pairs(f["params"]):
                    if pn == "unit":
                        g["unit"] = args[0][1]
                    elif pn == "range":
                        g["min_value"] = repr(float(args[0][1]))
                        g["max_value"] = repr(float(args[1][1]))
                fs.append(g)
            out["structs"].append({"name": dc["name"], "fields": fs})
            out["impls"].append({"name": dc["name"], "protocol": "default", "type": dc["name"], "fields": [], "signals": []})
        elif k == "enum":
            out["enums"].append({"name": dc["name"], "enumeration": [{"name": n, "value": v} for n, v in dc["items"]]})
        elif k == "impl":
            out["impls"].append({
                "name": dc["alias"] or dc["type"], "protocol": dc["protocol"], "type": dc["type"],
                "fields": dict_pairs([(it[1], exp_value(it[2])) for it in dc["items"] if it[0] == "field"]),
                "signals": [{"name": it[1], "fields": dict_pairs([(kk, exp_value(vv)) for kk, vv in it[2]])}
                            for it in dc["items"] if it[0] == "signal"]})
        elif k == "service":
            out["services"].append({"name": dc["name"], "id": dc["id"], "methods": [
                {"name": m["name"], "id": m["id"], "input": m["input"], "output": m["output"]} for m in dc["methods"]]})
        elif k == "device":
            out["devices"].append({"name": dc["name"], "fields": dict_pairs([(kk, exp_value(vv)) for kk, vv in dc["fields"]])})
    return out


def canon_model_tree(t):
    """model tree: float literal texts → repr(float(text)) so they compare with the implementation's floats"""

    def fx(v):
        if isinstance(v, dict) and "f" in v:
            return {"f": repr(float(v["f"]))}
        if isinstance(v, list):
            return [fx(x) for x in v]
        return v

    out = json.loads(json.dumps(t))
    for s in out["structs"]:
        for f in s["fields"]:
            for k in ("min_value", "max_value"):
                if k in f:
                    f[k] = repr(float(f[k]))
    for i in out["impls"]:
        i["fields"] = [[k, fx(v)] for k, v in i["fields"]]
        for sb in i["signals"]:
            sb["fields"] = [[k, fx(v)] for k, v in sb["fields"]]
    for dv in out["devices"]:
        dv["fields"] = [[k, fx(v)] for k, v in dv["fields"]]
    return out


def as_read(text):
    """a schema *file* as the front end receives it: read in text mode, so CR LF and lone CR arrive as LF"""
    return text.replace("\r\n", "\n").replace("\r", "\n")


def model_cases(files_list):
    # (a case whose files sit behind symbolic links carries the logical view the importing files see: `model_files`)
    return [{"op": "parse", "files": [[rel.split("/"), text if fl.get("from_string") and rel == fl["root"] else as_read(text)]
                                      for rel, text in fl.get("model_files", fl["files"]).items()],
             "root": fl.get("model_root", fl["root"]).split("/")} for fl in files_list]


def check_rendering(rep, outs, bases):
    """the implementation's rendered diagnostics against the rendering model (`Logger.error` = Render.render)"""
    ks = [k for k, o in enumerate(outs) if isinstance(o, dict) and "render_case" in o]
    if not ks:
        return
    res = run_driver_parallel([dict(outs[k]["render_case"], op="render") for k in ks])
    for k, m in zip(ks, res):
        rep.cov["evaluations"] += 1
        o = outs[k]
        if "out" not in m:
            rep.hist("rendering", "model: cannot be rendered" if "none" in m else "model: " + str(m)[:60])
            if "none" in m:
                rep.cov["disagreements_checked"] += 1
                rep.violation(dict(bases[k], kind="render-model", observed=o["rendered_plain"][:400],
                                   what="the rendering model says a citation cannot be resolved, the implementation rendered it"),
                              no_input=True)
            continue
        same = m["out"] == o["rendered_plain"]
        rep.hist("rendering", "equals the model's text" if same else "differs")
        if not same:
            rep.cov["disagreements_checked"] += 1
            a, b = o["rendered_plain"], m["out"]
            i = next((i for i in range(min(len(a), len(b))) if a[i] != b[i]), min(len(a), len(b)))
            # a quoted line that is not the cited line of the named source is the property itself failing
            wrong_line = any(not q[4] for q in o.get("quoted", []))
            rep.violation(dict(bases[k], kind="render-text", observed=a[max(0, i - 80):i + 120], expected=b[max(0, i - 80):i + 120],
                               what="rendered diagnostic differs from the rendering model (first difference at character %d)" % i),
                          no_input=not wrong_line)


# ------------------------------------------------------------------ C07


def run_c07(rep, rng, tier):
    n = 260 if tier == "quick" else 6000
    nfmt = 3 if tier == "quick" else 5
    descs = [gen_desc(rng) for _ in range(n)]
    jobs = []
    meta = []
    for k, d in enumerate(descs):
        for j in range(nfmt):
            style = ["canon", "dense", "wild"][j % 3] if j < 3 else "wild"
            text = render(rng, desc_toks(rng, d, canonical=(style == "canon")), style)
            job = {"files": {"main.fcp": text}, "root": "main.fcp", "from_string": j % 2 == 0}
            if j == 1:
                # history: the same process first parses a schema in which every struct name of this description is an
                # enum and every enum name a struct, each of them referred to by a field
                names = [(dc["k"], dc["name"]) for dc in d.decls if dc["k"] in ("struct", "enum")]
                pr = ['version: "3"'] + [f"enum {nme} {{ PA = 0, PB = 1, }}" if kd == "struct" else f"struct {nme} {{ pz @ 0: u8, }}"
                                         for kd, nme in names]
                pr.append("struct PrimerUser {" + " ".join(f"pf{q} @ {q}: Optional[[{nme}, 2]], pg{q} @ {100 + q}: {nme},"
                                                           for q, (_, nme) in enumerate(names)) + " }")
                job["primer"] = "\n".join(pr) + "\n"
            jobs.append(job)
            meta.append((k, style))
    # the same kind of description spread over module files: two independent clusters of declarations, each with a prefix moved
    # into a module tree of its own, the module files often sharing a base name (c0/types.fcp, c1/types.fcp); the tree must
    # still be exactly the declarations of the description, each of them once
    for _ in range(n // 5):
        used = set()
        clusters = [gen_desc(rng, max_decls=4, used=used) for _ in range(2)]
        dd = Desc()
        root_decls, mods = [], {}
        for ci, c in enumerate(clusters):
            dd.decls += c.decls
            if len(c.decls) >= 2:
                rd, mf = split_desc(rng, c, first_dirs=[f"c{ci}"])
                root_decls += rd
                mods.update(mf)
            else:
                root_decls += c.decls
        # bindings and devices moved into a module of their own, away from the file that declares their struct (a binding that
        # is not renamed carries the struct's name: the merge must keep it next to the struct's default binding)
        cand = [ix for ix, dc in enumerate(root_decls) if dc["k"] in ("impl", "device")]
        if cand and rng.random() < 0.7:
            ix = rng.choice(cand)
            jx = ix + 1
            while jx < len(root_decls) and root_decls[jx]["k"] in ("impl", "device") and rng.random() < 0.5:
                jx += 1
            parts = [rng.choice(["bus", "io"]), rng.choice(["can", "types"]) + "0"]
            rel = "/".join(parts) + ".fcp"
            if rel not in mods:
                sub = Desc()
                sub.decls = root_decls[ix:jx]
                mods[rel] = sub
                root_decls = root_decls[:ix] + [{"k": "mod", "path": parts}] + root_decls[jx:]
        if not mods:
            continue
        rd = Desc()
        rd.decls = root_decls
        files = {"main.fcp": render(rng, desc_toks(rng, rd), "canon")}
        for rel, sub in mods.items():
            files[rel] = render(rng, desc_toks(rng, sub), rng.choice(["canon", "wild"]))
        descs.append(dd)
        jobs.append({"files": files, "root": "main.fcp", "from_string": False})
        meta.append((len(descs) - 1, "module files"))
    ires = run_cases("harness.frontend", "w_parse", with_workroot(jobs, random.Random(len(jobs)), WORKROOT), timeout_s=60)
    mres = run_driver_parallel(model_cases(jobs))
    for (k, style), job, r, m in zip(meta, jobs, ires, mres):
        d = descs[k]
        text = job["files"]["main.fcp"] if len(job["files"]) == 1 else json.dumps(job["files"], sort_keys=True)
        rep.count(text)
        rep.hist("formatting", style)
        rep.sample({"text": text, "style": style}, limit=3)
        for dc in d.decls:
            rep.hist("productions", dc["k"])
        base = {"text": text, "style": style}
        if "ok" not in r:
            rep.violation(dict(base, kind="harness", observed=r), no_input=True)
            continue
        o = r["ok"]
        want = exp_tree(d)
        unresolved = any(dc["k"] == "impl" and False for dc in d.decls)
        if "ok" in o:
            if o["ok"] != want:
                rep.cov["disagreements_checked"] += 1
                rep.violation(dict(base, kind="tree", observed=o["ok"], expected=want,
                                   what="parsed tree is not the description that was printed"))
                continue
        else:
            rep.cov["disagreements_checked"] += 1
            rep.violation(dict(base, kind="rejected", observed=o,
                               what="a well-formed schema text was not accepted"))
            continue
        if "driver_err" in m or "ok" not in m or canon_model_tree(m["ok"]) != want:
            rep.cov["disagreements_checked"] += 1
            rep.violation(dict(base, kind="model-tree", model=m, expected=want,
                               what="reference front end (Lean) disagrees with the description"), no_input=True)


# ------------------------------------------------------------------ C08


def run_c08(rep, rng, tier):
    n = 500 if tier == "quick" else 12000
    jobs = []
    meta = []
    for _ in range(n):
        d = gen_desc(rng, max_decls=6)
        kind = rng.choice(["valid", "forward", "self", "undeclared", "othername", "valid", "latemod"])
        structs = [dc for dc in d.decls if dc["k"] == "struct"]
        wrap = lambda t: rng.choice([t, ("arr", t, 2), ("dyn", t), ("opt", t), ("opt", ("arr", ("dyn", t), 3))])
        bad_name = None
        holder = None
        if kind != "valid" and structs:
            si = rng.randrange(len(structs))
            holder = structs[si]
            if kind == "self":
                bad_name = holder["name"]
            elif kind == "undeclared":
                bad_name = "Nowhere" + str(rng.randint(0, 99))
                if rng.random() < 0.2:
                    # a name that begins like a built-in integer type but is none (three digits and more): a user type name
                    bad_name = rng.choice(["u100", "i420", "u128", "i256", "u640"])
                earlier_types = [dc["name"] for dc in d.decls[:d.decls.index(holder)] if dc["k"] in ("struct", "enum")]
                taken = {dc["name"] for dc in d.decls if "name" in dc}
                if earlier_types and rng.random() < 0.6:
                    # a near miss of a declared type: a proper prefix of its name, its name with one more character, its
                    # name in another case, or a pattern that would match it
                    base = rng.choice(earlier_types)
                    cand = rng.choice([base[:-1], base[:max(2, len(base) // 2)], base + "0", base + "_", base.lower(),
                                       base.upper(), base[0] + base[1:].swapcase()])
                    if cand not in taken and cand not in RESERVED and len(cand) >= 2 and cand != base:
                        bad_name = cand
            elif kind == "latemod":
                # a type that is declared in a module which the file imports only AFTER the use: not declared before its use
                bad_name = "Late" + str(rng.randint(0, 99))
            elif kind == "forward":
                later = [dc for dc in d.decls[d.decls.index(holder) + 1:] if dc["k"] in ("struct", "enum")]
                if later:
                    bad_name = rng.choice(later)["name"]
            elif kind == "othername":
                # a name that *is* declared earlier, but is not a type: binding alias or bound struct's binding name,
                # service, device, method, enumerator, field, signal, protocol word
                pool = []
                for dc in d.decls[:d.decls.index(holder)]:
                    if dc["k"] == "impl":
                        pool += [dc["alias"]] if dc["alias"] else []
                        pool += [it[1] for it in dc["items"] if it[0] == "signal"] + [dc["protocol"]]
                    elif dc["k"] == "service":
                        pool += [dc["name"]] + [m["name"] for m in dc["methods"]]
                    elif dc["k"] == "device":
                        pool += [dc["name"]]
                    elif dc["k"] == "enum":
                        pool += [it[0] for it in dc["items"]]
                    elif dc["k"] == "struct":
                        pool += [f["name"] for f in dc["fields"]]
                declared = {dc["name"] for dc in d.decls if dc["k"] in ("struct", "enum")}
                pool = [x for x in pool if x not in declared and x not in RESERVED]
                aliases = [dc["alias"] for dc in d.decls[:d.decls.index(holder)]
                           if dc["k"] == "impl" and dc["alias"] and dc["type"] in declared and dc["alias"] not in declared]
                if aliases and rng.random() < 0.6:
                    pool = aliases
                elif not aliases and rng.random() < 0.5:
                    pool = []
                if not pool:
                    # make sure the case exists: put an aliased binding of an earlier struct in front of the holder
                    earlier = [dc for dc in d.decls[:d.decls.index(holder)] if dc["k"] == "struct"]
                    if earlier:
                        alias = "Alias" + str(rng.randint(0, 99))
                        d.decls.insert(d.decls.index(holder), {"k": "impl", "protocol": "can", "type": rng.choice(earlier)["name"],
                                                               "alias": alias, "items": [("field", "id", ("num", "7"))]})
                        pool = [alias]
                if pool:
                    bad_name = rng.choice(pool)
            if bad_name:
                holder["fields"].insert(rng.randint(0, len(holder["fields"])),
                                        {"name": "ref", "id": 77, "type": wrap(("named", bad_name)), "params": []})
        if kind == "valid" and structs and rng.random() < 0.15:
            # ... and the same kind of name properly declared (as a struct or an enum) and referred to: tagged with its kind
            nm = rng.choice(["u100", "i420", "u128", "i256"])
            if not any(dc.get("name") == nm for dc in d.decls):
                d.decls.insert(0, {"k": "enum", "name": nm, "items": [("IA", 0), ("IB", 2)]} if rng.random() < 0.5 else
                               {"k": "struct", "name": nm, "fields": [{"name": "iz", "id": 0, "type": ("u", 8), "params": []}]})
                structs[-1]["fields"].append({"name": "intlike", "id": 78, "type": wrap(("named", nm)), "params": []})
        text = render(rng, desc_toks(rng, d), rng.choice(["canon", "wild"]))
        job = {"files": {"main.fcp": text}, "root": "main.fcp", "from_string": rng.random() < 0.5}
        late = kind == "latemod" and bad_name is not None
        if late:
            ld = Desc()
            ld.decls = [{"k": "enum", "name": bad_name, "items": [("LA", 0), ("LB", 2)]} if rng.random() < 0.5 else
                        {"k": "struct", "name": bad_name, "fields": [{"name": "lz", "id": 0, "type": ("u", 8), "params": []}]}]
            rootd = Desc()
            at = rng.randint(d.decls.index(holder) + 1, len(d.decls))
            rootd.decls = d.decls[:at] + [{"k": "mod", "path": ["late"]}] + d.decls[at:]
            job = {"files": {"main.fcp": render(rng, desc_toks(rng, rootd), "canon"), "late.fcp": render(rng, desc_toks(rng, ld), "canon")},
                   "root": "main.fcp", "from_string": False}
            text = job["files"]["main.fcp"]
        if not late and rng.random() < 0.3:
            # the same schema behind two module imports; the second module re-uses a type name of the first one for a
            # declaration of the OTHER kind and refers to it: both declarations must survive the merge, and the
            # references keep pointing at a declaration of their kind
            used2 = {dc["name"] for dc in d.decls if "name" in dc}
            e0 = gen_desc(rng, max_decls=2, used=used2)
            e1 = gen_desc(rng, max_decls=2, used=used2)
            t0 = [dc for dc in e0.decls if dc["k"] in ("struct", "enum")]
            if t0:
                x = rng.choice(t0)
                if x["k"] == "struct":
                    e1.decls.append({"k": "enum", "name": x["name"], "items": [("CA", 0), ("CB", 3)]})
                else:
                    e1.decls.append({"k": "struct", "name": x["name"], "fields": [
                        {"name": "cz", "id": 0, "type": ("u", 8), "params": []}]})
                e1.decls.append({"k": "struct", "name": "ClashUser" + str(rng.randint(0, 99)), "fields": [
                    {"name": "r0", "id": 0, "type": ("named", x["name"]), "params": []},
                    {"name": "r1", "id": 1, "type": ("opt", ("arr", ("named", x["name"]), 2)), "params": []}]})
            rootd = Desc()
            # "dense": several declarations on one line of one file (nothing may identify a declaration by its line)
            mstyle = rng.choice(["canon", "canon", "dense"])
            if rng.random() < 0.5:
                rootd.decls = [{"k": "mod", "path": ["m0"]}, {"k": "mod", "path": ["sub", "m1"]}] + d.decls
                job = {"files": {"main.fcp": render(rng, desc_toks(rng, rootd), mstyle),
                                 "m0.fcp": render(rng, desc_toks(rng, e0), mstyle),
                                 "sub/m1.fcp": render(rng, desc_toks(rng, e1), mstyle)},
                       "root": "main.fcp", "from_string": False}
            else:
                # namesake modules in different directories, the second reached through another module: a/types.fcp is
                # imported by the root, b/iface.fcp imports ITS neighbour b/types.fcp and refers to what that declares
                e2 = gen_desc(rng, max_decls=2, used=used2)
                t2 = [dc for dc in e2.decls if dc["k"] in ("struct", "enum")]
                e1.decls = [{"k": "mod", "path": ["types"]}] + e1.decls
                if t2:
                    e1.decls.append({"k": "struct", "name": "IfaceUser" + str(rng.randint(0, 99)), "fields": [
                        {"name": f"n{j}", "id": j, "type": wrap(("named", x2["name"])), "params": []} for j, x2 in enumerate(t2)]})
                rootd.decls = [{"k": "mod", "path": ["a", "types"]}, {"k": "mod", "path": ["b", "iface"]}] + d.decls
                job = {"files": {"main.fcp": render(rng, desc_toks(rng, rootd), mstyle),
                                 "a/types.fcp": render(rng, desc_toks(rng, e0), mstyle),
                                 "b/iface.fcp": render(rng, desc_toks(rng, e1), mstyle),
                                 "b/types.fcp": render(rng, desc_toks(rng, e2), mstyle)},
                       "root": "main.fcp", "from_string": False}
            text = job["files"]["main.fcp"]
        if rng.random() < 0.4:
            # history: the same process first parses a schema in which the names of this case mean something else
            # (the dangling name is a declared, used struct; every struct name is an enum and vice versa)
            pr = ['version: "3"']
            names = [(dc["k"], dc["name"]) for dc in d.decls if dc["k"] in ("struct", "enum")]
            if bad_name and bad_name not in [n for _, n in names]:
                names.append(("enum", bad_name))
            for k, nme in names:
                pr.append(f"enum {nme} {{ PA = 0, PB = 1, }}" if k == "struct" else f"struct {nme} {{ pz @ 0: u8, }}")
            if names:
                pr.append("struct PrimerUser {" + " ".join(f"pf{j} @ {j}: Optional[[{nme}, 2]]," for j, (_, nme) in enumerate(names)) + " }")
            job["primer"] = "\n".join(pr) + "\n"
        jobs.append(job)
        meta.append((kind if bad_name else "valid", bad_name, holder["name"] if holder else None))
    ires = run_cases("harness.frontend", "w_parse", with_workroot(jobs, random.Random(len(jobs)), WORKROOT), timeout_s=60)
    mres = run_driver_parallel(model_cases(jobs))
    for (kind, bad, holder), job, r, m in zip(meta, jobs, ires, mres):
        text = job["files"]["main.fcp"] if len(job["files"]) == 1 else json.dumps(job["files"], sort_keys=True)
        rep.hist("layout", "single file" if len(job["files"]) == 1 else "module imported after the use" if len(job["files"]) == 2 else
                 ("behind two module imports with a cross-kind name clash" if len(job["files"]) == 3 else "namesake modules in two directories, one reached through another module"))
        rep.count(text)
        rep.hist("reference_kind", kind)
        rep.hist("history", "after a primer schema with clashing names" if job.get("primer") else "fresh")
        rep.sample({"text": text, "kind": kind, "reference": bad}, limit=3)
        base = {"text": text, "kind": kind, "reference": bad, "holder": holder}
        if "ok" not in r:
            rep.violation(dict(base, kind2="harness", observed=r), no_input=True)
            continue
        o = r["ok"]
        if "exc" in o:
            rep.cov["disagreements_checked"] += 1
            rep.violation(dict(base, kind2="exception", observed=o, what="parser raised instead of returning a Result"))
            continue
        if "ok" in o and o["dangling"]:
            rep.cov["disagreements_checked"] += 1
            rep.violation(dict(base, kind2="dangling", observed=o["dangling"],
                               what="accepted tree contains an unresolved or mis-kinded type reference"))
            continue
        if bad:
            if "ok" in o:
                rep.cov["disagreements_checked"] += 1
                rep.violation(dict(base, kind2="accepted", what="reference to a name not declared before its use was accepted"))
                continue
            texts = " | ".join(e["text"] for e in o["err"])
            if bad not in texts or holder not in texts:
                rep.cov["disagreements_checked"] += 1
                rep.violation(dict(base, kind2="error-text", observed=texts,
                                   what="error does not name the type and the enclosing struct"))
                continue
        # correspondence
        mo = "ok" if "ok" in m else "err"
        io = "ok" if "ok" in o else "err"
        # error values: the property fixes WHAT an error names (checked above on the implementation's own text) and the
        # reference front end fixes verdict, tree and cited positions; the wording of messages is the maintainers' business
        # and is only recorded
        if "err" in m and io == "err" and [e["text"] for e in m["err"]] != [e["text"] for e in o["err"]]:
            rep.hist("error_wording", "differs from the reference front end's messages")
        pos_m = [(e.get("file"), e.get("line")) for e in m.get("err", []) if e.get("file") is not None]
        pos_o = [(e.get("file"), e.get("line")) for e in o.get("err", []) if e.get("file") is not None] if io == "err" else []
        if mo != io or ("ok" in m and canon_model_tree(m["ok"]) != o["ok"]) or ("err" in m and pos_m != pos_o):
            rep.cov["disagreements_checked"] += 1
            rep.violation(dict(base, kind2="correspondence", model=m, observed=o if io == "err" else "ok-tree",
                               what="implementation and reference front end disagree"), no_input=True)


# ------------------------------------------------------------------ C20


def split_desc(rng, d, depth=0, prefix="", first_dirs=None):
    """move a declare-before-use respecting subset of declarations into module files.
    Returns (root decl list, {relative path: Desc}) — modules must be self-contained."""
    files = {}
    decls = list(d.decls)
    # a module may only contain declarations whose references are inside the module: take a prefix
    # of the declarations (a prefix is closed under declare-before-use)
    if len(decls) < 2 or depth > 2:
        return decls, files
    cut = rng.randint(1, len(decls) - 1)
    mod_decls = decls[:cut]
    rest = decls[cut:]
    # the same few file names at every depth: a nested module `mod types;` next to its importer may have a namesake
    # next to the root file (paths are relative to the importing file)
    parts = [rng.choice(["mods", "lib", "common"]) for _ in range(rng.randint(0, 2))] + \
            [rng.choice(["types", "base", "defs"]) + (str(depth) if rng.random() < 0.5 else "")]
    if first_dirs:
        parts = list(first_dirs) + parts
    rel = prefix + "/".join(parts) + ".fcp"
    sub = Desc()
    sub.decls = mod_decls
    inner_decls, inner_files = split_desc(rng, sub, depth + 1, prefix + "/".join(parts[:-1]) + ("/" if parts[:-1] else ""))
    if rel in inner_files:  # a module must not be its own descendant: keep this level flat
        return decls, files
    sub2 = Desc()
    sub2.decls = inner_decls
    files[rel] = sub2
    files.update(inner_files)
    return [{"k": "mod", "path": parts}] + rest, files


def run_c20(rep, rng, tier):
    n = 260 if tier == "quick" else 5000
    jobs = []
    meta = []
    for _ in range(n):
        mode = rng.random()
        if mode < 0.15:
            # one module imported twice by the same file: its declarations are merged at both places (the single-file
            # twin writes them twice); nothing may treat the second import as a cycle or as already done
            base = gen_desc(rng, max_decls=6)
            cut = rng.randint(1, max(1, len(base.decls) - 1))
            common, rest = base.decls[:cut], base.decls[cut:]
            k2 = rng.randint(0, len(rest))
            parts = rng.choice([["common", "stamp"], ["stamp"], ["lib", "util", "stamp"]])
            sub = Desc()
            sub.decls = common
            mods = {"/".join(parts) + ".fcp": sub}
            root_decls = [{"k": "mod", "path": parts}] + rest[:k2] + [{"k": "mod", "path": parts}] + rest[k2:]
            d = Desc()
            d.decls = common + rest[:k2] + common + rest[k2:]
        elif mode < 0.55:
            d = gen_desc(rng, max_decls=7)
            root_decls, mods = split_desc(rng, d)
        else:
            # independent clusters of declarations, each moved (wholly or a prefix of it) into its own module tree:
            # sibling imports in one file, module files sharing a base name in different directories
            used = set()
            clusters = [gen_desc(rng, max_decls=4, used=used) for _ in range(rng.randint(2, 3))]
            d = Desc()
            root_decls, mods = [], {}
            for ci, c in enumerate(clusters):
                d.decls += c.decls
                if rng.random() < 0.85 and len(c.decls) >= 2:
                    st = rng.getstate()
                    rd, mf = split_desc(rng, c)
                    if any(rel in mods for rel in mf):
                        rng.setstate(st)
                        rd, mf = split_desc(rng, c, first_dirs=[f"c{ci}"])
                    root_decls += rd
                    mods.update(mf)
                else:
                    root_decls += c.decls
        # bindings and devices need no declaration before them: move some into modules of their own, away from the file
        # that declares their struct (the merge must keep them even though the struct's default binding has the same name)
        if rng.random() < 0.5:
            cand = [ix for ix, dc in enumerate(root_decls) if dc["k"] in ("impl", "device")]
            if cand:
                ix = rng.choice(cand)
                jx = ix + 1
                while jx < len(root_decls) and root_decls[jx]["k"] in ("impl", "device") and rng.random() < 0.5:
                    jx += 1
                parts = [rng.choice(["bus", "io", "mods"]), rng.choice(["can", "types", "base"]) + "0"]
                rel = "/".join(parts) + ".fcp"
                if rel not in mods:
                    sub = Desc()
                    sub.decls = root_decls[ix:jx]
                    mods[rel] = sub
                    root_decls = root_decls[:ix] + [{"k": "mod", "path": parts}] + root_decls[jx:]
        files = {}
        rd = Desc()
        rd.decls = root_decls
        files["main.fcp"] = render(rng, desc_toks(rng, rd), "canon")
        for rel, sub in mods.items():
            files[rel] = render(rng, desc_toks(rng, sub), rng.choice(["canon", "wild"]))
        inject = rng.choice([None, None, None, "syntax", "resolve", "missing", "semantic"]) if mods else None
        victim = None
        if inject:
            victim = rng.choice(sorted(mods))
            if inject == "syntax":
                files[victim] = files[victim].replace("{", "{ ) ", 1) if "{" in files[victim] else files[victim] + " }"
            elif inject == "resolve":
                files[victim] += "\nstruct Broken { z @ 0: NoSuchType, }\n"
            elif inject == "semantic":
                # a well-formed text that fails in a transformer callback, far down in the module (beyond the importer's length)
                files[victim] += "\n" * rng.randint(1, 40) + rng.choice([
                    "struct Broken { z @ 1.5: u8, }\n", "enum Broken { }\n", "struct Broken { z @ 0: u8 | frobnicate(1), }\n",
                    'enum Broken { P = "s", }\n', "struct Broken { z @ 0: u8 | unit(), }\n"])
            else:
                del files[victim]
        single = {"main.fcp": render(rng, desc_toks(rng, d), "canon")}
        eol = rng.choice([None] * 7 + ["\r\n", "\r\n", "\r"])
        if eol:
            # files saved with another line-ending convention (all of them, or only some modules): a file is a file, whether
            # it is the root or an imported module
            some = rng.random() < 0.5
            for rel in sorted(files):
                if not some or (rel != "main.fcp" and rng.random() < 0.6):
                    files[rel] = files[rel].replace("\n", eol)
            if not some:
                single["main.fcp"] = single["main.fcp"].replace("\n", eol)
        rep.hist("line_endings", {None: "LF", "\r\n": "CR LF", "\r": "CR"}[eol])
        x = None
        if inject is None and mods:
            # a module directory (or module file) that is a symbolic link into another tree: `mod x.y;` is resolved relative
            # to the importing file, wherever the directory entry leads
            # (a linked *file* that itself imports modules is left out: whether its imports are looked up next to the link or
            # next to the file it points to is not something the property fixes)
            tops = sorted({rel.split("/")[0] for rel in mods if "/" in rel or not any(dc["k"] == "mod" for dc in mods[rel].decls)})
            if not tops:
                tops = [None]
            x = rng.choice(tops)
        if inject is None and mods and x is not None and rng.random() < 0.15:
            phys = {("shared/" if (rel == x or rel.startswith(x + "/")) else "proj/") + rel: t for rel, t in files.items()}
            jobs.append({"files": phys, "root": "proj/main.fcp", "links": {"proj/" + x: "../shared/" + x},
                         "model_files": files, "model_root": "main.fcp"})
            rep.hist("symlinked_modules", "directory" if "/" in [r for r in mods if r.split("/")[0] == x][0] else "file")
        else:
            jobs.append({"files": files, "root": "main.fcp"})
        jobs.append({"files": single, "root": "main.fcp"})
        meta.append((inject, victim, len(mods)))
    ires = run_cases("harness.frontend", "w_parse", with_workroot(jobs, random.Random(len(jobs)), WORKROOT), timeout_s=60)
    mres = run_driver_parallel(model_cases(jobs))
    for k, (inject, victim, nmods) in enumerate(meta):
        a, b = ires[2 * k], ires[2 * k + 1]
        ma = mres[2 * k]
        files = jobs[2 * k]["files"]
        rep.count(json.dumps(files, sort_keys=True))
        rep.hist("modules", nmods)
        rep.hist("injected", str(inject))
        rep.sample({"files": files, "injected": inject}, limit=3)
        base = {"files": files, "single": jobs[2 * k + 1]["files"]["main.fcp"], "injected": inject, "victim": victim}
        if "ok" not in a or "ok" not in b:
            rep.violation(dict(base, kind="harness", observed=[a, b]), no_input=True)
            continue
        oa, ob = a["ok"], b["ok"]
        if "exc" in oa:
            rep.cov["disagreements_checked"] += 1
            rep.violation(dict(base, kind="exception", observed=oa, what="parser raised instead of returning a Result"))
            continue
        if inject is None:
            if "ok" not in oa or "ok" not in ob or oa["ok"] != ob["ok"]:
                rep.cov["disagreements_checked"] += 1
                rep.violation(dict(base, kind="split", observed=oa if "ok" not in oa else first_tree_diff(oa["ok"], ob.get("ok")),
                                   what="split schema differs from the single-file schema"))
                continue
        else:
            if "ok" in oa:
                rep.cov["disagreements_checked"] += 1
                rep.violation(dict(base, kind="error-swallowed", what="an error inside an imported module was not reported"))
                continue
            texts = " | ".join(e["text"] + (" [" + e["file"] + "]" if "file" in e else "") for e in oa["err"])
            name = os.path.basename(victim)
            if name not in texts:
                rep.cov["disagreements_checked"] += 1
                rep.violation(dict(base, kind="error-names", observed=texts,
                                   what="error does not name the module / missing file"))
                continue
            first = next((e for e in oa["err"] if "file" in e), None)
            if inject in ("syntax", "resolve", "semantic") and first is not None and first.get("rel") not in (None, victim):
                rep.cov["disagreements_checked"] += 1
                rep.violation(dict(base, kind="error-cites-wrong-file", observed=oa["err"][:3],
                                   what="the error raised inside the module cites another file than the module"))
                continue
            if any(not c[2] for c in oa["cited"]) or not isinstance(oa["rendered"], int):
                rep.cov["disagreements_checked"] += 1
                rep.violation(dict(base, kind="error-render", observed=oa,
                                   what="error cites a line that does not exist, or cannot be rendered"))
                continue
        # correspondence with the reference loader
        mo = "ok" if "ok" in ma else "err"
        io = "ok" if "ok" in oa else "err"
        if mo != io or ("ok" in ma and canon_model_tree(ma["ok"]) != oa["ok"]):
            rep.cov["disagreements_checked"] += 1
            rep.violation(dict(base, kind="correspondence", model=ma if mo == "err" else "ok-tree",
                               observed=oa if io == "err" else "ok-tree",
                               what="implementation and reference module loader disagree"), no_input=True)
    # diagnostics of the injected errors (chains over several files, namesake modules): text against the rendering model
    check_rendering(rep, [ires[2 * k].get("ok") for k in range(len(meta))],
                    [{"files": jobs[2 * k]["files"], "injected": meta[k][0], "victim": meta[k][1]} for k in range(len(meta))])


def first_tree_diff(a, b):
    if b is None:
        return "single-file schema rejected"
    for k in a:
        if a[k] != b.get(k):
            return {k: [a[k], b.get(k)]}
    return None


# ------------------------------------------------------------------ C11

OUT_OF_DOMAIN = [
    'version: "3"\nstruct A { x @ 1.5: u8, }\n',
    'version: "3"\nenum E { P = "s", }\n',
    'version: "3"\nenum E { P = x, }\n',
    'version: "3"\nenum E { }\n',
    'version: "3"\nstruct A { x @ 0: u8 | frobnicate(1), }\n',
    'version: "3"\nstruct A { x @ 0: u8 | range(0.0), }\n',
    'version: "3"\nstruct A { x @ 0: u8 | unit(), }\n',
    'version: "3"\nstruct A { x @ 0: u8 | range(0, 1), }\n',
    'version: "3"\nstruct A { x @ 0: u8 | unit(5), }\n',
    'version: "3"\nservice S @ 1.5 { method m(A) @ 0 returns A, }\n',
    'version: "2"\nstruct A { x @ 0: u8, }\n',
    "",
    "version",
    'version: "3',
    'version: "3"\nmod nothere;\n',
    'version: "3"\nstruct A { x @ 0: u8, } }',
]


def mutate_tokens(rng, toks):
    toks = list(toks)
    if not toks:
        return toks
    op = rng.choice(["delete", "duplicate", "swap", "replace"])
    i = rng.randrange(len(toks))
    if op == "delete":
        del toks[i]
    elif op == "duplicate":
        toks.insert(i, toks[i])
    elif op == "swap" and len(toks) > 1:
        j = rng.randrange(len(toks))
        toks[i], toks[j] = toks[j], toks[i]
    else:
        toks[i] = rng.choice(["{", "}", ",", ":", "@", "struct", "1.5", '"s"', "x", "[", "]", "(", ")", ";", "|", "=", "-3"])
    return toks


def run_c11(rep, rng, tier):
    n = 500 if tier == "quick" else 15000
    inputs = [(t, "literal") for t in OUT_OF_DOMAIN]
    # ... and characters outside ASCII, named and nameless (C1 controls, private use, noncharacters, unassigned, tags)
    odd = ["\u0085", "\u009f", "\ue000", "\uffff", "\u0378", "\U000e0001", "\U0010ffff", "\u00e9", "\u20ac", "\u00a0", "\u200b", "\ufeff"]
    alphabet = list(" \n\t{}[](),:;@|=.\"/*#$%&'!<>?\\^`~") + ["struct", "enum", "impl", "version", "u8", "x", "3", "-1", "1.5", "for", "mod"] + odd
    for _ in range(n // 5):
        inputs.append(("".join(rng.choice(alphabet) + rng.choice(["", " "]) for _ in range(rng.randint(0, 40))), "random"))
    for _ in range(n // 10):
        d = gen_desc(rng, max_decls=4)
        text = render(rng, desc_toks(rng, d), rng.choice(["canon", "wild"]))
        cuts = sorted(set([0, 1, len(text) - 1] + [rng.randrange(len(text) + 1) for _ in range(6)]))
        for c in cuts:
            inputs.append((text[:c], "prefix"))
    for _ in range(n // 2):
        d = gen_desc(rng, max_decls=4)
        toks = desc_toks(rng, d)
        for _ in range(rng.randint(1, 2)):
            toks = mutate_tokens(rng, toks)
        text = render(rng, toks, "canon")
        if rng.random() < 0.15:
            k = rng.randrange(len(text) + 1)
            text = text[:k] + rng.choice(odd) + text[k:]  # a stray character from outside ASCII anywhere in a schema
        inputs.append((text, "mutation"))
    jobs = [{"files": {"main.fcp": t}, "root": "main.fcp", "from_string": i % 2 == 0} for i, (t, _) in enumerate(inputs)]
    # errors of every stage inside imported modules (one and two levels deep), far below the importer's last line
    bad_tails = ["struct Broken { z @ 1.5: u8, }\n", "enum Broken { }\n", "struct Broken { z @ 0: u8 | frobnicate(1), }\n",
                 'enum Broken { P = "s", }\n', "struct Broken { z @ 0: NoSuchType, }\n", "struct Broken { z @ 0 u8 }\n",
                 "struct Broken {\n", 'struct Broken { z @ 0: u8 | range(0, 1), }\n', "service Sv @ 1.5 { method m(A) @ 0 returns A, }\n"]
    for _ in range(n // 10):
        d = gen_desc(rng, max_decls=3)
        body = render(rng, desc_toks(rng, d), "canon")
        tail = rng.choice(bad_tails)
        deep = rng.random() < 0.4
        # the import statement anywhere in the importer (also far below the last line of a short module)
        lead = rng.choice(["", "", "\n" * rng.randint(1, 40), "// pad\n" * rng.randint(1, 25) + "struct Lead { y @ 0: u8, }\n"])
        files = {"main.fcp": 'version: "3"\n' + lead + "mod " + ("lib.a" if deep else "a") + ";\nstruct Main { x @ 0: u8, }\n"}
        short = rng.random() < 0.4
        module = ('version: "3"\n' + tail) if short else (body + "\n" * rng.randint(1, 30) + tail)
        if deep:
            files["lib/a.fcp"] = 'version: "3"\n' + rng.choice(["", "\n" * rng.randint(1, 20)]) + "mod b;\n"
            files["lib/b.fcp"] = module
        else:
            files["a.fcp"] = module
        inputs.append((json.dumps(files, sort_keys=True), "module-error"))
        jobs.append({"files": files, "root": "main.fcp", "from_string": False})
    # deep nesting: types and values nested tens to thousands of levels (balanced, or cut off in the middle); whatever the depth, the
    # answer is a schema or an error value
    for _ in range(max(4, n // 40)):
        depth = rng.choice([30, 120, 350, 500, 1200, 4000])
        inner = rng.choice(["u8", "Optional[u8]", "1"])
        opener, closer = rng.choice([("[", "]"), ("Optional[", "]")]) if inner != "1" else ("[", "]")
        nest = opener * depth + inner + closer * (depth if rng.random() < 0.7 else rng.randint(0, depth))
        if inner == "1":
            text = 'version: "3"\nstruct S {\n    x @ 0: u8,\n}\nimpl can for S {\n    id: ' + nest + ',\n}\n'
        else:
            text = 'version: "3"\nstruct S {\n    x @ 0: ' + nest + ',\n}\n'
        inputs.append((text, "deep-nesting"))
        jobs.append({"files": {"main.fcp": text}, "root": "main.fcp", "from_string": rng.random() < 0.5})
    # other line-ending conventions: the same texts with CR or CR LF between the lines (and a stray CR inside), an error of
    # some stage on a late line; whatever the parser makes of a CR, the lines it cites must exist in the text it was given
    for _ in range(n // 10):
        d = gen_desc(rng, max_decls=3)
        body = render(rng, desc_toks(rng, d), "canon") + "\n" + rng.choice(bad_tails + ["", ""])
        sep = rng.choice(["\r", "\r\n", "\r", "\n\r"])
        text = body.replace("\n", sep)
        if rng.random() < 0.3:
            k = rng.randrange(len(body) + 1)
            text = body[:k] + "\r" + body[k:]
        inputs.append((text, "line-endings"))
        jobs.append({"files": {"main.fcp": text}, "root": "main.fcp", "from_string": rng.random() < 0.6})
    ires = run_cases("harness.frontend", "w_parse", with_workroot(jobs, random.Random(len(jobs)), WORKROOT), timeout_s=60)
    # (deeply nested texts are not sent to the reference front end: its answer would be a tree this harness cannot read back)
    mres = run_driver_parallel(model_cases([j if st != "deep-nesting" else {"files": {"main.fcp": ""}, "root": "main.fcp"}
                                            for (_, st), j in zip(inputs, jobs)]))
    for (text, stream), job, r, m in zip(inputs, jobs, ires, mres):
        rep.count(text)
        rep.hist("stream", stream)
        rep.sample({"text": text, "stream": stream}, limit=4)
        base = {"text": text, "stream": stream, "from_string": job["from_string"]}
        if "ok" not in r:
            # the parser did not terminate / the worker died
            rep.cov["disagreements_checked"] += 1
            rep.violation(dict(base, kind="no-answer", observed=r, what="parsing did not terminate with a value"))
            continue
        o = r["ok"]
        rep.hist("outcome", "ok" if "ok" in o else ("exception:" + o["exc"] if "exc" in o else "err"))
        if "exc" in o:
            rep.cov["disagreements_checked"] += 1
            rep.violation(dict(base, kind="exception", observed=o, what="an exception escaped the parser"))
            continue
        if "err" in o:
            if not isinstance(o["rendered"], int):
                rep.cov["disagreements_checked"] += 1
                rep.violation(dict(base, kind="render", observed=o, what="the error value cannot be rendered"))
                continue
            if any(not c[2] for c in o["cited"]):
                rep.cov["disagreements_checked"] += 1
                rep.violation(dict(base, kind="cited-line", observed=o["cited"],
                                   what="the diagnostic cites a source line that does not exist"))
                continue
            rep.hist("quoted_lines_checked", len(o.get("quoted", [])))
            if any(not q[4] for q in o.get("quoted", [])):
                rep.cov["disagreements_checked"] += 1
                rep.violation(dict(base, kind="quoted-line", observed=[q for q in o["quoted"] if not q[4]],
                                   what="the line shown under a citation is not that line of the named source"))
                continue
        # classification against the reference front end, inside its domain only
        mo = "ok" if "ok" in m else "err"
        io = "ok" if "ok" in o else "err"
        in_domain = stream in ("literal", "mutation", "prefix") and not any(e.get("kind") == "unsupported" for e in m.get("err", []))
        if in_domain and mo != io:
            rep.hist("classification_mismatch", stream)
            if os.environ.get("VERIF_STRICT_CLASSIFICATION"):
                rep.violation(dict(base, kind="classification", model=m, observed=io), no_input=True)
    check_rendering(rep, [r.get("ok") for r in ires],
                    [{"text": text, "stream": stream, "from_string": job["from_string"]} for (text, stream), job in zip(inputs, jobs)])


def run(prop, tier, replay=None):
    rep = Report(prop, tier)
    rng = random.Random(seed() * 15485863 + int(prop[1:]))
    rep.check_proofs()
    import shutil
    import tempfile
    global WORKROOT
    WORKROOT = tempfile.mkdtemp(prefix="fcpfe_root_")
    try:
        {"C07": run_c07, "C08": run_c08, "C11": run_c11, "C20": run_c20}[prop](rep, rng, tier)
    finally:
        shutil.rmtree(WORKROOT, ignore_errors=True)
    rep.cov["rule"] = {
        "C07": "descriptions over every production (nested types to depth 3, parameters, renames, signal blocks, all value forms, "
               "services, devices) printed under canonical / dense / random formatting (spaces, tabs, newlines, // and /* */ "
               "comments, optional |, trailing commas, optional 'as'); distinct by text",
        "C08": "descriptions with one injected reference (forward / self / undeclared, at any nesting depth) or none; distinct by text",
        "C11": "random text over the token alphabet, character prefixes of valid schemas, token-level mutations, out-of-domain literals, "
               "and errors of every stage placed deep inside imported modules (one and two levels)",
        "C20": "descriptions split into module trees (depth <= 3, dotted paths) on a temporary directory, with injected syntax / "
               "resolution errors and deleted module files; each compared with its single-file twin",
    }[prop]
    return rep.finish()
