"""C05 (generated DBC = packed layout), the DBC side of C14 (oversize / variable-size bindings
are rejected) and the layout / DBC / Python-codec part of C15 (declaration-permuted twins)."""
import json
import os
import random
import re

from . import gen
from .common import Report, run_driver_parallel, seed, log, load_findings
from .impl import run_cases, schema_to_wire
from .layout import fixed_type

# ------------------------------------------------------------------ implementation side


_GEN = {}
_GEN_CALLS = [0]


def _plugin_generator(mod):
    """every second call in a worker process re-uses one long-lived generator object of the plug-in (a tool that generates
    several schemas in a row keeps it); the others get a fresh one"""
    _GEN_CALLS[0] += 1
    if _GEN_CALLS[0] % 2 == 0:
        if mod.__name__ not in _GEN:
            _GEN[mod.__name__] = mod.Generator()
        return _GEN[mod.__name__]
    return mod.Generator()


def w_dbc(case):
    from fcp.parser import get_fcp_from_string
    from fcp.error import Logger
    import fcp_dbc

    from .impl import parse
    r = parse(case["text"])  # a text, or a schema spread over module files
    if r.is_err():
        raise RuntimeError("schema rejected: " + repr(r.err()))
    fcp = r.unwrap()
    out = {"schema": fcp.to_dict()}
    try:
        files = _plugin_generator(fcp_dbc).generate(fcp, {"output": "/nonexistent-out"})
        out["files"] = [{"bus": f["bus"], "path": str(f["path"]), "contents": str(f["contents"])} for f in files]
    except Exception as e:
        out["raised"] = {"exc": type(e).__name__, "msg": str(e)[:200]}
    return out


def w_cantools_decode(case):
    """decode frames through the generated DBC with cantools (validates the model's reading of DBC)"""
    import cantools

    db = cantools.database.load_string(case["dbc"], "dbc")
    out = []
    for fid, data in case["frames"]:
        msg = db.get_message_by_frame_id(fid)
        d = msg.decode(bytes(data), decode_choices=False, scaling=False)
        out.append({k: (v if isinstance(v, int) else repr(v)) for k, v in d.items()})
    return out


# ------------------------------------------------------------------ an independent DBC reader

BO = re.compile(r"^BO_ (\d+) (\w+) *: *(\d+) (\w+)")
SG = re.compile(
    r"^ SG_ (\w+) *(M|m\d+M?)? *: *(\d+)\|(\d+)@([01])([+-]) *\(([^,]+),([^)]+)\) *\[([^|]*)\|([^\]]*)\] *\"([^\"]*)\" *(.*)$"
)
MUL = re.compile(r"^SG_MUL_VAL_ (\d+) (\w+) (\w+) ([^;]*);")
VALTYPE = re.compile(r"^SIG_VALTYPE_ (\d+) (\w+) *: *(\d+) *;")
BU = re.compile(r"^BU_: *(.*)$")


def read_dbc(text):
    msgs = {}
    order = []
    nodes = []
    cur = None
    for line in text.split("\n"):
        m = BO.match(line)
        if m:
            cur = {"id": int(m.group(1)), "name": m.group(2), "dlc": int(m.group(3)), "signals": {}}
            if cur["id"] in msgs:
                raise ValueError("duplicate BO_ id")
            msgs[cur["id"]] = cur
            order.append(cur["id"])
            continue
        m = SG.match(line)
        if m:
            if cur is None:
                raise ValueError("SG_ outside BO_")
            name = m.group(1)
            if name in cur["signals"]:
                raise ValueError("duplicate signal " + name)
            cur["signals"][name] = {
                "name": name, "start": int(m.group(3)), "len": int(m.group(4)), "big": m.group(5) == "0",
                "signed": m.group(6) == "-", "unit": m.group(11), "float": False,
                "is_mux": bool(m.group(2)) and m.group(2).endswith("M"),
                "muxed": (m.group(2) or "").startswith("m"), "mux_ids": None, "mux_signal": None,
                "_m": m.group(2) or "",
                "scale": m.group(7).strip(), "offset": m.group(8).strip(),
            }
            continue
        if line.startswith(" SG_"):
            raise ValueError("unparseable SG_ line: " + line)
        m = MUL.match(line)
        if m:
            ids = []
            for rng_ in m.group(4).split(","):
                a, b = rng_.strip().split("-")
                ids += list(range(int(a), int(b) + 1))
            s = msgs[int(m.group(1))]["signals"][m.group(2)]
            s["mux_ids"] = ids
            s["mux_signal"] = m.group(3)
            # extended multiplexing: the SG_MUL_VAL_ relation is authoritative (cantools writes a signal that is both a
            # switch and switched as "M" in its SG_ line and states the rest here)
            s["muxed"] = True
            continue
        m = VALTYPE.match(line)
        if m:
            msgs[int(m.group(1))]["signals"][m.group(2)]["float"] = int(m.group(3)) in (1, 2)
            continue
        m = BU.match(line)
        if m:
            nodes = m.group(1).split()
    # simple multiplexing without SG_MUL_VAL_: "m<k>" selects value k of the message's only multiplexer
    for msg in msgs.values():
        muxers = [s["name"] for s in msg["signals"].values() if s["is_mux"]]
        for s in msg["signals"].values():
            if s["muxed"] and s["mux_ids"] is None:
                s["mux_ids"] = [int(re.match(r"m(\d+)", s["_m"]).group(1))]
                s["mux_signal"] = muxers[0] if len(muxers) == 1 else None
    return [msgs[i] for i in order], nodes


def expected_signal(s):
    """model signal -> the reader's shape"""
    muxed = bool(s["mux_ids"])
    return {
        "name": s["name"], "start": s["start"], "len": s["len"], "big": s["big"], "signed": s["signed"],
        "unit": s["unit"] or "", "float": s["float"], "is_mux": s["is_mux"],
        "muxed": muxed, "mux_ids": s["mux_ids"] if muxed else None,
        "mux_signal": s["mux_signal"] if muxed else None,
    }


def parsed_signal(s):
    return {k: s[k] for k in ("name", "start", "len", "big", "signed", "unit", "float", "is_mux", "muxed",
                              "mux_ids", "mux_signal")}


# ------------------------------------------------------------------ generator


# bus names: also with dots, dashes and a common stem (a bus name is used as a file name)
BUS_NAMES = ["b1", "b2", "b3", "chassis.front", "chassis.rear", "can.1", "can.2", "pt-can"]


def gen_can_desc(rng, mode):
    """mode: 'fit' (<= 64 bits), 'aligned' (byte-aligned, big-endian allowed), 'edge' (57..200 bits),
    'var' (a variable-size field somewhere)"""
    d = gen.Desc()
    d.enums = gen.gen_enums(rng, rng.randint(0, 2))
    enames = [e[0] for e in d.enums]
    extra = []
    nstructs = rng.randint(1, 3)
    d.meta = []
    for s in range(nstructs):
        prev = [x[0] for x in d.structs]
        fields = []
        budget = {"fit": 64, "aligned": 64, "edge": rng.randint(57, 200), "var": 48}[mode]
        nf = rng.randint(1, 6)
        total = 0
        for j in range(nf):
            if mode == "aligned":
                t = rng.choice([("u", 8), ("u", 16), ("u", 32), ("i", 8), ("i", 16), ("i", 32), ("f32",)])
            else:
                # small nested arrays now and then (elements of an array of arrays are unrolled to leaves f_i_j)
                t = fixed_type(rng, 1, enames, prev if rng.random() < 0.5 else []) if rng.random() < 0.85 else \
                    ("arr", ("arr", rng.choice([("u", 4), ("u", 8), ("i", 6), ("u", 1)]), 2), rng.choice([1, 2]))
            w = static_width(d, t)
            if w is None or total + w > budget:
                if mode == "edge" and rng.random() < 0.5 and w is not None:
                    fields.append((f"f{j}", j, t))
                    total += w
                continue
            fields.append((f"f{j}", j, t))
            total += w
        if not fields:
            fields = [("f0", 0, ("u", 8))]
        if mode == "var" and s == nstructs - 1:
            pos = rng.randint(0, len(fields))
            vt = rng.choice([("str",), ("dyn", ("u", 8)), ("opt", ("u", 8)), ("arr", ("opt", ("u", 3)), 2)])
            fields.insert(pos, ("v", 99, vt))
        ids = list(range(len(fields)))
        rng.shuffle(ids)
        fields = [(fn, ids[k], t) for k, (fn, _, t) in enumerate(fields)]
        d.structs.append((f"S{s}", fields))
        # field parameters (unit, range), different from field to field: whatever a back end makes of them belongs to the field
        # with that id, wherever it is declared
        for k, (fn, _, t) in enumerate(fields):
            if rng.random() < 0.25:
                d.params[(f"S{s}", fn)] = rng.choice([f" | range({k}.0, {k + 10}.5)", f' | unit("u{k}") | range(-{k + 1}.0, {2 * k + 1}.0)',
                                                      f' | unit("u{k}")'])
    # bindings
    for name, fs in d.structs:
        if rng.random() < 0.85 or name == d.structs[-1][0]:
            for k in range(rng.choice([1, 1, 2])):
                blocks = []
                scal = [f for f in fs if f[2][0] in ("u", "i")]
                if mode == "aligned":
                    for f in fs:
                        if f[2][0] in ("u", "i") and rng.random() < 0.35:
                            blocks.append(f'    signal {f[0]} {{ endianess: "big", }},')
                elif len(scal) >= 2 and rng.random() < 0.3:
                    # one to three multiplexed signals: one switch, several independent switches, or a chain
                    rel = {}
                    for muxed in rng.sample(scal, min(len(scal) - 1, rng.choice([1, 1, 2, 3]))):
                        cands = [f for f in scal if f[0] != muxed[0]]
                        rng.shuffle(cands)
                        for mux in cands:
                            x, ok = mux[0], True
                            while x in rel:  # no cycles
                                x = rel[x]
                                if x == muxed[0]:
                                    ok = False
                                    break
                            if ok:
                                rel[muxed[0]] = mux[0]
                                blocks.append(f'    signal {muxed[0]} {{ mux_count: {rng.randint(1, 4)}, mux_signal: "{mux[0]}", }},')
                                break
                # signal blocks on array fields (one or more dimensions): the options belong to every unrolled element
                arrs = [f for f in fs if f[2][0] == "arr" and not any(b.startswith(f"    signal {f[0]} ") for b in blocks)]
                for f in arrs:
                    if scal and rng.random() < 0.4 and mode != "aligned":
                        blocks.append(f'    signal {f[0]} {{ mux_count: {rng.randint(1, 4)}, mux_signal: "{rng.choice(scal)[0]}", }},')
                # a switch that is an ELEMENT of an array field which has a signal block of its own (all elements share that
                # block), or a nested leaf that shares its field name with the switch: only the named leaf is the multiplexer
                arr_blocks = [f for f in fs if f[2][0] == "arr" and f[2][1][0] in ("u", "i") and
                              any(b.startswith(f"    signal {f[0]} ") for b in blocks)]
                free_scal = [f for f in scal if not any(b.startswith(f"    signal {f[0]} ") for b in blocks)]
                if arr_blocks and free_scal and rng.random() < 0.5 and mode != "aligned":
                    a = rng.choice(arr_blocks)
                    blocks.append(f'    signal {rng.choice(free_scal)[0]} {{ mux_count: {rng.randint(2, 4)}, mux_signal: "{a[0]}_{rng.randrange(a[2][2])}", }},')
                if blocks and rng.random() < 0.15 and mode != "aligned":
                    # a signal block name written twice, the later one with other options (the first block of a name counts),
                    # and the documented `bitstart` field, which the packed layout does not use
                    fn = blocks[rng.randrange(len(blocks))].split()[1]
                    blocks.append(f'    signal {fn} {{ mux_count: {rng.randint(2, 5)}, mux_signal: "{rng.choice(scal)[0] if scal else fn}", }},')
                if rng.random() < 0.15:
                    free = [f for f in fs if not any(b.startswith(f"    signal {f[0]} ") for b in blocks)]
                    if free:
                        blocks.append(f"    signal {rng.choice(free)[0]} {{ bitstart: {rng.choice([0, 3, 8, 60, 64])}, }},")
                alias = f"as {name}x{k}" if (k or rng.random() < 0.3) else ""  # also structs bound under an alias only
                bus = "" if rng.random() < 0.5 else f'    bus: "{rng.choice(BUS_NAMES)}",\n'
                dev = "" if rng.random() < 0.6 else f'    device: "{rng.choice(["ecu", "bms"])}",\n'
                # now and then a binding of another protocol that looks like a CAN binding (other case, other name, with id and
                # bus): protocol names are compared exactly, so none of these is a CAN message for any back end
                proto = "can" if rng.random() < 0.93 else rng.choice(["CAN", "Can", "cAn", "can2", "lin", "canfd"])
                extra.append(f"impl {proto} for {name} {alias} {{\n    id: {len(extra) + 1},\n{bus}{dev}" + "\n".join(blocks) + "\n}")
    d.extra = "\n".join(extra) + "\n"
    return d


def static_width(d, t):
    k = t[0]
    if k in ("u", "i"):
        return t[1]
    if k == "f32":
        return 32
    if k == "f64":
        return 64
    if k == "enum":
        return gen.enum_bits(d.enum(t[1]))
    if k == "arr":
        w = static_width(d, t[1])
        return None if w is None else w * t[2]
    if k == "struct":
        tot = 0
        for _, _, ft in d.struct(t[1]):
            w = static_width(d, ft)
            if w is None:
                return None
            tot += w
        return tot
    return None


# ------------------------------------------------------------------ the check


def overlaps(msg):
    """signals beyond the message or overlapping another non-multiplexed signal (Intel ranges;
    Motorola signals are byte-aligned whole bytes in the generated schemas)"""
    rngs = []
    for s in msg["signals"].values():
        if s["muxed"]:
            continue
        if s["big"]:
            lo = s["start"] - 7
            hi = lo + s["len"]
        else:
            lo, hi = s["start"], s["start"] + s["len"]
        if hi > 8 * msg["dlc"] or msg["dlc"] > 8:
            return f"signal {s['name']} extends beyond its message"
        rngs.append((lo, hi, s["name"]))
    rngs.sort()
    for a, b in zip(rngs, rngs[1:]):
        if a[1] > b[0]:
            return f"signals {a[2]} and {b[2]} overlap"
    return None


def run(prop, tier, replay=None):
    rep = Report(prop, tier)
    rng = random.Random(seed() * 65537 + {"C05": 5, "C14": 14, "C15": 15}[prop])
    rep.check_proofs()
    n = {"C05": 900, "C14": 900, "C15": 600}[prop] * (1 if tier == "quick" else 10)
    if prop == "C05":
        modes = ["fit"] * 5 + ["aligned"] * 3 + ["edge"]
    elif prop == "C14":
        modes = ["edge"] * 5 + ["var"] * 3 + ["fit"]
    else:
        modes = ["fit"] * 3 + ["aligned", "edge"]
    descs = [gen_can_desc(rng, rng.choice(modes)) for _ in range(n)]
    twins = [d.permuted(rng) for d in descs] if prop == "C15" else []
    cases = [{"text": d.text()} for d in descs + twins]
    if prop == "C14":
        # every twelfth schema is spread over module files, and its second (namesake) module carries a CAN binding that does
        # not fit a frame: rejected by construction, wherever the binding is declared
        from .impl import files_text
        tails = ["struct Big9 {\n    a @ 0: u64,\n    b @ 1: u8,\n}\nimpl can for Big9 {\n    id: 1999,\n}\n",
                 "struct Var9 {\n    a @ 0: u8,\n    s @ 1: str,\n}\nimpl can for Var9 as Var9Frame {\n    id: 1998,\n}\n"]
        for k in range(0, len(descs), 12):
            cases[k] = {"text": files_text(gen.module_files(descs[k], rng, tail_module=rng.choice(tails))), "must_reject": True}
    ires = run_cases("harness.dbc", "w_dbc", cases, timeout_s=60)
    lcases = []
    idx = []
    for k, r in enumerate(ires):
        if "ok" not in r:
            rep.hist("harness_problem", str(r)[:100])
            log("case not taken:", r, cases[k]["text"][:300])
            continue
        lcases.append({"op": "dbc", "schema": schema_to_wire(r["ok"]["schema"])})
        idx.append(k)
    mres = dict(zip(idx, run_driver_parallel(lcases)))
    decode_jobs = []
    for k in idx:
        if k >= len(descs):
            continue
        io = ires[k]["ok"]
        m = mres[k]
        text = cases[k]["text"]
        rep.count(text)
        rep.sample({"schema": text, "model": m, "files": [f["contents"][-400:] for f in io.get("files", [])][:1]}, limit=3)
        base = {"schema": text, "observed": io.get("raised") or [f["bus"] for f in io.get("files", [])], "model": m}
        if "driver_err" in m:
            rep.violation(dict(base, kind="harness"), no_input=True)
            continue
        rep.hist("outcome", "raised:" + io["raised"]["exc"] if "raised" in io else "files")
        rep.hist("model_outcome", m.get("err", "ok"))
        # ---- rejection (C14) / success (C05)
        if cases[k].get("must_reject"):
            rep.hist("module_files_with_an_unfit_binding", "rejected" if "raised" in io else "NOT rejected")
            if "raised" not in io:
                rep.cov["disagreements_checked"] += 1
                rep.violation(dict(base, kind="not-rejected-by-construction", files=cases[k]["text"][:3000],
                                   what="a module of the schema declares a CAN binding that does not fit a frame (wider than 64 "
                                        "bits / variable size), but DBC generation succeeded"))
                continue
        if "err" in m:
            if "raised" not in io:
                rep.cov["disagreements_checked"] += 1
                what = {"tooBig": "a CAN binding wider than 64 bits was not rejected",
                        "noLayout": "a CAN binding with a variable-size field was not rejected"}.get(
                            m["err"], "generation succeeded where the model says " + m["err"])
                rep.violation(dict(base, kind="not-rejected", what=what,
                                   files=[f["contents"] for f in io["files"]]))
            continue
        if "raised" in io:
            rep.cov["disagreements_checked"] += 1
            rep.violation(dict(base, kind="unexpected-failure",
                               what="DBC generation failed on a schema whose bindings all fit"), no_input=True)
            continue
        # ---- read every generated file back
        files = {f["bus"]: f for f in io["files"]}
        exp = {b["bus"]: b["messages"] for b in m["buses"]}
        # every bus has a file of its own: two buses written to one path would leave only the later one on disk
        paths = [os.path.normpath(f["path"]) for f in io["files"]]
        if len(set(paths)) != len(paths) or len(files) != len(io["files"]):
            rep.cov["disagreements_checked"] += 1
            rep.violation(dict(base, kind="bus-files-collide", paths=paths,
                               what="two bus files of one generation share a path (or a bus appears twice): the file of one bus "
                                    "would be overwritten by another's"))
            continue
        if sorted(files) != sorted(exp):
            rep.cov["disagreements_checked"] += 1
            rep.violation(dict(base, kind="buses", expected=sorted(exp), what="set of bus files differs from the buses bound"))
            continue
        ok = True
        for bus, f in files.items():
            try:
                msgs, nodes = read_dbc(f["contents"])
            except Exception as ex:
                rep.violation(dict(base, kind="dbc-unreadable", bus=bus, error=str(ex), contents=f["contents"]))
                ok = False
                break
            for pm in msgs:
                o = overlaps(pm)
                if o:
                    rep.cov["disagreements_checked"] += 1
                    rep.violation(dict(base, kind="signal-geometry", bus=bus, message=pm["name"], what=o,
                                       contents=f["contents"]))
                    ok = False
            got = [{"id": pm["id"], "name": pm["name"], "dlc": pm["dlc"],
                    "signals": sorted((parsed_signal(s) for s in pm["signals"].values()), key=lambda s: s["name"])}
                   for pm in msgs]
            want = [{"id": em["id"], "name": em["name"], "dlc": em["dlc"],
                     "signals": sorted((expected_signal(s) for s in em["signals"]), key=lambda s: s["name"])}
                    for em in exp[bus]]
            if sorted(got, key=lambda x: x["id"]) != sorted(want, key=lambda x: x["id"]):
                rep.cov["disagreements_checked"] += 1
                diff = first_diff(got, want)
                rep.violation(dict(base, kind="dbc-vs-layout", bus=bus, difference=diff,
                                   what="generated DBC does not describe the packed layout: " + diff[0],
                                   contents=f["contents"]))
                ok = False
            rep.hist("signals_per_message", min(max((len(pm["signals"]) for pm in msgs), default=0), 12))
        if ok and prop == "C05":
            decode_jobs.append(k)
    # ---- C15: twins
    if prop == "C15":
        for k in range(len(descs)):
            a, b = ires[k], ires[k + len(descs)]
            if "ok" not in a or "ok" not in b:
                continue
            fa = {f["bus"]: f["contents"] for f in a["ok"].get("files", [])}
            fb = {f["bus"]: f["contents"] for f in b["ok"].get("files", [])}
            ra, rb = a["ok"].get("raised", {}).get("exc"), b["ok"].get("raised", {}).get("exc")
            if fa != fb or ra != rb:
                rep.cov["disagreements_checked"] += 1
                rep.violation({"kind": "twin-dbc", "schema": cases[k]["text"], "twin": cases[k + len(descs)]["text"],
                               "what": "generated DBC changes when field declarations are permuted (ids fixed)"})
            if mres.get(k) != mres.get(k + len(descs)):
                rep.violation({"kind": "twin-model", "schema": cases[k]["text"], "twin": cases[k + len(descs)]["text"],
                               "what": "model layout differs between twins (contradicts theorem generate_twin)"},
                              no_input=True)
        check_codec_twins(rep, rng, tier)
        check_describe_twins(rep, rng, tier)
        from . import canc
        canc.run_core(rep, "C15", tier, rng)
        # the C++ back end: permuted twins must give the same bytes, equal to the canonical ones, and decode them back
        from . import cpp
        cpp.run_core(rep, "C15", tier, rng)
    if prop == "C14":
        check_c_command(rep, rng, tier, descs, cases, mres)
    # ---- C05: frames packed per the layout decode through the DBC (cantools as second reader)
    if prop == "C05" and decode_jobs:
        check_decode(rep, rng, decode_jobs[: (200 if tier == "quick" else 3000)], cases, ires, mres)
    rep.cov["rule"] = ("CAN schemas: flat/nested/array fields of any width, signed, enums, floats; byte-aligned "
                       "structs with big-endian signals; muxed signals; 1..3 buses; sizes up to and beyond 64 bits and "
                       "variable-size fields at any position (C14); distinct by schema text")
    return rep.finish()


def first_diff(got, want):
    g = {m["id"]: m for m in got}
    w = {m["id"]: m for m in want}
    if sorted(g) != sorted(w):
        return ("message ids differ", sorted(g), sorted(w))
    for i in sorted(g):
        for key in ("name", "dlc"):
            if g[i][key] != w[i][key]:
                return (f"message {i}: {key}", g[i][key], w[i][key])
        gs = {s["name"]: s for s in g[i]["signals"]}
        ws = {s["name"]: s for s in w[i]["signals"]}
        if sorted(gs) != sorted(ws):
            return (f"message {i}: signal names", sorted(gs), sorted(ws))
        for n in gs:
            for key in gs[n]:
                if gs[n][key] != ws[n][key]:
                    return (f"message {i} signal {n}: {key}", gs[n][key], ws[n][key])
    return ("?", None, None)


def check_decode(rep, rng, ks, cases, ires, mres):
    """pack frames with the Lean layout packing, decode through the generated DBC with cantools"""
    packs = []
    meta = []
    for k in ks:
        m = mres[k]
        sd = ires[k]["ok"]["schema"]
        can_ix = [i for i, im in enumerate(sd["impls"]) if im["protocol"] == "can"]
        ci = 0
        for b in m["buses"]:
            pass
        # impl order == message order within the concatenation of buses by first appearance; use names
        items = []
        info = []
        for ix in can_ix:
            im = sd["impls"][ix]
            bus = im["fields"].get("bus", "default")
            em = next((x for b in m["buses"] if b["bus"] == bus for x in b["messages"] if x["name"] == im["name"]), None)
            # multiplexed layouts are compared signal by signal only; big-endian (byte-aligned) signals are packed by the
            # model most significant byte first (`packLeavesE`) and decoded by cantools as Motorola signals
            if em is None or any(s["mux_ids"] or s["is_mux"] for s in em["signals"]):
                continue
            rep.hist("decode_checks", "message with Motorola signals" if any(s["big"] for s in em["signals"]) else "Intel only")
            vals = []
            for s in em["signals"]:
                if s["signed"]:
                    vals.append(rng.choice([-(1 << (s["len"] - 1)), -1, 0, (1 << (s["len"] - 1)) - 1]))
                else:
                    vals.append(rng.choice([0, 1, (1 << s["len"]) - 1, rng.getrandbits(s["len"])]))
            items.append({"impl": ix, "values": vals})
            info.append((bus, em, vals))
        if items:
            packs.append({"op": "dbc", "schema": schema_to_wire(sd), "pack": items})
            meta.append((k, info))
    res = run_driver_parallel(packs)
    jobs = []
    jmeta = []
    for (k, info), r in zip(meta, res):
        files = {f["bus"]: f["contents"] for f in ires[k]["ok"]["files"]}
        for (bus, em, vals), fr in zip(info, r.get("frames", [])):
            if fr is None:
                continue
            data = (fr + [0] * 8)[: max(em["dlc"], 1)]
            jobs.append({"dbc": files[bus], "frames": [[em["id"], data]]})
            jmeta.append((k, bus, em, vals, data))
    outs = run_cases("harness.dbc", "w_cantools_decode", jobs, timeout_s=30)
    for (k, bus, em, vals, data), o in zip(jmeta, outs):
        rep.cov["evaluations"] += 1
        rep.hist("decode_checks", "frames")
        if "ok" not in o:
            rep.violation({"kind": "cantools-decode", "schema": cases[k]["text"], "observed": o}, no_input=True)
            continue
        got = o["ok"][0]
        for s, v in zip(em["signals"], vals):
            g = got.get(s["name"])
            if s["float"] and not isinstance(g, int):
                continue  # float-typed signals decode to floats; compared at the word level by C01/C03
            if g != v:
                rep.cov["disagreements_checked"] += 1
                rep.violation({"kind": "decode", "schema": cases[k]["text"], "message": em["name"], "signal": s["name"],
                               "frame": data, "expected": v, "observed": g,
                               "what": "frame packed per the layout does not decode through the DBC to the value"})
                break


def check_codec_twins(rep, rng, tier):
    """Python codec: bytes of a struct and of its declaration-permuted twin (same dict value)"""
    from .codec import w_encode  # noqa

    n = 150 if tier == "quick" else 2500
    jobs = []
    meta = []
    for _ in range(n):
        d = gen.gen_codec_desc(rng, max_structs=3, max_fields=5, depth=2, dup_ids=False)  # twins: ids must fix the order
        tw = d.permuted(rng)
        name = d.structs[-1][0]
        py, mv = gen.gen_value(rng, d, ("struct", name), long_ok=False)
        jobs.append({"text": d.text(), "struct": name, "value": py})
        jobs.append({"text": tw.text(), "struct": name, "value": py})
        meta.append((d, tw, name, mv))
    res = run_cases("harness.codec", "w_encode", jobs, timeout_s=20)
    for i, (d, tw, name, mv) in enumerate(meta):
        a, b = res[2 * i], res[2 * i + 1]
        rep.count(json.dumps(["codec-twin", d.text(), mv], default=str))
        rep.hist("twin_checks", "python-codec")
        if a != b:
            rep.cov["disagreements_checked"] += 1
            rep.violation({"kind": "twin-codec", "schema": d.text(), "twin": tw.text(), "struct": name, "value": mv,
                           "observed": [a, b],
                           "what": "Python codec bytes change when field declarations are permuted (ids fixed)"})


def w_describe(case):
    """`fcp describe`: the bit-field picture of a struct (TypeVisitor walks fields in ascending id)"""
    from fcp.describe import describe
    from fcp.specs.type import StructType
    from .codec import _schema

    try:
        return {"text": describe(_schema(case["text"]), StructType(case["struct"]))}
    except Exception as e:
        return {"raised": type(e).__name__}


def check_describe_twins(rep, rng, tier):
    """the describe tool is one more reader of the field order: its picture of a struct must not change when the fields
    are declared in another order"""
    n = 150 if tier == "quick" else 2500
    jobs, meta = [], []
    for _ in range(n):
        d = gen.gen_codec_desc(rng, max_structs=3, max_fields=5, depth=2, dup_ids=False)  # twins: ids must fix the order
        tw = d.permuted(rng)
        name = d.structs[-1][0]
        jobs += [{"text": d.text(), "struct": name}, {"text": tw.text(), "struct": name}]
        meta.append((d, tw, name))
    res = run_cases("harness.dbc", "w_describe", jobs, timeout_s=20)
    for i, (d, tw, name) in enumerate(meta):
        a, b = res[2 * i], res[2 * i + 1]
        rep.cov["evaluations"] += 1
        rep.hist("twin_checks", "describe")
        if a != b:
            rep.cov["disagreements_checked"] += 1
            rep.violation({"kind": "twin-describe", "schema": d.text(), "twin": tw.text(), "struct": name,
                           "observed": [str(a)[:400], str(b)[:400]],
                           "what": "the described encoding of a struct changes when its field declarations are permuted (ids fixed)"})


C_SIGNAL = re.compile(r"can_(?:de|en)code_signal_(?:as|from)_\w+\(\(\w+\),\s*(\d+),\s*(\d+),")
C_DLC = re.compile(r"\.dlc\s*=\s*(\d+)")


def c_source_geometry(files, rep):
    """second sentence of C14 on the generated C: every signal accessor lies inside the 64 data bits, every DLC is <= 8"""
    for path, text in files.items():
        if not path.endswith("_can.c"):
            continue
        sigs = C_SIGNAL.findall(text)
        dlcs = C_DLC.findall(text)
        rep.hist("c_source_scanned", "signals" if sigs else "no signal accessor recognised")
        for a, b in sigs:
            if int(a) + int(b) > 64:
                return f"{path}: a signal accessor covers bits {a}..{int(a) + int(b) - 1}, beyond the 64 data bits of a frame"
        for x in dlcs:
            if int(x) > 8:
                return f"{path}: a message is emitted with dlc = {x}"
    return None


def check_c_command(rep, rng, tier, descs, cases, mres):
    """C14, C side: `GeneratorManager.generate('can_c', ...)` on bindings around the limit"""
    ks = [k for k in range(len(descs)) if k in mres and "driver_err" not in mres[k]]
    ks = ks[: (120 if tier == "quick" else 1500)]
    pre = {"stale_can.c": "int stale;", "notes.txt": "keep"}
    jobs = [{"text": cases[k]["text"], "generator": "can_c", "pre": pre} for k in ks]
    res = run_cases("harness.genmgr", "w_generate", jobs, timeout_s=120)
    for k, r in zip(ks, res):
        m = mres[k]
        rep.cov["evaluations"] += 1
        rep.hist("c_command", m.get("err", "fits"))
        base = {"schema": cases[k]["text"], "model": m.get("err", "fits")}
        if "ok" not in r:
            rep.violation(dict(base, kind="harness", observed=r), no_input=True)
            continue
        o = r["ok"]
        base["result"] = o["result"]
        if cases[k].get("must_reject") and o["result"].get("ok") is True:
            rep.cov["disagreements_checked"] += 1
            rep.violation(dict(base, kind="c-not-rejected-by-construction", files=cases[k]["text"][:3000],
                               what="a module of the schema declares a CAN binding that does not fit a frame, but the C generation "
                                    "command succeeded"))
            continue
        if m.get("err") in ("tooBig", "noLayout"):
            if o["result"].get("ok") is True:
                rep.cov["disagreements_checked"] += 1
                rep.violation(dict(base, kind="c-not-rejected",
                                   what="the C generation command succeeded on a CAN binding that does not fit a frame"))
            elif o["before"] != o["after"]:
                rep.cov["disagreements_checked"] += 1
                rep.violation(dict(base, kind="c-emitted", after=sorted(o["after"]),
                                   what="the C generation command failed but changed the output directory"))
        elif "err" not in m:
            if o["result"].get("ok") is True:
                # geometry of whatever was written: no signal beyond the eight data bytes, no DLC above 8
                bad = c_source_geometry(o["after"], rep)
                if bad:
                    rep.cov["disagreements_checked"] += 1
                    rep.violation(dict(base, kind="c-signal-geometry", what=bad,
                                       files={p: t[-1500:] for p, t in o["after"].items() if p.endswith("_can.c")}))
            if o["result"].get("ok") is False:
                rep.cov["disagreements_checked"] += 1
                rep.violation(dict(base, kind="c-unexpected-failure",
                                   what="the C generation command failed although every CAN binding fits"), no_input=True)
