"""C04 (and the layout part of C15): `fcp.encoding.PackedEncoder` against the Lean `Layout` model."""
import json
import random

from . import gen
from .common import Report, run_driver_parallel, seed, log, load_findings
from .impl import run_cases, schema_to_wire

# ------------------------------------------------------------------ implementation side

_cache = {}


def _schema(text):
    from fcp.parser import get_fcp_from_string
    from fcp.error import Logger

    if text not in _cache:
        if len(_cache) > 64:
            _cache.clear()
        r = get_fcp_from_string(text, Logger({}))
        if r.is_err():
            raise RuntimeError("schema rejected: " + repr(r.err()))
        _cache[text] = r.unwrap()
    return _cache[text]


def _xv(v):
    if isinstance(v, bool):
        return str(v)
    if isinstance(v, float):
        return {"f": repr(v)}
    if isinstance(v, list):
        return [_xv(x) for x in v]
    return v


def w_layout(case):
    """one encoder, a history of generate() calls; returns schema dict and per-call leaves"""
    from fcp.encoding import make_encoder, PackedEncoderContext

    fcp = _schema(case["text"])
    ctx = PackedEncoderContext().with_unroll_arrays(case["unroll"])
    enc = make_encoder("packed", fcp, ctx)
    # a second encoder with the opposite option, its context derived from the first one's while that one stays in use: deriving
    # a context, and whatever the sibling lays out in between, must not change what the first encoder computes
    sibling = make_encoder("packed", fcp, ctx.with_unroll_arrays(not case["unroll"])) if case.get("sibling") else None
    outs = []
    held = []  # (index of the call, the list object generate() returned)

    def snap(vals):
        return {"leaves": [
            {"name": v.name, "start": v.bitstart, "len": v.bitlength, "endian": str(v.endianess),
             "unit": v.unit, "opts": [[str(k), _xv(x)] for k, x in v.extended_data.items()]}
            for v in vals]}

    for ix in case["calls"]:
        impl = fcp.impls[ix]
        if sibling is not None:
            try:
                sibling.generate(impl)
            except (ValueError, KeyError):
                pass
        try:
            vals = enc.generate(impl)
            outs.append(snap(vals))
            held.append((len(outs) - 1, vals))
        except (ValueError, KeyError) as e:
            outs.append({"err": "raise", "exc": type(e).__name__, "msg": str(e)[:80]})
    # a layout handed out by an earlier generate() must still read the same after the later calls (a caller keeps it)
    changed = [k for k, vals in held if snap(vals) != outs[k]]
    return {"schema": fcp.to_dict(), "calls": outs, "changed_later": changed}


# ------------------------------------------------------------------ generator


def fixed_type(rng, depth, enums, structs, allow_var=False):
    r = rng.random()
    if allow_var and r < 0.04:
        return rng.choice([("str",), ("dyn", ("u", 8)), ("opt", ("u", 8))])
    if depth <= 0 or r < 0.55:
        if structs and rng.random() < 0.25:
            return ("struct", rng.choice(structs))
        return gen.scalar_type(rng, enums)
    if r < 0.85:
        return ("arr", fixed_type(rng, depth - 1, enums, structs), rng.choice([1, 2, 2, 3, 4]))
    if structs:
        return ("struct", rng.choice(structs))
    return gen.scalar_type(rng, enums)


def gen_layout_desc(rng, collide=False):
    d = gen.Desc()
    d.enums = gen.gen_enums(rng, rng.randint(0, 2), big=True)  # maxima up to 2^64-1: widths where float arithmetic is at its limits
    enames = [e[0] for e in d.enums]
    nstructs = rng.randint(1, 4)
    for s in range(nstructs):
        nf = rng.randint(1, 5)
        ids = rng.sample(range(0, 3 * nf + 1), nf)
        if rng.random() < 0.4:
            ids.sort()
        if nf >= 2 and rng.random() < 0.12:
            # nothing forbids two fields with one id (a copy-and-paste slip): both are laid out, in declaration order
            a, b = rng.sample(range(nf), 2)
            ids[a] = ids[b]
        prev = [x[0] for x in d.structs]
        fields = []
        for j in range(nf):
            fields.append((f"f{j}", ids[j], fixed_type(rng, 2, enames, prev, allow_var=rng.random() < 0.1)))
        if collide and rng.random() < 0.5:
            # a field named like an unrolled array element
            arrs = [f for f in fields if f[2][0] == "arr"]
            if arrs:
                fields.append((arrs[0][0] + "_0", max(ids) + 1, ("u", 8)))
        d.structs.append((f"S{s}", fields))
    # impls with signal blocks
    extra = []
    d.nimpl_extra = 0
    for name, fs in d.structs:
        for k in range(rng.choice([0, 1, 1, 2])):
            blocks = []
            cand = [f[0] for f in fs]
            # names of nested fields too
            for f in fs:
                if f[2][0] == "struct":
                    cand += [g[0] for g in d.struct(f[2][1])]
                if f[2][0] == "arr" and rng.random() < 0.3:
                    cand.append(f[0] + "_0")
            for fn in rng.sample(cand, min(len(cand), rng.randint(0, 2))):
                opts = []
                if rng.random() < 0.6:
                    opts.append(f'endianess: "{rng.choice(["big", "little"])}"')
                if rng.random() < 0.4:
                    opts.append(f"mux_count: {rng.randint(1, 4)}")
                    opts.append(f'mux_signal: "{rng.choice(cand)}"')
                if not opts:
                    opts.append(f"scale: {rng.choice(['1', '0.5', '-2'])}")
                if rng.random() < 0.25:
                    opts.append(f"bitstart: {rng.choice([0, 3, 8, 60, 64])}")  # documented, not used by the packed layout
                blocks.append(f"    signal {fn} {{ {', '.join(opts)}, }},")
            if blocks and rng.random() < 0.2:
                # a signal block name written twice with other options: the first block of a name is the field's
                fn = blocks[rng.randrange(len(blocks))].split()[1]
                blocks.append(f'    signal {fn} {{ endianess: "{rng.choice(["big", "little"])}", mux_count: {rng.randint(1, 4)}, '
                              f'mux_signal: "{rng.choice(cand)}", }},')
            alias = f"as {name}x{k}" if k else ""
            extra.append(f"impl can for {name} {alias} {{\n    id: {rng.randint(0, 2047)},\n" + "\n".join(blocks) + "\n}")
            d.nimpl_extra += 1
    d.extra = "\n".join(extra) + "\n"
    return d


def names_separable(sd):
    """guard of theorem layout_names_nodup: no field named `x_<digits>` next to an array field `x`"""
    import re

    for s in sd["structs"]:
        arr = {f["name"] for f in s["fields"] if f["type"]["type"] == "Array"}
        for f in s["fields"]:
            m = re.match(r"^(.*)_(\d+)$", f["name"])
            if m and m.group(1) in arr:
                return False
    return True


# ------------------------------------------------------------------ the check


def check_tiling(leaves):
    cur = 0
    for l in leaves:
        if l["start"] != cur or l["len"] < 0:
            return f"leaf {l['name']} starts at {l['start']}, expected {cur}"
        cur += l["len"]
    return None


def run(prop, tier, replay=None):
    rep = Report(prop, tier)
    rng = random.Random(seed() * 7919 + 4)
    rep.check_proofs()
    n = 400 if tier == "quick" else 6000
    descs = [gen_layout_desc(rng, collide=(k % 10 == 0)) for k in range(n)]
    if tier == "thorough":
        descs += small_scope_descs()
    cases = []
    for d in descs:
        nimpl = len(d.structs) + d.nimpl_extra
        calls = [rng.randrange(nimpl) for _ in range(rng.randint(1, 10))]
        # make sure some impl is laid out twice at different points of the history
        if len(calls) >= 3:
            calls[-1] = calls[0]
        cases.append({"text": d.text(), "unroll": rng.random() < 0.6, "calls": calls, "sibling": rng.random() < 0.4})
    ires = run_cases("harness.layout", "w_layout", cases, timeout_s=20)
    lcases = []
    idx = []
    for k, (c, r) in enumerate(zip(cases, ires)):
        if "ok" not in r:
            rep.hist("harness_problem", str(r)[:80])
            log("implementation could not take case", r, c["text"][:300])
            continue
        lcases.append({"op": "layout", "schema": schema_to_wire(r["ok"]["schema"]), "unroll": c["unroll"],
                       "calls": c["calls"]})
        idx.append(k)
    mres = run_driver_parallel(lcases)
    for k, m in zip(idx, mres):
        c = cases[k]
        r = ires[k]["ok"]
        sd = r["schema"]
        rep.count(json.dumps([c["text"], c["unroll"], c["calls"]]))
        rep.sample({"schema": c["text"], "unroll": c["unroll"], "calls": c["calls"],
                    "first_layout": r["calls"][0]}, limit=3)
        if "driver_err" in m:
            rep.violation({"kind": "harness", "case": c, "model": m}, no_input=True)
            continue
        if r.get("changed_later"):
            rep.cov["disagreements_checked"] += 1
            rep.violation({"kind": "history-aliasing", "schema": c["text"], "unroll": c["unroll"], "calls": c["calls"],
                           "call_indices": r["changed_later"],
                           "what": "the layout returned by an earlier generate() call reads differently after later calls on the "
                                   "same encoder (it depends on what the encoder laid out afterwards)"})
            continue
        seen = {}
        for ci, (ix, io, mo) in enumerate(zip(c["calls"], r["calls"], m["calls"])):
            rep.cov["evaluations"] += 1
            base = {"schema": c["text"], "unroll": c["unroll"], "calls": c["calls"], "call_index": ci,
                    "impl_index": ix}
            rep.hist("outcome", "raise" if "err" in io else "layout")
            if "leaves" in io:
                rep.hist("leaves_per_layout", min(len(io["leaves"]), 20))
                # ---- direct oracles
                t = check_tiling(io["leaves"])
                if t:
                    rep.cov["disagreements_checked"] += 1
                    rep.violation(dict(base, kind="tiling", observed=io, what=t))
                    continue
                names = [l["name"] for l in io["leaves"]]
                if len(set(names)) != len(names) and names_separable(sd):
                    rep.cov["disagreements_checked"] += 1
                    rep.violation(dict(base, kind="names", observed=names, what="duplicate leaf names"))
                    continue
                if len(set(names)) != len(names):
                    rep.known_or_violation_names = True
            # history independence: same impl, same answer, wherever in the history
            key = ix
            if key in seen and seen[key] != strip(io):
                rep.cov["disagreements_checked"] += 1
                rep.violation(dict(base, kind="history", observed=io, earlier=seen[key],
                                   what="layout of a binding depends on earlier generate() calls"))
                continue
            seen[key] = strip(io)
            # ---- correspondence with the model
            if strip(io) != strip(mo):
                rep.cov["disagreements_checked"] += 1
                viol = classify(io, mo)
                rep.violation(dict(base, kind="layout-correspondence", observed=io, expected=mo, what=viol),
                              no_input=False)
    probe_name_collision(rep)
    rep.cov["rule"] = (
        "fixed-size schemas (nesting <= 3, arrays of scalars/structs/arrays, enums of spread max values, ids "
        "shuffled) with CAN bindings and signal blocks, with/without unroll_arrays; one encoder reused over a "
        "random history of 1..10 generate() calls; distinct by (schema, unroll, history)"
    )
    rep.assumptions.append("leaf `type` objects are not compared; extension values travel as JSON")
    return rep.finish()


def strip(o):
    if "leaves" in o:
        return {"leaves": [{k: l[k] for k in ("name", "start", "len", "endian", "unit", "opts")} for l in o["leaves"]]}
    return {"err": "raise"}


def classify(io, mo):
    if ("err" in io) != ("err" in mo):
        return "implementation and model disagree on whether the layout can be computed"
    a, b = io.get("leaves", []), mo.get("leaves", [])
    if [l["name"] for l in a] != [l["name"] for l in b]:
        return "leaf names / order differ from the field-id order of the model"
    if [(l["start"], l["len"]) for l in a] != [(l["start"], l["len"]) for l in b]:
        return "leaf bit ranges differ: a leaf's width is not its type's wire width"
    return "per-signal options / endianess / unit differ"


def small_scope_descs():
    """all struct shapes with <= 3 fields over a 6-type alphabet x all id permutations"""
    import itertools

    alpha = [("u", 1), ("i", 7), ("f32",), ("enum", "E0"), ("arr", ("u", 3), 2), ("struct", "I")]
    out = []
    for nf in (1, 2, 3):
        for types in itertools.product(alpha, repeat=nf):
            for ids in itertools.permutations(range(nf)):
                d = gen.Desc()
                d.enums = [("E0", [("A", 0), ("B", 5)])]
                d.structs = [("I", [("x", 0, ("u", 5))]),
                             ("S", [(f"f{j}", ids[j], types[j]) for j in range(nf)])]
                d.extra = "impl can for S { id: 1, }\n"
                d.nimpl_extra = 1
                out.append(d)
    return out


NAME_WITNESS = {
    "text": 'version: "3"\nstruct A {\n    a @ 0: [u8, 2],\n    a_0 @ 1: u8,\n}\n',
    "unroll": True,
    "calls": [0],
}


def probe_name_collision(rep):
    """recorded finding: unrolled element names `a_<i>` can collide with a declared field `a_<i>`"""
    r = run_cases("harness.layout", "w_layout", [NAME_WITNESS], timeout_s=20)[0]
    names = [l["name"] for l in r.get("ok", {}).get("calls", [{}])[0].get("leaves", [])]
    dup = len(set(names)) != len(names)
    rep.cov["name_collision_witness"] = names
    listed = any(f.get("property") == "C04" and f.get("id") == "unrolled-name-collision" and f.get("status") == "open"
                 for f in load_findings())
    if dup:
        if listed:
            rep.known_finding("struct A { a @0: [u8,2], a_0 @1: u8 } with unroll_arrays: leaf names "
                              f"{names} are not unique (element a_0 collides with field a_0)")
        else:
            rep.violation(dict(NAME_WITNESS, kind="names", observed=names, what="duplicate leaf names"))
