"""In-process access to the implementation under /repo (current working tree), with
worker isolation and per-case watchdogs."""
import os
import signal
import sys
import traceback
from concurrent.futures import ProcessPoolExecutor
from concurrent.futures.process import BrokenProcessPool

from .common import REPO


def setup_paths():
    paths = [str(REPO / "src")] + [
        str(REPO / "plugins" / p) for p in ("fcp_dbc", "fcp_can_c", "fcp_cpp", "fcp_nop")
    ]
    for p in reversed(paths):
        if p in sys.path:
            sys.path.remove(p)
        sys.path.insert(0, p)


setup_paths()


class CaseTimeout(Exception):
    pass


def _alarm(signum, frame):
    raise CaseTimeout()


def guarded(fn, case, timeout_s):
    """run one case; never raises"""
    old = signal.signal(signal.SIGALRM, _alarm)
    signal.setitimer(signal.ITIMER_REAL, timeout_s)
    try:
        return {"ok": fn(case)}
    except CaseTimeout:
        return {"timeout": True}
    except RecursionError:
        return {"exc": "RecursionError", "msg": ""}
    except BaseException as e:  # SystemExit, KeyboardInterrupt from the code under test, ...
        if isinstance(e, KeyboardInterrupt):
            raise
        tb = traceback.extract_tb(e.__traceback__)
        where = f"{tb[-1].filename}:{tb[-1].lineno}" if tb else ""
        return {"exc": type(e).__name__, "msg": str(e)[:300], "where": where}
    finally:
        signal.setitimer(signal.ITIMER_REAL, 0)
        signal.signal(signal.SIGALRM, old)


def _run_chunk(args):
    modname, fname, cases, timeout_s = args
    import importlib

    mod = importlib.import_module(modname)
    fn = getattr(mod, fname)
    return [guarded(fn, c, timeout_s) for c in cases]


def run_cases(modname, fname, cases, timeout_s=5.0, nproc=None, chunk=None):
    """Run fn over cases in worker processes.  Result i corresponds to case i."""
    if not cases:
        return []
    nproc = nproc or min(16, os.cpu_count() or 4)
    if chunk is None:
        chunk = max(1, min(200, (len(cases) + nproc * 4 - 1) // (nproc * 4)))
    chunks = [cases[i : i + chunk] for i in range(0, len(cases), chunk)]
    out = []
    try:
        with ProcessPoolExecutor(nproc) as ex:
            for res in ex.map(_run_chunk, [(modname, fname, c, timeout_s) for c in chunks]):
                out.extend(res)
        # a watchdog that fires on a loaded machine says nothing about the code: cases that timed out are run again,
        # a few at a time with ten times the limit; only a case that still does not answer is reported as a hang
        late = [i for i, r in enumerate(out) if r.get("timeout")]
        if late and len(late) <= 2000:
            with ProcessPoolExecutor(min(4, nproc)) as ex:
                redo = list(ex.map(_run_chunk, [(modname, fname, [cases[i]], max(60.0, 10 * timeout_s)) for i in late]))
            for i, r in zip(late, redo):
                out[i] = r[0]
                out[i]["retried_after_timeout"] = True
        return out
    except BrokenProcessPool:
        # a worker died (segfault, os._exit): isolate case by case
        out = []
        for c in cases:
            try:
                with ProcessPoolExecutor(1) as ex:
                    out.extend(list(ex.map(_run_chunk, [(modname, fname, [c], timeout_s)]))[0])
            except BrokenProcessPool:
                out.append({"crash": True})
        return out


# ------------------------------------------------------------------ schema transport


def _xv(v):
    if isinstance(v, bool):
        return str(v)
    if isinstance(v, float):
        return {"f": repr(v)}
    if isinstance(v, list):
        return [_xv(x) for x in v]
    if isinstance(v, dict):
        return str(v)
    if v is None:
        return "None"
    return v


def _pairs(d):
    if isinstance(d, dict):
        return [[str(k), _xv(v)] for k, v in d.items()]
    return []


def schema_to_wire(sd: dict) -> dict:
    """`FcpV2.to_dict()` → driver format (ordered dicts as pair lists, floats as text)"""
    out = {"structs": [], "enums": sd.get("enums", []), "impls": [], "services": sd.get("services", []),
           "devices": []}
    for s in sd.get("structs", []):
        fs = []
        for f in s["fields"]:
            g = {"name": f["name"], "field_id": f["field_id"], "type": f["type"]}
            if f.get("unit") is not None:
                g["unit"] = f["unit"]
            if f.get("min_value") is not None:
                g["min_value"] = repr(f["min_value"])
            if f.get("max_value") is not None:
                g["max_value"] = repr(f["max_value"])
            fs.append(g)
        out["structs"].append({"name": s["name"], "fields": fs})
    for i in sd.get("impls", []):
        out["impls"].append(
            {
                "name": i["name"],
                "protocol": i["protocol"],
                "type": i["type"],
                "fields": _pairs(i.get("fields", {})),
                "signals": [{"name": sb["name"], "fields": _pairs(sb.get("fields", {}))} for sb in i.get("signals", [])],
            }
        )
    for dv in sd.get("devices", []):
        out["devices"].append({"name": dv["name"], "fields": _pairs(dv.get("fields", {}))})
    return out


FILES_MARK = "//@@FILES "


def files_text(files):
    """a schema spread over files, carried where a schema text is expected: a first line with the {relative path: text} map"""
    import json
    return FILES_MARK + json.dumps(files) + "\n"


def parse(text):
    """Result of the front end for a schema text, or - if the text is a `files_text` - for its main.fcp on disk"""
    from fcp.parser import get_fcp_from_string, get_fcp
    from fcp.error import Logger

    if not text.startswith(FILES_MARK):
        return get_fcp_from_string(text, Logger({}))
    import json
    import shutil
    import tempfile
    files = json.loads(text[len(FILES_MARK):].split("\n", 1)[0])
    d = tempfile.mkdtemp(prefix="fcpfiles_")
    try:
        for rel, t in files.items():
            p = os.path.join(d, rel)
            os.makedirs(os.path.dirname(p), exist_ok=True)
            with open(p, "w", newline="") as f:
                f.write(t)
        return get_fcp(os.path.join(d, "main.fcp"), Logger({}))
    finally:
        shutil.rmtree(d, ignore_errors=True)
