"""C03 / C13 / C18 (and the C++ side of C15): the generated C++ (static codec, reflection-loaded
run-time codec, CAN frame wrapper) compiled with g++ and driven by harness/cxx/main.cpp,
against the canonical `Wire` codec (Lean) and against each other."""
import json
import os
import re
import random
import shutil
import subprocess
import tempfile

from . import gen
from .common import Report, run_codec_grouped, run_driver_parallel, seed, log, VERIF, load_findings
from .impl import run_cases, schema_to_wire
from . import cbuild

CXX_MAIN = VERIF / "harness" / "cxx" / "main.cpp"
CXX_PROTO = VERIF / "harness" / "cxx" / "proto.cpp"
PROTO_BUILDS = {}  # build directory -> {protocol: (exe or None, compiler output)}
VENDOR = VERIF / "vendor"


# ------------------------------------------------------------------ implementation side


_GEN = {}
_GEN_CALLS = [0]


def _plugin_generator(mod):
    """every second call in a worker process re-uses one long-lived generator object of the plug-in (a tool that generates
    several schemas in a row keeps it); the others get a fresh one"""
    _GEN_CALLS[0] += 1
    if _GEN_CALLS[0] % 2 == 0:
        if mod.__name__ not in _GEN:
            _GEN[mod.__name__] = mod.Generator()
        return _GEN[mod.__name__]
    return mod.Generator()


def w_gen_cpp(case):
    """schema text -> generated C++ files, reflection binary, schema dict"""
    import tempfile as _t
    from fcp.parser import get_fcp_from_string
    from fcp.error import Logger
    from fcp.reflection import get_reflection_schema
    from fcp import serde
    import fcp_cpp

    if case.get("primer"):
        # a schema parsed earlier in the same process, in which the names of this one mean something else
        get_fcp_from_string(case["primer"], Logger({}))
    r = get_fcp_from_string(case["text"], Logger({}))
    if r.is_err():
        raise RuntimeError("schema rejected: " + repr(r.err()))
    fcp = r.unwrap()
    sd = fcp.to_dict()
    out = _t.mkdtemp(prefix="fcpcpp_")
    try:
        # generated twice from the one parsed schema (a build that produces headers for two targets): what is compiled and
        # run is the SECOND generation, and it must be the first one again
        g = _plugin_generator(fcp_cpp)
        first = {os.path.basename(str(f["path"])): str(f["contents"]) for f in g.generate(fcp, {"output": out})}
        files = g.generate(fcp, {"output": out})
        gen_files = {os.path.basename(str(f["path"])): str(f["contents"]) for f in files}
    finally:
        shutil.rmtree(out, ignore_errors=True)
    from .genmgr import strip_stamp
    regen_same = {k: strip_stamp(v) for k, v in first.items()} == {k: strip_stamp(v) for k, v in gen_files.items()}
    untouched = fcp.to_dict() == sd
    fcp2 = get_fcp_from_string(case["text"], Logger({})).unwrap()
    refl = list(serde.encode(get_reflection_schema().unwrap(), "Fcp", fcp2.reflection()))
    return {"files": gen_files, "reflection": refl, "schema": sd, "regen_same": regen_same, "schema_untouched": untouched}


def w_cpp_accept(case):
    """is the schema accepted (parser, general checks, the C++ plug-in's own checks) - and if so, does generation return?"""
    from fcp.parser import get_fcp_from_string
    from fcp.error import Logger
    from fcp.verifier import make_general_verifier
    import tempfile as _t
    import fcp_cpp

    r = get_fcp_from_string(case["text"], Logger({}))
    if r.is_err():
        return {"accepted": False, "stage": "parser"}
    fcp = r.unwrap()
    v = make_general_verifier()
    fcp_cpp.Generator().register_checks(v)
    vr = v.verify(fcp)
    if vr.is_err():
        return {"accepted": False, "stage": "verifier"}
    out = _t.mkdtemp(prefix="fcpcpp_")
    try:
        files = fcp_cpp.Generator().generate(fcp, {"output": out})
        return {"accepted": True, "files": {os.path.basename(str(f["path"])): str(f["contents"]) for f in files}}
    except Exception as e:
        return {"accepted": True, "raised": type(e).__name__ + ": " + str(e)[:120]}
    finally:
        shutil.rmtree(out, ignore_errors=True)


def w_rpc(case):
    """`generate_rpc` on a copy of the parsed schema: what it adds (and that what was there stays as it was)"""
    import copy
    from fcp.parser import get_fcp_from_string
    from fcp.error import Logger
    from fcp.specs.type import StructType, EnumType
    from fcp_cpp.rpc import generate_rpc

    r = get_fcp_from_string(case["text"], Logger({}))
    if r.is_err():
        return {"rejected": True}
    fcp = r.unwrap()
    sd = fcp.to_dict()
    try:
        g = generate_rpc(copy.deepcopy(fcp))
    except Exception as e:
        return {"schema": sd, "raised": type(e).__name__ + ": " + str(e)[:100]}

    def ty(t):
        return ["enum", t.name] if isinstance(t, EnumType) else ["struct", t.name] if isinstance(t, StructType) else ["other"]
    gd = g.to_dict()
    n1, n2, n3 = len(fcp.structs), len(fcp.enums), len(fcp.impls)
    return {"schema": sd,
            "prefix_same": gd["structs"][:n1] == sd["structs"] and gd["enums"][:n2] == sd["enums"] and gd["impls"][:n3] == sd["impls"],
            "structs": [{"name": s.name, "fields": [[f.name, f.field_id, ty(f.type)] for f in s.fields]} for s in g.structs[n1:]],
            "enums": [{"name": e.name, "items": [[x.name, x.value] for x in e.enumeration]} for e in g.enums[n2:]],
            "impls": [[i.name, i.protocol, i.type] for i in g.impls[n3:]]}


def rpc_correspondence(rep, texts):
    """the rpc layer against its model (Rpc.rpc): derived wrapper structs, id enums and default bindings, in order"""
    from .common import run_driver_parallel
    res = run_cases("harness.cpp", "w_rpc", [{"text": t} for t in texts], timeout_s=60)
    ks = [k for k, r in enumerate(res) if "ok" in r and "schema" in r["ok"]]
    mres = run_driver_parallel([{"op": "rpc", "schema": schema_to_wire(res[k]["ok"]["schema"])} for k in ks])
    for k, m in zip(ks, mres):
        o = res[k]["ok"]
        rep.cov["evaluations"] += 1
        base = {"schema": texts[k], "model": m}
        if "driver_err" in m:
            rep.violation(dict(base, kind="harness"), no_input=True)
            continue
        if "raised" in o or "none" in m:
            same = ("raised" in o) == ("none" in m)
            rep.hist("rpc_layer", "raises in both" if same else "raises in one only")
            if not same:
                rep.cov["disagreements_checked"] += 1
                rep.violation(dict(base, kind="rpc-raise", observed=o.get("raised", "returned"),
                                   what="generate_rpc and its model disagree on whether the rpc layer can be generated"), no_input=True)
            continue
        got = {"structs": o["structs"], "enums": o["enums"], "impls": o["impls"]}
        ok = got == {"structs": m["structs"], "enums": m["enums"], "impls": m["impls"]} and o["prefix_same"]
        rep.hist("rpc_layer", "equals the model" if ok else "differs")
        if not ok:
            rep.cov["disagreements_checked"] += 1
            rep.violation(dict(base, kind="rpc-layer", observed=got, prefix_same=o["prefix_same"],
                               what="the declarations generate_rpc adds differ from the model's (or it changed the user's declarations)"),
                          no_input=o["prefix_same"])


SERVICE_EDGES = [
    ("service id 255, method id 255", "service S @ 255 {\n    method m(A) @ 255 returns B,\n}"),
    ("service id 256", "service S @ 256 {\n    method m(A) @ 0 returns B,\n}"),
    ("service id 70000", "service S @ 70000 {\n    method m(A) @ 0 returns B,\n}"),
    ("method id 256", "service S @ 1 {\n    method m(A) @ 256 returns B,\n}"),
    ("payload is not declared", "service S @ 1 {\n    method m(Nowhere) @ 0 returns B,\n}"),
    ("result is not declared", "service S @ 1 {\n    method m(A) @ 0 returns Nowhere,\n}"),
    ("payload is an enum", "service S @ 1 {\n    method m(E) @ 0 returns B,\n}"),
    ("one struct as input and output", "service S @ 1 {\n    method m(A) @ 0 returns A,\n    method n(B) @ 1 returns A,\n}"),
    ("two services share payloads", "service S @ 1 {\n    method m(A) @ 0 returns B,\n}\nservice T @ 2 {\n    method m(A) @ 0 returns B,\n}"),
    ("two methods with one id", "service S @ 1 {\n    method m(A) @ 4 returns B,\n    method n(B) @ 4 returns A,\n}"),
    ("two methods with one name", "service S @ 1 {\n    method m(A) @ 0 returns B,\n    method m(B) @ 1 returns A,\n}"),
    ("two services with one name", "service S @ 1 {\n    method m(A) @ 0 returns B,\n}\nservice S @ 2 {\n    method k(B) @ 3 returns A,\n}"),
    ("negative ids", "service S @ -1 {\n    method m(A) @ -2 returns B,\n}"),
    ("a service without methods is a syntax error or fine", "service S @ 1 {\n}"),
    ("a user struct named like an rpc wrapper", "struct AInput {\n    z @ 0: u8,\n}\nservice S @ 1 {\n    method m(A) @ 0 returns B,\n}"),
    ("a user enum named ServiceId", "enum ServiceId {\n    K = 0,\n}\nservice S @ 1 {\n    method m(A) @ 0 returns B,\n}"),
    ("a user enum named like the method id enum", "enum SMethodId {\n    K = 0,\n}\nservice S @ 1 {\n    method m(A) @ 0 returns B,\n}"),
    ("a method called Size", "service S @ 1 {\n    method Size(A) @ 0 returns B,\n}"),
    ("a service called Size", "service Size @ 1 {\n    method m(A) @ 0 returns B,\n}"),
    ("payload wrappers that coincide", "struct a {\n    z @ 0: u8,\n}\nservice S @ 1 {\n    method m(A) @ 0 returns B,\n    method n(a) @ 1 returns B,\n}"),
    ("a service name with two capitals", "service MotorControl @ 1 {\n    method m(A) @ 0 returns B,\n}"),
    ("a service name in snake case", "service motor_control @ 1 {\n    method m(A) @ 0 returns B,\n}"),
    ("payload names with two capitals and underscores", "struct WheelSpeed {\n    v @ 0: u8,\n}\nstruct wheel_cmd {\n    v @ 0: u8,\n}\nservice S @ 1 {\n    method m(WheelSpeed) @ 0 returns wheel_cmd,\n}"),
    ("an integer field of 0 bits", "struct Z {\n    z @ 0: u0,\n    t @ 1: u8,\n}"),
    ("an integer field of 65 bits", "struct Z {\n    z @ 0: u65,\n    t @ 1: u8,\n}"),
    ("an array of 99-bit integers inside an Optional", "struct Z {\n    z @ 0: Optional[[i99, 2]],\n    t @ 1: u8,\n}"),
    ("two services with one id", "service S @ 1 {\n    method m(A) @ 0 returns B,\n}\nservice T @ 1 {\n    method k(B) @ 3 returns A,\n}"),
]


RPC_NAME_CLASHES = {"a user struct named like an rpc wrapper", "a user enum named ServiceId", "a user enum named like the method id enum",
                    "a method called Size", "a service called Size", "payload wrappers that coincide"}


def service_edge_probe(rep):
    """C03 speaks of every accepted schema: service declarations at the edges of what the rpc layer of the C++ generator takes
    (ids beyond 8 bits, payloads that are no declared structs, shared payloads).  Each schema is either rejected - by the parser,
    the general checks or the C++ plug-in's own checks - or generation returns and the header compiles."""
    base = 'version: "3"\n\nenum E {\n    P = 0,\n    Q = 3,\n}\nstruct A {\n    x @ 0: u8,\n}\nstruct B {\n    y @ 0: i16,\n    e @ 1: E,\n}\n'
    cases = [{"text": base + body + "\n"} for _, body in SERVICE_EDGES]
    res = run_cases("harness.cpp", "w_cpp_accept", cases, timeout_s=120)
    from .genmgr import rich_schema
    rrng = random.Random(seed() * 7919 + 3)
    rpc_correspondence(rep, [c["text"] for c in cases] + [rich_schema(rrng) for _ in range(40)])
    for (label, _), c, r in zip(SERVICE_EDGES, cases, res):
        rep.cov["evaluations"] += 1
        if "ok" not in r:
            rep.violation({"kind": "harness", "schema": c["text"], "observed": r}, no_input=True)
            continue
        o = r["ok"]
        if not o["accepted"]:
            rep.hist("service_edges", label + ": rejected by the " + o["stage"])
            continue
        if "raised" in o:
            rep.hist("service_edges", label + ": accepted, generation raised")
            rep.cov["disagreements_checked"] += 1
            rep.violation({"kind": "generation-raised", "schema": c["text"], "observed": o["raised"], "edge": label,
                           "what": "the schema is accepted by parser, general checks and the C++ plug-in's checks, but the C++ generator "
                                   "raises instead of producing headers"})
            continue
        d_ = tempfile.mkdtemp(prefix="fcpcxx_")
        try:
            for name, contents in o["files"].items():
                with open(os.path.join(d_, name), "w") as f:
                    f.write(contents)
            src = os.path.join(d_, "t.cpp")
            with open(src, "w") as f:
                # fcp.h, then the rpc layer in the order the project's own test includes it
                svc = sorted(n for n in o["files"] if n.endswith("_client.h") or n.endswith("_server.h"))
                f.write('#include "fcp.h"\n#include "rpc.h"\n' + "".join(f'#include "{n}"\n' for n in svc) + "int main() { return 0; }\n")
            p = subprocess.run(["g++", "-std=c++17", "-O0", "-w", "-fsyntax-only", "-I", str(VENDOR), "-I", d_, src],
                               stdout=subprocess.PIPE, stderr=subprocess.STDOUT, text=True, timeout=600)
        finally:
            shutil.rmtree(d_, ignore_errors=True)
        rep.hist("service_edges", label + (": compiles" if p.returncode == 0 else ": does not compile"))
        if p.returncode != 0 and label in RPC_NAME_CLASHES and known("C03", "rpc-derived-name-clash"):
            # recorded finding: exactly the listed class (a declared name equal to a name the rpc layer derives)
            rep.known_finding("a schema with a service in which a declared name equals a name the rpc layer of the C++ generator "
                              "derives (<Payload>Input/Output, ServiceId, <Service>MethodId, Size) is accepted and its fcp.h does not "
                              "compile (witness: struct AInput next to service S { method m(A) ... })")
            continue
        if p.returncode != 0:
            rep.cov["disagreements_checked"] += 1
            rep.violation({"kind": "compile", "schema": c["text"], "compiler": p.stdout[-1200:], "edge": label,
                           "what": "the generated C++ header of an accepted schema does not compile"})


def w_type_names(case):
    """`to_wrapper_cpp_type`, `_to_highest_power_of_two`, `Enum.get_packed_size` (exhaustive sub-scopes)"""
    from fcp_cpp.generator import _to_highest_power_of_two
    from fcp.specs.enum import Enum, Enumeration

    out = {"carrier": {}, "enum_bits": {}}
    for n in range(1, 65):
        out["carrier"][n] = _to_highest_power_of_two(n)
    for m in case["enum_max"]:
        try:
            out["enum_bits"][str(m)] = Enum("E", [Enumeration("A", m, None)]).get_packed_size()
        except Exception as e:
            out["enum_bits"][str(m)] = "raised " + type(e).__name__
    return out


SANITIZE = ["-fsanitize=address,undefined", "-fno-sanitize-recover=all", "-fno-omit-frame-pointer"]


def build_cpp(files, reflection, sanitize=False, protos=False):
    d = tempfile.mkdtemp(prefix="fcpcxx_")
    for name, contents in files.items():
        with open(os.path.join(d, name), "w") as f:
            f.write(contents)
    with open(os.path.join(d, "schema.bin"), "wb") as f:
        f.write(bytes(reflection))
    exe = os.path.join(d, "prog")
    p = subprocess.run(
        ["g++", "-std=c++17", "-O0", "-w"] + (SANITIZE if sanitize else []) + ["-I", str(VENDOR), "-I", d, str(CXX_MAIN), "-o", exe],
        stdout=subprocess.PIPE, stderr=subprocess.STDOUT, text=True, timeout=600,
    )
    if protos and p.returncode == 0:
        # every per-protocol header fcp_<protocol>.h is a generated header too: each gets a driver of its own
        PROTO_BUILDS[d] = {}
        for name, contents in sorted(files.items()):
            m = re.fullmatch(r"fcp_(\w+)\.h", name)
            if not m:
                continue
            ns = re.search(r"namespace fcp \{\s*namespace (\w+) \{", contents)
            pexe = os.path.join(d, "proto_" + m.group(1))
            q = subprocess.run(
                ["g++", "-std=c++17", "-O0", "-w"] + (SANITIZE if sanitize else []) +
                ["-I", str(VENDOR), "-I", d, f'-DPROTO_HEADER="{name}"', "-DPROTO_NS=" + (ns.group(1) if ns else m.group(1)),
                 str(CXX_PROTO), "-o", pexe],
                stdout=subprocess.PIPE, stderr=subprocess.STDOUT, text=True, timeout=600,
            )
            PROTO_BUILDS[d][m.group(1)] = (pexe if q.returncode == 0 else None, q.stdout)
    return d, (exe if p.returncode == 0 else None), p.stdout


# ------------------------------------------------------------------ schemas: many shapes per compile


def granular_type(rng, depth, enames, prev):
    """types whose every scalar is a whole number of bytes (where the run-time encoder can agree)"""
    r = rng.random()
    if depth <= 0 or r < 0.5:
        c = rng.random()
        if c < 0.45:
            return (rng.choice("ui"), rng.choice([8, 16, 32, 64]))
        if c < 0.6:
            return ("f32",) if rng.random() < 0.5 else ("f64",)
        if c < 0.7:
            return ("str",)
        if c < 0.8 and enames:
            return ("enum", enames[0])
        if prev:
            return ("struct", rng.choice(prev))
        return ("u", 8)
    if r < 0.7:
        return ("arr", granular_type(rng, depth - 1, enames, prev), rng.choice([0, 1, 2, 3]))
    if r < 0.85:
        return ("dyn", granular_type(rng, depth - 1, enames, prev))
    return ("opt", granular_type(rng, depth - 1, enames, prev))


# struct names of src/fcp/reflection/reflection.fcp that are also usable as C++ identifiers next to the support headers
REFLECTION_NAMES = ["Type", "Method", "Impl", "Enumeration", "MetaData", "StructField", "DictField", "SignalBlock", "Fcp"]
VAR_CAN_SHAPES = [
    [("seq", ("u", 8)), ("reading", ("opt", ("u", 16)))],
    [("n", ("u", 8)), ("s", ("str",))],
    [("d", ("dyn", ("u", 8)))],
    [("a", ("opt", ("u", 8))), ("b", ("opt", ("i", 16))), ("c", ("u", 4))],
    [("k", ("u", 3)), ("l", ("dyn", ("u", 4)))],
]


def gen_batch(rng, nstructs=14, can=False, granular_share=0.0, big=False):
    d = gen.Desc()
    d.enums = [("G0", [("GA", 0), ("GB", 200), ("GC", 255)])] + gen.gen_enums(rng, 2, big=big)
    gprev = []
    enames = [e[0] for e in d.enums]
    extra = []
    taken = set()
    d.foreign = {}  # struct name -> (id, bus tag) of a look-alike binding of another protocol
    for s in range(nstructs):
        prev = [x[0] for x in d.structs]
        gran = rng.random() < granular_share
        nf = rng.randint(1, 5)
        ids = rng.sample(range(0, 3 * nf + 1), nf)
        if rng.random() < 0.5:
            ids.sort()
        if rng.random() < 0.25:
            # large ids whose low bytes collide or run against the real order (field ids are 32-bit in the reflection record)
            ids = gen.big_ids(rng, nf)
        fields = []
        total = 0
        var_can = can and rng.random() < 0.25
        if var_can:
            # variable-size payloads of at most 8 bytes: the DLC follows the value, message by message
            fields = rng.choice(VAR_CAN_SHAPES)
            fields = [(fn, ids[j] if j < len(ids) else 100 + j, t) for j, (fn, t) in enumerate(fields)]
            if len({f[1] for f in fields}) != len(fields):
                fields = [(fn, j, t) for j, (fn, _, t) in enumerate(fields)]
        for j in range(nf if not var_can else 0):
            if can and gran:
                t = rng.choice([("u", 8), ("i", 8), ("u", 16), ("i", 16), ("u", 32), ("i", 32), ("f32",), ("enum", "G0")])
                w = 32 if t[0] == "f32" else 8 if t[0] == "enum" else t[1]
                if total + w > 64:
                    continue
                total += w
            elif can:
                t = gen.scalar_type(rng, enames, hi=max(1, 64 - total))
                w = {"u": t[1] if t[0] in "ui" else 0}.get("u") if t[0] in ("u", "i") else (32 if t[0] == "f32" else 64 if t[0] == "f64" else gen.enum_bits(d.enum(t[1])))
                if total + w > 64:
                    continue
                total += w
            elif gran:
                t = granular_type(rng, 2, ["G0"], gprev[-3:])
            else:
                t = gen.type_tree(rng, 2, enames, prev[-3:] if prev else [], True)
            fields.append((f"f{j}", ids[j], t))
        if not fields:
            fields = [("f0", 0, ("u", 8))]
        name = rng.choice([f"S{s}", f"Msg{s}", f"Telemetry{s}"]) if can else f"S{s}"
        if not can and rng.random() < 0.12:
            # a user struct named like a struct of the built-in reflection schema (rendered by the same generator run)
            cand = rng.choice(REFLECTION_NAMES)
            if cand not in taken:
                name = cand
                taken.add(cand)
        d.structs.append((name, fields))
        if gran:
            gprev.append(name)
        if can:
            # also names that differ in letter case only, and names longer than the four characters of a frame's tag
            bus = rng.choice(["b", "b1", "bus", "can1", "ab", "x", "CAN1", "B1", "Bus", "X", "chassis", "powertrain", "canbus2"])
            # ids from a small pool half of the time: several bindings share an id on different buses (and now and then
            # on the same bus, where the first one wins in both wrappers and in the model)
            cid = rng.choice([0, 0, 7, 100, 1000, 2047]) if rng.random() < 0.5 else rng.randint(0, 2047)
            if rng.random() < 0.15:
                cid = rng.choice([65535, 65536, 70000, 0x18FF50E5, 2 ** 29 - 1, 65536 + 7])  # extended (29-bit) identifiers
            can_b = f'impl can for {name} {{\n    id: {cid},\n    bus: "{bus}",\n}}'
            if rng.random() < 0.3:
                # a binding of another protocol that carries an id and a bus too, before or after the CAN one: it is no CAN
                # binding; a frame with its (id, bus) is unknown unless a CAN binding has the same pair
                fbus, fid = rng.choice(["l0", "lin", "b", "b1", bus]), rng.choice([cid, cid + 1, 3, 0])
                other = f'impl {rng.choice(["lin", "uart", "CAN", "canfd"])} for {name} {{\n    id: {fid},\n    bus: "{fbus}",\n}}'
                extra += [other, can_b] if rng.random() < 0.5 else [can_b, other]
                d.foreign[name] = (fid, ([ord(c) for c in fbus] + [0] * 4)[:4])
            else:
                extra.append(can_b)
    if not can:
        # an enum that is reachable only through two container levels, and an Optional in front of plain fields
        d.enums.append(("N0", [("NA", 0), ("NB", 5), ("NC", 255)]))
        d.structs.append(("SN", [("a", 1, ("dyn", ("arr", ("enum", "N0"), 2))), ("b", 0, ("opt", ("arr", ("enum", "N0"), 2))),
                                 ("c", 2, ("u", 8))]))
    if not can:
        # bindings collected at the end of the file, also for structs that are nested in structs declared before the binding:
        # every per-protocol header must define a struct before the structs that contain it
        def mentions(t, name):
            return t == ("struct", name) or (t[0] in ("arr", "dyn", "opt") and mentions(t[1], name))
        nested = [n for k, (n, _) in enumerate(d.structs) if any(mentions(f[2], n) for _, fs in d.structs[k + 1:] for f in fs)]
        for j, n in enumerate(rng.sample(nested, min(len(nested), 3))):
            extra.append(f'impl {rng.choice(["can", "uart"])} for {n} {{\n    id: {700 + j},\n}}')
    d.extra = "\n".join(extra) + "\n"
    if not can and len(d.structs) >= 2 and rng.random() < 0.5:
        # services: the C++ generator derives rpc wrapper structs and id enums from them
        a, b = d.structs[0][0], d.structs[-1][0]
        d.extra += f"service Svc @ 1 {{\n    method ping({a}) @ 0 returns {b},\n    method pong({b}) @ 1 returns {a},\n}}\n"
    if rng.random() < 0.6:
        # texts outside ASCII in the schema itself (a unit, a binding's extension value): they travel through the reflection
        # record, so the run-time codec must still find every declaration behind them
        d.extra += 'struct UniText {\n    t @ 0: u8 | unit("\u00b0C"),\n    w @ 1: u16 | unit("\u03bc\u03a9\U0001f600"),\n}\n' \
                   'impl uart for UniText {\n    note: "\u20ac/h",\n}\n'
    return d


def json_value(d, t, py, dynamic=False):
    """JSON value handed to EncodeJson (static: enums as numbers; dynamic: enumerator names)"""
    k = t[0]
    if k == "enum" and dynamic:
        for n, v in d.enum(t[1]):
            if v == py:
                return n
        raise KeyError(py)
    if k == "struct":
        return {fn: json_value(d, ft, py[fn], dynamic) for fn, _, ft in d.struct(t[1])}
    if k in ("arr", "dyn"):
        return [json_value(d, t[1], x, dynamic) for x in py]
    if k == "opt":
        return None if py is None else json_value(d, t[1], py, dynamic)
    return py


def from_json(d, t, j, dynamic=False):
    """decoded JSON -> model value"""
    k = t[0]
    if k in ("u", "i"):
        if isinstance(j, bool) or not isinstance(j, int):
            raise TypeError(f"expected integer, got {j!r}")
        return j
    if k == "enum":
        if dynamic:
            for n, v in d.enum(t[1]):
                if n == j:
                    return v
            raise KeyError(j)
        return j
    if k == "f32":
        return gen.f2w32(float(j))
    if k == "f64":
        return gen.f2w64(float(j))
    if k == "str":
        return {"s": gen.text_bytes(j)}
    if k == "struct":
        if not isinstance(j, dict):
            raise TypeError("expected object")
        return [from_json(d, ft, j[fn], dynamic) for fn, _, ft in d.sorted_fields(t[1])]
    if k in ("arr", "dyn"):
        if j is None:
            j = []  # nlohmann prints an empty array built with push_back as null
        return [from_json(d, t[1], x, dynamic) for x in j]
    if k == "opt":
        return None if j is None else {"some": from_json(d, t[1], j, dynamic)}
    raise ValueError(t)


def gen_cpp_value(rng, d, t):
    """values inside the JSON-transportable domain: no infinities, unique-valued enumerators only,
    no Some(empty) for optionals of arrays at the top of an optional (JSON null ambiguity is the code's)"""
    for _ in range(50):
        py, mv = gen.gen_value(rng, d, t, long_ok=False)
        try:
            json_value(d, t, py, dynamic=True)
        except KeyError:
            continue  # an enum value that is not an enumerator cannot be named in the dynamic schema's JSON
        s = json.dumps(py) if _plain(py) else None
        if s is not None and "Infinity" not in s and "NaN" not in s and len(s) < 1500:
            return py, mv
    return None


def _plain(py):
    try:
        json.dumps(py)
        return True
    except Exception:
        return False


def enum_values_ok(d):
    for n, es in d.enums:
        vals = [v for _, v in es]
        if len(set(vals)) != len(vals):
            return False
    return True


def byte_granular(d, t):
    """class predicate of the recorded C13 finding: every scalar is a whole number of bytes"""
    k = t[0]
    if k in ("u", "i"):
        return t[1] % 8 == 0
    if k in ("f32", "f64", "str"):
        return True
    if k == "enum":
        return gen.enum_bits(d.enum(t[1])) % 8 == 0
    if k == "struct":
        return all(byte_granular(d, ft) for _, _, ft in d.struct(t[1]))
    return byte_granular(d, t[1])


def hexs(bs):
    return "".join(f"{b:02x}" for b in bs) or "-"


def run(prop, tier, replay=None):
    rep = Report(prop, tier)
    rng = random.Random(seed() * 7368787 + int(prop[1:]))
    rep.check_proofs()
    run_core(rep, prop, tier, rng)
    rep.cov["rule"] = ("schemas of ~14 structs each (every type constructor, nesting <= 2, ids shuffled vs declaration order; "
                       "for C18 flat CAN bindings named after their struct with bus names of 1..4 characters) generated with "
                       "fcp_cpp from /repo's templates, compiled once per schema with g++ -std=c++17 together with a generic JSON "
                       "driver; boundary/random values per struct; distinct by schema text, one evaluation per (struct, value, direction)")
    rep.assumptions += ["values travel as JSON: infinities and NaN excluded; enum values are distinct enumerators",
                        "g++ 12 decides 'compiles as C++17'"]
    return rep.finish()


def run_core(rep, prop, tier, rng):
    """the C++ back end for `prop`; C15 (reached from harness/dbc.py) runs permuted twins through encode and decode"""
    nb = {"C03": 6, "C13": 6, "C18": 6, "C15": 3}[prop] if tier == "quick" else {"C15": 12}.get(prop, 48)
    nv = 8 if tier == "quick" else 20
    can = prop == "C18"
    # enumerators of 2^31 and more only where the reflection record is not involved (it carries them in an i32: recorded
    # finding enumerator-beyond-i32, shown on its witness by `beyond_i32_witness`)
    descs = [gen_batch(rng, can=can, granular_share=0.5 if prop in ("C13", "C18") else 0.0, big=prop in ("C03", "C15"))
             for _ in range(nb)]
    if prop in ("C13", "C18") and known(prop, "enumerator-beyond-i32"):
        beyond_i32_witness(rep, prop)
    if prop == "C03":
        exhaustive_types(rep)
        service_edge_probe(rep)
        if known("C03", "reserved-word-identifiers"):
            reserved_word_witness(rep)
    fixed_jobs = {}
    if prop in ("C03", "C13"):
        wd, wjobs = widths_desc(big=prop == "C03")
        fixed_jobs[len(descs)] = wjobs
        descs.append(wd)
    sanitize = os.environ.get("VERIF_CPP_SANITIZE", "1") != "0"
    if prop == "C15":
        descs = descs + [d.permuted(rng) for d in descs]
    if prop == "C18" and not PRIMER_BLOB:
        pg = run_cases("harness.cpp", "w_gen_cpp", [{"text": PRIMER_TEXT}], timeout_s=300, chunk=1)[0]
        if "ok" in pg:
            PRIMER_BLOB.append(pg["ok"]["reflection"])
        rep.hist("second_runtime_schema_in_process", "primer record loaded first" if PRIMER_BLOB else "not available")
    gens = run_cases("harness.cpp", "w_gen_cpp", [dict({"text": d.text()}, **({"primer": gen.kind_swapped_primer(d)} if k % 2 == 0 else {}))
                                                  for k, d in enumerate(descs)], timeout_s=300, chunk=1)

    def build_one(k):
        g = gens[k]
        if "ok" not in g:
            return None, None, json.dumps(g)[:1500]
        return build_cpp(g["ok"]["files"], g["ok"]["reflection"], sanitize=sanitize, protos=prop in ("C03", "C15"))

    builds = cbuild.parallel(build_one, range(len(descs)))
    try:
        results = {}
        for k, d in enumerate(descs):
            text = d.text()
            rep.count(text)
            b = builds[k]
            if b[1] is None:
                rep.cov["disagreements_checked"] += 1
                rep.hist("outcome", "no-compile")
                rep.violation({"kind": "compile", "schema": text, "compiler": first_error(b[2]),
                               "what": "the generated C++ does not compile as C++17 (or generation raised)"})
                continue
            rep.hist("outcome", "compiled")
            if not gens[k]["ok"].get("regen_same", True) or not gens[k]["ok"].get("schema_untouched", True):
                rep.cov["disagreements_checked"] += 1
                rep.violation({"kind": "regeneration", "schema": text,
                               "regenerated_identical": gens[k]["ok"].get("regen_same"),
                               "parsed_schema_untouched": gens[k]["ok"].get("schema_untouched"),
                               "what": "generating the C++ a second time from the same parsed schema gives other headers than the "
                                       "first time, or generation modified the caller's schema"})
                continue
            results[k] = exercise(rep, prop, rng, d, gens[k]["ok"], b, nv, tier, fixed=fixed_jobs.get(k),
                                  twin_of=(descs[k - len(descs) // 2], results.get(k - len(descs) // 2))
                                  if prop == "C15" and k >= len(descs) // 2 else None)
    finally:
        for dd, exe, out in builds:
            if dd:
                shutil.rmtree(dd, ignore_errors=True)
    return None


def reserved_word_witness(rep):
    """recorded finding reserved-word-identifiers on its witness (silent once the generated header compiles)"""
    text = 'version: "3"\n\nstruct S {\n    new @ 0: u8,\n}\n'
    g = run_cases("harness.cpp", "w_gen_cpp", [{"text": text}], timeout_s=300, chunk=1)[0]
    if "ok" not in g:
        return
    d = tempfile.mkdtemp(prefix="fcpcxx_")
    try:
        for name, contents in g["ok"]["files"].items():
            with open(os.path.join(d, name), "w") as f:
                f.write(contents)
        with open(os.path.join(d, "t.cpp"), "w") as f:
            f.write('#include "fcp.h"\nint main() { return 0; }\n')
        p = subprocess.run(["g++", "-std=c++17", "-fsyntax-only", "-w", "-I", str(VENDOR), "-I", d, os.path.join(d, "t.cpp")],
                           stdout=subprocess.PIPE, stderr=subprocess.STDOUT, text=True, timeout=600)
        rep.hist("reserved_word_witness", "compiles" if p.returncode == 0 else "does not compile")
        if p.returncode != 0:
            rep.known_finding("a struct, field, enum or enumerator named like a C++ reserved word is accepted by parser and verifier "
                              "and written verbatim: the generated fcp.h does not compile (witness: struct S { new @0: u8 })")
    finally:
        shutil.rmtree(d, ignore_errors=True)


def beyond_i32_witness(rep, prop):
    """the recorded finding on its witness: the reflection-loaded codec and the static one disagree on an enum with an
    enumerator >= 2^31 (nothing is printed once they agree)"""
    text = 'version: "3"\n\nenum E {\n    A = 0,\n    B = 4294967301,\n}\nstruct S {\n    e @ 0: E,\n    t @ 1: u8,\n}\n'
    if prop == "C18":
        text += 'impl can for S {\n    id: 10,\n    bus: "b1",\n}\n'
    g = run_cases("harness.cpp", "w_gen_cpp", [{"text": text}], timeout_s=300, chunk=1)[0]
    if "ok" not in g:
        return
    dd, exe, out = build_cpp(g["ok"]["files"], g["ok"]["reflection"], sanitize=False)
    try:
        if exe is None:
            return
        val = json.dumps({"e": 4294967301, "t": 165})
        dval = json.dumps({"e": "B", "t": 165})
        if prop == "C18":
            lines = ["CE s S " + val, "CE d S " + dval]
        else:
            lines = ["SE S " + val, "DE S " + dval]
        try:
            rc, o, err = talk(exe, os.path.join(dd, "schema.bin"), lines)
        except subprocess.TimeoutExpired:
            rc, o = 1, []
        rep.hist("beyond_i32_witness", "differs" if rc != 0 or len(o) != 2 or o[0] != o[1] else "agrees")
        if rc != 0 or len(o) != 2 or o[0] != o[1]:
            rep.known_finding("an enum with an enumerator >= 2^31 reaches the reflection-loaded C++ codec through the i32 of the "
                              "reflection record (C12 enumerator-beyond-i32): it encodes differently from the static codec "
                              "(witness: enum E { A = 0, B = 4294967301 } struct S { e @0: E, t @1: u8 }, e = B)")
    finally:
        shutil.rmtree(dd, ignore_errors=True)


def first_error(out):
    for line in (out or "").split("\n"):
        if "error" in line:
            return line[:400]
    return (out or "")[-600:]


PRIMER_TEXT = 'version: "3"\n\nstruct PrimerMsg {\n    v @ 0: u8,\n}\nimpl can for PrimerMsg {\n    id: 7,\n    bus: "b",\n}\n'
PRIMER_BLOB = []  # reflection record of PRIMER_TEXT, made once per run (C18)


def talk(exe, refl_path, lines):
    # C18: a second reflection record, loaded into a first run-time CAN schema object that serves one frame before the schema
    # under test is used in the same process (a gateway between two networks)
    primer = os.path.join(os.path.dirname(refl_path), "primer.bin")
    if PRIMER_BLOB and not os.path.exists(primer):
        with open(primer, "wb") as f:
            f.write(bytes(PRIMER_BLOB[0]))
    p = subprocess.run([exe, refl_path] + ([primer] if PRIMER_BLOB else []), input="\n".join(lines) + "\n", stdout=subprocess.PIPE, stderr=subprocess.PIPE,
                       text=True, timeout=300, env=dict(os.environ, ASAN_OPTIONS="detect_leaks=0"))
    return p.returncode, [l for l in p.stdout.split("\n") if l != ""], p.stderr


def widths_desc(big=False):
    """every integer width 1..64, signed and unsigned, with the boundary values of each: the sign extension of
    `GetWord`, the carrier cast and the bit loop of `PushWord` are exercised exhaustively over the width"""
    d = gen.Desc()
    jobs = []
    for n in range(1, 65):
        name = f"W{n}"
        d.structs.append((name, [("s", 1, ("i", n)), ("u", 0, ("u", n)), ("t", 2, ("i", n))]))
        lo, hi = -(1 << (n - 1)), (1 << (n - 1)) - 1
        svals = sorted({lo, min(lo + 1, hi), -1, 0, min(1, hi), max(hi - 1, lo), hi, lo // 2, hi // 2, lo // 3})
        uvals = sorted({0, 1, (1 << n) - 1, 1 << (n - 1), ((1 << n) - 1) // 3, max((1 << n) - 2, 0)})
        for i, sv in enumerate(svals):
            uv = uvals[i % len(uvals)]
            tv = svals[(i * 7 + 3) % len(svals)]
            py = {"s": sv, "u": uv, "t": tv}
            jobs.append((name, py, gen.to_model(d, ("struct", name), py)))
    # enums at every width boundary (largest value 0 included), each followed by a byte that shows any shift
    # ... and beyond 31 and 32 bits, where the JSON conversions and the carrier type of the enum class matter
    for m in (0, 1, 2, 3, 4, 7, 8, 15, 16, 255, 256, 1000, 65535, 65536, 2 ** 30, 2 ** 31 - 2, 2 ** 31 - 1) + \
            ((2 ** 31, 2 ** 32 - 1, 2 ** 32, 2 ** 32 + 5, 2 ** 40, 2 ** 62 + 1, 2 ** 63) if big else ()):
        vals = sorted({0, m, m // 2})
        d.enums.append((f"En{m}", [(f"K{m}_{v}", v) for v in vals]))
        name = f"WE{m}"
        d.structs.append((name, [("e", 0, ("enum", f"En{m}")), ("t", 1, ("u", 8)), ("e2", 2, ("enum", f"En{m}"))]))
        for v in vals:
            py = {"e": v, "t": 0xA5, "e2": vals[-1]}
            jobs.append((name, py, gen.to_model(d, ("struct", name), py)))
    # containers of every common element type, starting on a byte boundary and 3 bits past one: a fast path for one element
    # type (bytes copied in blocks, say) must agree with the bit-by-bit codec at every alignment
    import random as _random
    crng = _random.Random(20240929)
    d.enums.append(("CE", [("CA", 0), ("CB", 2), ("CC", 5)]))
    elems = [("u", 8), ("i", 8), ("u", 16), ("u", 1), ("u", 4), ("f32",), ("enum", "CE")]
    k = 0
    for el in elems:
        for cont in (("arr", el, 3), ("dyn", el), ("opt", el), ("arr", ("arr", el, 2), 2), ("opt", ("arr", el, 4)), ("dyn", ("arr", el, 2))):
            for pad in (0, 3):
                name = f"CT{k}"
                k += 1
                fs = ([("p", 0, ("u", pad))] if pad else []) + [("x", 1, cont), ("q", 2, ("u", 3))]
                d.structs.append((name, fs))
                for _ in range(2):
                    r = gen_cpp_value(crng, d, ("struct", name))
                    if r:
                        jobs.append((name, r[0], r[1]))
    # fixed arrays whose element count needs more than 16 bits (the count travels in the reflection record as Type.size)
    for el, n, pad in ((("u", 1), 65537, 3), (("u", 8), 65536, 0), (("i", 16), 66000, 0)):
        name = f"CT{k}"
        k += 1
        d.structs.append((name, ([("p", 0, ("u", pad))] if pad else []) + [("x", 1, ("arr", el, n)), ("q", 2, ("u", 3))]))
        lo, hi = (0, (1 << el[1]) - 1) if el[0] == "u" else (-(1 << (el[1] - 1)), (1 << (el[1] - 1)) - 1)
        py = dict({"x": [crng.randint(lo, hi) for _ in range(n)], "q": 5}, **({"p": (1 << pad) - 1} if pad else {}))
        jobs.append((name, py, gen.to_model(d, ("struct", name), py)))
    # counts in front of strings and dynamic arrays that need more than 8 and more than 16 bits
    for el, n, pad in ((("u", 8), 256, 0), (("u", 3), 300, 3), (("i", 16), 1000, 0), (("u", 1), 70000, 1)):
        name = f"CT{k}"
        k += 1
        d.structs.append((name, ([("p", 0, ("u", pad))] if pad else []) + [("x", 1, ("dyn", el)), ("q", 2, ("u", 3))]))
        lo, hi = (0, (1 << el[1]) - 1) if el[0] == "u" else (-(1 << (el[1] - 1)) + 1, (1 << (el[1] - 1)) - 1)
        py = dict({"x": [crng.randint(lo, hi) for _ in range(n)], "q": 5}, **({"p": (1 << pad) - 1} if pad else {}))
        jobs.append((name, py, gen.to_model(d, ("struct", name), py)))
    for n in (255, 256, 300, 70000):
        name = f"CT{k}"
        k += 1
        d.structs.append((name, [("p", 0, ("u", 5)), ("x", 1, ("str",)), ("q", 2, ("u", 3))]))
        py = {"p": 21, "x": "".join(chr(crng.randint(32, 126)) for _ in range(n - 2)) + "\u00e9", "q": 5}
        jobs.append((name, py, gen.to_model(d, ("struct", name), py)))
    for pad in (0, 3, 7):
        name = f"CT{k}"
        k += 1
        d.structs.append((name, ([("p", 0, ("u", pad))] if pad else []) + [("x", 1, ("str",)), ("q", 2, ("u", 3))]))
        for txt in ("", "fcp", "\u00b0C \u20ac"):
            py = dict({"x": txt, "q": 5}, **({"p": (1 << pad) - 1} if pad else {}))
            jobs.append((name, py, gen.to_model(d, ("struct", name), py)))
    return d, jobs


def exercise(rep, prop, rng, d, g, build, nv, tier, twin_of=None, fixed=None):
    ddir, exe, _ = build
    sd = g["schema"]
    wire = schema_to_wire(sd)
    text = d.text()
    jobs = []  # (struct, py, mv)
    if fixed is not None:
        jobs = list(fixed)
    elif twin_of is not None and twin_of[1] is not None:
        jobs = [(n, py, mv) for (n, py, mv, _) in twin_of[1]]
    else:
        for name, fs in d.structs:
            for _ in range(nv):
                r = gen_cpp_value(rng, d, ("struct", name))
                if r:
                    jobs.append((name, r[0], r[1]))
    # canonical bytes from the Lean specification
    model = run_codec_grouped([(wire, n, {"value": mv, "no_py": True}) for n, py, mv in jobs])
    lines = []
    # the reflection-loaded codec answers too: always for C13; for C15 (field order in every back end) when the schema's
    # enumerators fit the i32 of the reflection record (recorded finding enumerator-beyond-i32 otherwise)
    dyn = prop == "C13" or (prop == "C15" and all(-2 ** 31 <= v < 2 ** 31 for _, es in d.enums for _, v in es))
    rep.hist("run_time_codec_exercised", bool(dyn))
    for n, py, mv in jobs:
        t = ("struct", n)
        lines.append("SE " + n + " " + json.dumps(json_value(d, t, py)))
        if dyn:
            lines.append("DE " + n + " " + json.dumps(json_value(d, t, py, dynamic=True)))
    rc, out, err = talk(exe, os.path.join(ddir, "schema.bin"), lines)
    if len(out) != len(lines):
        rep.violation({"kind": "driver-output", "schema": text, "rc": rc, "stderr": err[-400:], "got": len(out), "want": len(lines),
                       "what": "the compiled driver crashed or answered fewer lines than commands"}, no_input=rc == 0)
        return None
    res = []
    it = iter(out)
    dec_lines = []
    dec_meta = []
    for (n, py, mv), m in zip(jobs, model):
        t = ("struct", n)
        se = next(it)
        de = next(it) if dyn else None
        rep.cov["evaluations"] += 1
        base = {"schema": text, "struct": n, "value": mv, "json": json_value(d, t, py)}
        spec = m.get("spec_bytes")
        if not m.get("wf") or spec is None:
            rep.hist("harness_problem", "model could not take value")
            continue
        res.append((n, py, mv, se))
        if m.get("cpp_bytes") != spec or not m.get("widths"):
            rep.violation(dict(base, kind="model", what="Lean C++ model differs from the Lean specification (theorem cppEnc_eq "
                               "no longer describes the driver)"), no_input=True)
            continue
        if se != "B " + hexs(m["cpp_bytes"]):
            rep.cov["disagreements_checked"] += 1
            if prop in ("C03", "C15", "C13", "C18"):
                rep.violation(dict(base, kind="static-encode", observed=se, expected=hexs(spec),
                                   what="static C++ encoder output differs from the canonical wire bytes"))
            continue
        dec_lines.append("SD " + n + " " + hexs(spec))
        dec_meta.append(("SD", n, py, mv))
        if dyn:
            rep.hist("dynamic_encode_compared", "byte-granular" if byte_granular(d, t) else "sub-byte")
            if byte_granular(d, t) != m.get("byte_granular"):
                rep.violation(dict(base, kind="harness", what="ByteGranular predicate of the harness and of Lean differ"), no_input=True)
            if de != se:
                rep.cov["disagreements_checked"] += 1
                # the finding is exactly the behaviour of the whole-byte model `Cpp.dynEnc`
                if (not m.get("byte_granular") and de == "B " + hexs(m["dyn_bytes"])
                        and known("C13", "dynamic-encode-not-bit-packed")):
                    rep.hist("dynamic_encode_compared", "sub-byte: equals whole-byte model dynEnc")
                    rep.known_finding("run-time (reflection-loaded) C++ encoder packs every field into whole bytes: it differs from "
                                      "the static encoder whenever a scalar is not a multiple of 8 bits (witness: struct {a: u3, b: u5})")
                else:
                    rep.violation(dict(base, kind="dynamic-encode", observed=de, expected=se,
                                       what="reflection-loaded C++ encoder differs from the static one"))
            dec_lines.append("DD " + n + " " + hexs(spec))
            dec_meta.append(("DD", n, py, mv))
    if dec_lines:
        rc, out, err = talk(exe, os.path.join(ddir, "schema.bin"), dec_lines)
        if len(out) != len(dec_lines):
            rep.violation({"kind": "driver-output", "schema": text, "rc": rc, "stderr": err[-400:],
                           "what": "the compiled driver crashed while decoding"}, no_input=rc == 0)
            return res
        for (cmd, n, py, mv), o in zip(dec_meta, out):
            rep.cov["evaluations"] += 1
            t = ("struct", n)
            base = {"schema": text, "struct": n, "value": mv, "command": cmd}
            try:
                if not o.startswith("J "):
                    raise ValueError(o)
                got = from_json(d, t, json.loads(o[2:]), dynamic=(cmd == "DD"))
            except Exception as ex:
                got = {"undecodable": str(ex)[:100], "raw": o[:200]}
            want = mv
            if not same_model_value(d, t, got, want):
                rep.cov["disagreements_checked"] += 1
                rep.violation(dict(base, kind="static-decode" if cmd == "SD" else "dynamic-decode", observed=got, raw=o[:300],
                                   what=("static" if cmd == "SD" else "reflection-loaded") +
                                   " C++ decoder does not map the canonical bytes back to the value"))
    if prop in ("C03", "C15"):
        exercise_protocol_headers(rep, d, build, jobs, res, dec_lines)
    if prop == "C18":
        exercise_can(rep, rng, d, g, build, jobs, model)
    if twin_of is not None and twin_of[1] is not None:
        a = [x[3] for x in twin_of[1]]
        b = [x[3] for x in res]
        if a != b:
            rep.cov["disagreements_checked"] += 1
            rep.violation({"kind": "twin-cpp", "schema": twin_of[0].text(), "twin": text,
                           "what": "generated C++ bytes change when field declarations are permuted (ids fixed)"})
    return res


def exercise_protocol_headers(rep, d, build, jobs, res, dec_lines):
    """`fcp_<protocol>.h` renders the same template for the bindings of one protocol: it must compile, and its
    StaticSchema must answer exactly like the one of fcp.h (here: protocol `default`, one binding per struct)"""
    ddir, exe, _ = build
    text = d.text()
    for proto, (pexe, pout) in sorted(PROTO_BUILDS.get(ddir, {}).items()):
        rep.hist("protocol_header", proto + (": compiled" if pexe else ": no-compile"))
        if pexe is None:
            rep.cov["disagreements_checked"] += 1
            rep.violation({"kind": "compile-protocol-header", "schema": text, "header": f"fcp_{proto}.h", "compiler": first_error(pout),
                           "what": "a generated per-protocol C++ header does not compile as C++17"})
            continue
        if proto != "default":
            continue
        enc = [(n, py, se) for (n, py, mv, se) in res]
        lines = ["PE " + n + " " + json.dumps(json_value(d, ("struct", n), py)) for n, py, se in enc]
        dl = [l for l in dec_lines if l.startswith("SD ")]
        lines += ["PD" + l[2:] for l in dl]
        if not lines:
            continue
        p = subprocess.run([pexe], input="\n".join(lines) + "\n", stdout=subprocess.PIPE, stderr=subprocess.PIPE, text=True,
                           timeout=300, env=dict(os.environ, ASAN_OPTIONS="detect_leaks=0"))
        out = [l for l in p.stdout.split("\n") if l != ""]
        if len(out) != len(lines):
            rep.violation({"kind": "driver-output", "schema": text, "rc": p.returncode, "stderr": p.stderr[-400:],
                           "what": "the driver of fcp_default.h crashed or answered fewer lines than commands"}, no_input=p.returncode == 0)
            continue
        # static answers to compare with
        rc, sout, _ = talk(exe, os.path.join(ddir, "schema.bin"), dl) if dl else (0, [], "")
        for (n, py, se), o in zip(enc, out):
            rep.cov["evaluations"] += 1
            if o != se:
                rep.cov["disagreements_checked"] += 1
                rep.violation({"kind": "protocol-header-encode", "schema": text, "struct": n, "json": json_value(d, ("struct", n), py),
                               "observed": o, "expected": se,
                               "what": "fcp_default.h encodes a struct differently from fcp.h (same template, same schema)"})
        for l, o, so in zip(dl, out[len(enc):], sout):
            rep.cov["evaluations"] += 1
            if o != so:
                rep.cov["disagreements_checked"] += 1
                rep.violation({"kind": "protocol-header-decode", "schema": text, "command": l, "observed": o, "expected": so,
                               "what": "fcp_default.h decodes differently from fcp.h (same template, same schema)"})


def same_model_value(d, t, a, b):
    """decoded == original; f32/f64 through JSON text are exact for finite values; Python cannot
    tell Some(None) from None, the C++ side can: compare after flattening on both sides"""
    return gen.canon_nan(d, t, a) == gen.canon_nan(d, t, b)


def known(prop, fid):
    return any(f.get("property") == prop and f.get("id") == fid and f.get("status") == "open" for f in load_findings())


def exercise_can(rep, rng, d, g, build, jobs, model):
    """expected frames and decodes come from the Lean model `Cpp.encodeFrame` / `Cpp.decodeFrame` over the binding
    table in declaration order (first match wins, as in both C++ wrappers)"""
    from .common import run_driver
    ddir, exe, _ = build
    sd = g["schema"]
    wire = schema_to_wire(sd)
    text = d.text()
    blist = [i for i in sd["impls"] if i["protocol"] == "can"]
    impls = {}
    for i in blist:
        impls.setdefault(i["name"], i)
    bindings = [{"name": i["name"], "id": i["fields"]["id"], "bus": [ord(c) for c in i["fields"]["bus"]]} for i in blist]
    FINDING = ("run-time (reflection-loaded) C++ encoder packs every field into whole bytes: it differs from "
               "the static encoder whenever a scalar is not a multiple of 8 bits (witness: struct {a: u3, b: u5})")
    lines = []
    meta = []
    items = []
    for (n, py, mv), m in zip(jobs, model):
        if n not in impls or not m.get("wf") or len(m.get("spec_bytes", [])) > 8:
            continue
        t = ("struct", n)
        rep.hist("can_payload_bytes", len(m["spec_bytes"]))
        for which in ("s", "d"):
            if which == "d" and not m["byte_granular"] and len(m["dyn_bytes"]) > 8:
                # the whole-byte encoding does not fit the 8-byte data field: the copy would run past it
                if known("C13", "dynamic-encode-not-bit-packed"):
                    rep.known_finding(FINDING)
                    continue
            lines.append(f"CE {which} {n} " + json.dumps(json_value(d, t, py, dynamic=(which == "d"))))
            meta.append((which, n, py, mv, m))
            items.append({"encode": {"name": n, "value": mv}})
    if not lines:
        return
    lean = run_driver([{"op": "frame", "schema": wire, "bindings": bindings, "items": items}])[0]
    if "items" not in lean:
        rep.violation({"kind": "harness", "observed": lean}, no_input=True)
        return
    rc, out, err = talk(exe, os.path.join(ddir, "schema.bin"), lines)
    if len(out) != len(lines):
        k = min(len(out), len(lines) - 1)
        rep.violation({"kind": "driver-output", "schema": text, "rc": rc, "stderr": err[-600:], "command": lines[k],
                       "what": "the compiled driver crashed (or a sanitizer stopped it) in the CAN wrapper"}, no_input=rc == 0)
        return

    def fline(f):
        return f"F {hexs(f['bus'])} {f['sid']} {f['dlc']} {hexs(f['data'])}"

    dec = []
    dmeta = []
    ditems = []
    for (which, n, py, mv, m), o, lf in zip(meta, out, lean["items"]):
        rep.cov["evaluations"] += 1
        spec = m["spec_bytes"]
        if "none" in lf or lf["dlc"] != len(spec) or lf["data"][:len(spec)] != spec:
            rep.violation({"kind": "model", "what": "Lean frame model inconsistent with the codec model", "lean": lf}, no_input=True)
            continue
        want = fline(lf)
        base = {"schema": text, "binding": n, "value": mv, "schema_kind": "static" if which == "s" else "dynamic"}
        if o != want:
            rep.cov["disagreements_checked"] += 1
            dynf = dict(lf, dlc=len(m["dyn_bytes"]), data=m["dyn_bytes"] + [0] * (8 - len(m["dyn_bytes"])))
            if which == "d" and not m["byte_granular"] and o == fline(dynf) and known("C13", "dynamic-encode-not-bit-packed"):
                rep.known_finding(FINDING)
                continue
            rep.violation(dict(base, kind="can-encode", observed=o, expected=want,
                               what="CAN frame does not carry the binding's bus / id / DLC / canonical payload"))
            continue
        # decode the frame back, and frames with a non-matching (id, bus)
        frames = [lf, dict(lf, sid=lf["sid"] + 1), dict(lf, sid=lf["sid"] % 65536 if lf["sid"] > 65535 else lf["sid"] + 65536), dict(lf, bus=[122, 122, 0, 0]),
                  dict(lf, bus=(lf["bus"][:1] + [0, 0, 0]) if lf["bus"][1] else (lf["bus"][:1] + [113, 0, 0]))]
        if n in getattr(d, "foreign", {}):
            frames.append(dict(lf, sid=d.foreign[n][0], bus=d.foreign[n][1]))
            rep.hist("look_alike_binding_frames", "sent")
        for f in frames:
            dec.append(f"CD {which} {hexs(f['bus'])} {f['sid']} {f['dlc']} {hexs(f['data'])}")
            dmeta.append((which, n, mv))
            ditems.append({"decode": f})
    if not dec:
        return
    lean = run_driver([{"op": "frame", "schema": wire, "bindings": bindings, "items": ditems}])[0]
    if "items" in lean:
        # an altered frame may match another binding: its data is then foreign; it is a meaningful input only if it
        # is an encoding of a value of that binding (enum fields holding enumerators) — otherwise outside the property
        def foreign_ok(lf):
            if "undecodable_for" in lf:
                return False  # matches a binding, but the data is no encoding of a value of it (e.g. announces more than 8 bytes)
            if "none" in lf:
                return True
            for (fn, fid, t), v in zip(d.sorted_fields(lf["name"]), lf["value"]):
                if t[0] == "enum" and v not in [val for _, val in d.enum(t[1])]:
                    return False
                if t[0] == "f32" and (v >> 23) & 0xFF == 0xFF or t[0] == "f64" and (v >> 52) & 0x7FF == 0x7FF:
                    return False  # NaN / infinity do not travel through JSON
            return True
        keep = [i for i, (lf, (w_, n_, mv_)) in enumerate(zip(lean["items"], dmeta)) if lf.get("name") == n_ or foreign_ok(lf)]
        rep.cov["foreign_frames_skipped"] = rep.cov.get("foreign_frames_skipped", 0) + len(dec) - len(keep)
        dec = [dec[i] for i in keep]
        dmeta = [dmeta[i] for i in keep]
        lean["items"] = [lean["items"][i] for i in keep]
    rc, out, err = talk(exe, os.path.join(ddir, "schema.bin"), dec)
    if len(out) != len(dec) or "items" not in lean:
        k = min(len(out), len(dec) - 1)
        rep.violation({"kind": "driver-output", "schema": text, "rc": rc, "stderr": err[-600:], "command": dec[k],
                       "what": "the compiled driver crashed (or a sanitizer stopped it) in the CAN wrapper (decode)"},
                      no_input=rc == 0)
        return
    for (which, n, mv), o, cmd, lf in zip(dmeta, out, dec, lean["items"]):
        rep.cov["evaluations"] += 1
        base = {"schema": text, "binding": n, "value": mv, "command": cmd, "schema_kind": "static" if which == "s" else "dynamic"}
        if "none" in lf:
            rep.hist("can_decode", "unknown (id, bus)")
            if o != "N":
                rep.cov["disagreements_checked"] += 1
                rep.violation(dict(base, kind="can-unknown", observed=o[:200],
                                   what="a frame whose (id, bus) matches no binding was not reported as unknown"))
            continue
        rep.hist("can_decode", "matched" if lf["name"] == n else "matched another binding")
        ok = False
        if o.startswith("M "):
            nm, _, js = o[2:].partition(" ")
            try:
                got = from_json(d, ("struct", lf["name"]), json.loads(js), dynamic=(which == "d"))
                ok = nm == lf["name"] and same_model_value(d, ("struct", lf["name"]), got, lf["value"])
            except Exception:
                ok = False
        if not ok:
            rep.cov["disagreements_checked"] += 1
            rep.violation(dict(base, kind="can-decode", observed=o[:300], expected={"name": lf["name"], "value": lf["value"]},
                               what="decoding the frame does not return the binding's name and the original value"))


def exhaustive_types(rep):
    """integer-model ties that use float log2 in the implementation: exhaustive on 1..64 and around powers of two"""
    ms = sorted(set([0, 1, 2, 3] + [x for k in range(1, 65) for x in ((1 << k) - 1, 1 << k, (1 << k) + 1) if x < (1 << 64)]))
    r = run_cases("harness.cpp", "w_type_names", [{"enum_max": ms}], timeout_s=60)[0]
    if "ok" not in r:
        rep.violation({"kind": "harness", "observed": r}, no_input=True)
        return
    o = r["ok"]
    from .common import run_driver
    lean = run_driver([{"op": "cpp", "carrier": list(range(0, 65)), "enum_max": ms, "getword": []}])[0]
    for n in range(1, 65):
        rep.cov["evaluations"] += 1
        want = lean["carrier"][n]
        if want != max(8, 1 << (n - 1).bit_length()):
            rep.violation({"kind": "harness", "what": "Lean carrier differs from the closed formula", "width": n}, no_input=True)
        got = o["carrier"][n]
        if got != want:
            rep.cov["disagreements_checked"] += 1
            rep.violation({"kind": "carrier", "width": n, "observed": got, "expected": want,
                           "what": "carrier type is not the smallest standard width holding the field"})
    for m, want in zip(ms, lean["enum_bits"]):
        rep.cov["evaluations"] += 1
        got = o["enum_bits"][str(m)]
        if got != want:
            rep.cov["disagreements_checked"] += 1
            rep.violation({"kind": "enum-bits", "max": m, "observed": got, "expected": want,
                           "what": "enum packed size is not the minimal bit width"})
    rep.cov["exhaustive_types"] = {"carrier_widths": 64, "enum_max_values": len(ms)}
