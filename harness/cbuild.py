"""Generate C with the real fcp_can_c plug-in from /repo's current templates, compile with gcc, run."""
import os
import shutil
import subprocess
import tempfile
from concurrent.futures import ThreadPoolExecutor

_cache = {}


_GEN = {}
_GEN_CALLS = [0]


def _plugin_generator(mod):
    """every second call in a worker process re-uses one long-lived generator object of the plug-in (a tool that generates
    several schemas in a row keeps it); the others get a fresh one"""
    _GEN_CALLS[0] += 1
    if _GEN_CALLS[0] % 2 == 0:
        if mod.__name__ not in _GEN:
            _GEN[mod.__name__] = mod.Generator()
        return _GEN[mod.__name__]
    return mod.Generator()


def w_gen_c(case):
    """worker: schema text -> generated files (name -> contents) + schema dict"""
    import tempfile as _t
    from fcp.parser import get_fcp_from_string
    from fcp.error import Logger
    import fcp_can_c

    r = get_fcp_from_string(case["text"], Logger({}))
    if r.is_err():
        raise RuntimeError("schema rejected: " + repr(r.err()))
    fcp = r.unwrap()
    out = _t.mkdtemp(prefix="fcpc_")
    try:
        files = _plugin_generator(fcp_can_c).generate(fcp, {"output": out})
        return {"files": {os.path.basename(str(f["path"])): str(f["contents"]) for f in files},
                "schema": fcp.to_dict()}
    finally:
        shutil.rmtree(out, ignore_errors=True)


def build(files, main_c, extra_flags=()):
    """write files + main.c to a temp dir, compile; returns (dir, exe or None, compiler output)"""
    d = tempfile.mkdtemp(prefix="fcpbuild_")
    for name, contents in files.items():
        with open(os.path.join(d, name), "w") as f:
            f.write(contents)
    with open(os.path.join(d, "main.c"), "w") as f:
        f.write(main_c)
    srcs = [n for n in files if n.endswith(".c")] + ["main.c"]
    exe = os.path.join(d, "prog")
    p = subprocess.run(
        ["gcc", "-std=gnu11", "-O1", "-w", "-I", d, *srcs, "-o", exe, *extra_flags],
        cwd=d, stdout=subprocess.PIPE, stderr=subprocess.STDOUT, text=True, timeout=120,
    )
    if p.returncode != 0:
        return d, None, p.stdout
    return d, exe, p.stdout


def run(exe, stdin_text="", args=(), timeout=20):
    p = subprocess.run([exe, *args], input=stdin_text, stdout=subprocess.PIPE, stderr=subprocess.PIPE,
                       text=True, timeout=timeout)
    return p.returncode, p.stdout, p.stderr


def cleanup(d):
    shutil.rmtree(d, ignore_errors=True)


def parallel(fn, items, n=16):
    with ThreadPoolExecutor(n) as ex:
        return list(ex.map(fn, items))
