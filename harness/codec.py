"""C01 / C02 / C16 (and the Python part of C15): the Python codec against the Lean
models `PyCodec` (transliteration of serde.py) and `Wire` (canonical format)."""
import json
import random

from . import gen
from .common import Report, run_driver_parallel, run_codec_grouped, seed, log, load_findings
from .impl import run_cases, schema_to_wire

# ------------------------------------------------------------------ implementation side (workers)

_cache = {}


def _schema(text):
    from .impl import parse

    if text not in _cache:
        if len(_cache) > 64:
            _cache.clear()
        r = parse(text)  # a schema text, or a schema spread over module files (impl.files_text)
        if r.is_err():
            raise RuntimeError("schema rejected: " + repr(r.err()))
        _cache[text] = r.unwrap()
    return _cache[text]


def w_schema_dict(case):
    return _schema(case["text"]).to_dict()


def _schema_shuffled(text, shuffle_seed):
    """the parsed tree with every struct's `fields` list shuffled (a hand-built or post-processed AST: `encode`
    takes any FcpV2 and must serialize in ascending field id whatever the list order)"""
    import copy
    key = (text, shuffle_seed)
    if key not in _cache:
        f = copy.deepcopy(_schema(text))
        r = random.Random(shuffle_seed)
        for st in f.structs:
            r.shuffle(st.fields)
        _cache[key] = f
    return _cache[key]


_held = []  # (object returned by an earlier encode(), its contents at that time, the case)


class EncodeResultClobbered(Exception):
    pass


class DecodeResultClobbered(Exception):
    pass


_held_dec = None


def w_encode(case):
    from fcp import serde

    fcp = _schema(case["text"]) if not case.get("ast_shuffle") else _schema_shuffled(case["text"], case["ast_shuffle"])
    raw = serde.encode(fcp, case["struct"], case["value"])
    out = list(raw)
    # results handed out earlier must not change when encode() is called again (shared output buffer)
    for praw, pcopy, pcase in _held:
        if list(praw) != pcopy:
            del _held[:]
            raise EncodeResultClobbered(
                "bytes returned by an earlier encode() changed after a later encode(): earlier call "
                + json.dumps({"struct": pcase["struct"], "value": repr(pcase["value"])[:200], "schema": pcase["text"][:300],
                              "returned": pcopy[:40], "now": list(praw)[:40]}))
    _held.append((raw, out, case))
    if len(_held) > 3:
        _held.pop(0)
    return out


class _Counter:
    def __init__(self):
        self.reads = 0
        self.decodes = 0


def w_decode(case):
    """decode with call counting (C16 work bound); returns (value, reads, decodes)"""
    from fcp import serde

    fcp = _schema(case["text"]) if not case.get("ast_shuffle") else _schema_shuffled(case["text"], case["ast_shuffle"])
    cnt = _Counter()
    orig_read = serde._Buffer.read_word
    orig_dec = serde._decode
    cap = case.get("cap", 10_000_000)

    def read_word(self, bits):
        cnt.reads += 1
        if cnt.reads > cap:
            raise OverflowError("work cap exceeded")
        return orig_read(self, bits)

    def _decode(buffer, fcp_, type_):
        cnt.decodes += 1
        if cnt.decodes > cap:
            raise OverflowError("work cap exceeded")
        return orig_dec(buffer, fcp_, type_)

    serde._Buffer.read_word = read_word
    serde._decode = _decode
    try:
        try:
            v = serde.decode(fcp, case["struct"], bytearray(case["bytes"]))
            # values handed out by earlier decode() calls must not change when decode() is called again
            import copy
            global _held_dec
            if _held_dec is not None and _held_dec[0] != _held_dec[1]:
                was = _held_dec
                _held_dec = None
                raise DecodeResultClobbered("a value returned by an earlier decode() changed after a later decode(): was "
                                            + repr(was[1])[:200] + " now " + repr(was[0])[:200])
            _held_dec = (v, copy.deepcopy(v))
            return {"value": v, "reads": cnt.reads, "decodes": cnt.decodes}
        except OverflowError:
            return {"cap": True, "reads": cnt.reads, "decodes": cnt.decodes}
        except Exception as e:
            return {"raised": type(e).__name__, "msg": str(e)[:100], "reads": cnt.reads, "decodes": cnt.decodes}
    finally:
        serde._Buffer.read_word = orig_read
        serde._decode = orig_dec


def w_buf_ops(case):
    from fcp.serde import _Buffer

    b = _Buffer()
    outs = []
    for o in case["ops"]:
        k = o["k"]
        try:
            if k == "push_word":
                b.push_word(o["w"], o["n"])
                outs.append("ok")
            elif k == "read_word":
                outs.append(b.read_word(o["n"]))
            elif k == "push_bytes":
                b.push_bytes(bytes(o["bytes"]))  # any bytes-like / iterable of ints; a list would tie the test to a list buffer
                outs.append("ok")
            elif k == "seek":
                b.bitaddr = o["addr"]
                outs.append("ok")
        except ValueError:
            outs.append("overrun")
        except IndexError:
            outs.append("err")
    return {"outs": outs, "buffer": list(b.buffer), "bitaddr": b.bitaddr}


# ------------------------------------------------------------------ reference walk (offsets of prefixes)


def ref_bits(d, t, mv, prefixes):
    """bit length of the canonical encoding; records (offset, width) of every length prefix/flag"""

    def go(t, mv, off):
        k = t[0]
        if k in ("u", "i"):
            return off + t[1]
        if k == "f32":
            return off + 32
        if k == "f64":
            return off + 64
        if k == "enum":
            return off + gen.enum_bits(d.enum(t[1]))
        if k == "str":
            prefixes.append((off, 32))
            return off + 32 + 8 * len(mv["s"])
        if k == "struct":
            for (fn, fid, ft), x in zip(d.sorted_fields(t[1]), mv):
                off = go(ft, x, off)
            return off
        if k == "arr":
            for x in mv:
                off = go(t[1], x, off)
            return off
        if k == "dyn":
            prefixes.append((off, 32))
            off += 32
            for x in mv:
                off = go(t[1], x, off)
            return off
        if k == "opt":
            prefixes.append((off, 8))
            off += 8
            if mv is not None:
                off = go(t[1], mv["some"], off)
            return off
        raise ValueError(t)

    return go(t, mv, 0)


def overwrite_bits(bs, off, width, value):
    bs = list(bs)
    need = (off + width + 7) // 8
    while len(bs) < need:
        bs.append(0)
    for i in range(width):
        bit = (value >> i) & 1
        p = off + i
        bs[p >> 3] = (bs[p >> 3] & ~(1 << (p & 7))) | (bit << (p & 7))
    return bs


# ------------------------------------------------------------------ the check


def field_offsets_mod8(d, name):
    """start offset mod 8 of every fixed-position leading field (for the alignment histogram)"""
    offs = []
    off = 0
    for fn, fid, ft in d.sorted_fields(name):
        offs.append((ft[0], off % 8))
        w = _static_width(d, ft)
        if w is None:
            break
        off += w
    return offs


def _static_width(d, t):
    k = t[0]
    if k in ("u", "i"):
        return t[1]
    if k == "f32":
        return 32
    if k == "f64":
        return 64
    if k == "enum":
        return gen.enum_bits(d.enum(t[1]))
    if k == "arr":
        w = _static_width(d, t[1])
        return None if w is None else w * t[2]
    if k == "struct":
        tot = 0
        for _, _, ft in d.struct(t[1]):
            w = _static_width(d, ft)
            if w is None:
                return None
            tot += w
        return tot
    return None


def canon_impl_result(r):
    """outcome class of an implementation decode"""
    if "timeout" in r or "crash" in r:
        return ("hang", None)
    if "exc" in r:
        return ("harness-exc", r)
    o = r["ok"]
    if "cap" in o:
        return ("cap", None)
    if "raised" in o:
        if o["raised"] == "ValueError" and "overr" in o.get("msg", ""):
            return ("overrun", None)
        return ("other", o["raised"])
    return ("value", o["value"])


def run(prop, tier, replay=None):
    rep = Report(prop, tier)
    rng = random.Random(seed() * 1000003 + {"C01": 1, "C02": 2, "C16": 16}.get(prop, 0))
    rep.check_proofs()
    smin_listed = any(f.get("id") == "signed-min" and f.get("status") == "open" for f in load_findings())
    n_schemas, n_values = (300, 10) if tier == "quick" else (1500, 16)  # thorough: ≈2.2 M decode jobs, ≈8 GB
    if prop == "C16":
        n_schemas, n_values = (150, 6) if tier == "quick" else (1500, 12)

    descs = []
    if replay is not None:
        rp = json.loads(open(replay).read())
        if "text" in rp:
            log("replaying", replay)
    # exhaustive scalar sub-scope: width x alignment x boundary values (thorough)
    for _ in range(n_schemas):
        descs.append(gen.gen_codec_desc(rng))
    # byte-boundary family: every kind of leaf (1-bit, single-valued enum, containers of them, ...) placed so that it ends
    # just past / just before a byte boundary, alone, after a pad, before a pad, nested and behind a string
    bfam = gen.boundary_descs()
    if tier != "thorough":
        bfam = rng.sample(bfam, min(len(bfam), 10))
    descs.extend(bfam)
    descs.extend(gen.fixed_of_variable_descs())
    # alignment sweep: a scalar behind a u<k> prefix, k = 0..7
    sweep_widths = range(1, 65) if tier == "thorough" else rng.sample(range(1, 65), 8)
    for w in sweep_widths:
        for k in range(8):
            for kind in ("u", "i"):
                d = gen.Desc()
                fs = []
                if k:
                    fs.append(("p", 0, ("u", k)))
                fs.append(("x", 1, (kind, w)))
                fs.append(("q", 2, ("u", 3)))
                d.structs.append(("S0", fs))
                d.sweep = True
                descs.append(d)

    # phase 0: schema dicts from the real parser; every sixth random schema is spread over module files (an enum and a struct
    # declared before the imports, two namesake modules): names must mean in the merged schema what they mean in one text
    from .impl import files_text
    texts = [files_text(gen.module_files(d, rng)) if (i % 6 == 5 and i < n_schemas) else d.text() for i, d in enumerate(descs)]
    rep.cov["schemas_over_module_files"] = sum(1 for t in texts if t.startswith("//@@FILES"))
    sd = run_cases("harness.codec", "w_schema_dict", [{"text": t} for t in texts], timeout_s=20)
    cases = []  # (desc index, struct, py value, model value)
    for i, d in enumerate(descs):
        if "ok" not in sd[i]:
            # generator produced a schema the front end rejects: harness problem, not a verdict
            rep.hist("schema_rejected", sd[i].get("exc", "?"))
            log("schema rejected by front end:", sd[i], texts[i][:300])
            continue
        names = [s[0] for s in d.structs]
        targets = names if getattr(d, "sweep", False) or getattr(d, "all_structs", False) else \
            [names[-1]] + ([rng.choice(names)] if len(names) > 1 else [])
        for name in targets:
            t = ("struct", name)
            nv = n_values if not getattr(d, "sweep", False) else 1
            if getattr(d, "all_structs", False):
                nv = 3
            vals = []
            if getattr(d, "sweep", False):
                kind, w = d.struct(name)[-2][2]
                if kind == "u":
                    bvals = [0, 1, (1 << w) - 1, 1 << (w - 1)]
                else:
                    bvals = [-(1 << (w - 1)), -1, 0, (1 << (w - 1)) - 1]
                for bv in bvals:
                    py = {fn: 0 for fn, _, _ in d.struct(name)}
                    py["x"] = bv
                    py["q"] = 5
                    if "p" in py:
                        py["p"] = (1 << d.struct(name)[0][2][1]) - 1
                    vals.append((py, [py[fn] for fn, _, _ in d.sorted_fields(name)]))
            else:
                for _ in range(nv):
                    for _try in range(20):
                        pv = gen.gen_value(rng, d, t)
                        if len(json.dumps(pv[1])) < 900:
                            vals.append(pv)
                            break
                    else:
                        rep.hist("skipped", "value too large for the size cap")
            for py, mv in vals:
                cases.append((i, name, py, mv))
            for kind_, off in field_offsets_mod8(d, name):
                rep.hist("field_offset_mod8", off)
            acc = {}
            gen.shape_stats(d, t, acc)
            for k_, c_ in acc.items():
                rep.cov.setdefault("constructors", {})
                rep.cov["constructors"][k_] = rep.cov["constructors"].get(k_, 0) + c_

    wires = {i: schema_to_wire(sd[i]["ok"]) for i in range(len(descs)) if "ok" in sd[i]}
    # a quarter of the schemas are handed to encode()/decode() as an AST whose field lists were shuffled after parsing
    # (not those with two fields of one id: among equal ids the order of the field list is the wire order)
    def dup_ids(d):
        return any(len({f[1] for f in fs}) != len(fs) for _, fs in d.structs)
    shuf = {i: rng.randint(1, 10 ** 6) for i in range(len(descs)) if rng.random() < 0.25 and not dup_ids(descs[i])}
    rep.cov["schemas_with_duplicate_field_ids"] = sum(1 for d in descs if dup_ids(d))
    rep.cov["ast_shuffled_schemas"] = len(shuf)

    # phase A: implementation encode
    enc = run_cases(
        "harness.codec", "w_encode",
        [dict({"text": texts[i], "struct": name, "value": py}, **({"ast_shuffle": shuf[i]} if shuf.get(i) else {}))
         for (i, name, py, mv) in cases], timeout_s=20,
    )
    # model: spec bytes + PyCodec model bytes
    model = run_codec_grouped([(wires[i], name, {"value": mv}) for (i, name, py, mv) in cases])

    dec_jobs = []  # (case idx, kind, bytes)
    for ci, ((i, name, py, mv), e, m) in enumerate(zip(cases, enc, model)):
        d = descs[i]
        key = json.dumps([texts[i], name, mv], sort_keys=True, default=str)
        rep.count(key)
        rep.sample({"schema": texts[i], "struct": name, "value": mv, "spec_bytes": m.get("spec_bytes")}, limit=3)
        if "driver_err" in m or not m.get("resolved") or not m.get("wf"):
            rep.hist("harness_problem", json.dumps(m)[:100])
            log("model could not take case", m, texts[i], mv)
            continue
        spec = m["spec_bytes"]
        pym = m["py_enc"]
        if pym.get("ok") != spec:
            # model-internal: contradicts theorem py_encode_refines; never expected
            rep.violation({"kind": "model-inconsistency", "schema": texts[i], "struct": name, "value": mv,
                           "py_model": pym, "spec": spec}, no_input=True)
            continue
        if "ok" not in e:
            # implementation raised on an in-range value
            rep.cov["disagreements_checked"] += 1
            rep.violation({"kind": "encode-raised", "schema": texts[i], "struct": name, "value": mv,
                           "py_value": repr(py), "observed": e, "expected_bytes": spec,
                           "what": "encode raised / hung on an in-range value"})
            continue
        ib = e["ok"]
        if ib != spec:
            rep.cov["disagreements_checked"] += 1
            rep.violation({"kind": "encode-bytes", "schema": texts[i], "struct": name, "value": mv,
                           "py_value": repr(py), "observed_bytes": ib, "expected_bytes": spec,
                           "what": "encoder output differs from the canonical wire encoding (= PyCodec model)"})
        # decode jobs
        if ib != spec:
            # the implementation's own (non-canonical) bytes: round trip is checked directly,
            # the model is not consulted (arbitrary bytes may announce astronomically long lists)
            dec_jobs.append((ci, "own-noncanonical", ib))
            dec_jobs.append((ci, "spec", spec))
        else:
            dec_jobs.append((ci, "own", ib))
        if prop in ("C16",) or tier == "thorough" or ci % 7 == 0:
            # every truncation point
            if len(spec) <= 40 or (tier == "thorough" and len(spec) <= 200):
                pts = range(len(spec))
            else:
                pts = sorted(set(list(range(0, 8)) + list(range(len(spec) - 8, len(spec))) + rng.sample(range(len(spec)), 8)))
            for k in pts:
                dec_jobs.append((ci, "trunc", spec[:k]))
            # corrupted length prefixes
            prefixes = []
            if not known_zero_width(d, name):
                ref_bits(d, ("struct", name), mv, prefixes)
            for off, wd in ([] if known_zero_width(d, name) else prefixes[:6]):
                if wd == 32:
                    cur = None
                    for newv in ("plus1", 1 << 16, (1 << 32) - 1):
                        if newv == "plus1":
                            # read the current value
                            cur = 0
                            for b_ in range(32):
                                p = off + b_
                                if (p >> 3) < len(spec):
                                    cur |= ((spec[p >> 3] >> (p & 7)) & 1) << b_
                            newv = (cur + 1) & 0xFFFFFFFF
                        dec_jobs.append((ci, "prefix", overwrite_bits(spec, off, 32, newv)))
                else:
                    dec_jobs.append((ci, "flag", overwrite_bits(spec, off, 8, rng.choice([1, 2, 255]))))
        if ci % 5 == 0 and spec and not known_zero_width(d, name):
            # random corruption / extension: any byte string is a valid differential input
            mut = list(spec)
            for _ in range(rng.randint(1, 3)):
                mut[rng.randrange(len(mut))] = rng.getrandbits(8)
            if rng.random() < 0.3:
                mut += [rng.getrandbits(8) for _ in range(rng.randint(1, 3))]
            dec_jobs.append((ci, "mutated", mut))

    import time as _t
    log(f"t={_t.time()-rep.t0:.1f}s")
    log(f"phase A done: {len(cases)} encode cases, {len(dec_jobs)} decode jobs")
    # phase B: implementation decode + model decode on the same byte strings
    cap = 300_000
    dres = run_cases(
        "harness.codec", "w_decode",
        [dict({"text": texts[cases[ci][0]], "struct": cases[ci][1], "bytes": bs, "cap": cap},
              **({"ast_shuffle": shuf[cases[ci][0]]} if shuf.get(cases[ci][0]) else {})) for (ci, kind, bs) in dec_jobs],
        timeout_s=30,
    )
    log(f"t={_t.time()-rep.t0:.1f}s impl decode done")
    mres = run_codec_grouped(
        [(wires[cases[ci][0]], cases[ci][1], {"bytes": ([] if kind == "own-noncanonical" else bs)})
         for (ci, kind, bs) in dec_jobs]
    )
    log(f"t={_t.time()-rep.t0:.1f}s phase B done")
    for (ci, kind, bs), r, m in zip(dec_jobs, dres, mres):
        i, name, py, mv = cases[ci]
        d = descs[i]
        rep.count(None)
        rep.hist("decode_inputs", kind)
        cls, val = canon_impl_result(r)
        pm = m.get("py_dec", {})
        base = {"schema": texts[i], "struct": name, "bytes": bs, "input_kind": kind, "value": mv}
        if cls == "harness-exc":
            rep.violation(dict(base, kind="harness", observed=r), no_input=True)
            continue
        if cls == "value":
            try:
                got = gen.to_model(d, ("struct", name), val)
            except Exception as ex:  # shape of the result is wrong
                got = {"unrepresentable": str(ex)}
        else:
            got = None
        rep.hist("decode_outcomes", cls)
        # ---- direct oracles (the property itself)
        if kind in ("own", "spec", "own-noncanonical"):
            if cls == "value" and got != mv and smin_listed and \
                    gen.canon_smin(d, ("struct", name), got) == gen.canon_smin(d, ("struct", name), mv):
                if prop in ("C01", "C02"):  # C16 is about truncation, not about the value of complete encodings
                    rep.known_finding("a signed field holding its minimum -2^(N-1) decodes as +2^(N-1) "
                                      "(witness: struct A { x @0: i8 }, bytes [128] -> 128); kept because the repository's own "
                                      "test test_roundtrip_decoding_8_byte_types requires +2^63 to round-trip through an i64")
                rep.hist("known_finding_cases", "signed-min")
                continue
            if cls != "value" or got != mv:
                rep.cov["disagreements_checked"] += 1
                rep.violation(dict(base, kind="roundtrip", observed=(cls, got if cls == "value" else val),
                                   what="decode(encode(v)) != v" if kind == "own" else "decode(canonical bytes) != v"))
                continue
            if kind == "own-noncanonical":
                continue
        if kind == "trunc" and cls != "overrun":
            # theorem C16_truncation: every strict byte prefix overruns
            fnd = known_zero_width(d, name)
            rep.cov["disagreements_checked"] += 1
            rep.violation(dict(base, kind="truncation", observed=(cls, got if cls == "value" else val),
                               what="strict prefix of a valid encoding did not raise a decoding error"))
            continue
        if cls in ("hang", "cap"):
            if known_zero_width(d, name):
                rep.known_finding("zero-width element type under a dynamic array: work is proportional to the length prefix")
            else:
                rep.cov["disagreements_checked"] += 1
                rep.violation(dict(base, kind="work", observed=cls,
                                   what="decode did not finish within the work bound"))
            continue
        # work bound: every read_word of >= 1 bit that succeeds consumes a bit that is present
        o = r["ok"]
        bound = 8 * len(bs) + 8 + 4 * static_nodes(d, name)
        if o["reads"] > bound and not known_zero_width(d, name):
            rep.cov["disagreements_checked"] += 1
            rep.violation(dict(base, kind="work", observed=o["reads"], bound=bound,
                               what="number of read_word calls exceeds the input-length bound"))
            continue
        # theorem C16_work_bounded is about `reads`, the model's count of read_word calls.  The implementation's count
        # must not exceed that number (then the proved bound covers it a fortiori: o <= reads <= weight * (1 + bits));
        # fewer calls - e.g. a block read where the model reads character by character - is still covered and only
        # recorded.  Today the two are equal on every job.
        if kind != "own-noncanonical" and "reads" in m:
            rep.hist("work_compared", "pos-width" if m.get("pos_width") else "zero-width-under-dyn")
            if o["reads"] < m["reads"]:
                rep.hist("work_below_model", "fewer read_word calls than the model")
            if o["reads"] > m["reads"]:
                rep.cov["disagreements_checked"] += 1
                rep.violation(dict(base, kind="work-correspondence", observed=o["reads"], model=m["reads"],
                                   what="number of read_word calls exceeds the model's `reads` (C16_work_bounded no longer "
                                        "covers the decoder)"),
                              no_input=not (m.get("pos_width") and o["reads"] > m["weight"] * (1 + 8 * len(bs))))
                continue
            if m.get("pos_width") and m["reads"] > m["weight"] * (1 + 8 * len(bs)):
                rep.violation(dict(base, kind="model", what="Lean reads exceeds the proved bound: driver and theorem out of sync"),
                              no_input=True)
        # ---- correspondence with the PyCodec model
        if "ok" in pm:
            exp = ("value", gen.canon_nan(d, ("struct", name), pm["ok"]))
            if cls == "value":
                got = gen.canon_nan(d, ("struct", name), got)
        else:
            exp = (pm.get("err"), None)
        obs = (cls, got) if cls == "value" else (cls, None)
        if exp != obs and smin_listed and exp[0] == "value" and obs[0] == "value" and \
                gen.canon_smin(d, ("struct", name), exp[1]) == gen.canon_smin(d, ("struct", name), obs[1]):
            rep.hist("known_finding_cases", "signed-min")
            continue
        if exp != obs:
            rep.cov["disagreements_checked"] += 1
            # the model says overrun and the implementation fabricated a value: property C16 itself
            what = "implementation and PyCodec model disagree on decode"
            rep.violation(dict(base, kind="decode-correspondence", observed=obs, expected=exp, what=what),
                          no_input=not (exp[0] == "overrun" and cls == "value"))

    # `_Buffer` operation sequences (thorough, or a few in quick)
    nseq = 40 if tier == "quick" else 1500
    seqs = []
    for _ in range(nseq):
        ops = []
        total = 0
        for _ in range(rng.randint(1, 12)):
            n = gen.width(rng)
            w = rng.choice([0, -1, 1, rng.getrandbits(70) - (1 << 69), (1 << n) - 1, -(1 << (n - 1))])
            ops.append({"k": "push_word", "w": w, "n": n})
            total += n
        ops.append({"k": "seek", "addr": 0})
        for _ in range(rng.randint(1, 12)):
            ops.append({"k": "read_word", "n": gen.width(rng)})
        if rng.random() < 0.3:
            nb = rng.randint(0, 4)
            ops.insert(0, {"k": "push_bytes", "bytes": [rng.getrandbits(8) for _ in range(nb)]})
            ops.insert(1, {"k": "seek", "addr": rng.randint(0, 8 * nb)})
        seqs.append({"op": "buf", "ops": ops})
    ib = run_cases("harness.codec", "w_buf_ops", seqs, timeout_s=10)
    mb = run_driver_parallel(seqs)
    for s, a, b in zip(seqs, ib, mb):
        rep.count(json.dumps(s))
        rep.hist("decode_inputs", "buf_ops")
        if a.get("exc") == "AttributeError":
            # the private _Buffer API (push_word / read_word / push_bytes / buffer / bitaddr) was renamed or restructured:
            # no property speaks about it; the byte-level tie then rests on the codec-level correspondence above
            rep.hist("buffer_api", "not available under the modelled names: " + a.get("msg", "")[:80])
            continue
        if a.get("ok") != b:
            rep.cov["disagreements_checked"] += 1
            rep.violation({"kind": "buffer-ops", "ops": s["ops"], "observed": a, "expected": b,
                           "what": "_Buffer and the Lean Buf model disagree on an operation sequence"}, no_input=True)

    check_utf8(rep, rng, tier)
    if prop in ("C01", "C02"):
        check_long_messages(rep, rng, tier)
    if prop == "C02":
        check_vectors(rep)
    if prop == "C16":
        probe_zero_width(rep)
    if prop in ("C01", "C02"):
        probe_signed_min(rep, smin_listed)
        if prop == "C01":
            probe_negative_enumerator(rep)

    rep.cov["rule"] = (
        "schemas from a seeded generator over every type constructor (depth<=3, widths 1..64 with boundary mass, "
        "ids shuffled vs declaration order) plus a width x alignment x boundary-value sweep; values in range incl. "
        "boundaries; a case is distinct by (schema text, struct, value); decode inputs: own bytes, canonical bytes, "
        "every truncation point, corrupted length prefixes/flags, random mutations, _Buffer op sequences"
    )
    rep.assumptions += [
        "floats travel as IEEE words; NaN payloads excluded; strings travel as their UTF-8 bytes",
        "struct values are compared positionally in ascending field id",
    ]
    return rep.finish()


def check_long_messages(rep, rng, tier):
    """messages of one to several KiB with fields narrower than a byte before and inside the long part: encoder output against
    the canonical bytes of the specification (the transliterated `_Buffer` model is quadratic and left out: `no_py`), decoder on
    those bytes against the value"""
    descs, jobs = [], []
    for k in range(6 if tier == "quick" else 40):
        d = gen.Desc()
        d.enums = [("L", [("LA", 0), ("LB", 2), ("LC", 5)])]
        el = rng.choice([("u", 3), ("i", 13), ("enum", "L"), ("u", 1), ("u", 8), ("opt", ("u", 5))])
        pad = rng.choice([0, 1, 3, 7])
        d.structs.append(("In", [("a", 0, ("u", 5)), ("b", 1, el)]))
        fs = ([("p", 0, ("u", pad))] if pad else []) + [("xs", 1, ("dyn", el)), ("s", 2, ("str",)),
                                                         ("ys", 3, ("dyn", ("struct", "In"))), ("q", 4, ("u", 3))]
        d.structs.append(("Long", fs))
        n1, n2, n3 = rng.choice([(3000, 0, 0), (0, 1500, 0), (0, 0, 900), (2500, 1100, 300), (20000, 10, 3)])

        def elv():
            v = gen.gen_value(rng, d, el, False)[0]
            # the signed minimum is the recorded finding signed-min (C01/C02): not what this family is about
            return v + 1 if el[0] == "i" and v == -(1 << (el[1] - 1)) else v
        py = {"xs": [elv() for _ in range(n1)], "s": "".join(chr(rng.randint(32, 126)) for _ in range(n2)),
              "ys": [{"a": rng.getrandbits(5), "b": elv()} for _ in range(n3)], "q": 5}
        if pad:
            py["p"] = (1 << pad) - 1
        descs.append(d)
        jobs.append((len(descs) - 1, "Long", py, gen.to_model(d, ("struct", "Long"), py)))
    texts = [d.text() for d in descs]
    sd = run_cases("harness.codec", "w_schema_dict", [{"text": t} for t in texts], timeout_s=20)
    wires = [schema_to_wire(x["ok"]) for x in sd]
    enc = run_cases("harness.codec", "w_encode", [{"text": texts[i], "struct": n, "value": py} for i, n, py, mv in jobs], timeout_s=60)
    model = run_codec_grouped([(wires[i], n, {"value": mv, "no_py": True}) for i, n, py, mv in jobs])
    dec_in = []
    for (i, n, py, mv), e, m in zip(jobs, enc, model):
        rep.cov["evaluations"] += 1
        spec = m.get("spec_bytes")
        if not m.get("wf") or spec is None:
            rep.hist("harness_problem", "long message not taken by the model")
            dec_in.append(None)
            continue
        rep.hist("long_message_bytes", "%d KiB" % (len(spec) // 1024))
        dec_in.append(spec)
        if e.get("ok") != spec:
            rep.cov["disagreements_checked"] += 1
            ob = e.get("ok") or []
            k = next((k for k in range(min(len(ob), len(spec))) if ob[k] != spec[k]), min(len(ob), len(spec)))
            rep.violation({"kind": "encode-bytes-long", "schema": texts[i], "struct": n, "py_value_sizes": [len(py["xs"]), len(py["s"]), len(py["ys"])],
                           "value": mv, "observed_len": len(ob), "expected_len": len(spec), "first_difference_at_byte": k,
                           "observed": ob[max(0, k - 4):k + 8] if ob else e, "expected": spec[max(0, k - 4):k + 8],
                           "what": "encoder output of a long message differs from the canonical wire encoding"})
    dres = run_cases("harness.codec", "w_decode", [{"text": texts[i], "struct": n, "bytes": bs or [], "cap": 10_000_000}
                                                   for (i, n, py, mv), bs in zip(jobs, dec_in)], timeout_s=60)
    for (i, n, py, mv), bs, r in zip(jobs, dec_in, dres):
        if bs is None:
            continue
        rep.cov["evaluations"] += 1
        cls, val = canon_impl_result(r)
        try:
            got = gen.to_model(descs[i], ("struct", n), val) if cls == "value" else None
        except Exception:
            got = None
        if got != mv:
            rep.cov["disagreements_checked"] += 1
            rep.violation({"kind": "decode-long", "schema": texts[i], "struct": n, "value": mv, "bytes": bs,
                           "observed": cls if cls != "value" else "another value",
                           "what": "decoder does not recover a long value from its canonical encoding"})


def check_utf8(rep, rng, tier):
    """`utf8Valid` (the model's condition for a byte string to be a text) against the decoder the implementation uses,
    `bytes.decode("utf-8")`: every byte string of length 1 and 2, the boundary bytes of every 3- and 4-byte form, and
    mutations of the encodings of random texts"""
    items = [[b] for b in range(256)]
    items += [[a, b] for a in range(256) for b in range(256)] if tier == "thorough" else \
        [[a, b] for a in (0x00, 0x7F, 0x80, 0xBF, 0xC0, 0xC1, 0xC2, 0xDF, 0xE0, 0xED, 0xF0, 0xF4, 0xF5, 0xFF) for b in range(256)]
    lead3 = (0xE0, 0xE1, 0xEC, 0xED, 0xEE, 0xEF)
    edge = (0x00, 0x7F, 0x80, 0x8F, 0x90, 0x9F, 0xA0, 0xBF, 0xC0, 0xFF)
    items += [[a, b, c] for a in lead3 for b in edge for c in edge]
    items += [[a, b, c, d] for a in (0xF0, 0xF1, 0xF3, 0xF4, 0xF5) for b in edge for c in (0x7F, 0x80, 0xBF, 0xC0) for d in (0x7F, 0x80, 0xBF, 0xC0)]
    for _ in range(300 if tier == "quick" else 5000):
        txt = "".join(chr(rng.randint(0, 127)) if rng.random() < 0.5 else rng.choice(gen.WIDE_CHARS) for _ in range(rng.randint(0, 6)))
        bs = list(txt.encode("utf-8"))
        items.append(list(bs))
        if bs:
            k = rng.randrange(len(bs))
            m = list(bs)
            op = rng.choice(["flip", "drop", "dup", "cut"])
            if op == "flip":
                m[k] = rng.getrandbits(8)
            elif op == "drop":
                del m[k]
            elif op == "dup":
                m.insert(k, m[k])
            else:
                m = m[:k]
            items.append(m)
    res = []
    for i in range(0, len(items), 4000):
        out = run_driver_parallel([{"op": "utf8", "items": items[i:i + 4000]}])[0]
        if "valid" not in out:
            rep.violation({"kind": "harness", "observed": out}, no_input=True)
            return
        res += out["valid"]
    bad = 0
    for bs, mv in zip(items, res):
        rep.cov["evaluations"] += 1
        try:
            bytes(bs).decode("utf-8")
            iv = True
        except UnicodeDecodeError:
            iv = False
        if iv != mv:
            bad += 1
            if bad <= 3:
                rep.violation({"kind": "utf8-model", "bytes": bs, "python_accepts": iv, "model_accepts": mv,
                               "what": "the model's condition for a byte string to be a text differs from Python's strict "
                                       "UTF-8 decoder (theorems about strings no longer describe the decoder)"}, no_input=True)
    rep.cov["utf8_byte_strings_compared"] = len(items)


def static_nodes(d, name):
    acc = {}
    gen.shape_stats(d, ("struct", name), acc)
    return sum(acc.values())


def known_zero_width(d, name):
    """class predicate of the recorded finding: a dynamic array whose element type has
    zero width (e.g. [[u8,0]])"""

    def zero(t):
        k = t[0]
        if k == "arr":
            return t[2] == 0 or zero(t[1])
        if k == "struct":
            return all(zero(ft) for _, _, ft in d.struct(t[1]))
        return False

    def has(t):
        k = t[0]
        if k == "dyn":
            return zero(t[1]) or has(t[1])
        if k in ("arr", "opt"):
            return has(t[1])
        if k == "struct":
            return any(has(ft) for _, _, ft in d.struct(t[1]))
        return False

    return has(("struct", name))


# ------------------------------------------------------------------ C02: the project's vectors


def w_vector_schema(case):
    from fcp.parser import get_fcp

    r = get_fcp(case["path"])
    return r.unwrap().to_dict()


def w_vector_codec(case):
    from fcp.parser import get_fcp
    from fcp import serde

    fcp = get_fcp(case["path"]).unwrap()
    enc = list(serde.encode(fcp, case["struct"], case["value"]))
    dec = serde.decode(fcp, case["struct"], bytearray(case["bytes"]))
    return {"enc": enc, "dec": dec}


def check_vectors(rep):
    """translate tests/standardized/fcp_tests.json to Lean (kernel-checked against `Wire`) and
    run the same vectors through the Python codec"""
    from . import translators
    from .common import REPO, lake_build

    sdir = REPO / "tests" / "standardized"
    files = sorted(p.name for p in sdir.glob("*.fcp"))
    res = run_cases("harness.codec", "w_vector_schema", [{"path": str(sdir / f)} for f in files], timeout_s=30)
    sds = {}
    for f, r in zip(files, res):
        if "ok" not in r:
            rep.violation({"kind": "vector-schema", "file": f, "observed": r,
                           "what": "vector schema no longer parses"}, no_input=True)
            return
        sds[f] = r["ok"]
    try:
        vectors = translators.load_vectors(sds)
        names = translators.write_vectors_lean(sds, vectors)
    except Exception as ex:
        rep.violation({"kind": "vector-translation", "error": repr(ex),
                       "what": "fcp_tests.json could not be translated"}, no_input=True)
        return
    ok, out = lake_build(["Generated"])
    rep.cov["obligations"] += 2 * len(names)
    rep.cov["vector_theorems"] = 2 * len(names)
    # run the vectors through the implementation as well
    ires = run_cases(
        "harness.codec", "w_vector_codec",
        [{"path": str(sdir / sch), "struct": st, "value": pyv, "bytes": by} for (_, _, sch, st, pyv, mv, by) in vectors],
        timeout_s=30,
    )
    mres = run_driver_parallel(
        [{"op": "codec", "schema": schema_to_wire(sds[sch]), "struct": st, "value": mv, "bytes": by}
         for (_, _, sch, st, pyv, mv, by) in vectors]
    )
    bad_spec = 0
    for (suite, name, sch, st, pyv, mv, by), ir, mr in zip(vectors, ires, mres):
        rep.count(json.dumps(["vector", suite, name]))
        rep.hist("decode_inputs", "vector")
        spec_ok = mr.get("spec_bytes") == by and mr.get("spec_dec") == mv
        if not spec_ok:
            bad_spec += 1
        impl_ok = "ok" in ir and ir["ok"]["enc"] == by
        if impl_ok:
            try:
                got = _vec_model(sds[sch], st, ir["ok"]["dec"])
                impl_ok = got == mv
                if not impl_ok and any(f.get("id") == "signed-min" and f.get("status") == "open" for f in load_findings()):
                    if _vec_model(sds[sch], st, ir["ok"]["dec"], smin=True) == _vec_model(sds[sch], st, pyv, smin=True):
                        rep.hist("known_finding_cases", "signed-min-vector")
                        impl_ok = True
            except Exception:
                impl_ok = False
        if not impl_ok:
            rep.cov["disagreements_checked"] += 1
            rep.violation({"kind": "vector", "suite": suite, "vector": name, "schema_file": sch, "struct": st,
                           "value": mv, "expected_bytes": by, "observed": ir,
                           "what": "Python codec does not reproduce a cross-language test vector"})
        elif not spec_ok:
            rep.violation({"kind": "vector-vs-spec", "suite": suite, "vector": name, "expected_bytes": by,
                           "spec": mr, "what": "theorem Generated.Vectors.%s_%s no longer checks: the Wire "
                           "specification does not reproduce this vector (the Python codec does)" % (suite, name)},
                          no_input=True)
    if ok and bad_spec == 0:
        from .common import audit_names
        okc, bad = audit_names("Generated.Vectors", [f"Fcp.Vectors.{n}_{k}" for n in names for k in ("enc", "dec")])
        rep.cov["discharged"] += okc
        if bad:
            rep.proof_ok = False
            rep.proof_details += bad
    elif not ok and bad_spec == 0:
        rep.proof_ok = False
        rep.proof_details.append("Generated/Vectors.lean failed to build: " + out[-800:])


def _vec_model(sd, struct, py, smin=False):
    """model value of a decoded dict, following the to_dict() types (`smin`: identify the signed
    minimum with its unfixed decoding, the class of the recorded finding)"""

    def go(t, v):
        k = t["type"]
        if k == "signed" and smin and abs(v) == 1 << (int(t["name"][1:]) - 1):
            return "smin"
        if k in ("unsigned", "signed", "Enum"):
            return v
        if k == "float":
            return gen.f2w32(v)
        if k == "double":
            return gen.f2w64(v)
        if k == "str":
            return {"s": gen.text_bytes(v)}
        if k in ("Array", "DynamicArray"):
            return [go(t["underlying_type"], x) for x in v]
        if k == "Optional":
            return None if v is None else {"some": go(t["underlying_type"], v)}
        if k == "Struct":
            s = next(s for s in sd["structs"] if s["name"] == t["name"])
            return [go(f["type"], v[f["name"]]) for f in sorted(s["fields"], key=lambda f: f["field_id"])]
        raise ValueError(k)

    return go({"type": "Struct", "name": struct}, py)


ZERO_WIDTH_WITNESS = {
    "text": 'version: "3"\nstruct A {\n    a @ 0: [[u8, 0]],\n}\n',
    "struct": "A",
    "bytes": [0, 0, 16, 0],  # announces 2^20 zero-width elements, no payload
    "cap": 50_000,
}


def probe_zero_width(rep):
    """recorded finding: with a zero-width element type the work is proportional to the
    announced length, not to the input (inherent to the format: no decoder can bound it)"""
    r = run_cases("harness.codec", "w_decode", [ZERO_WIDTH_WITNESS], timeout_s=30)[0]
    cls, _ = canon_impl_result(r)
    rep.cov["zero_width_witness"] = cls
    listed = any(f.get("property") == "C16" and f.get("id") == "zero-width-elements" and f.get("status") == "open"
                 for f in load_findings())
    if cls in ("cap", "hang"):
        if listed:
            rep.known_finding("struct A { a @0: [[u8,0]] } with length prefix 2^20 and no payload: "
                              "decode performs >50000 loop iterations on 4 input bytes (zero-width element type)")
        else:
            rep.violation(dict(ZERO_WIDTH_WITNESS, kind="work", observed=cls,
                               what="work not bounded by input length"))


def probe_negative_enumerator(rep):
    """recorded finding negative-enumerator on its witness (silent once the value round-trips or the schema is rejected)"""
    listed = any(f.get("property") == "C01" and f.get("id") == "negative-enumerator" and f.get("status") == "open" for f in load_findings())
    text = 'version: "3"\nenum E {\n    A = -1,\n    B = 3,\n}\nstruct S {\n    e @ 0: E,\n    t @ 1: u8,\n}\n'
    e = run_cases("harness.codec", "w_encode", [{"text": text, "struct": "S", "value": {"e": -1, "t": 7}}], timeout_s=30)[0]
    if "ok" not in e:
        rep.cov["negative_enumerator_witness"] = "schema rejected or encode raised"
        return
    r = run_cases("harness.codec", "w_decode", [{"text": text, "struct": "S", "bytes": e["ok"]}], timeout_s=30)[0]
    cls, val = canon_impl_result(r)
    rep.cov["negative_enumerator_witness"] = [e["ok"], cls, val if cls == "value" else None]
    if not (cls == "value" and val == {"e": -1, "t": 7}):
        if listed:
            rep.known_finding("an enum with a negative enumerator is accepted, and a field holding it does not round-trip through the "
                              "Python codec, which packs enums unsigned (witness: enum E { A = -1, B = 3 } struct S { e @0: E, t @1: u8 }, "
                              "e = -1 comes back as 3)")
        else:
            rep.violation({"kind": "roundtrip", "schema": text, "struct": "S", "value": {"e": -1, "t": 7}, "observed": val,
                           "what": "decode(encode(v)) != v for an enum field holding a negative enumerator"})


def probe_signed_min(rep, listed):
    w = {"text": 'version: "3"\nstruct A {\n    x @ 0: i8,\n}\n', "struct": "A", "bytes": [128]}
    r = run_cases("harness.codec", "w_decode", [w], timeout_s=30)[0]
    cls, val = canon_impl_result(r)
    rep.cov["signed_min_witness"] = [cls, val if cls == "value" else None]
    if cls == "value" and val == {"x": 128}:
        if listed:
            rep.known_finding("a signed field holding its minimum -2^(N-1) decodes as +2^(N-1) "
                              "(witness: struct A { x @0: i8 }, bytes [128] -> 128); kept because the repository's own "
                              "test test_roundtrip_decoding_8_byte_types requires +2^63 to round-trip through an i64")
        else:
            rep.violation(dict(w, kind="roundtrip", observed=val, what="i8 -128 decodes as 128"))
