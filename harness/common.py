"""Shared plumbing: paths, Lean build + axiom audit, driver I/O, evidence, replays, findings."""
import fcntl
import json
import os
import re
import subprocess
import sys
import time
from pathlib import Path

VERIF = Path(__file__).resolve().parent.parent
LEAN = VERIF / "lean"
REPO = Path(os.environ.get("FCP_REPO", "/repo"))
PY = os.environ.get("FCP_PYTHON", "/venv/bin/python")
ALLOWED_AXIOMS = {"propext", "Classical.choice", "Quot.sound"}
TRUSTED_BASE = [
    "Lean 4.33.0 kernel (thorough tier: re-checked with leanchecker)",
    "axioms propext, Classical.choice, Quot.sound only (audited by #print axioms on every run)",
    "statement of the property theorems in lean/FcpProps",
    "correspondence harness (generators, canonicalisation, JSON glue of the Lean driver)",
    "CPython, Lark, jinja2, cantools, gcc/g++ as the platform the implementation runs on",
]


def seed() -> int:
    return int(os.environ.get("VERIF_SEED", "0"))


def log(*a):
    print(*a, file=sys.stderr, flush=True)


# ---------------------------------------------------------------- Lean build


class BuildError(Exception):
    pass


def lake_build(targets=()):
    """`lake build` under a file lock; returns (ok, output)."""
    LEAN.mkdir(exist_ok=True)
    lock = open(LEAN / ".build.lock", "w")
    fcntl.flock(lock, fcntl.LOCK_EX)
    try:
        p = subprocess.run(
            ["lake", "build", *targets],
            cwd=LEAN,
            stdout=subprocess.PIPE,
            stderr=subprocess.STDOUT,
            text=True,
        )
        return p.returncode == 0, p.stdout
    finally:
        fcntl.flock(lock, fcntl.LOCK_UN)
        lock.close()


FORBIDDEN = re.compile(
    r"\bsorry\b|\badmit\b|^axiom\s|native_decide|bv_decide|implemented_by|\bunsafe\s|maxHeartbeats\s+0"
)


def _strip_comments(src: str) -> str:
    src = re.sub(r"/-.*?-/", "", src, flags=re.S)
    src = re.sub(r"--.*", "", src)
    return src


def grep_forbidden():
    hits = []
    for f in list(LEAN.glob("FcpModel/*.lean")) + list(LEAN.glob("FcpProps/*.lean")):
        for n, line in enumerate(_strip_comments(f.read_text()).split("\n"), 1):
            if FORBIDDEN.search(line):
                hits.append(f"{f.name}: {line.strip()}")
    return hits


def theorems_of(prop_id: str):
    """Property theorems are the `theorem` declarations of FcpProps/<id>.lean."""
    f = LEAN / "FcpProps" / f"{prop_id}.lean"
    if not f.exists():
        return []
    src = _strip_comments(f.read_text())
    return re.findall(r"^theorem\s+([A-Za-z0-9_.']+)", src, flags=re.M)


def audit_axioms(prop_id: str):
    """Run `#print axioms` for every theorem of the property file in a fresh Lean
    process.  Returns (obligations, discharged, details, ok)."""
    names = theorems_of(prop_id)
    if not names:
        return 0, 0, ["no theorems found"], False
    src = f"import FcpProps.{prop_id}\nopen Fcp\n" + "".join(
        f"#print axioms Fcp.{n}\n" for n in names
    )
    tmp = LEAN / f".audit_{prop_id}_{os.getpid()}.lean"
    tmp.write_text(src)
    try:
        p = subprocess.run(
            ["lake", "env", "lean", str(tmp)],
            cwd=LEAN,
            stdout=subprocess.PIPE,
            stderr=subprocess.STDOUT,
            text=True,
        )
    finally:
        tmp.unlink(missing_ok=True)
    out = p.stdout
    details = []
    discharged = 0
    # output: "'Fcp.name' depends on axioms: [a, b]" or "'Fcp.name' does not depend on any axioms"
    flat = re.sub(r"\s+", " ", out)
    for n in names:
        m = re.search(
            r"'Fcp\." + re.escape(n) + r"' (does not depend on any axioms|depends on axioms: \[([^\]]*)\])",
            flat,
        )
        if not m:
            details.append(f"{n}: no axiom report (build broken?)")
            continue
        axs = set(a.strip() for a in (m.group(2) or "").split(",") if a.strip())
        bad = axs - ALLOWED_AXIOMS
        if bad:
            details.append(f"{n}: forbidden axioms {sorted(bad)}")
        else:
            discharged += 1
            details.append(f"{n}: ok {sorted(axs)}")
    return len(names), discharged, details, p.returncode == 0 and discharged == len(names)


def audit_names(module: str, qualified):
    """`#print axioms` for fully qualified names of another module; returns (n_ok, details)"""
    src = f"import {module}\n" + "".join(f"#print axioms {n}\n" for n in qualified)
    tmp = LEAN / f".audit_x_{os.getpid()}.lean"
    tmp.write_text(src)
    try:
        p = subprocess.run(["lake", "env", "lean", str(tmp)], cwd=LEAN, stdout=subprocess.PIPE,
                           stderr=subprocess.STDOUT, text=True)
    finally:
        tmp.unlink(missing_ok=True)
    flat = re.sub(r"\s+", " ", p.stdout)
    okc = 0
    bad = []
    for n in qualified:
        m = re.search(r"'" + re.escape(n) + r"' (does not depend on any axioms|depends on axioms: \[([^\]]*)\])", flat)
        if not m:
            bad.append(f"{n}: no axiom report")
            continue
        axs = set(a.strip() for a in (m.group(2) or "").split(",") if a.strip())
        if axs - ALLOWED_AXIOMS:
            bad.append(f"{n}: forbidden axioms {sorted(axs - ALLOWED_AXIOMS)}")
        else:
            okc += 1
    return okc, bad


def leanchecker(mods):
    p = subprocess.run(
        ["lake", "env", "leanchecker", *mods],
        cwd=LEAN,
        stdout=subprocess.PIPE,
        stderr=subprocess.STDOUT,
        text=True,
    )
    return p.returncode == 0, p.stdout[-2000:]


# ---------------------------------------------------------------- driver


def driver_path():
    return LEAN / ".lake" / "build" / "bin" / "driver"


def run_driver(cases, timeout=1800):
    """Pipe JSON cases through the compiled Lean driver; one answer per case."""
    if not cases:
        return []
    data = "\n".join(json.dumps(c, separators=(",", ":")) for c in cases) + "\n"
    exe = driver_path()
    if exe.exists():
        cmd = [str(exe)]
    else:  # fallback: interpret the same definitions
        cmd = ["lake", "env", "lean", "--run", "Driver.lean"]
    p = subprocess.run(
        cmd, cwd=LEAN, input=data, stdout=subprocess.PIPE, stderr=subprocess.PIPE, text=True,
        timeout=timeout,
    )
    lines = [l for l in p.stdout.split("\n") if l.strip()]
    if len(lines) != len(cases):
        import tempfile
        bad = cases[len(lines)] if len(lines) < len(cases) else None
        fd, path = tempfile.mkstemp(prefix="driver_fail_", suffix=".json")
        os.write(fd, json.dumps(bad).encode())
        os.close(fd)
        log("driver stopped at case written to", path)
        raise BuildError(
            f"driver answered {len(lines)} lines for {len(cases)} cases; stderr={p.stderr[-500:]}"
        )
    return [json.loads(l) for l in lines]


def run_driver_parallel(cases, nproc=None, chunk=150):
    from concurrent.futures import ThreadPoolExecutor

    if len(cases) <= chunk:
        return run_driver(cases)
    nproc = nproc or min(16, os.cpu_count() or 4)
    chunks = [cases[i : i + chunk] for i in range(0, len(cases), chunk)]
    with ThreadPoolExecutor(nproc) as ex:
        res = list(ex.map(run_driver, chunks))
    return [x for r in res for x in r]


# ---------------------------------------------------------------- findings


def load_findings():
    f = VERIF / "known_findings.json"
    if not f.exists():
        return []
    return json.loads(f.read_text()).get("findings", [])


# ---------------------------------------------------------------- verdict / evidence


class Report:
    """Collects what one check run did and writes evidence / replays / verdict."""

    def __init__(self, prop_id: str, tier: str):
        self.id = prop_id
        self.tier = tier
        self.t0 = time.time()
        self.violations = []  # (replay path, suffix)
        self.known = []  # strings
        self.cov = {
            "evaluations": 0,
            "distinct_nontrivial": 0,
            "rule": "",
            "samples": [],
            "obligations": 0,
            "discharged": 0,
            "checker_cmd": "cd lean && lake build && lake env lean <audit file with #print axioms per theorem>",
            "trusted_base": list(TRUSTED_BASE),
            "disagreements_checked": 0,
        }
        self.assumptions = []
        self._distinct = set()
        # replays of earlier runs of this property would be mistaken for this run's
        import shutil as _sh
        _sh.rmtree(VERIF / "replays" / prop_id, ignore_errors=True)
        self.proof_ok = True
        self.proof_details = []

    # -- proof part
    def check_proofs(self, extra_modules=()):
        ok, out = lake_build()
        if not ok:
            self.proof_ok = False
            self.proof_details.append("lake build failed: " + out[-1500:])
            log(out[-3000:])
        hits = grep_forbidden()
        if hits:
            self.proof_ok = False
            self.proof_details.append("forbidden constructs: " + "; ".join(hits[:5]))
        n, d, details, aok = audit_axioms(self.id)
        self.cov["obligations"] = n
        self.cov["discharged"] = d
        self.proof_details += details
        self.cov["theorems"] = details
        if not aok:
            self.proof_ok = False
        if self.tier == "thorough" and ok:
            cok, cout = leanchecker([f"FcpProps.{self.id}", *extra_modules])
            self.cov["leanchecker"] = "ok" if cok else cout[-300:]
            if not cok:
                self.proof_ok = False
                self.proof_details.append("leanchecker failed")
        return self.proof_ok

    # -- coverage
    def count(self, key=None, nontrivial=True):
        self.cov["evaluations"] += 1
        if key is not None and nontrivial:
            self._distinct.add(key)

    def sample(self, s, limit=5):
        if len(self.cov["samples"]) < limit:
            self.cov["samples"].append(s)

    def hist(self, name, key):
        h = self.cov.setdefault(name, {})
        k = str(key)
        h[k] = h.get(k, 0) + 1

    # -- violations
    def write_replay(self, payload: dict) -> Path:
        d = VERIF / "replays" / self.id
        d.mkdir(parents=True, exist_ok=True)
        p = d / f"{seed()}-{len(self.violations)}.json"
        payload = dict(payload)
        payload["property"] = self.id
        payload["seed"] = seed()
        payload["tier"] = self.tier
        payload["replay_cmd"] = f"python3 check.py {self.id} --replay {p.relative_to(VERIF)}"
        p.write_text(json.dumps(payload, indent=1, default=str))
        return p

    def violation(self, payload: dict, no_input=False):
        # every violation is counted; replay files are written for the first 40 with a failing input and the
        # first 10 without (a broken codec produces thousands of failing cases)
        kind = "noinput" if no_input else "input"
        self._written = getattr(self, "_written", {"input": 0, "noinput": 0})
        if self._written[kind] >= (10 if no_input else 40):
            self.violations.append((None, ""))
            return
        self._written[kind] += 1
        p = self.write_replay(payload)
        self.violations.append((p, " no-failing-input-found" if no_input else ""))

    def known_finding(self, text: str):
        if text not in self.known:
            self.known.append(text)

    def finish(self) -> int:
        self.cov["distinct_nontrivial"] = len(self._distinct)
        if not self.proof_ok and not self.violations:
            # proof obligations no longer check and the search found no failing input
            self.violation(
                {
                    "kind": "proof-obligation",
                    "what": "a theorem of this property no longer checks (or the axiom audit failed)",
                    "details": self.proof_details,
                },
                no_input=True,
            )
        ev = {
            "property_id": self.id,
            "tier": self.tier,
            "seed": seed(),
            "level": "proof",
            "coverage": self.cov,
            "assumptions": self.assumptions,
            "wall_s": round(time.time() - self.t0, 2),
            "violations": len(self.violations),
            "known_findings": self.known,
        }
        # mutation trials (tools_seeded.py) redirect the evidence so that /verif/evidence keeps describing the real tree
        evdir = Path(os.environ.get("VERIF_EVIDENCE_DIR") or (VERIF / "evidence"))
        evdir.mkdir(parents=True, exist_ok=True)
        (evdir / f"{self.id}.json").write_text(json.dumps(ev, indent=1, default=str))
        for k in self.known:
            print(f"KNOWN-FINDING: property={self.id} {k}")
        shown = [(p, sfx) for p, sfx in self.violations if p is not None]
        shown.sort(key=lambda x: x[1] != "")  # concrete failing inputs first
        for p, suffix in shown[:10]:
            print(f"VIOLATION property={self.id} replay={p.relative_to(VERIF)}{suffix}")
        if len(self.violations) > 10:
            print(f"({len(self.violations)} violating cases in total; replay files kept for {len(shown)})")
        sys.stdout.flush()
        return 1 if self.violations else 0


def run_codec_grouped(jobs):
    """jobs: list of (schema_wire, struct, item dict).  Groups items by (schema, struct) so the
    driver parses each schema once.  Returns one answer per job, in order."""
    groups = {}
    order = []
    for idx, (wire, struct, item) in enumerate(jobs):
        key = (id(wire), struct)
        if key not in groups:
            groups[key] = {"op": "codec", "schema": wire, "struct": struct, "items": [], "_idx": []}
            order.append(key)
        g = groups[key]
        g["items"].append(item)
        g["_idx"].append(idx)
    cases = []
    idxs = []
    for key in order:
        g = groups[key]
        # split very large groups so chunks stay balanced
        for k in range(0, len(g["items"]), 64):
            cases.append({"op": "codec", "schema": g["schema"], "struct": g["struct"], "items": g["items"][k:k + 64]})
            idxs.append(g["_idx"][k:k + 64])
    res = run_driver_parallel(cases, chunk=max(1, len(cases) // 64 + 1))
    out = [None] * len(jobs)
    for r, ix in zip(res, idxs):
        if "items" not in r:
            for i in ix:
                out[i] = r
        else:
            for i, a in zip(ix, r["items"]):
                out[i] = a
    return out
