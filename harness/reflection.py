"""C12: `FcpV2.reflection()` + serde with the built-in reflection schema, against the Lean
`Reflection` model (`reflect`, `reflTy`) and the canonical codec."""
import json
import os
import random

from . import gen
from .common import Report, run_driver_parallel, seed, log, load_findings, LEAN, lake_build, audit_names
from .impl import run_cases
from .frontend import gen_desc, desc_toks, render, split_desc, exp_tree, Desc


def codes(s):
    """a text as the wire carries it: its UTF-8 bytes"""
    return list(s.encode("utf-8"))


# ------------------------------------------------------------------ implementation side


def _rty(t):
    from fcp.specs import type as T

    if isinstance(t, T.UnsignedType):
        return {"k": "u", "n": t.get_length()}
    if isinstance(t, T.SignedType):
        return {"k": "i", "n": t.get_length()}
    if isinstance(t, T.FloatType):
        return {"k": "f32"}
    if isinstance(t, T.DoubleType):
        return {"k": "f64"}
    if isinstance(t, T.StringType):
        return {"k": "str"}
    if isinstance(t, T.EnumType):
        return {"k": "enum", "name": codes(t.name)}
    if isinstance(t, T.StructType):
        return {"k": "struct", "name": codes(t.name)}
    if isinstance(t, T.ArrayType):
        return {"k": "arr", "t": _rty(t.underlying_type), "n": t.size}
    if isinstance(t, T.DynamicArrayType):
        return {"k": "dyn", "t": _rty(t.underlying_type)}
    if isinstance(t, T.OptionalType):
        return {"k": "opt", "t": _rty(t.underlying_type)}
    raise ValueError(t)


def _pos(m):
    if m is None:
        return None
    return {"line": m.line, "end_line": m.end_line, "column": m.column, "end_column": m.end_column,
            "start_pos": m.start_pos, "end_pos": m.end_pos, "filename": codes(m.filename)}


def _xv(v):
    if isinstance(v, bool):
        return {"s": codes(str(v))}
    if isinstance(v, int):
        return v
    if isinstance(v, float):
        return {"f": codes(repr(v))}
    if isinstance(v, str):
        return {"s": codes(v)}
    if isinstance(v, list):
        return [_xv(x) for x in v]
    raise ValueError(v)


def rschema(fcp):
    """the model's input, read off the real FcpV2 object (so parse fidelity stays in C07)"""
    from fcp.specs.v2 import encode_version

    return {
        "version": encode_version(fcp.version),
        "structs": [{"name": codes(s.name), "pos": _pos(s.meta), "fields": [
            {"name": codes(f.name), "id": f.field_id, "ty": _rty(f.type),
             "unit": None if f.unit is None else codes(f.unit),
             "min": None if f.min_value is None else gen.f2w64(f.min_value),
             "max": None if f.max_value is None else gen.f2w64(f.max_value), "pos": _pos(f.meta)}
            for f in s.fields]} for s in fcp.structs],
        "enums": [{"name": codes(e.name), "pos": _pos(e.meta), "items": [
            {"name": codes(x.name), "value": x.value, "pos": _pos(x.meta)} for x in e.enumeration]} for e in fcp.enums],
        "impls": [{"name": codes(i.name), "protocol": codes(i.protocol), "type": codes(i.type), "pos": _pos(i.meta),
                   "fields": [[codes(k), _xv(v)] for k, v in i.fields.items()],
                   "signals": [{"name": codes(sb.name), "pos": _pos(sb.meta),
                                "fields": [[codes(k), _xv(v)] for k, v in sb.fields.items()]} for sb in i.signals]}
                  for i in fcp.impls],
        "services": [{"name": codes(s.name), "id": s.id, "pos": _pos(s.meta), "methods": [
            {"name": codes(m.name), "id": m.id, "input": codes(m.input), "output": codes(m.output), "pos": _pos(m.meta)}
            for m in s.methods]} for s in fcp.services],
    }


def model_record(r):
    """the real reflection dict → the model's positional value (struct fields in reflection.fcp id order)"""

    def s(x):
        return {"s": codes(x)}

    def opt(x, f):
        return None if x is None else {"some": f(x)}

    def meta(m):
        return [m["line"], m["end_line"], m["column"], m["end_column"], m["start_pos"], m["end_pos"], s(m["filename"])]

    def ty(t):
        return [s(t["name"]), t["size"], s(t["type"])]

    def dictf(d):
        return [s(d["name"]), s(d["value"])]

    def field(f):
        return [s(f["name"]), f["field_id"], [ty(t) for t in f["type"]], opt(f["unit"], s),
                opt(f["min_value"], gen.f2w64), opt(f["max_value"], gen.f2w64), opt(f["meta"], meta)]

    return [
        list(r["tag"]), r["version"],
        [[s(x["name"]), [field(f) for f in x["fields"]], opt(x["meta"], meta)] for x in r["structs"]],
        [[s(e["name"]), [[s(x["name"]), x["value"], opt(x["meta"], meta)] for x in e["enumeration"]], opt(e["meta"], meta)]
         for e in r["enums"]],
        [[s(i["name"]), s(i["protocol"]), s(i["type"]), [dictf(d) for d in i["fields"]],
          [[s(sb["name"]), [dictf(d) for d in sb["fields"]], opt(sb["meta"], meta)] for sb in i["signals"]],
          opt(i["meta"], meta)] for i in r["impls"]],
        [[s(sv["name"]), sv["id"], [[s(m["name"]), m["id"], s(m["input"]), s(m["output"]), opt(m["meta"], meta)]
                                    for m in sv["methods"]], opt(sv["meta"], meta)] for sv in r["services"]],
    ]


_EARLIER = None


def w_reflect(case):
    from fcp.parser import get_fcp_from_string
    from fcp.error import Logger
    from fcp.reflection import get_reflection_schema
    from fcp import serde

    if case.get("files"):
        # the schema spread over module files: the record describes the merged schema
        import shutil
        import tempfile
        from fcp.parser import get_fcp
        td = tempfile.mkdtemp(prefix="fcprefl_")
        try:
            for rel, text in case["files"].items():
                fp = os.path.join(td, rel)
                os.makedirs(os.path.dirname(fp), exist_ok=True)
                with open(fp, "w", newline="") as f:
                    f.write(text)
            r = get_fcp(os.path.join(td, "main.fcp"), Logger({}))
        finally:
            shutil.rmtree(td, ignore_errors=True)
    else:
        r = get_fcp_from_string(case["text"], Logger({}))
    if r.is_err():
        return {"rejected": repr(r.err())[:200]}
    fcp = r.unwrap()
    out = {"rschema": rschema(fcp), "declared": fcp.to_dict()}
    try:
        rec = fcp.reflection()
    except Exception as e:
        out["reflection_raised"] = {"exc": type(e).__name__, "msg": str(e)[:150]}
        return out
    out["record"] = model_record(rec)
    R = get_reflection_schema().unwrap()
    try:
        b = serde.encode(R, "Fcp", rec)
        out["bytes"] = list(b)
        # the blob of the schema serialized BEFORE this one in the same process is decoded only now (blobs are collected
        # first and written or sent later): it must still be that schema's record
        global _EARLIER
        if _EARLIER is not None:
            pb, pcopy, pdec, ptext = _EARLIER
            try:
                now = serde.decode(R, "Fcp", pb)
            except Exception as e:
                now = ("raised", type(e).__name__)
            still = list(pb) == pcopy and now == pdec
            if not still:
                out["earlier_blob_changed"] = {"earlier_schema": ptext[:600], "bytes_then": pcopy[:40], "bytes_now": list(pb)[:40]}
        _EARLIER = None
        try:
            d = serde.decode(R, "Fcp", b)
        except Exception as e:
            _EARLIER = (b, list(b), ("raised", type(e).__name__), case.get("text") or json.dumps(case.get("files"))[:600])
            raise
        _EARLIER = (b, list(b), d, case.get("text") or json.dumps(case.get("files"))[:600])
        out["roundtrip"] = (d == rec)
        if d != rec:
            out["decoded"] = model_record(d)
            # the recorded decoder defect (C01 signed-min) seen through the record: an i32 enumerator -2^31 comes back as +2^31
            import copy
            rec2 = copy.deepcopy(rec)
            for e in rec2["enums"]:
                for x in e["enumeration"]:
                    if x["value"] == -2 ** 31:
                        x["value"] = 2 ** 31
            out["roundtrip_but_signed_min"] = (d == rec2)
    except Exception as e:
        from .impl import CaseTimeout
        if isinstance(e, CaseTimeout):
            raise  # the per-case watchdog, not an answer of the codec: reported as "did not answer" by the caller (exit 2 path)
        out["serde_raised"] = {"exc": type(e).__name__, "msg": str(e)[:150]}
    if case.get("via_cli") and "bytes" in out:
        # the `fcp encode <reflection.fcp> <schema> <output>` command must write exactly those bytes (for the record of
        # the schema read from that file: positions carry the file name)
        import shutil
        import tempfile
        from click.testing import CliRunner
        from fcp.__main__ import encode as encode_cmd
        from fcp.parser import get_fcp
        from .common import REPO
        d = tempfile.mkdtemp(prefix="fcprefl_")
        try:
            sp = os.path.join(d, "schema.fcp")
            with open(sp, "w", newline="") as f:
                f.write(case["text"])
            rp = str(REPO / "src" / "fcp" / "reflection" / "reflection.fcp")
            op = os.path.join(d, "out.bin")
            res = CliRunner().invoke(encode_cmd, [rp, sp, op])
            if res.exception is not None and not isinstance(res.exception, SystemExit):
                out["cli"] = {"exc": type(res.exception).__name__, "msg": str(res.exception)[:150]}
            elif not os.path.exists(op):
                out["cli"] = {"missing": (res.output or "")[-200:]}
            else:
                want = serde.encode(R, "Fcp", get_fcp(sp, Logger({})).unwrap().reflection())
                got = open(op, "rb").read()
                out["cli"] = {"same": bytes(want) == got, "len": len(got)}
        finally:
            shutil.rmtree(d, ignore_errors=True)
    return out


def w_refl_schema(case):
    from fcp.reflection import get_reflection_schema

    return get_reflection_schema().unwrap().to_dict()


# ------------------------------------------------------------------ reflection.fcp → Lean (translator)


def sty_lean(t):
    k = t["type"]
    if k == "unsigned":
        return f"(.u {int(t['name'][1:])})"
    if k == "signed":
        return f"(.i {int(t['name'][1:])})"
    if k == "float":
        return ".f32"
    if k == "double":
        return ".f64"
    if k == "str":
        return ".str"
    if k == "Enum":
        return f"(.enum {json.dumps(t['name'])})"
    if k == "Struct":
        return f"(.struct {json.dumps(t['name'])})"
    if k == "Array":
        return f"(.arr {sty_lean(t['underlying_type'])} {t['size']})"
    if k == "DynamicArray":
        return f"(.dyn {sty_lean(t['underlying_type'])})"
    if k == "Optional":
        return f"(.opt {sty_lean(t['underlying_type'])})"
    raise ValueError(k)


def write_refl_schema(sd):
    d = LEAN / "Generated"
    d.mkdir(exist_ok=True)
    structs = []
    for s in sd["structs"]:
        fs = ", ".join(f"{{ name := {json.dumps(f['name'])}, id := {f['field_id']}, ty := {sty_lean(f['type'])} }}" for f in s["fields"])
        structs.append(f"{{ name := {json.dumps(s['name'])}, fields := [{fs}] }}")
    src = [
        "import FcpModel",
        "/-! GENERATED on every run from src/fcp/reflection/reflection.fcp (parsed by the real parser): the",
        "    hand-written `Refl.reflTy` is re-checked against the file by the kernel. -/",
        "namespace Fcp.ReflGen",
        "open Fcp",
        "def reflSchemaGen : Schema := { structs := [",
        "  " + ",\n  ".join(structs),
        "] }",
        "theorem refl_resolves : resolve reflSchemaGen 12 (.struct \"Fcp\") = some Refl.reflTy := by decide",
        "end Fcp.ReflGen",
    ]
    (d / "ReflSchema.lean").write_text("\n".join(src) + "\n")


# ------------------------------------------------------------------ the check


def in_model_domain(text_desc):
    return True


def listing_declared(d):
    """what the source declares, from the generator's description (not from the parsed tree): every struct with its
    fields, every enumerator, every binding (default ones included) and every service; as sorted lists, so that the
    order in which module contents are merged does not matter"""
    t = exp_tree(d)
    return {
        "structs": sorted([s["name"], [[f["name"], f["field_id"], f.get("unit")] for f in s["fields"]]] for s in t["structs"]),
        "enums": sorted([e["name"], [[x["name"], x["value"]] for x in e["enumeration"]]] for e in t["enums"]),
        # ... with the texts declared in the source (units, string values of bindings and signal blocks): "with the values
        # declared in the source" is checked against what the generator wrote, not against what the parser made of it
        "impls": sorted([i["name"], i["protocol"], i["type"], [[k, v] if isinstance(v, str) else [k] for k, v in i["fields"]],
                         [[sb["name"], [[k, v] if isinstance(v, str) else [k] for k, v in sb["fields"]]] for sb in i["signals"]]]
                        for i in t["impls"]),
        "services": sorted([sv["name"], sv["id"], [[m["name"], m["id"], m["input"], m["output"]] for m in sv["methods"]]]
                           for sv in t["services"]),
    }


def listing_record(rs):
    def n(c):
        return bytes(c).decode("utf-8")

    def kv(k, v):
        return [n(k), n(v["s"])] if isinstance(v, dict) and "s" in v else [n(k)]
    return {
        "structs": sorted([n(s["name"]), [[n(f["name"]), f["id"], None if f["unit"] is None else n(f["unit"])] for f in s["fields"]]]
                          for s in rs["structs"]),
        "enums": sorted([n(e["name"]), [[n(x["name"]), x["value"]] for x in e["items"]]] for e in rs["enums"]),
        "impls": sorted([n(i["name"]), n(i["protocol"]), n(i["type"]), [kv(k, v) for k, v in i["fields"]],
                         [[n(sb["name"]), [kv(k, v) for k, v in sb["fields"]]] for sb in i["signals"]]]
                        for i in rs["impls"]),
        "services": sorted([n(sv["name"]), sv["id"], [[n(m["name"]), m["id"], n(m["input"]), n(m["output"])] for m in sv["methods"]]]
                           for sv in rs["services"]),
    }


def run(prop, tier, replay=None):
    rep = Report(prop, tier)
    rng = random.Random(seed() * 2750159 + 12)
    rep.check_proofs()
    # translator: reflection.fcp
    rs = run_cases("harness.reflection", "w_refl_schema", [{}], timeout_s=60)[0]
    rep.cov["obligations"] += 1
    if "ok" not in rs:
        rep.violation({"kind": "reflection-schema", "observed": rs, "what": "the built-in reflection schema does not load"}, no_input=True)
    else:
        write_refl_schema(rs["ok"])
        ok, out = lake_build(["Generated.ReflSchema"])
        if ok:
            okc, bad = audit_names("Generated.ReflSchema", ["Fcp.ReflGen.refl_resolves"])
            rep.cov["discharged"] += okc
            if bad:
                rep.proof_ok = False
                rep.proof_details += bad
        else:
            rep.proof_ok = False
            rep.proof_details.append("Generated/ReflSchema.lean: reflection.fcp no longer resolves to Refl.reflTy: " + out[-600:])
    n = 200 if tier == "quick" else 5000
    cases = []
    for _ in range(n):
        d = gen_desc(rng, max_decls=7)
        # model domain of `str(value)`: strings inside arrays are plain words
        if rng.random() < 0.25:
            # the same schema spread over module files (services, bindings, enums in imported modules)
            root_decls, mods = split_desc(rng, d)
            rd = Desc()
            rd.decls = root_decls
            files = {"main.fcp": render(rng, desc_toks(rng, rd), "canon")}
            for rel, sub in mods.items():
                files[rel] = render(rng, desc_toks(rng, sub), rng.choice(["canon", "wild"]))
            cases.append({"text": "".join(f"// file {rel}\n{t}" for rel, t in sorted(files.items())), "files": files,
                          "declared": listing_declared(d)})
            continue
        text = render(rng, desc_toks(rng, d), rng.choice(["canon", "wild"]))
        cases.append({"text": text, "via_cli": rng.random() < 0.25, "declared": listing_declared(d)})
    cases.append({"text": 'version: "3"\nstruct A {\n    x @ -1: u8,\n}\n'})  # recorded finding: negative field id
    cases.append({"text": 'version: "3"\nstruct A {\n    x @ 0: u8,\n}\nservice S @ -1 {\n    method m(A) @ -2 returns A,\n}\n'})  # ... service / method id
    cases.append({"text": 'version: "3"\nstruct A {\n    x @ 0: [u8, 4294967296],\n    y @ 4294967296: [[u8, 4294967297], 2],\n}\n'})  # ... array size, id >= 2^32
    cases.append({"text": 'version: "3"\nenum E {\n    A = -2147483648,\n}\nstruct S {\n    e @ 0: E,\n}\n'})  # recorded: signed-min
    # recorded finding: an enumerator outside the i32 of `Enumeration.value`
    cases.append({"text": 'version: "3"\nenum E {\n    A = 0,\n    B = 4294967301,\n}\nstruct S {\n    e @ 0: E,\n}\n'})
    # records at the width boundaries of the integer members of reflection.fcp: sources longer than 64 KiB (positions), with
    # more than 65536 lines, with a line longer than 65536 columns; element counts, field / method / service ids and
    # enumerators that need 17..32 bits
    body = ('enum E {\n    A = 2147483647,\n    B = -2147483647,\n    C = 65536,\n}\n'
            'struct S {\n    a @ 65536: [u8, 65536],\n    b @ 4294967295: [[u1, 70000], 2147483647],\n    c @ 16777216: [E, 4294967295],\n}\n'
            'impl can for S {\n    id: 536870911,\n    signal a {\n        bitstart: 70000,\n    },\n}\n'
            'service Sv @ 4294967295 {\n    method m(S) @ 4294967295 returns S,\n    method n(S) @ 65536 returns S,\n}\n')
    for pad in ("", "/* " + "x" * 70000 + " */\n", "\n" * 66000, " " * 70000):
        cases.append({"text": 'version: "3"\n' + pad + body})
        rep.hist("boundary_records", "pad of %d characters" % len(pad))
    ires = run_cases("harness.reflection", "w_reflect", cases, timeout_s=60)
    lidx = [k for k, r in enumerate(ires) if "ok" in r and "rschema" in r["ok"]]
    mres = dict(zip(lidx, run_driver_parallel([{"op": "reflect", "schema": ires[k]["ok"]["rschema"]} for k in lidx])))
    neg_listed = any(f.get("property") == "C12" and f.get("id") == "negative-field-id" and f.get("status") == "open"
                     for f in load_findings())
    min_listed = any(f.get("property") == "C12" and f.get("id") == "signed-min" and f.get("status") == "open"
                     for f in load_findings())
    big_listed = any(f.get("property") == "C12" and f.get("id") == "enumerator-beyond-i32" and f.get("status") == "open"
                     for f in load_findings())
    for k, (c, r) in enumerate(zip(cases, ires)):
        text = c["text"]
        rep.count(text)
        rep.sample({"text": text}, limit=3)
        base = {"text": text}
        if c.get("files"):
            base["files"] = c["files"]
        rep.hist("source", "module files" if c.get("files") else "one file")
        if "ok" not in r:
            rep.violation(dict(base, kind="harness", observed=r), no_input=True)
            continue
        o = r["ok"]
        if "rejected" in o:
            rep.hist("outcome", "rejected-by-parser")
            continue
        m = mres.get(k, {})
        if "driver_err" in m:
            rep.violation(dict(base, kind="harness", model=m), no_input=True)
            continue
        if "reflection_raised" in o:
            rep.cov["disagreements_checked"] += 1
            rep.violation(dict(base, kind="reflection-raised", observed=o["reflection_raised"],
                               what="reflection() raised on an accepted schema"))
            continue
        # complete: everything the source declares is listed (the description is the generator's, not the parser's)
        if "declared" in c:
            got = listing_record(o["rschema"])
            if got != c["declared"]:
                rep.cov["disagreements_checked"] += 1
                kind = next(k for k in got if got[k] != c["declared"][k])
                rep.violation(dict(base, kind="listing", category=kind, observed=got[kind], expected=c["declared"][kind],
                                   what="the reflected schema does not list exactly the declarations of the source"))
                continue
        # faithful: the record is what the model computes from the declared schema
        if o["record"] != m["record"]:
            rep.cov["disagreements_checked"] += 1
            rep.violation(dict(base, kind="record", difference=first_diff(o["record"], m["record"]),
                               what="reflection record differs from the model's description of the declared schema"))
            continue
        if not m["wf"]:
            # the record does not fit the reflection schema (e.g. a negative field id in `field_id: u32`)
            def sizes(t):
                return ([t["n"]] if isinstance(t, dict) and t.get("k") == "arr" else []) + (sizes(t["t"]) if isinstance(t, dict) and "t" in t else [])
            u32 = lambda x: 0 <= x < 2 ** 32
            neg = any(not u32(f["id"]) or not all(u32(n) for n in sizes(f["ty"])) for s in o["rschema"]["structs"] for f in s["fields"]) or \
                any(not u32(sv["id"]) or any(not u32(mt["id"]) for mt in sv["methods"]) for sv in o["rschema"]["services"])
            big = any(not -2 ** 31 <= x["value"] < 2 ** 31 for e in o["rschema"]["enums"] for x in e["items"])
            rep.hist("outcome", "out-of-reflection-range")
            if neg and neg_listed and o.get("roundtrip") is False:
                rep.known_finding("an id of a field, service or method, or the element count of a fixed array, outside 0..2^32-1 (accepted "
                                  "by parser and verifier) does not survive the reflection round trip: these members are u32 in reflection.fcp "
                                  "(witnesses: struct A { x @ -1: u8 }; service S @ -1 { method m(A) @ -2 returns A }; [u8, 4294967296]; x @ 4294967296)")
            elif big and big_listed and o.get("roundtrip") is False:
                rep.known_finding("an enumerator outside -2^31..2^31-1 (accepted by parser and verifier, encoded by the codecs) "
                                  "does not survive the reflection round trip: Enumeration.value is i32 in reflection.fcp "
                                  "(witness: enum E { A = 0, B = 4294967301 } reflects B as 5)")
            elif o.get("roundtrip") is not True:
                rep.cov["disagreements_checked"] += 1
                rep.violation(dict(base, kind="lossy", observed=o.get("serde_raised") or "decode != record",
                                   what="the reflection record of an accepted schema does not survive serialization"))
            continue
        rep.hist("outcome", "ok")
        if "earlier_blob_changed" in o:
            rep.cov["disagreements_checked"] += 1
            rep.violation(dict(base, kind="earlier-blob", observed=o["earlier_blob_changed"],
                               what="the serialized record of the schema reflected just before this one, in the same process, no "
                                    "longer decodes to that schema's record after this schema was serialized"))
            continue
        if "cli" in o:
            rep.hist("cli_encode", "same bytes" if o["cli"].get("same") else "differs")
            if not o["cli"].get("same"):
                rep.cov["disagreements_checked"] += 1
                rep.violation(dict(base, kind="cli-encode", observed=o["cli"],
                                   what="`fcp encode` does not write the serialized reflection record of the schema"))
                continue
        if o.get("roundtrip") is False and o.get("roundtrip_but_signed_min") and min_listed:
            rep.hist("outcome", "enumerator -2^31")
            rep.known_finding("an enumerator equal to -2^31 comes back from the reflection round trip as +2^31: the Python decoder's "
                              "signed-minimum defect (C01 signed-min) on Enumeration.value: i32 (witness: enum E { A = -2147483648 })")
            continue
        if "serde_raised" in o or o.get("roundtrip") is not True:
            rep.cov["disagreements_checked"] += 1
            rep.violation(dict(base, kind="lossy", observed=o.get("serde_raised") or "decode != record",
                               what="decode(encode(record)) != record with the reflection schema"))
            continue
        if o["bytes"] != m["bytes"]:
            rep.cov["disagreements_checked"] += 1
            rep.violation(dict(base, kind="bytes", what="serialized reflection differs from the canonical encoding of the record"),
                          no_input=True)
    rep.cov["rule"] = ("descriptions over every node kind (units, ranges, signal blocks, services, devices, any type nesting, "
                       "all extension value forms) parsed by the real parser; record vs model, serde round trip with the "
                       "built-in reflection schema, bytes vs canonical; distinct by text")
    rep.assumptions += ["source positions (meta) are taken from the real parse and fed to the model",
                        "floats travel as IEEE words / Python repr text"]
    return rep.finish()


def first_diff(a, b, path="record"):
    if type(a) != type(b):
        return [path, a, b]
    if isinstance(a, list):
        if len(a) != len(b):
            return [path + ".len", len(a), len(b)]
        for i, (x, y) in enumerate(zip(a, b)):
            d = first_diff(x, y, f"{path}[{i}]")
            if d:
                return d
        return None
    if isinstance(a, dict):
        for k in set(a) | set(b):
            d = first_diff(a.get(k), b.get(k), f"{path}.{k}")
            if d:
                return d
        return None
    return None if a == b else [path, a, b]
