"""A tiny generator plug-in used by the C10 check: its registered check rejects (or not) with a
configurable payload, in a configurable verifier category; it returns two files.  Everything
else is the real `GeneratorManager` / `Verifier` / `Result` machinery of /repo."""
from pathlib import Path

from fcp.codegen import CodeGenerator
from fcp.result import Ok, Err
from fcp.verifier import register

CONFIG = {"category": "struct", "reject": False, "payload": "fcp-error", "position": "only"}


def _payload(kind):
    if kind == "fcp-error":
        from fcp.error import error
        return error("vtest: rejected")
    return {"empty-str": "", "zero": 0, "none": None, "empty-list": [], "false": False, "text": "rejected", "seven": 7}[kind]


class Generator(CodeGenerator):
    def __init__(self) -> None:
        pass

    def generate(self, fcp, ctx):
        out = Path(ctx["output"])
        return [
            {"type": "file", "path": out / "vtest_a.txt", "contents": "structs: " + ",".join(s.name for s in fcp.structs) + "\n"},
            {"type": "file", "path": out / "vtest_b.h", "contents": "// " + str(len(fcp.enums)) + " enums\n"},
            # one level below the output directory, as the DBC plug-in does for a bus named "a/b"
            {"type": "file", "path": out / "nested" / "vtest_c.txt", "contents": "nested\n"},
        ]

    def register_checks(self, verifier):
        cfg = dict(CONFIG)

        if cfg["position"] == "after-pass":
            @register(verifier, cfg["category"])
            def check_pass_first(self, fcp, node):
                return Ok(())

        @register(verifier, cfg["category"])
        def check_configured(self, fcp, node):
            if cfg["reject"]:
                p = _payload(cfg["payload"])
                return p if cfg["payload"] == "fcp-error" else Err(p)
            return Ok(())

        if cfg["position"] == "before-pass":
            @register(verifier, cfg["category"])
            def check_pass_last(self, fcp, node):
                return Ok(())
