"""C10 (generation is gated by verification), the C-command side of C14, and C17 (determinism)."""
import json
import os
import random
import re
import subprocess
import sys

from .impl import schema_to_wire
from .common import Report, run_driver_parallel, seed, log, VERIF, REPO, PY
from .impl import run_cases

def _stamp_pattern():
    """the generation-stamp comment line, as the C++ templates of the tree under check write it: every template line that
    carries the `date` variable, its literal parts kept and its variables opened up (so a reworded stamp is still
    recognised; the default is the line as shipped)"""
    pats = set()
    tdir = REPO / "plugins" / "fcp_cpp" / "fcp_cpp"
    try:
        for f in sorted(tdir.iterdir()):
            if f.suffix not in (".h", ".j2"):
                continue
            for line in f.read_text(errors="replace").split("\n"):
                if re.search(r"\{\{\s*date\s*\}\}", line) and line.lstrip().startswith("//"):
                    parts = re.split(r"\{\{.*?\}\}", line.strip())
                    pats.add("[ \\t]*" + ".*".join(re.escape(x) for x in parts))
    except OSError:
        pass
    pats.add(r"// Generated using fcp .*")
    return re.compile("^(?:" + "|".join(sorted(pats)) + ")$", re.M)


STAMP = _stamp_pattern()


def strip_stamp(s):
    return STAMP.sub("// <generation stamp>", s)


# ------------------------------------------------------------------ implementation side


def _snapshot(root):
    out = {}
    for dp, dn, fn in os.walk(root):
        for f in fn:
            p = os.path.join(dp, f)
            try:
                out[os.path.relpath(p, root)] = open(p, encoding="utf-8", errors="replace", newline="").read()
            except Exception as e:  # noqa
                out[os.path.relpath(p, root)] = "<unreadable>"
    return out


def _msgs(err):
    """messages of an error value; plug-ins may reject with any payload"""
    m = getattr(err, "msg", None)
    if isinstance(m, list):
        return [str(x[0]) if isinstance(x, tuple) else str(x) for x in m]
    return [repr(err)]


def _parse(text):
    from .impl import parse

    r = parse(text)  # a text, or a schema spread over module files (impl.files_text)
    if r.is_err():
        raise RuntimeError("schema rejected by the parser: " + repr(r.err()))
    return r.unwrap()


def w_generate(case):
    import contextlib
    import importlib
    import io
    import shutil
    import tempfile
    from fcp.codegen import GeneratorManager
    from fcp.verifier import make_general_verifier

    name = case["generator"]
    out = {}
    if name == "vtest":
        # the harness' own plug-in: its check rejects (or not) by construction, with any payload an `Err` can carry
        import sys
        pd = os.path.join(os.path.dirname(os.path.abspath(__file__)), "plugins")
        if pd not in sys.path:
            sys.path.insert(0, pd)
            importlib.invalidate_caches()
        importlib.import_module("fcp_vtest").CONFIG.update(case["vtest"])
    # 1. the verifier's own verdict, obtained separately
    fcp = _parse(case["text"])
    out["schema"] = fcp.to_dict()
    v = make_general_verifier()
    importlib.import_module("fcp_" + name).Generator().register_checks(v)
    try:
        r = v.verify(fcp)
        out["verdict"] = {"ok": True} if r.is_ok() else {"ok": False, "msgs": _msgs(r.err())}
    except Exception as e:
        out["verdict"] = {"exc": type(e).__name__, "msg": str(e)[:100]}
    if name == "vtest":
        # ground truth by construction (the schema passes the general checks and has a node of the category)
        out["verdict_impl"] = out["verdict"]
        out["verdict"] = {"ok": not case["vtest"]["reject"], "msgs": ["vtest: " + case["vtest"]["payload"]]}
    # 2. the plug-in's file list, obtained separately in a scratch directory
    scratch = tempfile.mkdtemp(prefix="fcpgen_s_")
    try:
        if out["verdict"].get("ok"):
            try:
                buf = io.StringIO()
                with contextlib.redirect_stdout(buf):
                    res = importlib.import_module("fcp_" + name).Generator().generate(
                        _parse(case["text"]), {"output": scratch, "templates": {}, "skels": {}})
                out["plugin"] = {"files": [[os.path.relpath(str(x["path"]), scratch), str(x["contents"])]
                                           for x in res if x.get("type") == "file"],
                                 "prints": [str(x["contents"]) for x in res if x.get("type") == "print"]}
            except Exception as e:
                out["plugin"] = {"exc": type(e).__name__, "msg": str(e)[:100]}
    finally:
        shutil.rmtree(scratch, ignore_errors=True)
    # 3. the command itself, on a directory with pre-existing contents
    # the output directory may live on another file system than the temporary directory (a RAM disk, a mounted build volume)
    other = case.get("other_fs") and os.path.isdir("/dev/shm") and os.access("/dev/shm", os.W_OK) and \
        os.stat("/dev/shm").st_dev != os.stat(tempfile.gettempdir()).st_dev
    out["other_fs"] = bool(other)
    root = tempfile.mkdtemp(prefix="fcpgen_o_", dir="/dev/shm" if other else None)
    try:
        base = snaproot = root
        if case.get("via_symlink"):
            # the output directory is reached through a symbolic link (build -> store): the files land in the real directory
            snaproot = os.path.join(root, "real")
            os.makedirs(snaproot)
            base = os.path.join(root, "link")
            os.symlink(snaproot, base)
        odir = os.path.join(base, "out")
        if case["pre"] is not None:
            os.makedirs(odir)
            for rel, c in case["pre"].items():
                p = os.path.join(odir, rel)
                os.makedirs(os.path.dirname(p), exist_ok=True)
                with open(p, "w") as f:
                    f.write(c)
        schema_path = os.path.join(base, "schema.fcp")
        if case.get("via_cli"):
            with open(schema_path, "w") as f:
                f.write(case["text"])
        before = _snapshot(snaproot)
        buf = io.StringIO()
        try:
            if case.get("via_cli"):
                # the `fcp generate <generator> <schema> <output>` command itself (src/fcp/__main__.py)
                from click.testing import CliRunner
                from fcp.__main__ import generate_cmd
                res = CliRunner().invoke(generate_cmd, [name, schema_path, odir])
                buf.write(res.output or "")
                if res.exception is not None and not isinstance(res.exception, SystemExit):
                    out["result"] = {"exc": type(res.exception).__name__, "msg": str(res.exception)[:100]}
                else:
                    failed = "Failed to generate fcp" in (res.output or "") or (res.exit_code or 0) != 0
                    out["result"] = {"ok": not failed, "msgs": [(res.output or "")[-300:]] if failed else []}
            else:
                with contextlib.redirect_stdout(buf):
                    r = GeneratorManager(make_general_verifier()).generate(name, None, None, _parse(case["text"]), odir)
                out["result"] = {"ok": True} if r.is_ok() else {"ok": False, "msgs": _msgs(r.err())}
        except BaseException as e:
            if isinstance(e, KeyboardInterrupt):
                raise
            out["result"] = {"exc": type(e).__name__, "msg": str(e)[:100]}
        out["stdout"] = buf.getvalue()
        out["before"] = before
        out["after"] = _snapshot(snaproot)
    finally:
        shutil.rmtree(root, ignore_errors=True)
    return out


# ------------------------------------------------------------------ generator of schemas that fail a chosen rule

GOOD = [
    "enum E {\n    P = 0,\n    Q = 2,\n}",
    "struct A {\n    x @ 0: u8,\n    y @ 1: i16,\n}",
    "struct B {\n    e @ 0: E,\n    a @ 1: A,\n    f @ 2: f32,\n}",
    "struct C {\n    s @ 0: str,\n    l @ 1: [u8],\n}",
    'impl can for A {\n    id: 10,\n    device: "ecu",\n    period: 10,\n}',
    'impl can for B as Bee {\n    id: 11,\n    bus: "b1",\n    device: "ecu",\n}',
    "service Sv @ 1 {\n    method m(A) @ 0 returns B,\n}",
    "device ecu {\n    services: [Sv],\n}",
]
POISON = {
    "dupType": "enum A {\n    Z = 0,\n}",
    "dupField": "struct D {\n    x @ 0: u8,\n    x @ 1: u8,\n}",
    "dupEnumName": "enum F {\n    P = 0,\n    P = 1,\n}",
    "dupEnumValue": "enum G {\n    P = 0,\n    Q = 0,\n}",
    "dupImpl": "impl can for A {\n    id: 12,\n}",
    "missingService": "device d2 {\n    services: [Nope],\n}",
    "implNoStruct": "impl can for Zzz {\n    id: 13,\n}",          # plug-in rule (dbc, can_c)
    "dupCanId": "impl can for A as A2 {\n    id: 10,\n}",           # plug-in rule (dbc)
    "tooBig": "struct Big {\n    a @ 0: u64,\n    b @ 1: u8,\n}\nimpl can for Big {\n    id: 14,\n}",  # can_c
    "variable": "impl can for C {\n    id: 15,\n}",                 # can_c (no static size)
    # the same two, bound under another name than the struct's
    "tooBigAlias": "struct Big2 {\n    a @ 0: u32,\n    b @ 1: [u8, 4],\n    c @ 2: u8,\n}\nimpl can for Big2 as BigFrame {\n    id: 16,\n    device: \"ecu\",\n}",
    "variableAlias": "impl can for C as CFrame {\n    id: 17,\n}",
}
GENERAL_POISON = ("dupType", "dupField", "dupEnumName", "dupEnumValue", "dupImpl", "missingService")
PRE = [
    None,
    {},
    {"notes.txt": "keep me", "sub/x.h": "// nested header"},
    {"fcp.h": "stale", "default.fcp": "stale dbc", "can_frame.h": "stale", "ecu_can.c": "stale", "a.c": "int x;", "b.h": "//"},
    # same-named files much longer than anything generated: a write that does not truncate leaves a stale tail
    {"fcp.h": "// stale\n" * 20000, "default.fcp": "stale dbc line\n" * 5000, "b1.fcp": "stale\n" * 5000, "dynamic.h": "x" * 400000,
     "can_frame.h": "// old\n" * 5000, "ecu_can.c": "// old\n" * 20000, "sub/keep.txt": "keep"},
]


# schemas in which whole categories are empty (no struct at all, nothing but a device, ...): a rule must be applied even
# when the declarations it could be thought to depend on are absent
SPARSE = [
    ("enum E {\n    P = 0,\n}\nenum E {\n    Q = 1,\n}", "dupType"),
    ("enum E {\n    P = 0,\n}\nenum F {\n    Q = 1,\n}\nenum E {\n    R = 2,\n}", "dupType"),
    ("enum E {\n    P = 0,\n    P = 1,\n}", "dupEnumName"),
    ("enum E {\n    P = 0,\n    Q = 0,\n}", "dupEnumValue"),
    ("enum E {\n    P = 0,\n    Q = 1,\n}", None),
    ("device d2 {\n    services: [Nope],\n}", "missingService"),
    ("enum E {\n    P = 0,\n}\ndevice d2 {\n    services: [Nope],\n}", "missingService"),
    ("impl can for Zzz {\n    id: 13,\n}", "implNoStruct"),
    ("enum E {\n    P = 0,\n}\nimpl can for E {\n    id: 13,\n}", "implNoStruct"),
    ("struct A {\n    x @ 0: u8,\n}", None),
]


def w_glue(case):
    """one pipeline over the real Ok / Err / catch"""
    from fcp.result import Ok, Err
    from fcp.maybe import catch

    kind, v = case["start"]
    r = Ok(v) if kind == "ok" else Err(v)
    for op in case["ops"]:
        name, x, y = (op + [0, 0])[:3]
        if name == "map":
            r = r.map(lambda a: a + x)
        elif name == "map_err":
            r = r.map_err(lambda e: e * 2 + x)
        elif name == "and_then":
            r = r.and_then(lambda a: Ok(a + y) if a % 3 != x else Err(a))
        elif name == "or_else":
            r = r.or_else(lambda e: Ok(e + y) if e % 3 == x else Err(e - 1))
        elif name == "catch_attempt":
            r = catch(lambda: Ok(r.attempt() + x))()
    # read the verdict the way callers do: is_ok / is_err, never through truthiness
    if r.is_ok() == r.is_err():
        return ["broken", 0]
    return ["ok", r.unwrap()] if r.is_ok() else ["err", r.err() if not callable(getattr(r, "unwrap_err", None)) else r.unwrap_err()]


def check_glue(rep, rng, tier):
    """`Result` pipelines (payloads include 0, the falsy one) on the real classes against the Except model of Glue.lean"""
    n = 600 if tier == "quick" else 20000
    cases = []
    for _ in range(n):
        ops = []
        for _ in range(rng.randint(1, 6)):
            name = rng.choice(["map", "map_err", "and_then", "or_else", "catch_attempt"])
            ops.append([name, rng.randint(0, 2) if name in ("and_then", "or_else") else rng.choice([0, 0, 1, -1, 5]), rng.choice([0, 1, -3])])
        cases.append({"start": [rng.choice(["ok", "err"]), rng.choice([0, 0, 1, 2, 3, -1, 7])], "ops": ops})
    res = run_cases("harness.genmgr", "w_glue", cases, timeout_s=20)
    model = run_driver_parallel([{"op": "glue", "items": cases[k:k + 100]} for k in range(0, n, 100)])
    flat = [x for m in model for x in m.get("items", [])]
    for c, r, m in zip(cases, res, flat):
        rep.cov["evaluations"] += 1
        got = r.get("ok")
        rep.hist("result_pipelines", "same as the model" if got == m else "differs")
        if got != m:
            rep.cov["disagreements_checked"] += 1
            # an Err that turns into an Ok on its way through Ok-side combinators is the gate failing (theorem run_err_absorbs)
            rep.violation({"kind": "result-glue", "pipeline": c, "observed": r, "expected": m,
                           "what": "a Result pipeline on the real Ok/Err/catch classes ends differently from the Except model "
                                   "(payload 0 is falsy: nothing may depend on that)"}, no_input=False)


def gen_case(rng):
    if rng.random() < 0.15:
        text, poison = rng.choice(SPARSE)
        return 'version: "3"\n\n' + text + "\n", poison
    decls = [g for g in GOOD if rng.random() < 0.85 or g.startswith("enum E") or g.startswith("struct A")]
    # keep declare-before-use
    if not any(d.startswith("struct B") for d in decls):
        decls = [d for d in decls if "for B" not in d and "Sv" not in d]
    if not any(d.startswith("struct C") for d in decls):
        pass
    if not any(d.startswith("service Sv") for d in decls):
        decls = [d for d in decls if "services: [Sv]" not in d]
    poison = rng.choice([None, None] + list(POISON))
    if poison in ("variable", "variableAlias") and not any(d.startswith("struct C") for d in decls):
        poison = None
    if poison:
        # position: as early as declare-before-use allows, middle or last
        lo = 0
        need = {"dupType": "struct A", "dupImpl": "impl can for A", "dupCanId": "impl can for A", "variable": "struct C",
                "variableAlias": "struct C"}.get(poison)
        if need:
            idx = [i for i, d in enumerate(decls) if d.startswith(need)]
            if not idx:
                poison = None
            else:
                lo = idx[0] + 1
        if poison:
            decls.insert(rng.randint(lo, len(decls)), POISON[poison])
    return 'version: "3"\n\n' + "\n".join(decls) + "\n", poison


def listdir_model(snap):
    return sorted([p, c] for p, c in snap.items())


def run_c10(prop, tier):
    rep = Report(prop, tier)
    rng = random.Random(seed() * 9973 + (10 if prop == "C10" else 14))
    rep.check_proofs()
    n = 160 if tier == "quick" else 2500
    cases = []
    for _ in range(n):
        text, poison = gen_case(rng)
        if prop == "C14":
            g = "can_c"
            if rng.random() < 0.7:
                decls_poison = rng.choice(["tooBig", "variable", "tooBigAlias", "variableAlias"])
                base = 'version: "3"\n\n' + "\n".join(GOOD[:5]) + "\n"
                pos = rng.choice(["first", "last"])
                text = base + POISON[decls_poison] + "\n" if pos == "last" else base.replace(
                    "impl can for A", POISON[decls_poison].replace("impl can for C", "impl can for C") + "\nimpl can for A", 1) \
                    if decls_poison in ("tooBig", "tooBigAlias") else base + POISON[decls_poison] + "\n"
                poison = decls_poison
        else:
            g = rng.choice(["dbc", "can_c", "cpp", "nop", "dbc", "can_c"])
        c = {"text": text, "generator": g, "pre": rng.choice(PRE), "poison": poison, "via_cli": rng.random() < 0.5, "via_symlink": rng.random() < 0.25, "other_fs": rng.random() < 0.2}
        if prop == "C10" and rng.random() < 0.2:
            # a plug-in check rejecting with an arbitrary payload, in any category and position
            c.update({"text": 'version: "3"\n\n' + "\n".join(GOOD) +
                      '\nimpl uart for A as Asig {\n    id: 30,\n    signal x {\n        note: 2,\n    },\n}\n', "poison": None, "generator": "vtest",
                      "via_cli": False,
                      # every category that has nodes in this schema, the derived ones (fields of structs, signal blocks of
                      # bindings, the union "type") included; the general verifier already has a check in some of them
                      "vtest": {"category": rng.choice(["struct", "enum", "impl", "type", "device", "field", "field", "signal_block", "service"]),
                                "reject": rng.random() < 0.7,
                                "payload": rng.choice(["fcp-error", "empty-str", "zero", "none", "empty-list", "false", "text", "seven"]),
                                "position": rng.choice(["only", "after-pass", "before-pass"])}})
            c["poison"] = ("vtest:" + c["vtest"]["payload"]) if c["vtest"]["reject"] else None
        cases.append(c)
    check_glue(rep, rng, tier)
    ires = run_cases("harness.genmgr", "w_generate", cases, timeout_s=120)
    lcases = []
    idx = []
    spec_cases, spec_idx = [], []
    for k, (c, r) in enumerate(zip(cases, ires)):
        rep.count(json.dumps([c["text"], c["generator"], c["pre"]], sort_keys=True))
        if "ok" not in r:
            rep.violation({"kind": "harness", "case": c, "observed": r}, no_input=True)
            continue
        o = r["ok"]
        base = {"schema": c["text"], "generator": c["generator"], "pre_existing": c["pre"], "poison": c["poison"],
                "verdict": o["verdict"], "result": o["result"]}
        rep.sample(dict(base, written=sorted(set(o["after"]) - set(o["before"]))), limit=4)
        rep.hist("generator", c["generator"])
        rep.hist("entry", "cli generate command" if c.get("via_cli") else "GeneratorManager.generate")
        rep.hist("verdict", "ok" if o["verdict"].get("ok") else (c["poison"] or "rejected"))
        if "exc" in o["verdict"]:
            rep.violation(dict(base, kind="verify-raised", what="verifier raised"), no_input=True)
            continue
        # ---- ground truth that does not pass through the verifier's dispatch: the rule the schema violates by construction
        # (general rules reject under every generator; plug-in rules under their plug-in)
        must_reject = c["poison"] in GENERAL_POISON or \
            (c["poison"] in ("implNoStruct",) and c["generator"] in ("dbc", "can_c")) or \
            (c["poison"] == "dupCanId" and c["generator"] == "dbc") or \
            (c["poison"] in ("tooBig", "variable", "tooBigAlias", "variableAlias") and c["generator"] == "can_c")
        if must_reject and (o["verdict"].get("ok") or o["result"].get("ok") or o["before"] != o["after"]):
            rep.cov["disagreements_checked"] += 1
            rep.violation(dict(base, kind="gate-by-construction", before=sorted(o["before"]), after=sorted(o["after"]),
                               what="the schema violates rule '%s' by construction, but verification / the generate command "
                                    "did not reject it, or the output directory changed" % c["poison"]))
            continue
        spec_cases.append({"op": "verify", "schema": schema_to_wire(o["schema"]),
                           "set": {"dbc": "dbc", "can_c": "can_c"}.get(c["generator"], "general")})
        spec_idx.append(k)
        # ---- the property itself
        if not o["verdict"]["ok"]:
            if o["result"].get("ok") is not False:
                rep.cov["disagreements_checked"] += 1
                rep.violation(dict(base, kind="gate", what="a registered check rejects the schema but the generate "
                                   "command did not report an error"))
                continue
            if o["before"] != o["after"]:
                rep.cov["disagreements_checked"] += 1
                rep.violation(dict(base, kind="gate-fs", before=sorted(o["before"]), after=sorted(o["after"]),
                                   what="rejected schema, but the output directory was created / modified"))
                continue
        else:
            pl = o.get("plugin", {})
            if "exc" in pl:
                # the plug-in itself fails (e.g. DBC message too big): C14 — nothing may be described
                if o["result"].get("ok"):
                    rep.violation(dict(base, kind="plugin-failed-but-ok", plugin=pl,
                                       what="plug-in generate() raises but the command reports success"))
                continue
            if o["result"].get("ok") is not True:
                rep.cov["disagreements_checked"] += 1
                rep.violation(dict(base, kind="accept", what="all checks pass but the generate command failed"))
                continue
            exp_files = {p: strip_stamp(cn) for p, cn in pl["files"]}
            after = {os.path.relpath(p, "out"): strip_stamp(cn) for p, cn in o["after"].items() if p.startswith("out" + os.sep)}
            before = {os.path.relpath(p, "out"): cn for p, cn in o["before"].items() if p.startswith("out" + os.sep)}
            for p, cn in exp_files.items():
                if after.get(p) != cn:
                    rep.cov["disagreements_checked"] += 1
                    rep.violation(dict(base, kind="written", path=p, what="a returned file was not written with the returned contents"))
                    break
            else:
                extra = [p for p in after if p not in exp_files and after[p] != before.get(p)]
                if extra:
                    rep.cov["disagreements_checked"] += 1
                    rep.violation(dict(base, kind="extra-files", paths=extra, what="files other than the returned ones were created or modified"))
                    continue
                if c["generator"] == "nop" and pl["prints"] and pl["prints"][0] not in o["stdout"]:
                    rep.violation(dict(base, kind="print", what="print result not printed"))
                    continue
        # ---- correspondence with the Lean model of the command
        if o["verdict"]["ok"] and "exc" in o.get("plugin", {}):
            continue
        pre = [[p[len("out" + os.sep):], cn] for p, cn in sorted(o["before"].items()) if p.startswith("out" + os.sep)]
        files = [[p, strip_stamp(cn)] for p, cn in o.get("plugin", {}).get("files", [])]
        lcases.append({"op": "gate", "pre": pre, "files": files, "verdict_ok": bool(o["verdict"]["ok"]),
                       "clears_ch": c["generator"] == "can_c"})
        idx.append(k)
    # the specification's verdict (Lean model of the verifier, theorems C09_*): a schema it rejects must not generate
    for k, m in zip(spec_idx, run_driver_parallel(spec_cases)):
        o = ires[k]["ok"]
        c = cases[k]
        if c["generator"] == "vtest" or "driver_err" in m:
            continue
        rep.hist("spec_verdict", "accept" if m.get("ok") else "reject")
        if m.get("ok") is False and (o["result"].get("ok") or o["before"] != o["after"]):
            rep.cov["disagreements_checked"] += 1
            rep.violation({"kind": "gate-spec", "schema": c["text"], "generator": c["generator"], "pre_existing": c["pre"],
                           "spec_rule": m.get("rule"), "result": o["result"], "verdict": o["verdict"],
                           "written": sorted(set(o["after"]) - set(o["before"])),
                           "what": "the well-formedness specification rejects the schema (rule %s) but the generate command "
                                   "succeeded or touched the output directory" % m.get("rule")})
    mres = run_driver_parallel(lcases)
    for k, m in zip(idx, mres):
        o = ires[k]["ok"]
        c = cases[k]
        if "driver_err" in m:
            rep.violation({"kind": "harness", "model": m}, no_input=True)
            continue
        after = sorted([p[len("out" + os.sep):], strip_stamp(cn)] for p, cn in o["after"].items() if p.startswith("out" + os.sep))
        exp = sorted(m["fs"])
        if m["result_ok"] != bool(o["result"].get("ok")) or exp != after:
            rep.cov["disagreements_checked"] += 1
            rep.violation({"kind": "gate-correspondence", "schema": c["text"], "generator": c["generator"],
                           "pre_existing": c["pre"], "observed_result": o["result"], "model_result_ok": m["result_ok"],
                           "observed_files": [p for p, _ in after], "model_files": [p for p, _ in exp],
                           "what": "command outcome / directory contents differ from the Codegen model"}, no_input=True)
    rep.cov["rule"] = ("schemas assembled from declarations with one check-violating declaration (any general or plug-in rule) "
                       "inserted first/middle/last, x generator in {dbc, can_c, cpp, nop} x pre-existing output directory "
                       "(absent, empty, unrelated files, stale outputs); distinct by (schema, generator, pre-existing contents)")
    rep.assumptions.append("the verifier's verdict and the plug-in's file list are obtained by separate calls; the generation stamp line is masked")
    return rep.finish()


# ------------------------------------------------------------------ C17: determinism

SCRIPT = r'''
import sys, json, hashlib, os, contextlib, io, tempfile, shutil
sys.path[:0] = [REPO + "/src"] + [REPO + "/plugins/" + p for p in ("fcp_dbc", "fcp_can_c", "fcp_cpp", "fcp_nop")]
import importlib
from fcp.parser import get_fcp_from_string
from fcp.error import Logger
job = json.load(sys.stdin)
_generators = {}
def gen(fcp, name):
    d = tempfile.mkdtemp(prefix="fcpdet_")
    try:
        buf = io.StringIO()
        # a long-lived process may keep one generator object per plug-in and call it again and again
        g = _generators.setdefault(name, importlib.import_module("fcp_" + name).Generator()) if job.get("reuse_generators") \
            else importlib.import_module("fcp_" + name).Generator()
        with contextlib.redirect_stdout(buf):
            res = g.generate(fcp, {"output": d})
        return sorted([os.path.relpath(str(x.get("path", "print")), d) if x.get("type") == "file" else "<print>", str(x["contents"])] for x in res)
    except Exception as e:
        return [["<raised>", type(e).__name__]]
    finally:
        shutil.rmtree(d, ignore_errors=True)
out = []
for step in job["steps"]:
    if step["op"] == "parse":
        cur = get_fcp_from_string(step["text"], Logger({})).unwrap()
    elif step["op"] == "parse_files":
        # a schema spread over files (`mod common;`), each schema in a directory of its own
        from fcp.parser import get_fcp
        root = tempfile.mkdtemp(prefix="fcpdetm_")
        try:
            for rel, text in step["files"].items():
                p = os.path.join(root, rel)
                os.makedirs(os.path.dirname(p), exist_ok=True)
                open(p, "w").write(text)
            cur = get_fcp(os.path.join(root, "main.fcp"), Logger({})).unwrap()
        finally:
            shutil.rmtree(root, ignore_errors=True)
    elif step["op"] == "gen_disk":
        # the generation command itself, into one directory that stays for the whole process (what was generated there before
        # is still on disk); recorded: the directory's contents afterwards
        from fcp.codegen import GeneratorManager
        from fcp.verifier import make_general_verifier
        if "_disk" not in globals():
            _disk = tempfile.mkdtemp(prefix="fcpdetd_")
            import atexit
            atexit.register(shutil.rmtree, _disk, True)
        dd = os.path.join(_disk, step["generator"])
        with contextlib.redirect_stdout(io.StringIO()):
            rr = GeneratorManager(make_general_verifier()).generate(step["generator"], None, None, cur, dd)
        if step.get("record"):
            snap = []
            for dp, dn, fn in os.walk(dd):
                for f in fn:
                    pth = os.path.join(dp, f)
                    snap.append([os.path.relpath(pth, dd), open(pth, encoding="utf-8", errors="replace", newline="").read()])
            out.append({"generator": step["generator"], "files": sorted(snap), "order": [], "disk": True, "ok": bool(rr.is_ok())})
    elif step["op"] == "gen":
        r = gen(cur, step["generator"])
        if step.get("record"):
            out.append({"generator": step["generator"], "files": r, "order": [p for p, _ in r]})
print(json.dumps(out))
'''.replace("REPO", repr(str(REPO)))


def run_script(job, hashseed):
    env = dict(os.environ)
    env["PYTHONHASHSEED"] = str(hashseed)
    p = subprocess.run([PY, "-c", SCRIPT], input=json.dumps(job), stdout=subprocess.PIPE, stderr=subprocess.PIPE,
                       text=True, env=env, timeout=300)
    if p.returncode != 0:
        return {"error": p.stderr[-500:]}
    return {"out": json.loads(p.stdout)}


def rich_schema(rng, long_names=None):
    """a valid 'fleet' schema: several enums, CAN structs spread over several buses and several devices per bus,
    signal blocks, services with several methods, device declarations — everything a generator might collect in a
    set or a dict before printing it"""
    buses = rng.sample(["b1", "b2", "chas", "pt", "body"], rng.randint(1, 4))
    devices = rng.sample(["bms", "inverter", "charger", "dashboard", "ecu2", "vcu", "tcu"], rng.randint(2, 6))
    out = []
    enums = []
    ebits = {}
    for k in range(rng.randint(2, 3)):
        mx = rng.choice([1, 2, 3, 5, 9, 17, 100, 300])
        vals = sorted(set([0, mx] + [rng.randint(0, mx) for _ in range(rng.randint(0, 2))]))
        order = list(vals)
        rng.shuffle(order)
        items = ",\n".join(f"    V{k}_{v} = {v}" for v in order)
        out.append(f"enum En{k} {{\n{items},\n}}")
        enums.append(f"En{k}")
        ebits[f"En{k}"] = max(1, mx.bit_length())
    structs = []
    nfields = {}
    nested = rng.random() < 0.4
    if nested:
        out.append("struct Inner {\n    p @ 0: u8,\n    q @ 1: i8,\n}")
    for k in range(rng.randint(3, 7)):
        fields, bits = [], 0
        for j in range(rng.randint(1, 4)):
            if rng.random() < 0.4:
                t = rng.choice(enums)
                w = ebits[t]
            else:
                t, w = rng.choice([("u8", 8), ("i16", 16), ("u12", 12), ("f32", 32), ("i5", 5), ("u1", 1)])
            if bits + w > 64:
                break
            bits += w
            fields.append(f"    f{j} @ {j}: {t},")
        if not fields:
            fields = ["    f0 @ 0: u8,"]
        if nested and bits + 16 <= 64 and rng.random() < 0.5:
            fields.append("    g @ 9: Inner,")  # leaves g::p, g::q: flattened hierarchical names
        out.append(f"struct M{k} {{\n" + "\n".join(fields) + "\n}")
        structs.append(f"M{k}")
        nfields[f"M{k}"] = len(fields)
    for k, sname in enumerate(structs):
        lines = [f"    id: {100 + k},"]
        nf = nfields[sname]
        if nf >= 2 and rng.random() < 0.6:
            # signal blocks: several multiplexed signals, with DIFFERENT switches where the struct has enough fields, and
            # byte-order options - everything a generator could collect in a set or a dict keyed by hash
            fs = list(range(nf))
            rng.shuffle(fs)
            switches = fs[:max(1, nf // 2)]
            for j in fs[len(switches):] or fs[:1]:
                sw = rng.choice(switches)
                opts = [f"        mux_count: {rng.choice([2, 4, 16])},", f'        mux_signal: "f{sw}",']
                if rng.random() < 0.3:
                    opts.append('        endianess: "big",')
                lines.append(f"    signal f{j} {{\n" + "\n".join(opts) + "\n    },")
        if rng.random() < 0.8:
            lines.append(f'    bus: "{rng.choice(buses)}",')
        if rng.random() < 0.9:
            lines.append(f'    device: "{rng.choice(devices)}",')
        if rng.random() < 0.6:
            lines.append(f"    period: {rng.choice([10, 20, 100])},")
        out.append(f"impl can for {sname} {{\n" + "\n".join(lines) + "\n}")
        if rng.random() < 0.3:
            # bindings of further protocols, some of them spelled like another one up to letter case: each protocol is a
            # protocol of its own (own header, own set of messages), whatever a generator derives from the name
            out.append(f"impl {rng.choice(['CAN', 'Can', 'uart', 'UART', 'Uart'])} for {sname} as {sname}x {{\n    id: {200 + k},\n}}")
    svcs = []
    for k in range(rng.randint(0, 3)):
        ms = ",\n".join(f"    method m{j}({rng.choice(structs)}) @ {j} returns {rng.choice(structs)}" for j in range(rng.randint(1, 3)))
        out.append(f"service Sv{k} @ {k + 1} {{\n{ms},\n}}")
        svcs.append(f"Sv{k}")
    if len(structs) >= 3 and rng.random() < 0.7:
        # several payloads that travel in BOTH directions (an input of one method, the output of another): whatever a generator
        # collects about them in sets must not decide the order of what it writes
        a, b, c = rng.sample(structs, 3)
        out.append(f"service Echo @ 9 {{\n    method ping({a}) @ 0 returns {b},\n    method pong({b}) @ 1 returns {c},\n"
                   f"    method peng({c}) @ 2 returns {a},\n}}")
        svcs.append("Echo")
    for dname in devices:
        if rng.random() < 0.7:
            sv = rng.sample(svcs, rng.randint(0, len(svcs)))
            body = f"    services: [{', '.join(sv)}],\n" if sv else "    address: 1,\n"
            out.append(f"device {dname} {{\n{body}}}")
    text = 'version: "3"\n\n' + "\n".join(out) + "\n"
    if (rng.random() < 0.35) if long_names is None else long_names:
        # long identifiers (message + signal names well beyond the 31 / 63 significant characters of C): whatever a
        # generator does to such names must not depend on the process
        text = re.sub(r"\bM(\d)\b", r"M\1InverterPhaseCurrentMeasurementStatus", text)
        text = re.sub(r"\bf(\d)\b", r"f\1_instantaneous_peak_value_of_the_phase_current", text)
        text = re.sub(r"\b([pqg])\b(?= @)", r"\1_filtered_measurement_block_of_channel", text)
    return text


def as_files(text):
    """the same schema with its enums and structs moved into `common.fcp` (bindings, services and devices need no
    declaration before them)"""
    decls = text.split("\n", 2)[2].strip("\n")
    parts = re.split(r"\n(?=(?:enum|struct|impl|service|device) )", decls)
    common = [p for p in parts if p.startswith(("enum ", "struct "))]
    rest = [p for p in parts if not p.startswith(("enum ", "struct "))]
    return {"main.fcp": 'version: "3"\nmod common;\n' + "\n".join(rest) + "\n",
            "common.fcp": 'version: "3"\n' + "\n".join(common) + "\n"}


def det_schemas(rng, n):
    from . import gen
    out = []
    for k in range(n):
        if k % 2 == 1:
            out.append(rich_schema(rng, long_names=(k % 4 == 1)))
            continue
        text, _ = gen_case(rng)
        # only valid schemas: drop poison by regenerating from GOOD subsets
        decls = [g for g in GOOD if rng.random() < 0.9 or g.startswith("enum E") or g.startswith("struct A")]
        if not any(d.startswith("struct B") for d in decls):
            decls = [d for d in decls if "for B" not in d and "Sv" not in d]
        if not any(d.startswith("service Sv") for d in decls):
            decls = [d for d in decls if "services: [Sv]" not in d]
        extra = []
        for k in range(rng.randint(0, 3)):
            extra.append(f"struct X{k} {{\n    v @ 0: u{rng.randint(1, 32)},\n}}\nimpl {rng.choice(['can', 'uart', 'eth', 'spi'])} for X{k} {{\n    id: {20 + k},\n}}")
        out.append('version: "3"\n\n' + "\n".join(decls + extra) + "\n")
    return out


def canon(files):
    return [[p, strip_stamp(c)] for p, c in files]


def run_c17(prop, tier):
    from concurrent.futures import ThreadPoolExecutor

    rep = Report(prop, tier)
    rng = random.Random(seed() * 6151 + 17)
    rep.check_proofs()
    ns = 10 if tier == "quick" else 120
    seeds = [0, 1, 2, 12345, "random"] if tier == "thorough" else [0, 1, 12345]
    schemas = det_schemas(rng, ns)
    gens = ["dbc", "can_c", "cpp", "nop"]
    jobs = []
    meta = []
    for si, text in enumerate(schemas):
        # (a) fresh process per hash seed
        fresh = {"steps": [{"op": "parse", "text": text}] + [{"op": "gen", "generator": g, "record": True} for g in gens]}
        for hs in seeds:
            jobs.append((fresh, hs))
            meta.append((si, "fresh", hs))
        # (b) a long-lived process: unrelated parses/generations first, then the schema twice from one object
        # the unrelated schema generated first is of the same family (same type names with different contents), so
        # that anything cached under a name would be reused
        other = schemas[(si + 2) % len(schemas)]
        hist = [{"op": "parse", "text": other}] + [{"op": "gen", "generator": g} for g in gens]
        hist += [{"op": "parse", "text": schemas[(si + 1) % len(schemas)]}] + [{"op": "gen", "generator": g} for g in rng.sample(gens, 2)]
        hist += [{"op": "parse", "text": text}]
        hist += [{"op": "gen", "generator": g, "record": True} for g in gens]
        hist += [{"op": "gen", "generator": g, "record": True} for g in gens]
        jobs.append(({"steps": hist, "reuse_generators": si % 2 == 0}, seeds[0]))
        meta.append((si, "history", seeds[0]))
        if si % 2 == 1:
            # (c) the same two schemas loaded from files that both say `mod common;`, in one process
            fh = [{"op": "parse_files", "files": as_files(other)}] + [{"op": "gen", "generator": g} for g in gens]
            fh += [{"op": "parse_files", "files": as_files(text)}] + [{"op": "gen", "generator": g, "record": True} for g in gens]
            jobs.append(({"steps": fh, "reuse_generators": True}, seeds[0]))
            meta.append((si, "history-files", seeds[0]))
        if si % 2 == 0:
            # (d) the generation command writing into a directory that already holds the output of another, larger-or-smaller
            # schema of the same family: every file of a fresh generation must be on disk with the same contents
            dh = [{"op": "parse", "text": other}] + [{"op": "gen_disk", "generator": g} for g in gens]
            dh += [{"op": "parse", "text": text}] + [{"op": "gen_disk", "generator": g, "record": True} for g in gens]
            jobs.append(({"steps": dh}, seeds[0]))
            meta.append((si, "history-disk", seeds[0]))
    with ThreadPoolExecutor(16) as ex:
        res = list(ex.map(lambda j: run_script(*j), jobs))
    ref = {}
    for (si, kind, hs), r in zip(meta, res):
        rep.count(json.dumps([schemas[si], kind, hs]))
        rep.hist("runs", kind)
        base = {"schema": schemas[si], "kind": kind, "hashseed": hs}
        if "error" in r:
            rep.violation(dict(base, kind2="harness", error=r["error"]), no_input=True)
            continue
        rep.sample(dict(base, files=[[o["generator"], o["order"]] for o in r["out"]][:4]), limit=3)
        for j, o in enumerate(r["out"]):
            g = o["generator"]
            cf = canon(o["files"])
            if o.get("disk"):
                # only the files a fresh generation returns are compared (older files of other schemas may stay around)
                want = ref.get((si, g))
                if want is None or any(p.startswith("<") for p, _ in want[0]):
                    continue
                on_disk = dict(map(tuple, cf))
                bad = [p for p, c in want[0] if on_disk.get(p) != c]
                rep.hist("disk_history", "same" if not bad else "differs")
                if bad:
                    rep.cov["disagreements_checked"] += 1
                    rep.violation(dict(base, kind2="nondeterminism-on-disk", generator=g, differs_in=bad[:5], reference_run=want[1:],
                                       what="files written into a directory that already held another generation differ from "
                                            "the files of a fresh generation of the same schema"))
                continue
            paths = [p for p, _ in cf]
            if len(dict(cf)) != len(set(map(tuple, cf))):
                rep.violation(dict(base, kind2="dup-paths", generator=g,
                                   what="generator returned one path twice with different contents"))
                continue
            cf = sorted(set(map(tuple, cf)))
            cf = [list(x) for x in cf]
            key = (si, g)
            if key not in ref:
                ref[key] = (cf, kind, hs)
            elif ref[key][0] != cf:
                rep.cov["disagreements_checked"] += 1
                other_cf = dict(ref[key][0])
                diff = [p for p, c in cf if other_cf.get(p) != c] + [p for p in other_cf if p not in dict(cf)]
                rep.violation(dict(base, kind2="nondeterminism", generator=g, differs_in=diff[:5], reference_run=ref[key][1:],
                                   occurrence=j, what="generated files differ between runs of the same schema"))
    rep.cov["rule"] = ("valid schemas x {dbc, can_c, cpp, nop}: fresh subprocesses under PYTHONHASHSEED in %s, and one long-lived "
                       "process that first parses/generates another schema and then generates the schema twice from the same "
                       "object; {path: contents} maps compared after masking the documented stamp line" % seeds)
    rep.assumptions.append("CPython string hashing / set order is exercised through PYTHONHASHSEED only")
    return rep.finish()


def run(prop, tier, replay=None):
    if prop in ("C10",):
        return run_c10(prop, tier)
    if prop == "C17":
        return run_c17(prop, tier)
    raise ValueError(prop)
