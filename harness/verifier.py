"""C09: `make_general_verifier()` (+ plug-in checks) against the Lean `Verifier` model."""
import itertools
import json
import random

from .common import Report, run_driver_parallel, seed, log, load_findings
from .impl import run_cases, schema_to_wire

RULES = [
    ("Duplicate service", "serviceRpc"), ("Duplicate method", "serviceRpc"), ("must fit in 8 bits", "serviceRpc"),
    ("No matching struct", "serviceRpc"), ("1 to 64 are supported", "intWidth"),
    ("Struct has no signal", "emptyStruct"),
    ("Duplicate fields", "dupField"),
    ("Duplicated enumration name", "dupEnumName"),
    ("Duplicated enumeration name", "dupEnumValue"),
    ("Duplicate impls", "dupImpl"),
    ("No matching type for", "implNoStruct"),
    ("Duplicate ids", "dupCanId"),
    ("is way too big", "implTooBig"),
    ("has no static size", "implTooBig"),
    ("Duplicate type names", "dupType"),
    ("referenced by device", "missingService"),
]


def build_type(t):
    from fcp.specs import type as T

    k = t["type"]
    if k == "unsigned":
        return T.UnsignedType(t["name"])
    if k == "signed":
        return T.SignedType(t["name"])
    if k == "float":
        return T.FloatType()
    if k == "double":
        return T.DoubleType()
    if k == "str":
        return T.StringType()
    if k == "Enum":
        return T.EnumType(t["name"])
    if k == "Struct":
        return T.StructType(t["name"])
    if k == "Array":
        return T.ArrayType(build_type(t["underlying_type"]), t["size"])
    if k == "DynamicArray":
        return T.DynamicArrayType(build_type(t["underlying_type"]))
    if k == "Optional":
        return T.OptionalType(build_type(t["underlying_type"]))
    raise ValueError(k)


def build_fcp(sd):
    """FcpV2 object tree from a description in to_dict() shape (shapes the parser rejects,
    such as an empty struct, are reachable this way)"""
    from fcp.specs.v2 import FcpV2
    from fcp.specs.struct import Struct
    from fcp.specs.struct_field import StructField
    from fcp.specs.enum import Enum, Enumeration
    from fcp.specs.impl import Impl
    from fcp.specs.signal_block import SignalBlock
    from fcp.specs.service import Service
    from fcp.specs.method import Method
    from fcp.specs.device import Device
    from fcp.specs.metadata import MetaData

    meta = MetaData(1, 1, 1, 1, 0, 0, "main.fcp")
    return FcpV2(
        structs=[Struct(name=s["name"], fields=[
            StructField(name=f["name"], field_id=f["field_id"], type=build_type(f["type"]), meta=meta)
            for f in s["fields"]], meta=meta) for s in sd.get("structs", [])],
        enums=[Enum(name=e["name"], enumeration=[Enumeration(x["name"], x["value"], meta) for x in e["enumeration"]],
                    meta=meta) for e in sd.get("enums", [])],
        impls=[Impl(name=i["name"], protocol=i["protocol"], type=i["type"], fields=dict(i.get("fields", {})),
                    signals=[SignalBlock(sb["name"], dict(sb.get("fields", {})), meta) for sb in i.get("signals", [])],
                    meta=meta) for i in sd.get("impls", [])],
        services=[Service(s["name"], s["id"], [Method(m["name"], m["id"], m["input"], m["output"], meta)
                                               for m in s.get("methods", [])], meta) for s in sd.get("services", [])],
        devices=[Device(d["name"], dict(d.get("fields", {})), meta) for d in sd.get("devices", [])],
    )


def w_verify(case):
    import importlib
    from fcp.verifier import make_general_verifier
    from fcp.error import Logger

    fcp = build_fcp(case["sd"])
    out = {"schema": fcp.to_dict()}
    for cs in case["sets"]:
        v = make_general_verifier()
        if cs == "dbc":
            importlib.import_module("fcp_dbc").Generator().register_checks(v)
        elif cs == "can_c":
            importlib.import_module("fcp_can_c").Generator().register_checks(v)
        elif cs == "cpp":
            importlib.import_module("fcp_cpp").Generator().register_checks(v)
        try:
            r = v.verify(fcp)
            if r.is_ok():
                out[cs] = {"ok": True}
            else:
                err = r.err()
                msgs = [m for m, _, _ in err.msg]
                # C11-style: the error must be renderable
                try:
                    Logger({"main.fcp": "x\n"}).error(err)
                    rend = True
                except Exception as e:  # noqa
                    rend = type(e).__name__
                out[cs] = {"ok": False, "msgs": msgs, "renderable": rend}
        except Exception as e:
            out[cs] = {"exc": type(e).__name__, "msg": str(e)[:120]}
    return out


def rule_of(msgs):
    for m in msgs:
        for pat, r in RULES:
            if pat in m:
                return r
    return "?"


# ------------------------------------------------------------------ generators

NAMES = ["A", "B", "C"]


def rnd_type(rng, structs, enums, big=False):
    r = rng.random()
    if r < 0.5:
        w = rng.choice([1, 8, 16, 31, 32, 33, 64, 64, 0, 65, 99] if not big else [32, 64])  # 0, 65, 99: no carrier type in C++
        return {"name": rng.choice("ui") + str(w), "type": "unsigned" if rng.random() < 0.5 else "signed"}
    if r < 0.6:
        return {"name": "f32", "type": "float"}
    if r < 0.68:
        return {"name": "f64", "type": "double"}
    if r < 0.78 and enums:
        return {"name": rng.choice(enums), "type": "Enum"}
    if r < 0.86 and structs:
        return {"name": rng.choice(structs), "type": "Struct"}
    if r < 0.95:
        return {"underlying_type": rnd_type(rng, structs, enums), "size": rng.choice([1, 2, 3]), "type": "Array"}
    return rng.choice([{"type": "str"}, {"underlying_type": {"name": "u8", "type": "unsigned"}, "type": "DynamicArray"},
                       {"underlying_type": {"name": "u8", "type": "unsigned"}, "type": "Optional"}])


def fix_numeric(t):
    if t.get("type") in ("unsigned", "signed"):
        t["name"] = ("u" if t["type"] == "unsigned" else "i") + t["name"][1:]
    if "underlying_type" in t:
        fix_numeric(t["underlying_type"])
    return t


def sparse_tree(rng):
    """trees in which whole categories are empty (no struct at all, only a device, ...) and one rule is violated or none:
    every rule must be applied whatever else is absent"""
    sd = {"structs": [], "enums": [], "impls": [], "services": [], "devices": []}
    en = lambda n, items: {"name": n, "enumeration": [{"name": a, "value": v} for a, v in items]}
    k = rng.choice(["dup-enum", "dup-enum-3", "dup-enumerator", "dup-value", "enum-ok", "device-missing", "device-ok",
                    "impl-nowhere", "impl-enum", "service-only", "dup-impl-nowhere"])
    if k == "dup-enum":
        sd["enums"] = [en("E", [("P", 0)]), en("E", [("Q", 1)])]
    elif k == "dup-enum-3":
        sd["enums"] = [en("E", [("P", 0)]), en("F", [("Q", 1)]), en("E", [("R", 2)])]
    elif k == "dup-enumerator":
        sd["enums"] = [en("E", [("P", 0), ("P", 1)])]
    elif k == "dup-value":
        sd["enums"] = [en("E", [("P", 0), ("Q", 0)])]
    elif k == "enum-ok":
        sd["enums"] = [en("E", [("P", 0), ("Q", 1)])]
    elif k == "device-missing":
        sd["devices"] = [{"name": "d0", "fields": {"services": ["s9"]}}]
        if rng.random() < 0.5:
            sd["enums"] = [en("E", [("P", 0)])]
    elif k == "device-ok":
        sd["services"] = [{"name": "s1", "id": 0, "methods": []}]
        sd["devices"] = [{"name": "d0", "fields": {"services": ["s1"]}}]
    elif k == "impl-nowhere":
        sd["impls"] = [{"name": "Z", "protocol": "can", "type": "Z", "fields": {"id": 1}, "signals": []}]
    elif k == "impl-enum":
        sd["enums"] = [en("E", [("P", 0)])]
        sd["impls"] = [{"name": "E", "protocol": "can", "type": "E", "fields": {"id": 1}, "signals": []}]
    elif k == "service-only":
        sd["services"] = [{"name": "s1", "id": 0, "methods": []}]
    elif k == "dup-impl-nowhere":
        sd["impls"] = [{"name": "Z", "protocol": "x", "type": "Z", "fields": {}, "signals": []},
                       {"name": "Z", "protocol": "x", "type": "Z", "fields": {}, "signals": []}]
    return sd


def rnd_tree(rng):
    if rng.random() < 0.08:
        return sparse_tree(rng)
    sd = {"structs": [], "enums": [], "impls": [], "services": [], "devices": []}
    ns = rng.choice([0, 1, 1, 2, 2, 3])
    snames = []
    enames = []
    for _ in range(rng.choice([0, 0, 1, 2])):
        n = rng.choice(NAMES) if rng.random() < 0.4 else "E" + str(len(enames))
        enames.append(n)
        cnt = rng.randint(1, 3)
        sd["enums"].append({"name": n, "enumeration": [
            {"name": rng.choice(["P", "Q", "R"]), "value": rng.choice([0, 1, 2, 5])} for _ in range(cnt)]})
    for k in range(ns):
        n = rng.choice(NAMES) if rng.random() < 0.5 else "S" + str(k)
        nf = rng.choice([0, 1, 1, 2, 2, 3]) if rng.random() < 0.25 else rng.choice([1, 2, 3])
        fields = []
        for j in range(nf):
            fn = rng.choice(["x", "y"]) if rng.random() < 0.3 else "f" + str(j)
            fields.append({"name": fn, "field_id": j, "type": fix_numeric(rnd_type(rng, snames, enames, big=rng.random() < 0.3))})
        sd["structs"].append({"name": n, "fields": fields})
        snames.append(n)
        if rng.random() < 0.8:
            sd["impls"].append({"name": n, "protocol": "default", "type": n, "fields": {}, "signals": []})
    for _ in range(rng.choice([0, 1, 1, 2, 3])):
        # a binding's target may be any name: a struct, nothing at all ("Z"), or a declared *enum* (not a struct either)
        ty = rng.choice(snames + enames + ["Z"]) if (snames or enames) and rng.random() < 0.9 else "Z"
        nm = ty if rng.random() < 0.6 else rng.choice(NAMES + ["Y"])
        fields = {}
        r = rng.random()
        if r < 0.8:
            fields["id"] = rng.choice([1, 2, 3])
        if rng.random() < 0.3:
            fields["bus"] = rng.choice(["b1", "b2"])
        sd["impls"].append({"name": nm, "protocol": rng.choice(["can", "can", "can", "x", "default"]), "type": ty,
                            "fields": fields, "signals": []})
    svc = []
    for k in range(rng.choice([0, 0, 1, 2])):
        n = rng.choice(["s1", "s2"])
        svc.append(n)
        # methods with names, ids and payloads from small alphabets (the C++ plug-in's service check: ids in 0..255, unique
        # names and ids, payloads that are declared structs)
        ms = [{"name": rng.choice(["m", "n"]), "id": rng.choice([0, 1, 1, 255, 256, -1]),
               "input": rng.choice(NAMES + ["Zz"]), "output": rng.choice(NAMES)} for _ in range(rng.choice([0, 1, 1, 2]))]
        sd["services"].append({"name": n, "id": rng.choice([k, k, 0, 255, 256, -1]), "methods": ms})
    for k in range(rng.choice([0, 0, 1, 2])):
        fields = {}
        if rng.random() < 0.7:
            fields["services"] = rng.sample(["s1", "s2", "s3"], rng.randint(0, 2))
        sd["devices"].append({"name": "d" + str(k), "fields": fields})
    return sd


def acyclic(sd):
    """struct references (first-match lookup, as FcpV2.get_struct) contain no cycle"""
    first = {}
    for s in sd["structs"]:
        first.setdefault(s["name"], s)

    def refs(t):
        if t["type"] == "Struct":
            yield t["name"]
        if "underlying_type" in t:
            yield from refs(t["underlying_type"])

    state = {}

    def visit(n):
        if state.get(n) == 1:
            return False
        if state.get(n) == 2 or n not in first:
            return True
        state[n] = 1
        for f in first[n]["fields"]:
            for r in refs(f["type"]):
                if not visit(r):
                    return False
        state[n] = 2
        return True

    return all(visit(n) for n in list(first))


def permute(rng, sd):
    out = {k: list(v) for k, v in sd.items()}
    for k in out:
        rng.shuffle(out[k])
    return out


def small_scope():
    """exhaustive: <=2 structs x <=2 fields, <=1 enum x <=2 enumerators, <=2 impls, <=1 device/service,
    names and values from 2-element alphabets"""
    u8 = {"name": "u8", "type": "unsigned"}
    u64 = {"name": "u64", "type": "unsigned"}
    fsets = [[], [("x", u8)], [("x", u64)], [("x", u8), ("x", u8)], [("x", u64), ("y", u8)]]
    struct_opts = [None] + [(n, fs) for n in ("A", "B") for fs in fsets]
    enum_opts = [None] + [("A", es) for es in ([("P", 0)], [("P", 0), ("P", 1)], [("P", 0), ("Q", 0)], [("P", 0), ("Q", 1)])] + [("E", [("P", 0)])]
    impl_opts = [None] + [(n, p, t, i) for n in ("A", "B") for p in ("can", "x") for t in ("A", "Z") for i in (1, 2)]
    dev_opts = [None, ([], None), (["s1"], None), (["s1"], ["s1"]), (["s1"], ["s2"])]
    for s1, s2 in itertools.product(struct_opts, repeat=2):
        if s1 is None and s2 is not None:
            continue
        for e in enum_opts:
            for i1, i2 in itertools.combinations_with_replacement(impl_opts, 2):
                if i1 is None and i2 is not None:
                    continue
                for dv in dev_opts:
                    sd = {"structs": [], "enums": [], "impls": [], "services": [], "devices": []}
                    for s in (s1, s2):
                        if s:
                            sd["structs"].append({"name": s[0], "fields": [
                                {"name": fn, "field_id": k, "type": ft} for k, (fn, ft) in enumerate(s[1])]})
                    if e:
                        sd["enums"].append({"name": e[0], "enumeration": [{"name": a, "value": b} for a, b in e[1]]})
                    for i in (i1, i2):
                        if i:
                            sd["impls"].append({"name": i[0], "protocol": i[1], "type": i[2], "fields": {"id": i[3]},
                                                "signals": []})
                    if dv:
                        for s in dv[0]:
                            sd["services"].append({"name": s, "id": 0, "methods": []})
                        sd["devices"].append({"name": "d", "fields": ({"services": dv[1]} if dv[1] is not None else {})})
                    yield sd


def run(prop, tier, replay=None):
    rep = Report(prop, tier)
    rng = random.Random(seed() * 31337 + 9)
    rep.check_proofs()
    n = 2500 if tier == "quick" else 30000
    trees = [rnd_tree(rng) for _ in range(n)]
    exhaustive = False
    if tier == "thorough":
        ss = list(small_scope())
        trees += ss
        exhaustive = True
        rep.cov["small_scope_trees"] = len(ss)
    # each tree and a declaration-permuted twin
    cases = []
    for t in trees:
        if not acyclic(t):
            rep.hist("skipped", "cyclic struct reference (unreachable from the parser)")
            continue
        tw = permute(rng, t)
        if not acyclic(tw):
            tw = t
        cases.append({"sd": t, "sets": ["general", "dbc", "can_c", "cpp"]})
        cases.append({"sd": tw, "sets": ["general", "dbc", "can_c", "cpp"]})
    ires = run_cases("harness.verifier", "w_verify", cases, timeout_s=20)
    lcases = []
    idx = []
    for k, r in enumerate(ires):
        if "ok" not in r:
            rep.hist("harness_problem", str(r)[:100])
            continue
        w = schema_to_wire(r["ok"]["schema"])
        for cs in ("general", "dbc", "can_c", "cpp"):
            lcases.append({"op": "verify", "schema": w, "set": cs})
            idx.append((k, cs))
    mres = run_driver_parallel(lcases)
    verdicts = {}
    for (k, cs), m in zip(idx, mres):
        io = ires[k]["ok"][cs]
        sd = cases[k]["sd"]
        rep.count(json.dumps([sd, cs], sort_keys=True))
        rep.sample({"tree": sd, "check_set": cs, "observed": io, "model": m}, limit=4)
        base = {"tree": sd, "check_set": cs, "observed": io, "model": m}
        if "driver_err" in m:
            rep.violation(dict(base, kind="harness"), no_input=True)
            continue
        if "exc" in io:
            rep.hist("verdicts", "exception")
            rep.cov["disagreements_checked"] += 1
            rep.violation(dict(base, kind="verify-raised",
                               what="verify() raised instead of returning Ok/Err; specification says %s"
                               % ("accept" if m["ok"] else "reject: " + m.get("rule", ""))))
            continue
        rep.hist("verdicts", ("ok" if io["ok"] else rule_of(io["msgs"])))
        verdicts[(k, cs)] = io["ok"]
        if io["ok"] != m["ok"]:
            # the model's verdict is the specification (theorems verify_iff_*): the tree is the failing input
            rep.cov["disagreements_checked"] += 1
            rep.violation(dict(base, kind="verdict", what="verifier verdict differs from the well-formedness "
                               "specification: spec says %s" % ("accept" if m["ok"] else "reject (" + m.get("rule", "") + ")")))
            continue
        if not io["ok"]:
            if io.get("renderable") is not True:
                rep.violation(dict(base, kind="render", what="error value cannot be rendered"), no_input=False)
                continue
            # which rule fails first is read from the message text: informative only (the property is about the verdict; a
            # reworded message or another order of equally failing checks is not a violation)
            rep.hist("first_failing_rule", "same as model" if rule_of(io["msgs"]) == m.get("rule") else
                     "differs: %s vs model %s" % (rule_of(io["msgs"]), m.get("rule")))
    # permutation invariance, directly on the implementation
    for k in range(0, len(cases), 2):
        for cs in ("general", "dbc", "can_c", "cpp"):
            a, b = verdicts.get((k, cs)), verdicts.get((k + 1, cs))
            if a is not None and b is not None and a != b:
                rep.cov["disagreements_checked"] += 1
                rep.violation({"kind": "order", "tree": cases[k]["sd"], "permuted": cases[k + 1]["sd"], "check_set": cs,
                               "what": "verdict depends on declaration order"})
    if exhaustive:
        rep.cov["exhaustive"] = True
        rep.cov["exhaustive_scope"] = "trees of small_scope(): <=2 structs x fields {[],x,x:u64,x+x,x+y}, <=1 enum, <=2 impls over 2 names/2 protocols/2 types/2 ids, <=1 device"
    rep.assumptions.append("trees whose struct references are cyclic under first-match lookup (only constructible by hand, "
                           "with duplicate type names) are skipped: the implementation recurses without bound on them")
    rep.cov["rule"] = ("schema trees built directly as FcpV2 objects (names/values from small alphabets so that every rule "
                       "fires: duplicates, empty structs, missing services, unknown struct bindings, duplicate CAN ids, oversize "
                       "messages) x {general, +dbc, +can_c} x a declaration-permuted twin; distinct by (tree, check set)")
    return rep.finish()
