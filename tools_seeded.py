#!/usr/bin/env python3
"""Mutation-trial bookkeeping (development tool, not a registered check).

  tools_seeded.py import <id> <worktree> [--name NAME]   copy <worktree>/_mutation into seeded/<id>[-NAME]/
  tools_seeded.py run <dir-name> [props...] [--tier quick]  apply seeded/<dir>/patch.diff to /repo, run the
        repository's own test suite and the listed checks (default: the property of the trial),
        record the outcome in seeded/<dir>/detection.json, and undo the change (git checkout -- .)

/repo must be clean before `run`; it is clean again afterwards.  Nothing here is ever committed to /repo.
"""
import json
import os
import shutil
import subprocess
import sys
import time
from pathlib import Path

VERIF = Path(__file__).resolve().parent
REPO = Path("/repo")
SEEDED = VERIF / "seeded"


def sh(cmd, **kw):
    return subprocess.run(cmd, shell=isinstance(cmd, str), stdout=subprocess.PIPE, stderr=subprocess.STDOUT, text=True, **kw)


def clean():
    return sh(["git", "-C", str(REPO), "status", "--porcelain"]).stdout.strip() == ""


def cmd_import(pid, wt, name=None):
    src = Path(wt) / "_mutation"
    dst = SEEDED / (pid + ("-" + name if name else ""))
    if dst.exists():
        shutil.rmtree(dst)
    shutil.copytree(src, dst, ignore=shutil.ignore_patterns("__pycache__", "*.o", "prog", "a.out", "build*", "out*", "gen*"))
    # the patch must be exactly the source change
    diff = sh(["git", "-C", wt, "diff"]).stdout
    (dst / "patch.diff").write_text(diff)
    print("imported", dst, "files:", sorted(p.name for p in dst.iterdir()))


def cmd_run(dname, props, tier):
    d = SEEDED / dname
    pid = dname.split("-")[0]
    props = props or [pid]
    if props == ["ALL"]:
        props = [f"C{n:02d}" for n in range(1, 21)]
    if not clean():
        sys.exit("/repo is not clean")
    out = {"applied_to": sh(["git", "-C", str(REPO), "rev-parse", "--short", "HEAD"]).stdout.strip(), "tier": tier, "checks": {}}
    r = sh(["git", "-C", str(REPO), "apply", str(d / "patch.diff")])
    if r.returncode != 0:
        sys.exit("patch does not apply: " + r.stdout)
    try:
        t0 = time.time()
        t = sh("cd /repo && /venv/bin/python -m pytest -q -p no:cacheprovider --timeout=900 --continue-on-collection-errors 2>&1 | tail -1")
        out["repo_tests"] = t.stdout.strip()
        print("repo tests:", out["repo_tests"])
        shutil.rmtree(REPO / ".hypothesis", ignore_errors=True)
        for p in props:
            t0 = time.time()
            r = sh(["/venv/bin/python", "check.py", p, "--tier", tier], cwd=str(VERIF), env=dict(os.environ, VERIF_EVIDENCE_DIR=str(d / "evidence")))
            lines = [l for l in r.stdout.split("\n") if l.startswith("VIOLATION") or l.startswith("KNOWN-FINDING")]
            rep = None
            for l in lines:
                if l.startswith("VIOLATION") and "replay=" in l:
                    rp = l.split("replay=")[1].split()[0]
                    try:
                        rep = json.loads((VERIF / rp).read_text() if not rp.startswith("/") else Path(rp).read_text())
                    except Exception as e:  # noqa
                        rep = {"unreadable": str(e)}
                    break
            out["checks"][p] = {"exit": r.returncode, "lines": [l[:300] for l in lines][:6], "wall_s": round(time.time() - t0, 1),
                                "first_replay": json.loads(json.dumps(rep)[:3000]) if rep and len(json.dumps(rep)) <= 3000 else
                                (json.dumps(rep)[:1500] if rep else None)}
            print(p, "exit", r.returncode, *[l[:200] for l in lines][:3], sep="\n   ")
    finally:
        sh(["git", "-C", str(REPO), "checkout", "--", "."])
        sh(["git", "-C", str(REPO), "clean", "-fdq"])
        assert clean()
    (d / "detection.json").write_text(json.dumps(out, indent=1))


if __name__ == "__main__":
    a = sys.argv[1:]
    if a[0] == "import":
        name = None
        if "--name" in a:
            name = a[a.index("--name") + 1]
        cmd_import(a[1], a[2], name)
    elif a[0] == "run":
        tier = "quick"
        if "--tier" in a:
            i = a.index("--tier")
            tier = a[i + 1]
            del a[i:i + 2]
        cmd_run(a[1], a[2:], tier)
