#!/bin/bash
# development helper for `vp run`: build the Lean project in this snapshot, then run every quick check against each
# worktree given (FCP_REPO=<worktree>), one worktree after the other; results under trial_out/<name>/
cd "$(dirname "$0")"
(cd lean && lake build > /dev/null 2>&1)
for wt in "$@"; do
  name=$(basename "$wt")
  out=trial_out/$name; mkdir -p "$out"
  FCP_REPO=$wt VERIF_EVIDENCE_DIR=$PWD/$out/evidence ./tools_runall.sh quick 4 "$PWD/$out/logs" > "$out/summary.txt" 2>&1
  echo "== $name: $(cat $out/summary.txt | head -3)"
done
