#!/venv/bin/python
"""Entry point: check.py <Cxx> [--tier quick|thorough] [--replay file]

exit 0: property held on everything explored; exit 1: VIOLATION line printed;
exit 2: the check itself could not run (timeout, internal error)."""
import argparse
import os
import sys
import traceback

sys.path.insert(0, os.path.dirname(os.path.abspath(__file__)))

MODULES = {
    "C01": "codec", "C02": "codec", "C16": "codec", "C04": "layout", "C09": "verifier", "C19": "sched", "C03": "cpp", "C13": "cpp", "C18": "cpp", "C12": "reflection", "C07": "frontend", "C08": "frontend", "C11": "frontend", "C20": "frontend", "C06": "canc", "C10": "genmgr", "C17": "genmgr", "C05": "dbc", "C14": "dbc", "C15": "dbc",
}


def main():
    ap = argparse.ArgumentParser()
    ap.add_argument("prop")
    ap.add_argument("--tier", default=os.environ.get("VERIF_TIER", "quick"))
    ap.add_argument("--replay", default=None)
    a = ap.parse_args()
    if a.prop not in MODULES:
        print(f"unknown property {a.prop}", file=sys.stderr)
        return 2
    import importlib

    mod = importlib.import_module("harness." + MODULES[a.prop])
    try:
        return mod.run(a.prop, a.tier, a.replay)
    except SystemExit:
        raise
    except BaseException:
        traceback.print_exc()
        return 2


if __name__ == "__main__":
    sys.exit(main())
