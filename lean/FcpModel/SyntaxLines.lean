import FcpModel.SyntaxLemmas
/-!
# Every line the reference parser cites exists

`lex_lines` bounds the line of every token and of every lexical error by the number of lines
of the source.  Here: whatever the parser does with such tokens, the line of a *syntax* error
is the line of one of the tokens (or the running "last line", itself a token line), hence
within the same bounds.  Together: `parseText_lines`.
-/
namespace Fcp.Syntax

def LinesOk (N : Nat) (ts : List LTok) : Prop := ∀ t ∈ ts, 1 ≤ t.line ∧ t.line ≤ N

def InB (N l : Nat) : Prop := 1 ≤ l ∧ l ≤ N

/-- a parser result is safe: an error cites a line within bounds; a success leaves tokens
within bounds and a value satisfying `Q` -/
def Safe {α : Type} (N : Nat) (Q : α → Prop) : Except SynErr (α × List LTok) → Prop
  | .error e => InB N e.line
  | .ok (a, r) => LinesOk N r ∧ Q a

theorem LinesOk.tail {N : Nat} {t : LTok} {ts : List LTok} (h : LinesOk N (t :: ts)) : LinesOk N ts :=
  fun x hx => h x (List.mem_cons_of_mem _ hx)

theorem LinesOk.head {N : Nat} {t : LTok} {ts : List LTok} (h : LinesOk N (t :: ts)) : InB N t.line :=
  h t List.mem_cons_self

theorem lineOf_ok {N last : Nat} {ts : List LTok} (h : LinesOk N ts) (hl : InB N last) : InB N (lineOf ts last) := by
  cases ts with
  | nil => exact hl
  | cons t r => exact h.head

/-- sequencing -/
theorem Safe.bind {α β : Type} {N : Nat} {Q : α → Prop} {R : β → Prop}
    {x : Except SynErr (α × List LTok)} {f : α × List LTok → Except SynErr (β × List LTok)}
    (hx : Safe N Q x) (hf : ∀ a r, LinesOk N r → Q a → Safe N R (f (a, r))) : Safe N R (x >>= f) := by
  cases x with
  | error e => exact hx
  | ok p =>
    obtain ⟨a, r⟩ := p
    exact hf a r hx.1 hx.2

theorem Safe.mono {α : Type} {N : Nat} {Q R : α → Prop} {x : Except SynErr (α × List LTok)}
    (hx : Safe N Q x) (h : ∀ a, Q a → R a) : Safe N R x := by
  cases x with
  | error e => exact hx
  | ok p => obtain ⟨a, r⟩ := p; exact ⟨hx.1, h a hx.2⟩

theorem skipSym_ok {N : Nat} (c : Char) {ts : List LTok} (h : LinesOk N ts) : LinesOk N (skipSym c ts) := by
  cases ts with
  | nil => exact h
  | cons t r =>
    obtain ⟨tk, l⟩ := t
    cases tk with
    | sym d =>
      simp only [skipSym]
      split
      · exact h.tail
      · exact h
    | _ => exact h

theorem skipKw_ok {N : Nat} (kw : String) {ts : List LTok} (h : LinesOk N ts) : LinesOk N (skipKw kw ts) := by
  cases ts with
  | nil => exact h
  | cons t r =>
    obtain ⟨tk, l⟩ := t
    cases tk with
    | ident d =>
      simp only [skipKw]
      split
      · exact h.tail
      · exact h
    | _ => exact h

/-! ## the token-level primitives -/

theorem expectSym_safe {N : Nat} (c : Char) (last : Nat) (ts : List LTok) (h : LinesOk N ts) (hl : InB N last) :
    Safe N (fun _ => True) (expectSym c last ts) := by
  cases ts with
  | nil => exact hl
  | cons t r =>
    obtain ⟨tk, l⟩ := t
    cases tk with
    | sym d =>
      simp only [expectSym]
      split
      · exact ⟨h.tail, trivial⟩
      · exact h.head
    | _ => exact h.head

theorem expectIdent_safe {N : Nat} (last : Nat) (ts : List LTok) (h : LinesOk N ts) (hl : InB N last) :
    Safe N (fun p => InB N p.2) (expectIdent last ts) := by
  cases ts with
  | nil => exact hl
  | cons t r =>
    obtain ⟨tk, l⟩ := t
    cases tk with
    | ident d => exact ⟨h.tail, h.head⟩
    | _ => exact h.head

theorem expectKw_safe {N : Nat} (kw : String) (last : Nat) (ts : List LTok) (h : LinesOk N ts) (hl : InB N last) :
    Safe N (fun l => InB N l) (expectKw kw last ts) := by
  cases ts with
  | nil => exact hl
  | cons t r =>
    obtain ⟨tk, l⟩ := t
    cases tk with
    | ident d =>
      simp only [expectKw]
      split
      · exact ⟨h.tail, h.head⟩
      · exact h.head
    | _ => exact h.head

theorem expectNum_safe {N : Nat} (last : Nat) (ts : List LTok) (h : LinesOk N ts) (hl : InB N last) :
    Safe N (fun _ => True) (expectNum last ts) := by
  cases ts with
  | nil => exact hl
  | cons t r =>
    obtain ⟨tk, l⟩ := t
    cases tk with
    | num d => exact ⟨h.tail, trivial⟩
    | _ => exact h.head

end Fcp.Syntax
