import FcpModel.SyntaxLemmas
/-!
# Every line the reference parser cites exists

`lex_lines` bounds the line of every token and of every lexical error by the number of lines
of the source.  Here: whatever the parser does with such tokens, the line of a *syntax* error
is the line of one of the tokens (or the running "last line", itself a token line), hence
within the same bounds.  Together: `parseText_lines`.
-/
namespace Fcp.Syntax

def LinesOk (N : Nat) (ts : List LTok) : Prop := ∀ t ∈ ts, 1 ≤ t.line ∧ t.line ≤ N

def InB (N l : Nat) : Prop := 1 ≤ l ∧ l ≤ N

/-- a parser result is safe: an error cites a line within bounds; a success leaves tokens
within bounds and a value satisfying `Q` (stated without a `match`, so that `split` only ever
sees the matches of the parser under study) -/
def Safe {α : Type} (N : Nat) (Q : α → Prop) (res : Except SynErr (α × List LTok)) : Prop :=
  (∀ e, res = .error e → InB N e.line) ∧ (∀ a r, res = .ok (a, r) → LinesOk N r ∧ Q a)

theorem Safe.ok {α : Type} {N : Nat} {Q : α → Prop} {a : α} {r : List LTok} (hr : LinesOk N r) (hq : Q a) :
    Safe N Q (.ok (a, r)) := by
  refine ⟨fun e h => ?_, fun a' r' h => ?_⟩
  · cases h
  · cases h; exact ⟨hr, hq⟩

theorem Safe.error {α : Type} {N : Nat} {Q : α → Prop} {e : SynErr} (h : InB N e.line) :
    Safe N Q (.error e : Except SynErr (α × List LTok)) := by
  refine ⟨fun e' h' => ?_, fun a r h' => ?_⟩
  · cases h'; exact h
  · cases h'

theorem LinesOk.tail {N : Nat} {t : LTok} {ts : List LTok} (h : LinesOk N (t :: ts)) : LinesOk N ts :=
  fun x hx => h x (List.mem_cons_of_mem _ hx)

theorem LinesOk.head {N : Nat} {t : LTok} {ts : List LTok} (h : LinesOk N (t :: ts)) : InB N t.line :=
  h t List.mem_cons_self

theorem lineOf_ok {N last : Nat} {ts : List LTok} (h : LinesOk N ts) (hl : InB N last) : InB N (lineOf ts last) := by
  cases ts with
  | nil => exact hl
  | cons t r => exact h.head

/-- sequencing -/
theorem Safe.bind {α β : Type} {N : Nat} {Q : α → Prop} {R : β → Prop}
    {x : Except SynErr (α × List LTok)} {f : α × List LTok → Except SynErr (β × List LTok)}
    (hx : Safe N Q x) (hf : ∀ a r, LinesOk N r → Q a → Safe N R (f (a, r))) : Safe N R (x >>= f) := by
  cases x with
  | error e => exact Safe.error (hx.1 e rfl)
  | ok p =>
    obtain ⟨a, r⟩ := p
    obtain ⟨h1, h2⟩ := hx.2 a r rfl
    exact hf a r h1 h2

theorem Safe.mono {α : Type} {N : Nat} {Q R : α → Prop} {x : Except SynErr (α × List LTok)}
    (hx : Safe N Q x) (h : ∀ a, Q a → R a) : Safe N R x :=
  ⟨hx.1, fun a r e => ⟨(hx.2 a r e).1, h a (hx.2 a r e).2⟩⟩

theorem skipSym_ok {N : Nat} (c : Char) {ts : List LTok} (h : LinesOk N ts) : LinesOk N (skipSym c ts) := by
  cases ts with
  | nil => exact h
  | cons t r =>
    obtain ⟨tk, l⟩ := t
    cases tk with
    | sym d =>
      simp only [skipSym]
      split
      · exact h.tail
      · exact h
    | _ => exact h

theorem skipKw_ok {N : Nat} (kw : String) {ts : List LTok} (h : LinesOk N ts) : LinesOk N (skipKw kw ts) := by
  cases ts with
  | nil => exact h
  | cons t r =>
    obtain ⟨tk, l⟩ := t
    cases tk with
    | ident d =>
      simp only [skipKw]
      split
      · exact h.tail
      · exact h
    | _ => exact h

/-! ## the token-level primitives -/

theorem expectSym_safe {N : Nat} (c : Char) (last : Nat) (ts : List LTok) (h : LinesOk N ts) (hl : InB N last) :
    Safe N (fun _ => True) (expectSym c last ts) := by
  cases ts with
  | nil => exact Safe.error hl
  | cons t r =>
    obtain ⟨tk, l⟩ := t
    cases tk with
    | sym d =>
      simp only [expectSym]
      split
      · exact Safe.ok h.tail trivial
      · exact Safe.error h.head
    | _ => exact Safe.error h.head

theorem expectIdent_safe {N : Nat} (last : Nat) (ts : List LTok) (h : LinesOk N ts) (hl : InB N last) :
    Safe N (fun p => InB N p.2) (expectIdent last ts) := by
  cases ts with
  | nil => exact Safe.error hl
  | cons t r =>
    obtain ⟨tk, l⟩ := t
    cases tk with
    | ident d => exact Safe.ok h.tail h.head
    | _ => exact Safe.error h.head

theorem expectKw_safe {N : Nat} (kw : String) (last : Nat) (ts : List LTok) (h : LinesOk N ts) (hl : InB N last) :
    Safe N (fun l => InB N l) (expectKw kw last ts) := by
  cases ts with
  | nil => exact Safe.error hl
  | cons t r =>
    obtain ⟨tk, l⟩ := t
    cases tk with
    | ident d =>
      simp only [expectKw]
      split
      · exact Safe.ok h.tail h.head
      · exact Safe.error h.head
    | _ => exact Safe.error h.head

theorem expectNum_safe {N : Nat} (last : Nat) (ts : List LTok) (h : LinesOk N ts) (hl : InB N last) :
    Safe N (fun _ => True) (expectNum last ts) := by
  cases ts with
  | nil => exact Safe.error hl
  | cons t r =>
    obtain ⟨tk, l⟩ := t
    cases tk with
    | num d => exact Safe.ok h.tail trivial
    | _ => exact Safe.error h.head

/-! ## the productions -/

/-! ### the lines kept inside parsed nodes (cited later by errors of the elaboration stage) -/

/-- a type expression keeps the line of every user-type name -/
def TyOk (N : Nat) : PTy → Prop
  | .named _ l => InB N l
  | .arr t _ => TyOk N t
  | .dyn t => TyOk N t
  | .opt t => TyOk N t
  | _ => True

def FieldOk (N : Nat) (f : PField) : Prop := InB N f.line ∧ TyOk N f.ty

/-- every line a declaration carries for later diagnostics is a line of the source -/
def DeclOk (N : Nat) : PDecl → Prop
  | .struct _ fs _ => ∀ f ∈ fs, FieldOk N f
  | .enum _ items l => InB N l ∧ ∀ it ∈ items, InB N it.2.2
  | .service _ _ ms l => InB N l ∧ ∀ m ∈ ms, InB N m.line
  | .mod _ l => InB N l
  | _ => True

def FileOk (N : Nat) (pf : PFile) : Prop := InB N pf.versionLine ∧ ∀ d ∈ pf.decls, DeclOk N d

theorem numericType_ok (s : String) (t : PTy) (h : numericType s = some t) (N : Nat) : TyOk N t := by
  unfold numericType at h
  split at h
  · split at h
    · simp only [Option.some.injEq] at h
      subst h
      split <;> trivial
    · cases h
  · cases h

theorem parseType_safe {N : Nat} : ∀ (f last : Nat) (ts : List LTok), LinesOk N ts → InB N last →
    Safe N (TyOk N) (parseType f last ts) := by
  intro f
  induction f with
  | zero => intro last ts h hl; exact Safe.error (lineOf_ok h hl)
  | succ f ih =>
    intro last ts h hl
    unfold parseType
    split
    · rename_i l r
      apply Safe.bind (ih l r h.tail h.head)
      intro t r1 hr1 ht
      dsimp only
      split
      · exact Safe.ok hr1.tail ht
      · rename_i l2 r2
        apply Safe.bind (expectNum_safe l2 r2 hr1.tail hr1.head)
        intro n r3 hr3 _
        dsimp only
        apply Safe.bind (expectSym_safe ']' l2 r3 hr3 hr1.head)
        intro _ r4 hr4 _
        dsimp only
        exact Safe.ok hr4 ht
      · exact Safe.error (lineOf_ok hr1 h.head)
    · rename_i s l r
      split
      · split
        · rename_i l1 r1
          apply Safe.bind (ih l1 r1 h.tail.tail h.tail.head)
          intro t r2 hr2 ht
          dsimp only
          apply Safe.bind (expectSym_safe ']' l1 r2 hr2 h.tail.head)
          intro _ r3 hr3 _
          dsimp only
          exact Safe.ok hr3 ht
        · exact Safe.ok h.tail h.head
      · split
        · exact Safe.ok h.tail trivial
        · split
          · exact Safe.ok h.tail trivial
          · split
            · exact Safe.ok h.tail trivial
            · split
              · rename_i t ht
                exact Safe.ok h.tail (numericType_ok s t ht N)
              · exact Safe.ok h.tail h.head
    · exact Safe.error (lineOf_ok h hl)

mutual
theorem parseValue_safe {N : Nat} : ∀ (f last : Nat) (ts : List LTok), LinesOk N ts → InB N last →
    Safe N (fun _ => True) (parseValue f last ts)
  | 0, last, ts, h, hl => by unfold parseValue; exact Safe.error (lineOf_ok h hl)
  | f+1, last, ts, h, hl => by
    unfold parseValue
    split
    · exact Safe.ok h.tail trivial
    · exact Safe.ok h.tail trivial
    · exact Safe.ok h.tail trivial
    · rename_i l r
      apply Safe.bind (parseItems_safe f f l r h.tail h.head)
      intro items r1 hr1 _
      dsimp only
      exact Safe.ok hr1 trivial
    · exact Safe.error (lineOf_ok h hl)
theorem parseItems_safe {N : Nat} : ∀ (f g last : Nat) (ts : List LTok), LinesOk N ts → InB N last →
    Safe N (fun _ => True) (parseValue.parseItems f g last ts)
  | f, 0, last, ts, h, hl => by unfold parseValue.parseItems; exact Safe.error (lineOf_ok h hl)
  | f, g+1, last, ts, h, hl => by
    unfold parseValue.parseItems
    apply Safe.bind (parseValue_safe f last ts h hl)
    intro v r1 hr1 _
    dsimp only
    split
    · rename_i l r2
      apply Safe.bind (parseItems_safe f g l r2 hr1.tail hr1.head)
      intro rest r3 hr3 _
      dsimp only
      exact Safe.ok hr3 trivial
    · exact Safe.ok hr1.tail trivial
    · exact Safe.error (lineOf_ok hr1 hl)
end

theorem parseArgs_safe {N : Nat} (vf : Nat) : ∀ (g last : Nat) (ts : List LTok), LinesOk N ts → InB N last →
    Safe N (fun _ => True) (parseArgs vf g last ts) := by
  intro g
  induction g with
  | zero => intro last ts h hl; exact Safe.error (lineOf_ok h hl)
  | succ g ih =>
    intro last ts h hl
    unfold parseArgs
    split
    · exact Safe.ok h.tail trivial
    · apply Safe.bind (parseValue_safe vf last ts h hl)
      intro v r1 hr1 _
      dsimp only
      apply Safe.bind (ih last _ (skipSym_ok ',' hr1) hl)
      intro vs r3 hr3 _
      dsimp only
      exact Safe.ok hr3 trivial

theorem parseParams_safe {N : Nat} (vf : Nat) : ∀ (g last : Nat) (ts : List LTok), LinesOk N ts → InB N last →
    Safe N (fun _ => True) (parseParams vf g last ts) := by
  intro g
  induction g with
  | zero => intro last ts h hl; exact Safe.error (lineOf_ok h hl)
  | succ g ih =>
    intro last ts h hl
    unfold parseParams
    split
    · rename_i s l l2 r
      apply Safe.bind (parseArgs_safe vf _ l r h.tail.tail h.head)
      intro args r1 hr1 _
      dsimp only
      apply Safe.bind (ih l _ (skipSym_ok '|' hr1) h.head)
      intro ps r3 hr3 _
      dsimp only
      exact Safe.ok hr3 trivial
    · exact Safe.ok h trivial

theorem parseFields_safe {N : Nat} (vf : Nat) : ∀ (g last : Nat) (ts : List LTok), LinesOk N ts → InB N last →
    Safe N (fun fs => ∀ f ∈ fs, FieldOk N f) (parseFields vf g last ts) := by
  intro g
  induction g with
  | zero => intro last ts h hl; exact Safe.error (lineOf_ok h hl)
  | succ g ih =>
    intro last ts h hl
    unfold parseFields
    split
    · exact Safe.ok h (by simp)
    · apply Safe.bind (expectIdent_safe last ts h hl)
      intro p r1 hr1 hp
      obtain ⟨name, l⟩ := p
      dsimp only at hp ⊢
      apply Safe.bind (expectSym_safe '@' l r1 hr1 hp)
      intro _ r2 hr2 _
      dsimp only
      apply Safe.bind (expectNum_safe l r2 hr2 hp)
      intro id r3 hr3 _
      dsimp only
      apply Safe.bind (expectSym_safe ':' l r3 hr3 hp)
      intro _ r4 hr4 _
      dsimp only
      apply Safe.bind (parseType_safe vf l r4 hr4 hp)
      intro ty r5 hr5 hty
      dsimp only
      apply Safe.bind (parseParams_safe vf _ l _ (skipSym_ok '|' hr5) hp)
      intro ps r7 hr7 _
      dsimp only
      apply Safe.bind (expectSym_safe ',' l r7 hr7 hp)
      intro _ r8 hr8 _
      dsimp only
      apply Safe.bind (ih l r8 hr8 hp)
      intro fs r9 hr9 hfs
      dsimp only
      exact Safe.ok hr9 (by
        intro x hx
        rcases List.mem_cons.mp hx with rfl | hx
        · exact ⟨hp, hty⟩
        · exact hfs x hx)

theorem parseEnumItems_safe {N : Nat} (vf : Nat) : ∀ (g last : Nat) (ts : List LTok), LinesOk N ts → InB N last →
    Safe N (fun es => ∀ x ∈ es, InB N x.2.2) (parseEnumItems vf g last ts) := by
  intro g
  induction g with
  | zero => intro last ts h hl; exact Safe.error (lineOf_ok h hl)
  | succ g ih =>
    intro last ts h hl
    unfold parseEnumItems
    split
    · exact Safe.ok h (by simp)
    · apply Safe.bind (expectIdent_safe last ts h hl)
      intro p r1 hr1 hp
      obtain ⟨name, l⟩ := p
      dsimp only at hp ⊢
      apply Safe.bind (expectSym_safe '=' l r1 hr1 hp)
      intro _ r2 hr2 _
      dsimp only
      apply Safe.bind (parseValue_safe vf l r2 hr2 hp)
      intro v r3 hr3 _
      dsimp only
      apply Safe.bind (expectSym_safe ',' l r3 hr3 hp)
      intro _ r4 hr4 _
      dsimp only
      apply Safe.bind (ih l r4 hr4 hp)
      intro es r5 hr5 hes
      dsimp only
      exact Safe.ok hr5 (by
        intro x hx
        rcases List.mem_cons.mp hx with rfl | hx
        · exact hp
        · exact hes x hx)

theorem parseExtFields_safe {N : Nat} (vf : Nat) : ∀ (g last : Nat) (ts : List LTok), LinesOk N ts → InB N last →
    Safe N (fun _ => True) (parseExtFields vf g last ts) := by
  intro g
  induction g with
  | zero => intro last ts h hl; exact Safe.error (lineOf_ok h hl)
  | succ g ih =>
    intro last ts h hl
    unfold parseExtFields
    split
    · exact Safe.ok h trivial
    · apply Safe.bind (expectIdent_safe last ts h hl)
      intro p r1 hr1 hp
      obtain ⟨name, l⟩ := p
      dsimp only at hp ⊢
      apply Safe.bind (expectSym_safe ':' l r1 hr1 hp)
      intro _ r2 hr2 _
      dsimp only
      apply Safe.bind (parseValue_safe vf l r2 hr2 hp)
      intro v r3 hr3 _
      dsimp only
      apply Safe.bind (expectSym_safe ',' l r3 hr3 hp)
      intro _ r4 hr4 _
      dsimp only
      apply Safe.bind (ih l r4 hr4 hp)
      intro fs r5 hr5 _
      dsimp only
      exact Safe.ok hr5 trivial

theorem parseImplItems_safe {N : Nat} (vf : Nat) : ∀ (g last : Nat) (ts : List LTok), LinesOk N ts → InB N last →
    Safe N (fun _ => True) (parseImplItems vf g last ts) := by
  intro g
  induction g with
  | zero => intro last ts h hl; exact Safe.error (lineOf_ok h hl)
  | succ g ih =>
    intro last ts h hl
    unfold parseImplItems
    split
    · exact Safe.ok h trivial
    · rename_i l name ln lo r
      apply Safe.bind (parseExtFields_safe vf _ l r h.tail.tail.tail h.head)
      intro fs r1 hr1 _
      dsimp only
      split
      · exact Safe.error h.head
      · apply Safe.bind (expectSym_safe '}' l r1 hr1 h.head)
        intro _ r2 hr2 _
        dsimp only
        apply Safe.bind (expectSym_safe ',' l r2 hr2 h.head)
        intro _ r3 hr3 _
        dsimp only
        apply Safe.bind (ih l r3 hr3 h.head)
        intro is r4 hr4 _
        dsimp only
        exact Safe.ok hr4 trivial
    · apply Safe.bind (expectIdent_safe last ts h hl)
      intro p r1 hr1 hp
      obtain ⟨name, l⟩ := p
      dsimp only at hp ⊢
      apply Safe.bind (expectSym_safe ':' l r1 hr1 hp)
      intro _ r2 hr2 _
      dsimp only
      apply Safe.bind (parseValue_safe vf l r2 hr2 hp)
      intro v r3 hr3 _
      dsimp only
      apply Safe.bind (expectSym_safe ',' l r3 hr3 hp)
      intro _ r4 hr4 _
      dsimp only
      apply Safe.bind (ih l r4 hr4 hp)
      intro is r5 hr5 _
      dsimp only
      exact Safe.ok hr5 trivial

theorem parseMethods_safe {N : Nat} : ∀ (g last : Nat) (ts : List LTok), LinesOk N ts → InB N last →
    Safe N (fun ms => ∀ m ∈ ms, InB N m.line) (parseMethods g last ts) := by
  intro g
  induction g with
  | zero => intro last ts h hl; exact Safe.error (lineOf_ok h hl)
  | succ g ih =>
    intro last ts h hl
    unfold parseMethods
    split
    · exact Safe.ok h (by simp)
    · apply Safe.bind (expectKw_safe "method" last ts h hl)
      intro l r0 hr0 hlb
      dsimp only
      apply Safe.bind (expectIdent_safe l r0 hr0 hlb)
      intro p r1 hr1 _
      dsimp only
      apply Safe.bind (expectSym_safe '(' l r1 hr1 hlb)
      intro _ r2 hr2 _
      dsimp only
      apply Safe.bind (expectIdent_safe l r2 hr2 hlb)
      intro p2 r3 hr3 _
      dsimp only
      apply Safe.bind (expectSym_safe ')' l r3 hr3 hlb)
      intro _ r4 hr4 _
      dsimp only
      apply Safe.bind (expectSym_safe '@' l r4 hr4 hlb)
      intro _ r5 hr5 _
      dsimp only
      apply Safe.bind (expectNum_safe l r5 hr5 hlb)
      intro id r6 hr6 _
      dsimp only
      apply Safe.bind (expectKw_safe "returns" l r6 hr6 hlb)
      intro _ r7 hr7 _
      dsimp only
      apply Safe.bind (expectIdent_safe l r7 hr7 hlb)
      intro p3 r8 hr8 _
      dsimp only
      apply Safe.bind (expectSym_safe ',' l r8 hr8 hlb)
      intro _ r9 hr9 _
      dsimp only
      apply Safe.bind (ih l r9 hr9 hlb)
      intro ms r10 hr10 hms
      dsimp only
      exact Safe.ok hr10 (by
        intro x hx
        rcases List.mem_cons.mp hx with rfl | hx
        · exact hlb
        · exact hms x hx)

theorem parseModPath_safe {N : Nat} : ∀ (g last : Nat) (ts : List LTok), LinesOk N ts → InB N last →
    Safe N (fun _ => True) (parseModPath g last ts) := by
  intro g
  induction g with
  | zero => intro last ts h hl; exact Safe.error (lineOf_ok h hl)
  | succ g ih =>
    intro last ts h hl
    unfold parseModPath
    apply Safe.bind (expectIdent_safe last ts h hl)
    intro p r1 hr1 hp
    obtain ⟨s, l⟩ := p
    dsimp only at hp ⊢
    split
    · rename_i ld r2
      apply Safe.bind (ih l r2 hr1.tail hp)
      intro ps r3 hr3 _
      dsimp only
      exact Safe.ok hr3 trivial
    · exact Safe.ok hr1 trivial

theorem parseDecl_safe {N : Nat} (last : Nat) (ts : List LTok) (h : LinesOk N ts) (hl : InB N last) :
    Safe N (DeclOk N) (parseDecl last ts) := by
  unfold parseDecl
  split
  · -- struct
    rename_i l r
    apply Safe.bind (expectIdent_safe l r h.tail h.head)
    intro p r1 hr1 _
    dsimp only
    apply Safe.bind (expectSym_safe '{' l r1 hr1 h.head)
    intro _ r2 hr2 _
    dsimp only
    apply Safe.bind (parseFields_safe _ _ l r2 hr2 h.head)
    intro fs r3 hr3 hfs
    dsimp only
    split
    · exact Safe.error (lineOf_ok hr3 h.head)
    · apply Safe.bind (expectSym_safe '}' l r3 hr3 h.head)
      intro _ r4 hr4 _
      dsimp only
      exact Safe.ok hr4 hfs
  · -- enum
    rename_i l r
    apply Safe.bind (expectIdent_safe l r h.tail h.head)
    intro p r1 hr1 _
    dsimp only
    apply Safe.bind (expectSym_safe '{' l r1 hr1 h.head)
    intro _ r2 hr2 _
    dsimp only
    apply Safe.bind (parseEnumItems_safe _ _ l r2 hr2 h.head)
    intro es r3 hr3 hes
    dsimp only
    apply Safe.bind (expectSym_safe '}' l r3 hr3 h.head)
    intro _ r4 hr4 _
    dsimp only
    exact Safe.ok hr4 ⟨h.head, hes⟩
  · -- impl
    rename_i l r
    apply Safe.bind (expectIdent_safe l r h.tail h.head)
    intro p r1 hr1 _
    dsimp only
    apply Safe.bind (expectKw_safe "for" l r1 hr1 h.head)
    intro _ r2 hr2 _
    dsimp only
    apply Safe.bind (expectIdent_safe l r2 hr2 h.head)
    intro p2 r3 hr3 _
    dsimp only
    have hr4 := skipKw_ok "as" hr3 (N := N)
    generalize skipKw "as" r3 = r4 at hr4 ⊢
    have key : ∀ (nm : Option String) (r5 : List LTok), LinesOk N r5 →
        Safe N (DeclOk N) (do
          let (_, r6) ← expectSym '{' l r5
          let (is, r7) ← parseImplItems (2 * r6.length + 2) (r6.length + 1) l r6
          if is.isEmpty then (.error ⟨"impl needs a field", lineOf r7 l⟩ : Except SynErr (PDecl × List LTok)) else
          let (_, r8) ← expectSym '}' l r7
          .ok (.impl p.1 p2.1 nm is l, r8)) := by
      intro nm r5 hr5
      apply Safe.bind (expectSym_safe '{' l r5 hr5 h.head)
      intro _ r6 hr6 _
      dsimp only
      apply Safe.bind (parseImplItems_safe _ _ l r6 hr6 h.head)
      intro is r7 hr7 _
      dsimp only
      split
      · exact Safe.error (lineOf_ok hr7 h.head)
      · apply Safe.bind (expectSym_safe '}' l r7 hr7 h.head)
        intro _ r8 hr8 _
        dsimp only
        exact Safe.ok hr8 trivial
    split
    · rename_i n ln r'
      exact key (some n) r' hr4.tail
    · exact key none r4 hr4
  · -- service
    rename_i l r
    apply Safe.bind (expectIdent_safe l r h.tail h.head)
    intro p r1 hr1 _
    dsimp only
    apply Safe.bind (expectSym_safe '@' l r1 hr1 h.head)
    intro _ r2 hr2 _
    dsimp only
    apply Safe.bind (expectNum_safe l r2 hr2 h.head)
    intro id r3 hr3 _
    dsimp only
    apply Safe.bind (expectSym_safe '{' l r3 hr3 h.head)
    intro _ r4 hr4 _
    dsimp only
    apply Safe.bind (parseMethods_safe _ l r4 hr4 h.head)
    intro ms r5 hr5 hms
    dsimp only
    split
    · exact Safe.error (lineOf_ok hr5 h.head)
    · apply Safe.bind (expectSym_safe '}' l r5 hr5 h.head)
      intro _ r6 hr6 _
      dsimp only
      exact Safe.ok hr6 ⟨h.head, hms⟩
  · -- device
    rename_i l r
    apply Safe.bind (expectIdent_safe l r h.tail h.head)
    intro p r1 hr1 _
    dsimp only
    apply Safe.bind (expectSym_safe '{' l r1 hr1 h.head)
    intro _ r2 hr2 _
    dsimp only
    apply Safe.bind (parseExtFields_safe _ _ l r2 hr2 h.head)
    intro fs r3 hr3 _
    dsimp only
    split
    · exact Safe.error (lineOf_ok hr3 h.head)
    · apply Safe.bind (expectSym_safe '}' l r3 hr3 h.head)
      intro _ r4 hr4 _
      dsimp only
      exact Safe.ok hr4 trivial
  · -- mod
    rename_i l r
    apply Safe.bind (parseModPath_safe _ l r h.tail h.head)
    intro ps r1 hr1 _
    dsimp only
    apply Safe.bind (expectSym_safe ';' l r1 hr1 h.head)
    intro _ r2 hr2 _
    dsimp only
    exact Safe.ok hr2 h.head
  · exact Safe.error (lineOf_ok h hl)

theorem parseDecls_lines {N : Nat} : ∀ (g last : Nat) (ts : List LTok), LinesOk N ts → InB N last →
    ∀ e, parseDecls g last ts = .error e → InB N e.line := by
  intro g
  induction g with
  | zero => intro last ts h hl e he; simp only [parseDecls] at he; cases he; exact hl
  | succ g ih =>
    intro last ts h hl e he
    cases ts with
    | nil => simp [parseDecls] at he
    | cons t r =>
      simp only [parseDecls, bind, Except.bind] at he
      have hs := parseDecl_safe last (t :: r) h hl
      cases hd : parseDecl last (t :: r) with
      | error e' =>
        rw [hd] at he
        simp only [Except.error.injEq] at he
        rw [← he]
        exact hs.1 e' hd
      | ok p =>
        obtain ⟨d, r'⟩ := p
        rw [hd] at he
        simp only at he
        have hr' := (hs.2 d r' hd).1
        cases hds : parseDecls g (lineOf (t :: r) last) r' with
        | error e'' =>
          rw [hds] at he
          simp only [Except.error.injEq] at he
          rw [← he]
          exact ih _ r' hr' (lineOf_ok h hl) e'' hds
        | ok ds => rw [hds] at he; cases he

/-- every line a syntax error of the reference parser cites lies within the token lines -/
theorem parseFile_lines {N : Nat} (ts : List LTok) (h : LinesOk N ts) (hN : 1 ≤ N) (e : SynErr)
    (he : parseFile ts = .error e) : InB N e.line := by
  unfold parseFile at he
  have h1 : InB N 1 := ⟨Nat.le_refl 1, hN⟩
  have s1 := expectKw_safe "version" 1 ts h h1
  cases hk : expectKw "version" 1 ts with
  | error e' =>
    rw [hk] at he
    simp only [bind, Except.bind, Except.error.injEq] at he
    rw [← he]
    exact s1.1 e' hk
  | ok p =>
    obtain ⟨l, r0⟩ := p
    obtain ⟨hr0, hlb⟩ := s1.2 l r0 hk
    rw [hk] at he
    simp only [bind, Except.bind] at he
    have s2 := expectSym_safe ':' l r0 hr0 hlb
    cases hc : expectSym ':' l r0 with
    | error e' =>
      rw [hc] at he
      simp only [Except.error.injEq] at he
      rw [← he]
      exact s2.1 e' hc
    | ok q =>
      obtain ⟨u, r1⟩ := q
      have hr1 := (s2.2 u r1 hc).1
      rw [hc] at he
      simp only at he
      split at he
      · rename_i s ls r2 
        cases hds : parseDecls (r2.length + 1) l r2 with
        | error e'' =>
          rw [hds] at he
          simp only [Except.error.injEq] at he
          rw [← he]
          exact parseDecls_lines _ l r2 hr1.tail hlb e'' hds
        | ok ds => rw [hds] at he; cases he
      · cases he
        exact lineOf_ok hr1 hlb

/-- **every line the reference front end cites for a lexical or syntax error exists in the
source**: between 1 and the number of lines -/
theorem parseText_lines (src : String) (e : SynErr) (he : parseText src = .error e) :
    1 ≤ e.line ∧ e.line ≤ 1 + nl src.toList := by
  unfold parseText at he
  obtain ⟨hok, herr⟩ := lex_lines src
  cases hl : lex src with
  | error e' =>
    rw [hl] at he
    simp only [bind, Except.bind, Except.error.injEq] at he
    rw [← he]
    exact herr e' hl
  | ok ts =>
    rw [hl] at he
    simp only [bind, Except.bind] at he
    exact parseFile_lines ts (fun t ht => hok ts hl t ht) (by omega) e he

/-! ### success: the lines kept in the parsed file exist in the source -/

theorem parseDecls_ok {N : Nat} : ∀ (g last : Nat) (ts : List LTok), LinesOk N ts → InB N last →
    ∀ ds, parseDecls g last ts = .ok ds → ∀ d ∈ ds, DeclOk N d := by
  intro g
  induction g with
  | zero => intro last ts h hl ds he; simp [parseDecls] at he
  | succ g ih =>
    intro last ts h hl ds he
    cases ts with
    | nil => simp [parseDecls] at he; subst he; simp
    | cons t r =>
      simp only [parseDecls, bind, Except.bind] at he
      have hs := parseDecl_safe last (t :: r) h hl
      cases hd : parseDecl last (t :: r) with
      | error e' => rw [hd] at he; cases he
      | ok p =>
        obtain ⟨d, r'⟩ := p
        rw [hd] at he
        simp only at he
        obtain ⟨hr', hdok⟩ := hs.2 d r' hd
        cases hds : parseDecls g (lineOf (t :: r) last) r' with
        | error e'' => rw [hds] at he; cases he
        | ok ds' =>
          rw [hds] at he
          simp only [Except.ok.injEq] at he
          subst he
          intro x hx
          rcases List.mem_cons.mp hx with rfl | hx
          · exact hdok
          · exact ih _ r' hr' (lineOf_ok h hl) ds' hds x hx

theorem parseFile_ok {N : Nat} (ts : List LTok) (h : LinesOk N ts) (hN : 1 ≤ N) (pf : PFile)
    (he : parseFile ts = .ok pf) : FileOk N pf := by
  unfold parseFile at he
  have h1 : InB N 1 := ⟨Nat.le_refl 1, hN⟩
  have s1 := expectKw_safe "version" 1 ts h h1
  cases hk : expectKw "version" 1 ts with
  | error e' => rw [hk] at he; simp [bind, Except.bind] at he
  | ok p =>
    obtain ⟨l, r0⟩ := p
    obtain ⟨hr0, hlb⟩ := s1.2 l r0 hk
    rw [hk] at he
    simp only [bind, Except.bind] at he
    have s2 := expectSym_safe ':' l r0 hr0 hlb
    cases hc : expectSym ':' l r0 with
    | error e' => rw [hc] at he; cases he
    | ok q =>
      obtain ⟨u, r1⟩ := q
      have hr1 := (s2.2 u r1 hc).1
      rw [hc] at he
      simp only at he
      split at he
      · rename_i s ls r2
        cases hds : parseDecls (r2.length + 1) l r2 with
        | error e'' => rw [hds] at he; cases he
        | ok ds =>
          rw [hds] at he
          simp only [Except.ok.injEq] at he
          subst he
          exact ⟨hlb, parseDecls_ok _ l r2 hr1.tail hlb ds hds⟩
      · cases he

/-- **every line kept in a parsed file exists in the source** (version line, declaration lines,
field lines, lines of type names, enumerator and method lines, `mod` lines) -/
theorem parseText_ok (src : String) (pf : PFile) (he : parseText src = .ok pf) :
    FileOk (1 + nl src.toList) pf := by
  unfold parseText at he
  obtain ⟨hok, _⟩ := lex_lines src
  cases hl : lex src with
  | error e' => rw [hl] at he; simp [bind, Except.bind] at he
  | ok ts =>
    rw [hl] at he
    simp only [bind, Except.bind] at he
    exact parseFile_ok ts (fun t ht => hok ts hl t ht) (by omega) pf he

end Fcp.Syntax
