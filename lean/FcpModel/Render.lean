import FcpModel.SyntaxLines
import FcpModel.Frontend
/-!
# Rendering of error values (`error.py`: `Logger.error`, `log_node`, `log_location`)

An error value is a chain of messages, each with an optional node; rendering prints a header
per message and, for a message with a node, the cited source line between two ruler lines.
The source is looked up in the logger's registry (full path first, base name second: a
`KeyError` if neither is registered) and split at line feeds; the line is taken with Python's
list indexing (`lines[line - 1]`: an `IndexError` beyond the end, the *last* line for 0).

The model works on character lists, without colour codes and without the
`[<python file>:<line>]` entries that name the place in the implementation which raised the
error; the harness strips both from the implementation's text before comparing.

Proved here: rendering succeeds exactly when every cited source is registered and every cited
line is at most the number of lines (`render_isSome_iff`), and then the line printed under a
citation is that line of that source (`renderMsg_eq`).  `FcpProps/C11.lean` composes this with
`parseText_lines`: the lexical and syntax errors of the reference front end can always be
rendered.
-/
namespace Fcp.Render
open Fcp.Syntax

/-- Python `text.split("\n")` -/
def splitNl : List Char → List (List Char)
  | [] => [[]]
  | c :: cs =>
    if c = '\n' then [] :: splitNl cs
    else match splitNl cs with
      | [] => [[c]]
      | l :: ls => (c :: l) :: ls

theorem splitNl_length (cs : List Char) : (splitNl cs).length = 1 + nl cs := by
  induction cs with
  | nil => simp [splitNl, nl]
  | cons c cs ih =>
    by_cases hc : c = '\n'
    · simp [splitNl, nl, hc, ih]; omega
    · have hb : (c == '\n') = false := by simp [hc]
      simp only [splitNl, hc, if_false, nl, hb]
      cases h : splitNl cs with
      | nil => rw [h] at ih; simp at ih; omega
      | cons l ls => rw [h] at ih; simp at ih ⊢; omega

/-- Python `lines[line - 1]` for a natural `line`: index −1 is the last element -/
def lineAt {α : Type} (ls : List α) : Nat → Option α
  | 0 => ls.getLast?
  | n + 1 => ls[n]?

theorem lineAt_isSome {α : Type} (ls : List α) (hne : ls ≠ []) (line : Nat) :
    (lineAt ls line).isSome ↔ line ≤ ls.length := by
  cases line with
  | zero =>
    cases ls with
    | nil => exact absurd rfl hne
    | cons a as => simp [lineAt, List.getLast?_isSome]
  | succ n =>
    simp only [lineAt]
    constructor
    · intro h
      cases hx : ls[n]? with
      | none => rw [hx] at h; cases h
      | some x =>
        have := List.getElem?_eq_some_iff.mp hx
        obtain ⟨hlt, _⟩ := this
        omega
    · intro h
      have hlt : n < ls.length := by omega
      rw [List.getElem?_eq_getElem hlt]; rfl

/-- a citation: the key of the full path, the base name, the line -/
structure Cite where
  full : String
  base : String
  line : Nat
  deriving Repr, DecidableEq

structure RMsg where
  text : List Char
  cite : Option Cite := none
  deriving Repr

/-- the logger's registry: key (full path or base name) → text -/
abbrev Sources := List (String × List Char)

def findSource (srcs : Sources) (c : Cite) : Option (List Char) :=
  match srcs.lookup c.full with
  | some s => some s
  | none => srcs.lookup c.base

def expandTabs (l : List Char) : List Char :=
  l.flatMap fun c => if c = '\t' then [' ', ' ', ' ', ' '] else [c]

/-- `Logger.log_location` without colours -/
def logLocation (src : List Char) (line : Nat) : List Char :=
  let d := (Nat.repr line).toList
  let blank := List.replicate d.length ' ' ++ [' ', '|']
  blank ++ ['\n'] ++ d ++ [' ', '|', ' '] ++ src ++ ['\n'] ++
    blank ++ [' '] ++ List.replicate (expandTabs src).length '~' ++ ['\n']

def header (first : Bool) (m : RMsg) : List Char :=
  (if first then "  → Error: " else "  ↳ ").toList ++ m.text

def citeLine (c : Cite) : List Char :=
  "\n   ↳ [".toList ++ c.base.toList ++ [':'] ++ (Nat.repr c.line).toList ++ [']']

/-- `format_msg` of `Logger.error` -/
def renderMsg (srcs : Sources) (first : Bool) (m : RMsg) : Option (List Char) :=
  match m.cite with
  | none => some (header first m ++ ['\n'])
  | some c =>
    match findSource srcs c with
    | none => none
    | some src =>
      match lineAt (splitNl src) c.line with
      | none => none
      | some l => some (header first m ++ citeLine c ++ ['\n'] ++ logLocation l c.line)

/-- `Logger.error`: the first message carries the `Error:` prefix -/
def render (srcs : Sources) : Bool → List RMsg → Option (List Char)
  | _, [] => some []
  | first, m :: ms =>
    match renderMsg srcs first m, render srcs false ms with
    | some a, some b => some (a ++ b)
    | _, _ => none

/-- a message can be rendered: its source is registered and its line is not beyond the end -/
def Renderable (srcs : Sources) (m : RMsg) : Prop :=
  ∀ c, m.cite = some c → ∃ src, findSource srcs c = some src ∧ c.line ≤ 1 + nl src

theorem renderMsg_isSome_iff (srcs : Sources) (first : Bool) (m : RMsg) :
    (renderMsg srcs first m).isSome ↔ Renderable srcs m := by
  unfold Renderable
  cases hc : m.cite with
  | none => simp [renderMsg, hc]
  | some c =>
    cases hs : findSource srcs c with
    | none => simp [renderMsg, hc, hs]
    | some src =>
      have hne : splitNl src ≠ [] := by
        intro h; have := splitNl_length src; rw [h] at this; simp at this; omega
      have key := lineAt_isSome (splitNl src) hne c.line
      rw [splitNl_length] at key
      cases hl : lineAt (splitNl src) c.line with
      | none =>
        rw [hl] at key
        simp only [renderMsg, hc, hs, hl]
        constructor
        · intro h; cases h
        · intro h
          obtain ⟨src', h1, h2⟩ := h c rfl
          rw [hs] at h1; cases h1
          have : False := by simp at key; omega
          exact this.elim
      | some l =>
        rw [hl] at key
        simp only [renderMsg, hc, hs, hl]
        constructor
        · intro _ c' hc'; cases hc'; exact ⟨src, hs, by simpa using key⟩
        · intro _; rfl

/-- **rendering succeeds exactly when every citation can be resolved** -/
theorem render_isSome_iff (srcs : Sources) (first : Bool) (ms : List RMsg) :
    (render srcs first ms).isSome ↔ ∀ m ∈ ms, Renderable srcs m := by
  induction ms generalizing first with
  | nil => simp [render]
  | cons m ms ih =>
    have h1 := renderMsg_isSome_iff srcs first m
    have h2 := ih false
    simp only [render, List.mem_cons, forall_eq_or_imp]
    cases ha : renderMsg srcs first m with
    | none => rw [ha] at h1; simp at h1; simp [h1]
    | some a =>
      rw [ha] at h1
      cases hb : render srcs false ms with
      | none => rw [hb] at h2; simp at h2 ⊢; intro _; exact h2
      | some b => rw [hb] at h2; simp at h1 h2 ⊢; exact ⟨h1, h2⟩

/-- **what is printed under a citation is that line of that source** -/
theorem renderMsg_eq (srcs : Sources) (first : Bool) (m : RMsg) (c : Cite) (out : List Char)
    (hc : m.cite = some c) (h : renderMsg srcs first m = some out) :
    ∃ src l, findSource srcs c = some src ∧ lineAt (splitNl src) c.line = some l ∧
      out = header first m ++ citeLine c ++ ['\n'] ++ logLocation l c.line := by
  cases hs : findSource srcs c with
  | none => simp [renderMsg, hc, hs] at h
  | some src =>
    cases hl : lineAt (splitNl src) c.line with
    | none => simp [renderMsg, hc, hs, hl] at h
    | some l =>
      simp only [renderMsg, hc, hs, hl, Option.some.injEq] at h
      exact ⟨src, l, rfl, hl, h.symm⟩

/-- the citation of an entry of the loader's error chain: file and line, if a node is attached -/
def ofEMsg (m : Frontend.EMsg) : RMsg :=
  { text := m.text.toList,
    cite := match m.file, m.line with
      | some f, some l => some ⟨f, f, l⟩
      | _, _ => none }

end Fcp.Render
