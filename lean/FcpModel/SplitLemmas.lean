import FcpModel.FrontendLemmas
/-!
# Module imports are transparent (C20): a split schema elaborates like the single file
-/
namespace Fcp.Frontend
open Fcp.Syntax

def foldDecls (loader : List String → String → Except Err Tree) (fs : FS) (path : List String)
    (s : St) (ds : List PDecl) : St :=
  ds.foldl (fun s d => elabDecl loader fs path s d) s

/-- what the caller of a transformer observes: the tree, unless some declaration failed -/
def St.res (s : St) : Option Tree := if s.firstErr.isSome then none else some s.tree

def isMod : PDecl → Bool
  | .mod _ _ => true
  | _ => false

def ModFree (ds : List PDecl) : Prop := ∀ d ∈ ds, isMod d = false

/-! ### the file name only shows up inside error values -/

theorem elabType_file (t : Tree) (f1 f2 : String) (p : PTy) :
    (elabType t f1 p).toOption = (elabType t f2 p).toOption := by
  induction p with
  | named s l =>
    simp only [elabType]
    split
    · rfl
    · split <;> rfl
  | arr e sz ih =>
    simp only [elabType]
    cases h1 : elabType t f1 e <;> cases h2 : elabType t f2 e <;> simp_all [Except.toOption]
  | dyn e ih =>
    simp only [elabType]
    cases h1 : elabType t f1 e <;> cases h2 : elabType t f2 e <;> simp_all [Except.toOption]
  | opt e ih =>
    simp only [elabType]
    cases h1 : elabType t f1 e <;> cases h2 : elabType t f2 e <;> simp_all [Except.toOption]
  | _ => rfl

theorem foldlM_file {α β : Type} (g1 g2 : β → α → Except Err β)
    (h : ∀ b a, (g1 b a).toOption = (g2 b a).toOption) :
    ∀ (l : List α) (b : β), (l.foldlM g1 b).toOption = (l.foldlM g2 b).toOption := by
  intro l
  induction l with
  | nil => intro b; rfl
  | cons a as ih =>
    intro b
    simp only [List.foldlM_cons, bind, Except.bind]
    have := h b a
    cases h1 : g1 b a <;> cases h2 : g2 b a <;> simp_all [Except.toOption]

theorem elabParams_file (f1 f2 : String) (line : Nat) (ps : List PParam) :
    (elabParams f1 line ps).toOption = (elabParams f2 line ps).toOption := by
  unfold elabParams
  apply foldlM_file
  intro b a
  obtain ⟨name, args⟩ := a
  simp only
  split
  · split <;> rfl
  · split
    · split
      · split <;> rfl
      · rfl
    · rfl

theorem elabField_file (t : Tree) (f1 f2 sname : String) (f : PField) :
    (elabField t f1 sname f).toOption = (elabField t f2 sname f).toOption := by
  unfold elabField
  simp only [bind, Except.bind, pure, Except.pure]
  have hp := elabParams_file f1 f2 f.line f.params
  have ht := elabType_file t f1 f2 f.ty
  cases h1 : elabParams f1 f.line f.params <;> cases h2 : elabParams f2 f.line f.params <;>
    simp_all [Except.toOption]
  cases pyInt? f.id with
  | none => rfl
  | some i =>
    simp only
    cases h3 : elabType t f1 f.ty <;> cases h4 : elabType t f2 f.ty <;> simp_all [Except.toOption]

theorem mapM_file {α β : Type} (g1 g2 : α → Except Err β)
    (h : ∀ a, (g1 a).toOption = (g2 a).toOption) :
    ∀ (l : List α), (l.mapM g1).toOption = (l.mapM g2).toOption := by
  intro l
  induction l with
  | nil => rfl
  | cons a as ih =>
    simp only [List.mapM_cons, bind, Except.bind]
    have := h a
    cases h1 : g1 a <;> cases h2 : g2 a <;> simp_all [Except.toOption]
    cases h3 : as.mapM g1 <;> cases h4 : as.mapM g2 <;> simp_all [Except.toOption, pure, Except.pure]

theorem elabEnumItem_file (f1 f2 : String) (it : String × PVal × Nat) :
    (elabEnumItem f1 it).toOption = (elabEnumItem f2 it).toOption := by
  unfold elabEnumItem
  split
  · split <;> rfl
  · rfl

theorem elabMethod_file (f1 f2 : String) (m : PMethod) :
    (elabMethod f1 m).toOption = (elabMethod f2 m).toOption := by
  unfold elabMethod; split <;> rfl

theorem toOption_eq_cases {α : Type} (a b : Except Err α) (h : a.toOption = b.toOption) :
    (∃ x, a = .ok x ∧ b = .ok x) ∨ (∃ e1 e2, a = .error e1 ∧ b = .error e2) := by
  cases a <;> cases b <;> simp_all [Except.toOption]

/-- the observable part of the transformer state -/
def St.view (s : St) : Tree × Bool := (s.tree, s.firstErr.isSome)

theorem view_fail (s s' : St) (e e' : Err) (h : s.view = s'.view) : (s.fail e).view = (s'.fail e').view := by
  simp only [St.view, Prod.mk.injEq] at h
  simp only [St.view, St.fail, Prod.mk.injEq]
  refine ⟨h.1, ?_⟩
  cases h1 : s.firstErr <;> cases h2 : s'.firstErr <;> simp_all [Option.orElse]

/-- a declaration other than `mod` acts on the observable state independently of the loader,
the file system and the name of the file it stands in -/
theorem elabDecl_view (l1 l2 : List String → String → Except Err Tree) (fs1 fs2 : FS)
    (p1 p2 : List String) (s s' : St) (d : PDecl) (hd : isMod d = false) (h : s.view = s'.view) :
    (elabDecl l1 fs1 p1 s d).view = (elabDecl l2 fs2 p2 s' d).view := by
  have ht : s.tree = s'.tree := by simp only [St.view, Prod.mk.injEq] at h; exact h.1
  cases d with
  | mod mp l => simp [isMod] at hd
  | struct name fields line =>
    simp only [elabDecl]
    have := mapM_file (elabField s.tree (p1.getLast?.getD "") name) (elabField s'.tree (p2.getLast?.getD "") name)
      (fun a => by rw [ht]; exact elabField_file _ _ _ _ _) fields
    rcases toOption_eq_cases _ _ this with ⟨x, h1, h2⟩ | ⟨e1, e2, h1, h2⟩
    · rw [h1, h2]
      simp only [St.view, Prod.mk.injEq] at h ⊢
      exact ⟨by rw [ht], h.2⟩
    · rw [h1, h2]; exact view_fail _ _ _ _ h
  | enum name items line =>
    simp only [elabDecl]
    split
    · exact view_fail _ _ _ _ h
    · have := mapM_file (elabEnumItem (p1.getLast?.getD "")) (elabEnumItem (p2.getLast?.getD ""))
        (fun a => elabEnumItem_file _ _ a) items
      rcases toOption_eq_cases _ _ this with ⟨x, h1, h2⟩ | ⟨e1, e2, h1, h2⟩
      · rw [h1, h2]
        simp only [St.view, Prod.mk.injEq] at h ⊢
        exact ⟨by rw [ht], h.2⟩
      · rw [h1, h2]; exact view_fail _ _ _ _ h
  | impl proto ty name items line =>
    simp only [elabDecl, St.view, Prod.mk.injEq] at h ⊢
    exact ⟨by rw [ht], h.2⟩
  | service name id methods line =>
    simp only [elabDecl]
    have := mapM_file (elabMethod (p1.getLast?.getD "")) (elabMethod (p2.getLast?.getD ""))
      (fun a => elabMethod_file _ _ a) methods
    cases pyInt? id with
    | none => exact view_fail _ _ _ _ h
    | some i =>
      rcases toOption_eq_cases _ _ this with ⟨x, h1, h2⟩ | ⟨e1, e2, h1, h2⟩
      · rw [h1, h2]
        simp only [St.view, Prod.mk.injEq] at h ⊢
        exact ⟨by rw [ht], h.2⟩
      · rw [h1, h2]; exact view_fail _ _ _ _ h
  | device name fields line =>
    simp only [elabDecl, St.view, Prod.mk.injEq] at h ⊢
    exact ⟨by rw [ht], h.2⟩

theorem foldDecls_view (l1 l2 : List String → String → Except Err Tree) (fs1 fs2 : FS)
    (p1 p2 : List String) (ds : List PDecl) (hm : ModFree ds) (s s' : St) (h : s.view = s'.view) :
    (foldDecls l1 fs1 p1 s ds).view = (foldDecls l2 fs2 p2 s' ds).view := by
  induction ds generalizing s s' with
  | nil => exact h
  | cons d ds ih =>
    simp only [foldDecls, List.foldl_cons]
    exact ih (fun x hx => hm x (List.mem_cons_of_mem _ hx)) _ _
      (elabDecl_view l1 l2 fs1 fs2 p1 p2 s s' d (hm d List.mem_cons_self) h)

/-- errors are sticky -/
theorem elabDecl_err_sticky (l : List String → String → Except Err Tree) (fs : FS) (p : List String)
    (s : St) (d : PDecl) (h : s.firstErr.isSome) : (elabDecl l fs p s d).firstErr.isSome := by
  have hf : ∀ e, (s.fail e).firstErr.isSome := by
    intro e; simp only [St.fail]; cases hs : s.firstErr <;> simp_all [Option.orElse]
  cases d <;> simp only [elabDecl] <;> (repeat' split) <;> first | exact h | exact hf _

theorem foldDecls_err_sticky (l : List String → String → Except Err Tree) (fs : FS) (p : List String)
    (ds : List PDecl) (s : St) (h : s.firstErr.isSome) : (foldDecls l fs p s ds).firstErr.isSome := by
  induction ds generalizing s with
  | nil => exact h
  | cons d ds ih => exact ih _ (elabDecl_err_sticky l fs p s d h)

theorem foldDecls_append (l : List String → String → Except Err Tree) (fs : FS) (p : List String)
    (s : St) (a b : List PDecl) : foldDecls l fs p s (a ++ b) = foldDecls l fs p (foldDecls l fs p s a) b := by
  simp [foldDecls, List.foldl_append]

theorem empty_merge (t : Tree) : ({} : Tree).merge t = t := by
  cases t; simp [Tree.merge]

/-- the target file of `mod a.b.c;` written in the file at `path` -/
def modTarget (path mpath : List String) : List String :=
  path.dropLast ++ mpath.dropLast ++ [mpath.getLast?.getD "" ++ ".fcp"]

/-- `SplitOf fs n path decls flat`: the declarations `decls` of the file at `path` are the
declarations `flat` with a prefix moved, to import depth at most `n`, into module files of
`fs` (each module file again a split of its part); everything outside the `mod` is `mod`-free -/
inductive SplitOf (fs : FS) : Nat → List String → List PDecl → List PDecl → Prop where
  | flat (n : Nat) (path : List String) (ds : List PDecl) (h : ModFree ds) : SplitOf fs n path ds ds
  | mod (n : Nat) (path mpath : List String) (line vl : Nat) (src : String) (inner flatInner rest : List PDecl)
      (hread : fs.read (modTarget path mpath) = some src)
      (hparse : parseText src = .ok ⟨"3", vl, inner⟩)
      (hin : SplitOf fs n (modTarget path mpath) inner flatInner)
      (hrest : ModFree rest) :
      SplitOf fs (n + 1) path (.mod mpath line :: rest) (flatInner ++ rest)

theorem res_of_view (s s' : St) (h : s.view = s'.view) : s.res = s'.res := by
  simp only [St.view, Prod.mk.injEq] at h
  simp [St.res, h.1, h.2]

theorem view_of_res_some (s s' : St) (t : Tree) (h1 : s.res = some t) (h2 : s'.res = some t) :
    s.view = s'.view := by
  simp only [St.res] at h1 h2
  split at h1 <;> split at h2 <;> simp_all [St.view]

theorem res_none_iff (s : St) : s.res = none ↔ s.firstErr.isSome := by
  simp only [St.res]; split <;> simp_all

/-- **C20 core**: folding the declarations of a split file (loading the modules) and folding
the flat declarations in any context are observationally the same: same tree, or both fail -/
theorem split_fold (fs : FS) : ∀ (n : Nat) (path : List String) (ds flat : List PDecl),
    SplitOf fs n path ds flat →
    ∀ (fuel : Nat), n ≤ fuel →
    ∀ (l2 : List String → String → Except Err Tree) (fs2 : FS) (p2 : List String),
      (foldDecls (loadFile fs fuel) fs path {} ds).res = (foldDecls l2 fs2 p2 {} flat).res := by
  intro n path ds flat h
  induction h with
  | flat n path ds hm =>
    intro fuel _ l2 fs2 p2
    exact res_of_view _ _ (foldDecls_view _ _ _ _ _ _ ds hm {} {} rfl)
  | mod n path mpath line vl src inner flatInner rest hread hparse hin hrest ih =>
    intro fuel hfuel l2 fs2 p2
    obtain ⟨fuel', rfl⟩ : ∃ f, fuel = f + 1 := ⟨fuel - 1, by omega⟩
    have hih := ih fuel' (by omega) l2 fs2 p2
    -- the state after the `mod` declaration
    have hmod : elabDecl (loadFile fs (fuel' + 1)) fs path {} (.mod mpath line) =
        (match (foldDecls (loadFile fs fuel') fs (modTarget path mpath) {} inner).firstErr with
         | some e => ({} : St).fail (e ++ [⟨"file", s!"Failed to parse {(modTarget path mpath).getLast?.getD ""}", none, none⟩]
                       ++ [⟨"import", s!"Failed to import {(modTarget path mpath).getLast?.getD ""}", some (path.getLast?.getD ""), some line⟩])
         | none => { tree := (foldDecls (loadFile fs fuel') fs (modTarget path mpath) {} inner).tree, firstErr := none }) := by
      simp only [elabDecl]
      have hr : fs.read (path.dropLast ++ mpath.dropLast ++ [mpath.getLast?.getD "" ++ ".fcp"]) = some src := hread
      rw [hr]
      simp only [loadFile, hparse, elabFile, beq_self_eq_true, ↓reduceIte]
      have hfd : List.foldl (fun s d => elabDecl (loadFile fs fuel') fs (modTarget path mpath) s d) {} inner =
          foldDecls (loadFile fs fuel') fs (modTarget path mpath) {} inner := rfl
      unfold modTarget at hfd ⊢
      rw [hfd]
      cases hfe : (foldDecls (loadFile fs fuel') fs (path.dropLast ++ mpath.dropLast ++ [mpath.getLast?.getD "" ++ ".fcp"]) {} inner).firstErr with
      | none => simp [empty_merge]
      | some e => simp
    simp only [foldDecls, List.foldl_cons] at hmod ⊢
    rw [hmod]
    have happ := foldDecls_append l2 fs2 p2 {} flatInner rest
    simp only [foldDecls] at happ
    rw [happ]
    cases hfe : (List.foldl (fun s d => elabDecl (loadFile fs fuel') fs (modTarget path mpath) s d) {} inner).firstErr with
    | some e =>
      -- the module failed: both sides fail
      have hnone : (foldDecls (loadFile fs fuel') fs (modTarget path mpath) {} inner).res = none :=
        (res_none_iff _).mpr (by simp [foldDecls, hfe])
      rw [hnone] at hih
      have h2 := (res_none_iff _).mp hih.symm
      have a := foldDecls_err_sticky (loadFile fs (fuel' + 1)) fs path rest
        (({} : St).fail (e ++ [⟨"file", s!"Failed to parse {(modTarget path mpath).getLast?.getD ""}", none, none⟩]
          ++ [⟨"import", s!"Failed to import {(modTarget path mpath).getLast?.getD ""}", some (path.getLast?.getD ""), some line⟩]))
        (by simp [St.fail, Option.orElse])
      have b := foldDecls_err_sticky l2 fs2 p2 rest _ h2
      simp only [foldDecls] at a b
      rw [(res_none_iff _).mpr a, (res_none_iff _).mpr b]
    | none =>
      have hsome : (foldDecls (loadFile fs fuel') fs (modTarget path mpath) {} inner).res =
          some (foldDecls (loadFile fs fuel') fs (modTarget path mpath) {} inner).tree := by
        simp [St.res, foldDecls, hfe]
      rw [hsome] at hih
      apply res_of_view
      apply foldDecls_view _ _ _ _ _ _ rest hrest
      apply view_of_res_some _ _ _ _ hih.symm
      simp [St.res, foldDecls]

theorem elabFile_toOption (loader : List String → String → Except Err Tree) (fs : FS)
    (path : List String) (vl : Nat) (ds : List PDecl) :
    (elabFile loader fs path ⟨"3", vl, ds⟩).toOption = (foldDecls loader fs path {} ds).res := by
  simp only [elabFile, beq_self_eq_true, ↓reduceIte, foldDecls, St.res]
  split
  · rename_i e he; simp [Except.toOption, he]
  · rename_i he; simp [Except.toOption, he]

/-- **C20**: a file whose declarations are a split (to any import depth) of `flat` elaborates
to the same tree as the single file holding `flat`, and fails exactly when that one fails -/
theorem split_equiv (fs : FS) (n : Nat) (path : List String) (vl vl2 : Nat) (ds flat : List PDecl)
    (h : SplitOf fs n path ds flat) (fuel : Nat) (hf : n ≤ fuel)
    (l2 : List String → String → Except Err Tree) (fs2 : FS) (p2 : List String) :
    (elabFile (loadFile fs fuel) fs path ⟨"3", vl, ds⟩).toOption =
      (elabFile l2 fs2 p2 ⟨"3", vl2, flat⟩).toOption := by
  rw [elabFile_toOption, elabFile_toOption]
  exact split_fold fs n path ds flat h fuel hf l2 fs2 p2

end Fcp.Frontend
