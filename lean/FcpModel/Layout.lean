import FcpModel.Schema
/-!
# Layout: model of `fcp.encoding.PackedEncoder`

`generate impl` flattens the bound struct into scalar leaves: nested structs are
entered (prefix `name::`), arrays are unrolled into `name_i` when requested, fields are
visited in ascending field id, and every leaf gets the bit range `[cursor, cursor+len)`.
-/
namespace Fcp

structure Leaf where
  name : String
  /-- declared field name whose signal block decorates this leaf -/
  field : String
  ty : STy
  start : Nat
  len : Nat
  endian : String
  opts : List (String × XVal)
  unit : Option String
  deriving Repr, Inhabited

/-- `_get_type_length`: `none` where Python raises `ValueError` -/
def typeLength (S : Schema) : STy → Option Nat
  | .u n => some n
  | .i n => some n
  | .f32 => some 32
  | .f64 => some 64
  | .arr t n => (typeLength S t).map (n * ·)
  | .enum name => (S.getEnum name).bind (·.packedSize)
  | _ => none

/-- `extension.get_signal(name)…fields` or `{}` -/
def Impl.signalOpts (impl : Impl) (name : String) : List (String × XVal) :=
  match impl.signals.find? (·.name == name) with
  | some sb => sb.fields
  | none => []

/-- `fields.get("endianess") or "little"` -/
def endianOf (opts : List (String × XVal)) : String :=
  match opts.lookup "endianess" with
  | some (.str s) => if s.isEmpty then "little" else s
  | some (.int i) => if i == 0 then "little" else toString i
  | some (.flt s) => s
  | some (.arr l) => if l.isEmpty then "little" else "<list>"
  | none => "little"

abbrev Gen := Nat → Option (List Leaf × Nat)

/-- `for field in sorted(struct.fields, …): self._generate_signal(field, extension, prefix)` -/
def genFieldsWith (g : String → String → STy → Option String → Gen) :
    List Field → Gen
  | [], cur => some ([], cur)
  | fd :: rest, cur =>
    match g fd.name fd.name fd.ty fd.unit cur with
    | none => none
    | some (ls, c1) =>
      match genFieldsWith g rest c1 with
      | none => none
      | some (ls2, c2) => some (ls ++ ls2, c2)

/-- `for i in range(type.size)`: derived field `name_i` of the element type -/
def genArrWith (g : String → Gen) (name : String) : Nat → Nat → Gen
  | 0, _, cur => some ([], cur)
  | k+1, i, cur =>
    match g (name ++ "_" ++ toString i) cur with
    | none => none
    | some (ls, c1) =>
      match genArrWith g name k (i+1) c1 with
      | none => none
      | some (ls2, c2) => some (ls ++ ls2, c2)

/-- the `Value(...)` appended for a scalar / enum / whole-array leaf -/
def mkLeaf (S : Schema) (impl : Impl) (pre name look : String) (ty : STy) (unit : Option String)
    (cur : Nat) : Option (List Leaf × Nat) :=
  match typeLength S ty with
  | none => none
  | some len =>
    let opts := impl.signalOpts look
    some ([{ name := pre ++ name, field := look, ty := ty, start := cur, len := len,
             endian := endianOf opts, opts := opts, unit := unit }], cur + len)

/-- `_generate_signal`: `pre` is the hierarchical prefix, `name` the (possibly derived)
field name, `look` the declared field name used for the signal-block lookup -/
def genSignal (S : Schema) (unroll : Bool) (impl : Impl) :
    Nat → String → String → String → STy → Option String → Gen
  | 0, _, _, _, _, _, _ => none
  | f+1, pre, name, look, ty, unit, cur =>
    let leaf : Option (List Leaf × Nat) := mkLeaf S impl pre name look ty unit cur
    match ty with
    | .struct sn =>
      match S.getStruct sn with
      | none => none
      | some st =>
        genFieldsWith (fun nm lk t u c => genSignal S unroll impl f (pre ++ name ++ "::") nm lk t u c)
          (sortFields st.fields) cur
    | .arr t n =>
      if unroll then
        genArrWith (fun nm c => genSignal S unroll impl f pre nm look t unit c) name n 0 cur
      else leaf
    | _ => leaf

/-- `PackedEncoder.generate(impl)`: the leaves of the bound struct from bit 0 -/
def generate (S : Schema) (unroll : Bool) (fuel : Nat) (impl : Impl) : Option (List Leaf × Nat) :=
  match S.getStruct impl.type with
  | none => none
  | some st =>
    genFieldsWith (fun nm lk t u c => genSignal S unroll impl fuel "" nm lk t u c)
      (sortFields st.fields) 0

/-- the encoder object: `generate` resets its two mutable attributes first -/
structure Encoder where
  bitstart : Nat := 0
  encoding : List Leaf := []

def Encoder.generate (S : Schema) (unroll : Bool) (fuel : Nat) (e : Encoder) (impl : Impl) :
    Encoder × Option (List Leaf) :=
  let _reset : Encoder := { e with bitstart := 0, encoding := [] }
  match Fcp.generate S unroll fuel impl with
  | none => ({ bitstart := 0, encoding := [] }, none)
  | some (ls, c) => ({ bitstart := c, encoding := ls }, some ls)

/-! ## tiling -/

/-- the leaves occupy consecutive ranges from `c` to `e` -/
def Tiles : Nat → List Leaf → Nat → Prop
  | c, [], e => c = e
  | c, l :: ls, e => l.start = c ∧ Tiles (c + l.len) ls e

theorem Tiles.append {c m e : Nat} {a b : List Leaf} (ha : Tiles c a m) (hb : Tiles m b e) :
    Tiles c (a ++ b) e := by
  induction a generalizing c with
  | nil => simp only [Tiles] at ha; subst ha; simpa using hb
  | cons l ls ih => exact ⟨ha.1, ih ha.2⟩

theorem genFieldsWith_tiles (g : String → String → STy → Option String → Gen)
    (hg : ∀ nm lk t u c ls e, g nm lk t u c = some (ls, e) → Tiles c ls e)
    (fs : List Field) (c : Nat) (ls : List Leaf) (e : Nat)
    (h : genFieldsWith g fs c = some (ls, e)) : Tiles c ls e := by
  induction fs generalizing c ls e with
  | nil => simp only [genFieldsWith, Option.some.injEq, Prod.mk.injEq] at h; simp [Tiles, h.1.symm, h.2]
  | cons fd rest ih =>
    simp only [genFieldsWith] at h
    split at h
    · cases h
    · rename_i l1 c1 h1
      split at h
      · cases h
      · rename_i l2 c2 h2
        simp only [Option.some.injEq, Prod.mk.injEq] at h
        obtain ⟨rfl, rfl⟩ := h
        exact (hg _ _ _ _ _ _ _ h1).append (ih _ _ _ h2)

theorem genArrWith_tiles (g : String → Gen)
    (hg : ∀ nm c ls e, g nm c = some (ls, e) → Tiles c ls e)
    (name : String) (k i c : Nat) (ls : List Leaf) (e : Nat)
    (h : genArrWith g name k i c = some (ls, e)) : Tiles c ls e := by
  induction k generalizing i c ls e with
  | zero => simp only [genArrWith, Option.some.injEq, Prod.mk.injEq] at h; simp [Tiles, h.1.symm, h.2]
  | succ k ih =>
    simp only [genArrWith] at h
    split at h
    · cases h
    · rename_i l1 c1 h1
      split at h
      · cases h
      · rename_i l2 c2 h2
        simp only [Option.some.injEq, Prod.mk.injEq] at h
        obtain ⟨rfl, rfl⟩ := h
        exact (hg _ _ _ _ h1).append (ih _ _ _ _ h2)

theorem leaf_tiles (S : Schema) (impl : Impl) (pre name look : String) (ty : STy)
    (unit : Option String) (c : Nat) (ls : List Leaf) (e : Nat)
    (h : mkLeaf S impl pre name look ty unit c = some (ls, e)) : Tiles c ls e := by
  unfold mkLeaf at h
  split at h
  · cases h
  · simp only [Option.some.injEq, Prod.mk.injEq] at h
    obtain ⟨rfl, rfl⟩ := h
    simp [Tiles]

/-- every call of `_generate_signal` lays its leaves out contiguously from the cursor -/
theorem genSignal_tiles (S : Schema) (unroll : Bool) (impl : Impl) :
    ∀ (f : Nat) (pre name look : String) (ty : STy) (unit : Option String) (c : Nat)
      (ls : List Leaf) (e : Nat),
      genSignal S unroll impl f pre name look ty unit c = some (ls, e) → Tiles c ls e := by
  intro f
  induction f with
  | zero => intro pre name look ty unit c ls e h; simp [genSignal] at h
  | succ f ih =>
    intro pre name look ty unit c ls e h
    cases ty with
    | struct sn =>
      simp only [genSignal] at h
      split at h
      · cases h
      · exact genFieldsWith_tiles _ (fun nm lk t u c ls e h => ih _ _ _ _ _ _ _ _ h) _ _ _ _ h
    | arr t n =>
      simp only [genSignal] at h
      split at h
      · exact genArrWith_tiles _ (fun nm c ls e h => ih _ _ _ _ _ _ _ _ h) _ _ _ _ _ _ h
      · exact leaf_tiles S impl pre name look _ unit c ls e h
    | u n => simp only [genSignal] at h; exact leaf_tiles S impl pre name look _ unit c ls e h
    | i n => simp only [genSignal] at h; exact leaf_tiles S impl pre name look _ unit c ls e h
    | f32 => simp only [genSignal] at h; exact leaf_tiles S impl pre name look _ unit c ls e h
    | f64 => simp only [genSignal] at h; exact leaf_tiles S impl pre name look _ unit c ls e h
    | str => simp only [genSignal] at h; exact leaf_tiles S impl pre name look _ unit c ls e h
    | enum nm => simp only [genSignal] at h; exact leaf_tiles S impl pre name look _ unit c ls e h
    | dyn t => simp only [genSignal] at h; exact leaf_tiles S impl pre name look _ unit c ls e h
    | opt t => simp only [genSignal] at h; exact leaf_tiles S impl pre name look _ unit c ls e h

theorem generate_tiles (S : Schema) (unroll : Bool) (fuel : Nat) (impl : Impl)
    (ls : List Leaf) (e : Nat) (h : generate S unroll fuel impl = some (ls, e)) : Tiles 0 ls e := by
  unfold generate at h
  split at h
  · cases h
  · exact genFieldsWith_tiles _ (fun nm lk t u c ls e h => genSignal_tiles S unroll impl _ _ _ _ _ _ _ _ _ h)
      _ _ _ _ h

/-! consequences of tiling -/

theorem Tiles.total {c e : Nat} {ls : List Leaf} (h : Tiles c ls e) :
    c + (ls.map (·.len)).sum = e := by
  induction ls generalizing c with
  | nil => simpa [Tiles] using h
  | cons l ls ih => have := ih h.2; simp only [List.map_cons, List.sum_cons]; omega

theorem Tiles.mem_range {c e : Nat} {ls : List Leaf} (h : Tiles c ls e) (l : Leaf) (hl : l ∈ ls) :
    c ≤ l.start ∧ l.start + l.len ≤ e := by
  induction ls generalizing c with
  | nil => cases hl
  | cons x xs ih =>
    have ht := h.2.total
    rcases List.mem_cons.mp hl with rfl | hm
    · exact ⟨by rw [h.1]; omega, by rw [h.1]; omega⟩
    · have := ih h.2 hm; omega

/-- no overlaps: in a tiling, a leaf ends before every later leaf starts -/
theorem Tiles.pairwise_disjoint {c e : Nat} {ls : List Leaf} (h : Tiles c ls e) :
    ls.Pairwise (fun a b => a.start + a.len ≤ b.start) := by
  induction ls generalizing c with
  | nil => exact List.Pairwise.nil
  | cons x xs ih =>
    refine List.Pairwise.cons ?_ (ih h.2)
    intro b hb
    have := h.2.mem_range b hb
    rw [h.1]; omega

/-- no gaps: every bit of the message belongs to some leaf -/
theorem Tiles.covers {c e : Nat} {ls : List Leaf} (h : Tiles c ls e) (p : Nat) (hp : c ≤ p ∧ p < e) :
    ∃ l ∈ ls, l.start ≤ p ∧ p < l.start + l.len := by
  induction ls generalizing c with
  | nil => simp only [Tiles] at h; omega
  | cons x xs ih =>
    by_cases hx : p < c + x.len
    · exact ⟨x, List.mem_cons_self, by rw [h.1]; omega, by rw [h.1]; omega⟩
    · obtain ⟨l, hl, h1⟩ := ih h.2 ⟨by omega, hp.2⟩
      exact ⟨l, List.mem_cons_of_mem _ hl, h1⟩

/-! ## every leaf is well formed: width, options, endianess come from its own type and field -/

theorem genFieldsWith_all (P : Leaf → Prop) (g : String → String → STy → Option String → Gen)
    (hg : ∀ nm lk t u c ls e, g nm lk t u c = some (ls, e) → ∀ l ∈ ls, P l)
    (fs : List Field) (c : Nat) (ls : List Leaf) (e : Nat)
    (h : genFieldsWith g fs c = some (ls, e)) : ∀ l ∈ ls, P l := by
  induction fs generalizing c ls e with
  | nil =>
    simp only [genFieldsWith, Option.some.injEq, Prod.mk.injEq] at h
    intro l hl; rw [← h.1] at hl; cases hl
  | cons fd rest ih =>
    simp only [genFieldsWith] at h
    split at h
    · cases h
    · rename_i l1 c1 h1
      split at h
      · cases h
      · rename_i l2 c2 h2
        simp only [Option.some.injEq, Prod.mk.injEq] at h
        obtain ⟨rfl, rfl⟩ := h
        intro l hl
        rcases List.mem_append.mp hl with hl | hl
        · exact hg _ _ _ _ _ _ _ h1 l hl
        · exact ih _ _ _ h2 l hl

theorem genArrWith_all (P : Leaf → Prop) (g : String → Gen)
    (hg : ∀ nm c ls e, g nm c = some (ls, e) → ∀ l ∈ ls, P l)
    (name : String) (k i c : Nat) (ls : List Leaf) (e : Nat)
    (h : genArrWith g name k i c = some (ls, e)) : ∀ l ∈ ls, P l := by
  induction k generalizing i c ls e with
  | zero =>
    simp only [genArrWith, Option.some.injEq, Prod.mk.injEq] at h
    intro l hl; rw [← h.1] at hl; cases hl
  | succ k ih =>
    simp only [genArrWith] at h
    split at h
    · cases h
    · rename_i l1 c1 h1
      split at h
      · cases h
      · rename_i l2 c2 h2
        simp only [Option.some.injEq, Prod.mk.injEq] at h
        obtain ⟨rfl, rfl⟩ := h
        intro l hl
        rcases List.mem_append.mp hl with hl | hl
        · exact hg _ _ _ _ h1 l hl
        · exact ih _ _ _ _ h2 l hl

/-- what holds of every leaf the encoder emits -/
structure LeafOk (S : Schema) (impl : Impl) (l : Leaf) : Prop where
  width : typeLength S l.ty = some l.len
  opts : l.opts = impl.signalOpts l.field
  endian : l.endian = endianOf l.opts

theorem mkLeaf_ok (S : Schema) (impl : Impl) (pre name look : String) (ty : STy)
    (unit : Option String) (c : Nat) (ls : List Leaf) (e : Nat)
    (h : mkLeaf S impl pre name look ty unit c = some (ls, e)) : ∀ l ∈ ls, LeafOk S impl l := by
  unfold mkLeaf at h
  split at h
  · cases h
  · rename_i len hlen
    simp only [Option.some.injEq, Prod.mk.injEq] at h
    obtain ⟨rfl, rfl⟩ := h
    intro l hl
    simp only [List.mem_singleton] at hl
    subst hl
    exact ⟨hlen, rfl, rfl⟩

theorem genSignal_ok (S : Schema) (unroll : Bool) (impl : Impl) :
    ∀ (f : Nat) (pre name look : String) (ty : STy) (unit : Option String) (c : Nat)
      (ls : List Leaf) (e : Nat),
      genSignal S unroll impl f pre name look ty unit c = some (ls, e) →
      ∀ l ∈ ls, LeafOk S impl l := by
  intro f
  induction f with
  | zero => intro pre name look ty unit c ls e h; simp [genSignal] at h
  | succ f ih =>
    intro pre name look ty unit c ls e h
    cases ty with
    | struct sn =>
      simp only [genSignal] at h
      split at h
      · cases h
      · exact genFieldsWith_all _ _ (fun nm lk t u c ls e h => ih _ _ _ _ _ _ _ _ h) _ _ _ _ h
    | arr t n =>
      simp only [genSignal] at h
      split at h
      · exact genArrWith_all _ _ (fun nm c ls e h => ih _ _ _ _ _ _ _ _ h) _ _ _ _ _ _ h
      · exact mkLeaf_ok S impl pre name look _ unit c ls e h
    | u n => simp only [genSignal] at h; exact mkLeaf_ok S impl pre name look _ unit c ls e h
    | i n => simp only [genSignal] at h; exact mkLeaf_ok S impl pre name look _ unit c ls e h
    | f32 => simp only [genSignal] at h; exact mkLeaf_ok S impl pre name look _ unit c ls e h
    | f64 => simp only [genSignal] at h; exact mkLeaf_ok S impl pre name look _ unit c ls e h
    | str => simp only [genSignal] at h; exact mkLeaf_ok S impl pre name look _ unit c ls e h
    | enum nm => simp only [genSignal] at h; exact mkLeaf_ok S impl pre name look _ unit c ls e h
    | dyn t => simp only [genSignal] at h; exact mkLeaf_ok S impl pre name look _ unit c ls e h
    | opt t => simp only [genSignal] at h; exact mkLeaf_ok S impl pre name look _ unit c ls e h

theorem generate_ok (S : Schema) (unroll : Bool) (fuel : Nat) (impl : Impl)
    (ls : List Leaf) (e : Nat) (h : generate S unroll fuel impl = some (ls, e)) :
    ∀ l ∈ ls, LeafOk S impl l := by
  unfold generate at h
  split at h
  · cases h
  · exact genFieldsWith_all _ _
      (fun nm lk t u c ls e h => genSignal_ok S unroll impl _ _ _ _ _ _ _ _ _ h) _ _ _ _ h

end Fcp
