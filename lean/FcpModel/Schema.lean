import FcpModel.Bits
/-!
# Schema: the surface tree (shape of `FcpV2.to_dict()`), the closed type tree and values
-/
namespace Fcp

/-- surface types, as the parser builds them (`specs/type.py`) -/
inductive STy where
  | u (n : Nat)
  | i (n : Nat)
  | f32
  | f64
  | str
  | enum (name : String)
  | struct (name : String)
  | arr (t : STy) (n : Nat)
  | dyn (t : STy)
  | opt (t : STy)
  deriving Repr, DecidableEq, Inhabited

/-- extension values (`value` production): numbers, strings/identifiers, arrays -/
inductive XVal where
  | int (i : Int)
  | flt (text : String)
  | str (s : String)
  | arr (l : List XVal)
  deriving Repr, Inhabited

structure Field where
  name : String
  id : Int
  ty : STy
  unit : Option String := none
  deriving Repr, Inhabited

structure Struct where
  name : String
  fields : List Field
  deriving Repr, Inhabited

structure Enumerator where
  name : String
  value : Int
  deriving Repr, DecidableEq, Inhabited

structure Enum where
  name : String
  enumeration : List Enumerator
  deriving Repr, Inhabited

structure SignalBlock where
  name : String
  fields : List (String × XVal)
  deriving Repr, Inhabited

structure Impl where
  name : String
  protocol : String
  type : String
  fields : List (String × XVal)
  signals : List SignalBlock
  deriving Repr, Inhabited

structure Method where
  name : String
  id : Int
  input : String
  output : String
  deriving Repr, Inhabited

structure Service where
  name : String
  id : Int
  methods : List Method
  deriving Repr, Inhabited

structure Device where
  name : String
  /-- `services` entry of the device, `none` when absent -/
  services : Option (List String)
  deriving Repr, Inhabited

structure Schema where
  structs : List Struct := []
  enums : List Enum := []
  impls : List Impl := []
  services : List Service := []
  devices : List Device := []
  deriving Repr, Inhabited

/-- closed type tree: no names left to look up.  A struct is a right-nested
`field` chain ending in `unit`. -/
inductive Ty where
  | uint (n : Nat)
  | sint (n : Nat)
  | f32
  | f64
  | str
  | enum (bits : Nat)
  | arr (t : Ty) (n : Nat)
  | dyn (t : Ty)
  | opt (t : Ty)
  | unit
  | field (name : String) (id : Int) (t : Ty) (rest : Ty)
  deriving Repr, DecidableEq, Inhabited

/-- values: arrays and struct values are `cons` chains; floats are their IEEE words -/
inductive Val where
  | int (i : Int)
  | str (cs : List Nat)
  | none
  | some (v : Val)
  | nil
  | cons (v : Val) (vs : Val)
  deriving Repr, DecidableEq, Inhabited

/-- `len(data)` of a list value -/
def vlen : Val → Nat
  | .cons _ vs => vlen vs + 1
  | _ => 0

def Schema.getStruct (S : Schema) (name : String) : Option Struct :=
  S.structs.find? (·.name == name)

def Schema.getEnum (S : Schema) (name : String) : Option Enum :=
  S.enums.find? (·.name == name)

/-- `sorted(struct.fields, key=lambda f: f.field_id)` — stable -/
def insertField (f : Field) : List Field → List Field
  | [] => [f]
  | g :: gs => if f.id ≤ g.id then f :: g :: gs else g :: insertField f gs

def sortFields (fs : List Field) : List Field := fs.foldr insertField []

/-- `Enum.max()` -/
def Enum.maxValue (e : Enum) : Int :=
  e.enumeration.foldl (fun m x => if x.value > m then x.value else m)
    (match e.enumeration with | [] => 0 | x :: _ => x.value)

/-- `Enum.get_packed_size()` with exact integer log; `none` where Python raises
(negative maximum) -/
def Enum.packedSize (e : Enum) : Option Nat :=
  let m := e.maxValue
  if m < 0 then none
  else if m ≤ 1 then some 1
  else some (Nat.log2 m.toNat + 1)

def resolveFieldsWith (r : STy → Option Ty) : List Field → Option Ty
  | [] => some .unit
  | fd :: rest =>
    match r fd.ty, resolveFieldsWith r rest with
    | some t, some rt => some (.field fd.name fd.id t rt)
    | _, _ => none

/-- expand every reference; struct fields in ascending field id.  One unit of fuel
per level of the type, as the recursive Python functions use one stack frame. -/
def resolve (S : Schema) : Nat → STy → Option Ty
  | 0, _ => none
  | _+1, .u n => some (.uint n)
  | _+1, .i n => some (.sint n)
  | _+1, .f32 => some .f32
  | _+1, .f64 => some .f64
  | _+1, .str => some .str
  | _+1, .enum name => (S.getEnum name).bind (·.packedSize) |>.map Ty.enum
  | f+1, .arr t n => (resolve S f t).map (Ty.arr · n)
  | f+1, .dyn t => (resolve S f t).map Ty.dyn
  | f+1, .opt t => (resolve S f t).map Ty.opt
  | f+1, .struct name =>
    match S.getStruct name with
    | none => none
    | some st => resolveFieldsWith (resolve S f) (sortFields st.fields)

end Fcp
