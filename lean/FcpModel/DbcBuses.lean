import FcpModel.Dbc
/-!
# DbcBuses: the per-bus partition of `write_dbc`

`groupByBus` models `buses[bus]["messages"].append(...)` on Python's insertion-ordered
`defaultdict`.  The lemmas say that the result is a partition: bus names are distinct, the
file of a bus holds exactly the messages whose binding names that bus, in binding order, and
every bus that some binding names has a file.
-/
namespace Fcp

/-- what the dictionary must be after the pairs `done` have been appended -/
def BusInv {α : Type} (done : List (String × α)) (out : List (String × List α)) : Prop :=
  (out.map (·.1)).Nodup ∧
  (∀ b ms, (b, ms) ∈ out → ms = (done.filter (·.1 == b)).map (·.2) ∧ ms ≠ []) ∧
  (∀ p ∈ done, ∃ ms, (p.1, ms) ∈ out)

theorem any_key_iff {α : Type} (out : List (String × List α)) (bus : String) :
    out.any (·.1 == bus) = true ↔ bus ∈ out.map (·.1) := by
  simp only [List.any_eq_true, beq_iff_eq, List.mem_map]

theorem addToBus_keys_present {α : Type} (out : List (String × List α)) (bus : String) (m : α)
    (h : out.any (·.1 == bus) = true) : (addToBus out bus m).map (·.1) = out.map (·.1) := by
  unfold addToBus
  rw [if_pos h]
  induction out with
  | nil => rfl
  | cons x xs ih =>
    obtain ⟨b, ms⟩ := x
    simp only [List.map_cons, List.map_map]
    congr 1
    · split <;> rfl
    · simp only [List.map_map] at ih
      have : ∀ (l : List (String × List α)),
          l.map ((fun x : String × List α => x.1) ∘ fun x => if x.1 == bus then (x.1, x.2 ++ [m]) else (x.1, x.2)) =
          l.map (·.1) := by
        intro l
        apply List.map_congr_left
        intro a _
        simp only [Function.comp]
        split <;> rfl
      exact this xs

theorem addToBus_inv {α : Type} (done : List (String × α)) (out : List (String × List α))
    (bus : String) (m : α) (h : BusInv done out) : BusInv (done ++ [(bus, m)]) (addToBus out bus m) := by
  obtain ⟨hnd, hms, hall⟩ := h
  by_cases hany : out.any (·.1 == bus) = true
  · -- the bus already has a file: its list grows by `m`, every other list is untouched
    have hkeys := addToBus_keys_present out bus m hany
    have hmem : ∀ b ms, (b, ms) ∈ addToBus out bus m ↔
        ∃ ms0, (b, ms0) ∈ out ∧ ms = if b == bus then ms0 ++ [m] else ms0 := by
      intro b ms
      unfold addToBus
      rw [if_pos hany]
      simp only [List.mem_map, Prod.exists]
      constructor
      · rintro ⟨b0, ms0, hin, heq⟩
        split at heq
        · simp only [Prod.mk.injEq] at heq
          obtain ⟨rfl, rfl⟩ := heq
          exact ⟨ms0, hin, by simp_all⟩
        · simp only [Prod.mk.injEq] at heq
          obtain ⟨rfl, rfl⟩ := heq
          exact ⟨ms0, hin, by simp_all⟩
      · rintro ⟨ms0, hin, rfl⟩
        refine ⟨b, ms0, hin, ?_⟩
        split <;> rfl
    refine ⟨by rw [hkeys]; exact hnd, ?_, ?_⟩
    · intro b ms hb
      obtain ⟨ms0, hin, rfl⟩ := (hmem b ms).1 hb
      obtain ⟨h1, h2⟩ := hms b ms0 hin
      by_cases hbb : b = bus
      · subst hbb
        simp only [beq_self_eq_true, if_true, List.filter_append, List.map_append, ← h1]
        simp
      · have : (b == bus) = false := by simpa using hbb
        have hbb' : (bus == b) = false := by simpa using fun h => hbb h.symm
        simp only [this, List.filter_append, List.map_append, ← h1]
        simp [hbb', h2]
    · intro p hp
      rw [List.mem_append] at hp
      rcases hp with hp | hp
      · obtain ⟨ms0, hin⟩ := hall p hp
        exact ⟨_, (hmem p.1 _).2 ⟨ms0, hin, rfl⟩⟩
      · simp only [List.mem_singleton] at hp
        subst hp
        obtain ⟨b0, hb0⟩ := (any_key_iff out bus).1 hany |> List.mem_map.1
        obtain ⟨bb, mm⟩ := b0
        simp only at hb0
        obtain ⟨hin, rfl⟩ := hb0
        exact ⟨_, (hmem bb _).2 ⟨mm, hin, rfl⟩⟩
  · -- a new bus: a new file with the single message
    have hnot : bus ∉ out.map (·.1) := fun hc => hany ((any_key_iff out bus).2 hc)
    have hdef : addToBus out bus m = out ++ [(bus, [m])] := by unfold addToBus; rw [if_neg hany]
    -- no earlier pair names this bus
    have hnone : done.filter (·.1 == bus) = [] := by
      rw [List.filter_eq_nil_iff]
      intro p hp hpb
      obtain ⟨ms, hin⟩ := hall p hp
      have : p.1 = bus := by simpa using hpb
      exact hnot (List.mem_map.2 ⟨(p.1, ms), hin, this⟩)
    rw [hdef]
    refine ⟨?_, ?_, ?_⟩
    · rw [List.map_append, List.nodup_append]
      refine ⟨hnd, by simp, ?_⟩
      intro a ha b hb
      simp only [List.map_cons, List.map_nil, List.mem_singleton] at hb
      subst hb
      exact fun hc => hnot (hc ▸ ha)
    · intro b ms hb
      rw [List.mem_append] at hb
      rcases hb with hb | hb
      · obtain ⟨h1, h2⟩ := hms b ms hb
        have hbb : (bus == b) = false := by
          have : b ≠ bus := fun hc => hnot (hc ▸ List.mem_map.2 ⟨(b, ms), hb, rfl⟩)
          simpa using fun h => this h.symm
        refine ⟨?_, h2⟩
        simp [List.filter_append, hbb, ← h1]
      · simp only [List.mem_singleton, Prod.mk.injEq] at hb
        obtain ⟨rfl, rfl⟩ := hb
        simp [List.filter_append, hnone]
    · intro p hp
      rw [List.mem_append] at hp
      rcases hp with hp | hp
      · obtain ⟨ms0, hin⟩ := hall p hp
        exact ⟨ms0, List.mem_append_left _ hin⟩
      · simp only [List.mem_singleton] at hp
        subst hp
        exact ⟨[m], by simp⟩

theorem foldl_addToBus_inv {α : Type} (pairs done : List (String × α)) (out : List (String × List α))
    (h : BusInv done out) :
    BusInv (done ++ pairs) (pairs.foldl (fun out p => addToBus out p.1 p.2) out) := by
  induction pairs generalizing done out with
  | nil => simpa using h
  | cons p ps ih =>
    simp only [List.foldl_cons]
    have := ih (done ++ [p]) _ (addToBus_inv done out p.1 p.2 h)
    simpa using this

/-- **the per-bus partition**: distinct bus names; the file of a bus holds exactly the messages
appended under that bus, in order, and is never empty; every bus named has a file -/
theorem groupByBus_partition {α : Type} (pairs : List (String × α)) :
    ((groupByBus pairs).map (·.1)).Nodup ∧
    (∀ b ms, (b, ms) ∈ groupByBus pairs → ms = (pairs.filter (·.1 == b)).map (·.2) ∧ ms ≠ []) ∧
    (∀ p ∈ pairs, ∃ ms, (p.1, ms) ∈ groupByBus pairs) := by
  have := foldl_addToBus_inv pairs [] [] ⟨by simp, by simp, by simp⟩
  simpa [groupByBus, BusInv] using this

end Fcp

namespace Fcp

/-- two lists related element by element (core Lean has no `Forall₂`) -/
inductive Pointwise {α β : Type} (R : α → β → Prop) : List α → List β → Prop
  | nil : Pointwise R [] []
  | cons {x y xs ys} : R x y → Pointwise R xs ys → Pointwise R (x :: xs) (y :: ys)

theorem Pointwise.length_eq {α β : Type} {R : α → β → Prop} {xs : List α} {ys : List β}
    (h : Pointwise R xs ys) : xs.length = ys.length := by
  induction h with
  | nil => rfl
  | cons _ _ ih => simp [ih]

theorem Pointwise.imp {α β : Type} {R R' : α → β → Prop} {xs : List α} {ys : List β}
    (hi : ∀ x y, R x y → R' x y) (h : Pointwise R xs ys) : Pointwise R' xs ys := by
  induction h with
  | nil => exact .nil
  | cons hr _ ih => exact .cons (hi _ _ hr) ih

theorem Pointwise.exists_of_mem_left {α β : Type} {R : α → β → Prop} {xs : List α} {ys : List β}
    (h : Pointwise R xs ys) {x : α} (hx : x ∈ xs) : ∃ y ∈ ys, R x y := by
  induction h with
  | nil => simp at hx
  | cons hr _ ih =>
    rcases List.mem_cons.1 hx with rfl | hm
    · exact ⟨_, by simp, hr⟩
    · obtain ⟨y, hy, hr'⟩ := ih hm
      exact ⟨y, List.mem_cons_of_mem _ hy, hr'⟩

theorem Pointwise.map_right {α β γ : Type} {R : α → γ → Prop} (f : β → γ) {xs : List α} {ys : List β}
    (h : Pointwise (fun x y => R x (f y)) xs ys) : Pointwise R xs (ys.map f) := by
  induction h with
  | nil => exact .nil
  | cons hr _ ih => exact .cons hr ih

/-- a successful `mapM` in `Except` relates inputs and outputs pointwise -/
theorem mapM_ok_forall₂ {α β ε : Type} (f : α → Except ε β) (xs : List α) (ys : List β)
    (h : xs.mapM f = .ok ys) : Pointwise (fun x y => f x = .ok y) xs ys := by
  induction xs generalizing ys with
  | nil =>
    simp only [List.mapM_nil, pure, Except.pure, Except.ok.injEq] at h
    subst h
    exact .nil
  | cons x xs ih =>
    rw [List.mapM_cons] at h
    cases hx : f x with
    | error e => rw [hx] at h; cases h
    | ok y =>
      rw [hx] at h
      cases hxs : xs.mapM f with
      | error e => rw [hxs] at h; cases h
      | ok ys' =>
        rw [hxs] at h
        simp only [bind, Except.bind, pure, Except.pure, Except.ok.injEq] at h
        subst h
        exact .cons hx (ih ys' hxs)

/-- filtering both sides of a pointwise relation by predicates that agree along it -/
theorem forall₂_filter {α β : Type} (R : α → β → Prop) (p : α → Bool) (q : β → Bool)
    (xs : List α) (ys : List β) (h : Pointwise (fun x y => R x y ∧ p x = q y) xs ys) :
    Pointwise R (xs.filter p) (ys.filter q) := by
  induction h with
  | nil => exact .nil
  | cons hxy _ ih =>
    obtain ⟨hr, hpq⟩ := hxy
    simp only [List.filter_cons, hpq]
    split
    · exact .cons hr ih
    · exact ih

end Fcp
