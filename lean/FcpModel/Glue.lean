/-!
# The glue every verdict travels through: `result.py` (`Ok`/`Err`), `maybe.py` (`Some`/`Nothing`, `catch`)

The verifier, the generator manager and the parser pass their verdicts through a Rust-style
`Result` with early exit: `x.attempt()` returns the value of an `Ok` and leaves the enclosing
`@catch` function with the `Err` otherwise.  A payload may be any Python value — falsy ones
included (`Err("")`, `Err(0)`, `Ok(None)`): nothing may depend on its truthiness.

The model is `Except`; programs are straight-line pipelines over one result.  Proved: an `Err`
goes through every `Ok`-side combinator unchanged, an `Ok` through every `Err`-side one
(`run_err_absorbs`, `run_ok_absorbs`), and `attempt` inside `catch` is the identity on results
(`catch_attempt`).  The harness runs the same pipelines on the real classes.
-/
namespace Fcp.Glue

/-- payloads: integers (0 is falsy in Python), with a tag that says how they print -/
abbrev Payload := Int

abbrev Res := Except Payload Payload

inductive Op where
  | map (k : Int)            -- `r.map(lambda v: v + k)`
  | mapErr (k : Int)         -- `r.map_err(lambda e: e * 2 + k)`
  | andThen (m k : Int)      -- `r.and_then(lambda v: Ok(v + k) if v % 3 != m else Err(v))`
  | orElse (m k : Int)       -- `r.or_else(lambda e: Ok(e + k) if e % 3 == m else Err(e - 1))`
  | catchAttempt (k : Int)   -- `catch(lambda: Ok(r.attempt() + k))()`
  deriving Repr

def step (r : Res) : Op → Res
  | .map k => r.map (· + k)
  | .mapErr k => match r with | .ok v => .ok v | .error e => .error (e * 2 + k)
  | .andThen m k => match r with
    | .ok v => if v % 3 != m then .ok (v + k) else .error v
    | .error e => .error e
  | .orElse m k => match r with
    | .ok v => .ok v
    | .error e => if e % 3 == m then .ok (e + k) else .error (e - 1)
  | .catchAttempt k => match r with
    | .ok v => .ok (v + k)
    | .error e => .error e

def run (r : Res) (ops : List Op) : Res := ops.foldl step r

def okSide : Op → Bool
  | .map _ | .andThen _ _ | .catchAttempt _ => true
  | _ => false

/-- an error goes through every `Ok`-side combinator unchanged, whatever its payload -/
theorem run_err_absorbs (e : Payload) (ops : List Op) (h : ∀ o ∈ ops, okSide o = true) :
    run (.error e) ops = .error e := by
  induction ops with
  | nil => rfl
  | cons o os ih =>
    have ho := h o List.mem_cons_self
    have : step (.error e) o = .error e := by
      cases o <;> simp_all [step, okSide, Except.map]
    simp only [run, List.foldl_cons, this] at ih ⊢
    exact ih (fun x hx => h x (List.mem_cons_of_mem _ hx))

/-- a success goes through every `Err`-side combinator unchanged -/
theorem run_ok_absorbs (v : Payload) (ops : List Op) (h : ∀ o ∈ ops, okSide o = false) :
    run (.ok v) ops = .ok v := by
  induction ops with
  | nil => rfl
  | cons o os ih =>
    have ho := h o List.mem_cons_self
    have : step (.ok v) o = .ok v := by
      cases o <;> simp_all [step, okSide]
    simp only [run, List.foldl_cons, this] at ih ⊢
    exact ih (fun x hx => h x (List.mem_cons_of_mem _ hx))

/-- `attempt` inside `catch`, followed by re-wrapping the value, is the identity -/
theorem catch_attempt (r : Res) : step r (.catchAttempt 0) = r := by
  cases r <;> simp [step]

end Fcp.Glue
