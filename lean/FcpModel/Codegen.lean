/-!
# Codegen: `GeneratorManager.generate` as an effect on a file system, and the process-level
model of determinism

`FS` is an association list path ↦ contents (later bindings shadowed by earlier ones are
irrelevant: `FS.get` returns the first).
-/
namespace Fcp.Codegen

abbrev FS := List (String × String)

def FS.get (fs : FS) (p : String) : Option String := fs.lookup p

def FS.write (fs : FS) (p c : String) : FS := (p, c) :: fs.filter (·.1 != p)

def FS.delete (fs : FS) (ps : List String) : FS := fs.filter (fun e => !ps.contains e.1)

/-- `for result in self.generate(fcp, ctx): handle_result(result)` for file results -/
def writeAll (files : List (String × String)) (fs : FS) : FS :=
  files.foldl (fun fs pc => fs.write pc.1 pc.2) fs

/-- what a plug-in's `generate()` does: it may delete files of the output directory before
returning (the C plug-in clears `*.c`/`*.h`), and returns the files to write -/
structure Plugin where
  deletes : FS → List String
  files : List (String × String)

/-- `GeneratorManager.generate`: register checks, verify, and only then run the plug-in and
write its results -/
def generateCmd {E : Type} (verdict : Except E Unit) (plugin : Plugin) (fs : FS) : FS × Except E Unit :=
  match verdict with
  | .error e => (fs, .error e)
  | .ok () => (writeAll plugin.files (fs.delete (plugin.deletes fs)), .ok ())

/-- the C plug-in's clearing rule: files directly in the output directory ending in .c / .h -/
def clearsCH (fs : FS) : List String :=
  (fs.map (·.1)).filter fun p => !p.contains '/' && (p.endsWith ".c" || p.endsWith ".h")

/-! ## gating -/

/-- **reject ⇒ no effect**: a rejected schema leaves the directory untouched and the command
reports the verifier's error -/
theorem gate_reject {E : Type} (e : E) (plugin : Plugin) (fs : FS) :
    generateCmd (.error e) plugin fs = (fs, .error e) := rfl

theorem get_write_same (fs : FS) (p c : String) : (fs.write p c).get p = some c := by
  simp [FS.write, FS.get, List.lookup]

theorem get_write_other (fs : FS) (p q c : String) (h : q ≠ p) :
    (fs.write p c).get q = fs.get q := by
  unfold FS.write FS.get
  have hqp : (q == p) = false := by simpa using h
  simp only [List.lookup, hqp]
  induction fs with
  | nil => rfl
  | cons x xs ih =>
    obtain ⟨a, b⟩ := x
    simp only [List.filter]
    by_cases hap : a = p
    · subst hap
      have : (q == a) = false := by simpa using h
      simp [List.lookup, this, ih]
    · have : (a != p) = true := by simpa using hap
      simp only [this, List.lookup]
      split <;> simp_all

theorem get_writeAll_not_mem (files : List (String × String)) (fs : FS) (q : String)
    (h : q ∉ files.map (·.1)) : (writeAll files fs).get q = fs.get q := by
  induction files generalizing fs with
  | nil => rfl
  | cons x xs ih =>
    simp only [List.map_cons, List.mem_cons, not_or] at h
    simp only [writeAll, List.foldl_cons]
    have := ih (fs.write x.1 x.2) h.2
    simp only [writeAll] at this
    rw [this, get_write_other _ _ _ _ h.1]

theorem get_writeAll_mem (files : List (String × String)) (fs : FS) (p c : String)
    (hn : (files.map (·.1)).Nodup) (h : (p, c) ∈ files) : (writeAll files fs).get p = some c := by
  induction files generalizing fs with
  | nil => cases h
  | cons x xs ih =>
    simp only [List.map_cons, List.nodup_cons] at hn
    simp only [writeAll, List.foldl_cons]
    rcases List.mem_cons.mp h with rfl | hm
    · have := get_writeAll_not_mem xs (fs.write p c) p hn.1
      simp only [writeAll] at this
      rw [this, get_write_same]
    · have := ih (fs.write x.1 x.2) hn.2 hm
      simpa only [writeAll] using this

/-- **accept ⇒ exactly the returned files**: after an accepted generation every returned
path holds exactly the returned contents, and every other path is as the plug-in left it -/
theorem gate_accept {E : Type} (plugin : Plugin) (fs : FS) (hn : (plugin.files.map (·.1)).Nodup) :
    let r := generateCmd (E := E) (.ok ()) plugin fs
    (r.2 = .ok ()) ∧
    (∀ p c, (p, c) ∈ plugin.files → r.1.get p = some c) ∧
    (∀ q, q ∉ plugin.files.map (·.1) → r.1.get q = (fs.delete (plugin.deletes fs)).get q) := by
  refine ⟨rfl, ?_, ?_⟩
  · intro p c h; exact get_writeAll_mem _ _ p c hn h
  · intro q h; exact get_writeAll_not_mem _ _ q h

/-! ## determinism of the file map -/

/-- the `{path: contents}` map of a returned file list -/
def toMap (files : List (String × String)) (p : String) : Option String := files.lookup p

theorem lookup_perm (l l' : List (String × String)) (h : l.Perm l') (hn : (l.map (·.1)).Nodup)
    (p : String) : l.lookup p = l'.lookup p := by
  induction h with
  | nil => rfl
  | cons x _ ih =>
    simp only [List.map_cons, List.nodup_cons] at hn
    obtain ⟨a, b⟩ := x
    simp only [List.lookup]
    split
    · rfl
    · exact ih hn.2
  | swap x y l =>
    obtain ⟨a, b⟩ := x
    obtain ⟨c, d⟩ := y
    simp only [List.map_cons, List.nodup_cons, List.mem_cons, not_or] at hn
    have hac : c ≠ a := hn.1.1
    simp only [List.lookup]
    by_cases h1 : p = c
    · subst h1
      have : (p == a) = false := by simpa using hac
      simp [this]
    · have : (p == c) = false := by simpa using h1
      simp [this]
  | trans h1 _ ih1 ih2 =>
    rw [ih1 hn, ih2 ((h1.map _).nodup_iff.mp hn)]

/-- **order independence**: if a generator emits the same files in another order (e.g. because
it iterated a `set` of protocol names under another hash seed), the resulting map is the same -/
theorem gen_order_indep (files files' : List (String × String)) (h : files.Perm files')
    (hn : (files.map (·.1)).Nodup) : toMap files = toMap files' :=
  funext fun p => lookup_perm files files' h hn p

end Fcp.Codegen
