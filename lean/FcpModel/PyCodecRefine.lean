import FcpModel.PyBufLemmas
import FcpModel.WireTrunc
/-!
# The Python codec model refines the canonical wire format
-/
namespace Fcp

/-! ## encode -/

theorem pyEncChars_rep (cs : List Nat) (hcs : cs.all (· < 256) = true) {b : Buf} {B : Bits}
    (h : BufRep b B) : ∃ b', pyEncChars cs b = .ok b' ∧ BufRep b' (B ++ encChars cs) := by
  induction cs generalizing b B with
  | nil => exact ⟨b, rfl, by simpa [encChars] using h⟩
  | cons c cs ih =>
    simp only [List.all_cons, Bool.and_eq_true, decide_eq_true_eq] at hcs
    obtain ⟨b1, h1, r1⟩ := pushWord_rep h (c : Int) 8
    have hc : toTwos 8 (c : Int) = c := by
      rw [toTwos_of_inRange 8 c (by omega) (by omega)]; simp
    rw [hc] at r1
    obtain ⟨b2, h2, r2⟩ := ih hcs.2 r1
    refine ⟨b2, ?_, ?_⟩
    · simp only [pyEncChars, h1, bind, Except.bind]; exact h2
    · simpa [encChars, List.append_assoc] using r2

theorem pyEncList_rep (e : Val → Buf → Except PyErr Buf) (ty : Ty)
    (he : ∀ v b B, wf ty v = true → BufRep b B → ∃ b', e v b = .ok b' ∧ BufRep b' (B ++ enc ty v))
    (n : Nat) (v : Val) (hv : wfList (wf ty) n v = true) {b : Buf} {B : Bits} (h : BufRep b B) :
    ∃ b', pyEncList e v b = .ok b' ∧ BufRep b' (B ++ encList (enc ty) v) := by
  induction n generalizing v b B with
  | zero =>
    cases v <;> simp_all [wfList]
    exact ⟨b, rfl, by simpa [encList] using h⟩
  | succ n ih =>
    cases v with
    | cons x xs =>
      simp only [wfList, Bool.and_eq_true] at hv
      obtain ⟨b1, h1, r1⟩ := he x b B hv.1 h
      obtain ⟨b2, h2, r2⟩ := ih xs hv.2 r1
      refine ⟨b2, ?_, ?_⟩
      · simp only [pyEncList, h1, bind, Except.bind]; exact h2
      · simpa [encList, List.append_assoc] using r2
    | _ => simp_all [wfList]

theorem pyEncArr_rep (e : Val → Buf → Except PyErr Buf) (ty : Ty)
    (he : ∀ v b B, wf ty v = true → BufRep b B → ∃ b', e v b = .ok b' ∧ BufRep b' (B ++ enc ty v))
    (n : Nat) (v : Val) (hv : wfList (wf ty) n v = true) {b : Buf} {B : Bits} (h : BufRep b B) :
    ∃ b', pyEncArr e n v b = .ok b' ∧ BufRep b' (B ++ encList (enc ty) v) := by
  induction n generalizing v b B with
  | zero =>
    cases v <;> simp_all [wfList]
    exact ⟨b, rfl, by simpa [encList] using h⟩
  | succ n ih =>
    cases v with
    | cons x xs =>
      simp only [wfList, Bool.and_eq_true] at hv
      obtain ⟨b1, h1, r1⟩ := he x b B hv.1 h
      obtain ⟨b2, h2, r2⟩ := ih xs hv.2 r1
      refine ⟨b2, ?_, ?_⟩
      · simp only [pyEncArr, h1, bind, Except.bind]; exact h2
      · simpa [encList, List.append_assoc] using r2
    | _ => simp_all [wfList]

theorem pyEncFields_rep (e : STy → Val → Buf → Except PyErr Buf) (r : STy → Option Ty)
    (he : ∀ t ty v b B, r t = some ty → wf ty v = true → BufRep b B →
      ∃ b', e t v b = .ok b' ∧ BufRep b' (B ++ enc ty v))
    (fs : List Field) (ty : Ty) (hr : resolveFieldsWith r fs = some ty)
    (v : Val) (hv : wf ty v = true) {b : Buf} {B : Bits} (h : BufRep b B) :
    ∃ b', pyEncFields e fs v b = .ok b' ∧ BufRep b' (B ++ enc ty v) := by
  induction fs generalizing ty v b B with
  | nil =>
    simp only [resolveFieldsWith, Option.some.injEq] at hr
    subst hr
    cases v <;> simp_all [wf]
    exact ⟨b, rfl, by simpa [enc] using h⟩
  | cons fd rest ih =>
    simp only [resolveFieldsWith] at hr
    split at hr
    · rename_i t1 rt ht1 hrt
      simp only [Option.some.injEq] at hr
      subst hr
      cases v with
      | cons x xs =>
        simp only [wf, Bool.and_eq_true] at hv
        obtain ⟨b1, h1, r1⟩ := he fd.ty t1 x b B ht1 hv.1 h
        obtain ⟨b2, h2, r2⟩ := ih rt hrt xs hv.2 r1
        refine ⟨b2, ?_, ?_⟩
        · simp only [pyEncFields, h1, bind, Except.bind]; exact h2
        · simpa [enc, List.append_assoc] using r2
      | _ => simp_all [wf]
    · cases hr

theorem natCast_toTwos (n k : Nat) (h : k < 2 ^ n) : toTwos n (k : Int) = k := by
  rw [toTwos_of_inRange n k (by omega) (by exact_mod_cast h)]; simp

/-- **encode refinement**: on in-range values the Python encoder appends exactly the
canonical bits to the represented bit string -/
theorem pyEnc_refines (S : Schema) : ∀ (f : Nat) (t : STy) (ty : Ty) (v : Val) (b : Buf) (B : Bits),
    resolve S f t = some ty → wf ty v = true → BufRep b B →
    ∃ b', pyEnc S f t v b = .ok b' ∧ BufRep b' (B ++ enc ty v) := by
  intro f
  induction f with
  | zero => intro t ty v b B hr; simp [resolve] at hr
  | succ f ih =>
    intro t ty v b B hr hv hb
    cases t with
    | u n =>
      simp only [resolve, Option.some.injEq] at hr; subst hr
      cases v <;> simp_all [wf]
      rename_i i
      obtain ⟨b1, h1, r1⟩ := pushWord_rep hb i n
      rw [toTwos_of_inRange n i hv.1 hv.2] at r1
      exact ⟨b1, by simpa [pyEnc] using h1, by simpa [enc] using r1⟩
    | i n =>
      simp only [resolve, Option.some.injEq] at hr; subst hr
      cases v <;> simp_all [wf]
      rename_i i
      obtain ⟨b1, h1, r1⟩ := pushWord_rep hb i n
      exact ⟨b1, by simpa [pyEnc] using h1, by simpa [enc] using r1⟩
    | f32 =>
      simp only [resolve, Option.some.injEq] at hr; subst hr
      cases v <;> simp_all [wf]
      rename_i i
      obtain ⟨b1, h1, r1⟩ := pushWord_rep hb i 32
      rw [toTwos_of_inRange 32 i hv.1 (by simpa using hv.2)] at r1
      exact ⟨b1, by simpa [pyEnc] using h1, by simpa [enc] using r1⟩
    | f64 =>
      simp only [resolve, Option.some.injEq] at hr; subst hr
      cases v <;> simp_all [wf]
      rename_i i
      obtain ⟨b1, h1, r1⟩ := pushWord_rep hb i 64
      rw [toTwos_of_inRange 64 i hv.1 (by simpa using hv.2)] at r1
      exact ⟨b1, by simpa [pyEnc] using h1, by simpa [enc] using r1⟩
    | str =>
      simp only [resolve, Option.some.injEq] at hr; subst hr
      cases v with
      | str cs =>
        simp only [wf, Bool.and_eq_true, decide_eq_true_eq] at hv
        obtain ⟨b1, h1, r1⟩ := pushWord_rep hb (cs.length : Int) 32
        rw [natCast_toTwos 32 cs.length hv.1] at r1
        obtain ⟨b2, h2, r2⟩ := pyEncChars_rep cs (utf8Valid_bytes cs hv.2) r1
        refine ⟨b2, ?_, ?_⟩
        · simp only [pyEnc, h1, bind, Except.bind]; exact h2
        · simpa [enc, List.append_assoc] using r2
      | _ => simp_all [wf]
    | enum name =>
      simp only [resolve, Option.map_eq_some_iff] at hr
      obtain ⟨bits, hbits, rfl⟩ := hr
      cases v <;> simp_all [wf]
      rename_i i
      obtain ⟨b1, h1, r1⟩ := pushWord_rep hb i bits
      rw [toTwos_of_inRange bits i hv.1 hv.2] at r1
      refine ⟨b1, ?_, by simpa [enc] using r1⟩
      simp only [pyEnc]
      have : (S.getEnum name).bind (·.packedSize) = some bits := by simpa using hbits
      rw [this]; exact h1
    | struct name =>
      simp only [resolve] at hr
      split at hr
      · cases hr
      · rename_i st hst
        have := pyEncFields_rep (pyEnc S f) (resolve S f)
          (fun t ty v b B h1 h2 h3 => ih t ty v b B h1 h2 h3) _ ty hr v hv hb
        obtain ⟨b1, h1, r1⟩ := this
        exact ⟨b1, by simp only [pyEnc, hst]; exact h1, r1⟩
    | arr t n =>
      simp only [resolve, Option.map_eq_some_iff] at hr
      obtain ⟨ty', hty', rfl⟩ := hr
      simp only [wf] at hv
      obtain ⟨b1, h1, r1⟩ := pyEncArr_rep (pyEnc S f t) ty'
        (fun v b B h2 h3 => ih t ty' v b B hty' h2 h3) n v hv hb
      exact ⟨b1, by simp only [pyEnc]; exact h1, by simpa [enc] using r1⟩
    | dyn t =>
      simp only [resolve, Option.map_eq_some_iff] at hr
      obtain ⟨ty', hty', rfl⟩ := hr
      simp only [wf, Bool.and_eq_true, decide_eq_true_eq] at hv
      obtain ⟨b1, h1, r1⟩ := pushWord_rep hb (vlen v : Int) 32
      rw [natCast_toTwos 32 (vlen v) hv.1] at r1
      obtain ⟨b2, h2, r2⟩ := pyEncList_rep (pyEnc S f t) ty'
        (fun v b B h2 h3 => ih t ty' v b B hty' h2 h3) _ v hv.2 r1
      refine ⟨b2, ?_, ?_⟩
      · simp only [pyEnc, h1, bind, Except.bind]; exact h2
      · simpa [enc, List.append_assoc] using r2
    | opt t =>
      simp only [resolve, Option.map_eq_some_iff] at hr
      obtain ⟨ty', hty', rfl⟩ := hr
      cases v with
      | none =>
        obtain ⟨b1, h1, r1⟩ := pushWord_rep hb 0 8
        exact ⟨b1, by simpa [pyEnc] using h1, by simpa [enc, toTwos] using r1⟩
      | some x =>
        simp only [wf] at hv
        obtain ⟨b1, h1, r1⟩ := pushWord_rep hb 1 8
        have e1 : toTwos 8 1 = 1 := by decide
        rw [e1] at r1
        obtain ⟨b2, h2, r2⟩ := ih t ty' x b1 _ hty' hv r1
        refine ⟨b2, ?_, ?_⟩
        · simp only [pyEnc, h1, bind, Except.bind]; exact h2
        · simpa [enc, List.append_assoc] using r2
      | _ => simp_all [wf]

/-- `encode(fcp, name, v)` returns the canonical bytes -/
theorem pyEncode_refines (S : Schema) (f : Nat) (name : String) (ty : Ty) (v : Val)
    (hr : resolve S f (.struct name) = some ty) (hv : wf ty v = true) :
    pyEncode S f name v = .ok (encBytes ty v) := by
  have h0 : BufRep ({} : Buf) [] := ⟨Rep.nil, rfl⟩
  obtain ⟨b', h1, r1⟩ := pyEnc_refines S f (.struct name) ty v {} [] hr hv h0
  unfold pyEncode encBytes
  rw [h1]
  simp only [List.nil_append] at r1
  simp [Except.map, r1.rep.eq_pack]

/-! ## decode -/

/-- relation between a Python decode result from buffer `b` and the canonical decoder's
result on the bits in front of the cursor: success for success with the same value,
the cursor advanced over exactly the consumed bits; failure for failure -/
def DecRef {α : Type} (res : Except PyErr (α × Buf)) (b : Buf) (o : Option (α × Bits)) : Prop :=
  match o with
  | none => ∃ e, res = .error e
  | some (v, r) => ∃ n, res = .ok (v, { b with bitaddr := b.bitaddr + n }) ∧ r = b.bits.drop n

theorem bits_advance (b : Buf) (n : Nat) :
    ({ b with bitaddr := b.bitaddr + n } : Buf).bits = b.bits.drop n := by
  simp [Buf.bits, List.drop_drop]

theorem advance_advance (b : Buf) (n m : Nat) :
    ({ ({ b with bitaddr := b.bitaddr + n } : Buf) with
        bitaddr := ({ b with bitaddr := b.bitaddr + n } : Buf).bitaddr + m } : Buf) =
      { b with bitaddr := b.bitaddr + (n + m) } := by
  simp [Nat.add_assoc]

theorem readWord_ref (b : Buf) (n : Nat) : DecRef (b.readWord n) b (readN n b.bits) := by
  rw [readWord_spec]
  cases h : readN n b.bits with
  | none => exact ⟨_, rfl⟩
  | some xr =>
    obtain ⟨x, r⟩ := xr
    exact ⟨n, rfl, (readN_rest h).1⟩

theorem pyDecChars_ref (k : Nat) (b : Buf) : DecRef (pyDecChars k b) b (decChars k b.bits) := by
  induction k generalizing b with
  | zero => exact ⟨0, by simp [pyDecChars], by simp⟩
  | succ k ih =>
    simp only [pyDecChars, decChars]
    have h1 := readWord_ref b 8
    cases hr : readN 8 b.bits with
    | none =>
      rw [hr] at h1
      obtain ⟨e, he⟩ := h1
      exact ⟨e, by simp [he, bind, Except.bind]⟩
    | some xr =>
      obtain ⟨c, r⟩ := xr
      rw [hr] at h1
      obtain ⟨n, hn, hr'⟩ := h1
      simp only [hn, bind, Except.bind]
      have h2 := ih { b with bitaddr := b.bitaddr + n }
      rw [bits_advance, ← hr'] at h2
      cases hc : decChars k r with
      | none =>
        rw [hc] at h2
        obtain ⟨e, he⟩ := h2
        exact ⟨e, by simp [he]⟩
      | some cr =>
        obtain ⟨cs, r2⟩ := cr
        rw [hc] at h2
        obtain ⟨m, hm, hr2⟩ := h2
        refine ⟨n + m, ?_, ?_⟩
        · simp [hm, Nat.add_assoc]
        · rw [hr2, bits_advance, List.drop_drop]

theorem pyDecList_ref (d : Buf → Except PyErr (Val × Buf)) (dc : Bits → Option (Val × Bits))
    (hd : ∀ b, DecRef (d b) b (dc b.bits)) (k : Nat) (b : Buf) :
    DecRef (pyDecList d k b) b (decList dc k b.bits) := by
  induction k generalizing b with
  | zero => exact ⟨0, by simp [pyDecList], by simp⟩
  | succ k ih =>
    simp only [pyDecList, decList]
    have h1 := hd b
    cases hr : dc b.bits with
    | none =>
      rw [hr] at h1
      obtain ⟨e, he⟩ := h1
      exact ⟨e, by simp [he, bind, Except.bind]⟩
    | some xr =>
      obtain ⟨x, r⟩ := xr
      rw [hr] at h1
      obtain ⟨n, hn, hr'⟩ := h1
      simp only [hn, bind, Except.bind]
      have h2 := ih { b with bitaddr := b.bitaddr + n }
      rw [bits_advance, ← hr'] at h2
      cases hc : decList dc k r with
      | none =>
        rw [hc] at h2
        obtain ⟨e, he⟩ := h2
        exact ⟨e, by simp [he]⟩
      | some cr =>
        obtain ⟨xs, r2⟩ := cr
        rw [hc] at h2
        obtain ⟨m, hm, hr2⟩ := h2
        refine ⟨n + m, ?_, ?_⟩
        · simp [hm, Nat.add_assoc]
        · rw [hr2, bits_advance, List.drop_drop]

theorem pyDecFields_ref (d : STy → Buf → Except PyErr (Val × Buf)) (r : STy → Option Ty)
    (hd : ∀ t ty b, r t = some ty → DecRef (d t b) b (dec ty b.bits))
    (fs : List Field) (ty : Ty) (hr : resolveFieldsWith r fs = some ty) (b : Buf) :
    DecRef (pyDecFields d fs b) b (dec ty b.bits) := by
  induction fs generalizing ty b with
  | nil =>
    simp only [resolveFieldsWith, Option.some.injEq] at hr
    subst hr
    exact ⟨0, by simp [pyDecFields], by simp [dec]⟩
  | cons fd rest ih =>
    simp only [resolveFieldsWith] at hr
    split at hr
    · rename_i t1 rt ht1 hrt
      simp only [Option.some.injEq] at hr
      subst hr
      simp only [pyDecFields, dec]
      have h1 := hd fd.ty t1 b ht1
      cases hr1 : dec t1 b.bits with
      | none =>
        rw [hr1] at h1
        obtain ⟨e, he⟩ := h1
        exact ⟨e, by simp [he, bind, Except.bind]⟩
      | some xr =>
        obtain ⟨x, r1⟩ := xr
        rw [hr1] at h1
        obtain ⟨n, hn, hr'⟩ := h1
        simp only [hn, bind, Except.bind]
        have h2 := ih rt hrt { b with bitaddr := b.bitaddr + n }
        rw [bits_advance, ← hr'] at h2
        cases hc : dec rt r1 with
        | none =>
          rw [hc] at h2
          obtain ⟨e, he⟩ := h2
          exact ⟨e, by simp [he]⟩
        | some cr =>
          obtain ⟨xs, r2⟩ := cr
          rw [hc] at h2
          obtain ⟨m, hm, hr2⟩ := h2
          refine ⟨n + m, ?_, ?_⟩
          · simp [hm, Nat.add_assoc]
          · simp only [Option.map_some]
            rw [hr2, bits_advance, List.drop_drop]
    · cases hr

/-- primitive case shared by every scalar: a `read_word` followed by a pure conversion -/
theorem prim_ref (b : Buf) (n : Nat) (g : Nat → Val) :
    DecRef (do let (w, b') ← b.readWord n; Except.ok (g w, b')) b
      ((readN n b.bits).map fun (w, r) => (g w, r)) := by
  have h1 := readWord_ref b n
  cases hr : readN n b.bits with
  | none =>
    rw [hr] at h1
    obtain ⟨e, he⟩ := h1
    exact ⟨e, by simp [he, bind, Except.bind]⟩
  | some xr =>
    obtain ⟨x, r⟩ := xr
    rw [hr] at h1
    obtain ⟨m, hm, hr'⟩ := h1
    exact ⟨m, by simp [hm, bind, Except.bind], hr'⟩

/-- **decode refinement**: the Python decoder succeeds exactly when the canonical decoder
does, with the same value, consuming the same bits -/
theorem pyDec_refines (S : Schema) : ∀ (f : Nat) (t : STy) (ty : Ty) (b : Buf),
    resolve S f t = some ty → DecRef (pyDec S f t b) b (dec ty b.bits) := by
  intro f
  induction f with
  | zero => intro t ty b hr; simp [resolve] at hr
  | succ f ih =>
    intro t ty b hr
    cases t with
    | u n =>
      simp only [resolve, Option.some.injEq] at hr; subst hr
      simpa [pyDec, dec] using prim_ref b n (fun w => Val.int (w : Int))
    | i n =>
      simp only [resolve, Option.some.injEq] at hr; subst hr
      have := prim_ref b n (fun w => Val.int (ofTwos n w))
      simpa [pyDec, dec, pySigned, ofTwos] using this
    | f32 =>
      simp only [resolve, Option.some.injEq] at hr; subst hr
      simpa [pyDec, dec] using prim_ref b 32 (fun w => Val.int (w : Int))
    | f64 =>
      simp only [resolve, Option.some.injEq] at hr; subst hr
      simpa [pyDec, dec] using prim_ref b 64 (fun w => Val.int (w : Int))
    | enum name =>
      simp only [resolve, Option.map_eq_some_iff] at hr
      obtain ⟨bits, hbits, rfl⟩ := hr
      have hb : (S.getEnum name).bind (·.packedSize) = some bits := by simpa using hbits
      simp only [pyDec, hb, dec]
      exact prim_ref b bits (fun w => Val.int (w : Int))
    | str =>
      simp only [resolve, Option.some.injEq] at hr; subst hr
      simp only [pyDec, dec]
      have h1 := readWord_ref b 32
      cases hr : readN 32 b.bits with
      | none =>
        rw [hr] at h1
        obtain ⟨e, he⟩ := h1
        exact ⟨e, by simp [he, bind, Except.bind]⟩
      | some xr =>
        obtain ⟨k, r⟩ := xr
        rw [hr] at h1
        obtain ⟨n, hn, hr'⟩ := h1
        simp only [hn, bind, Except.bind]
        have h2 := pyDecChars_ref k { b with bitaddr := b.bitaddr + n }
        rw [bits_advance, ← hr'] at h2
        cases hc : decChars k r with
        | none =>
          rw [hc] at h2
          obtain ⟨e, he⟩ := h2
          exact ⟨e, by simp [he]⟩
        | some cr =>
          obtain ⟨cs, r2⟩ := cr
          rw [hc] at h2
          obtain ⟨m, hm, hr2⟩ := h2
          simp only [hm]
          by_cases hall : utf8Valid cs = true
          · simp only [hall, ↓reduceIte]
            refine ⟨n + m, by simp [Nat.add_assoc], ?_⟩
            rw [hr2, bits_advance, List.drop_drop]
          · simp only [hall]
            exact ⟨_, rfl⟩
    | struct name =>
      simp only [resolve] at hr
      split at hr
      · cases hr
      · rename_i st hst
        simp only [pyDec, hst]
        exact pyDecFields_ref (pyDec S f) (resolve S f) (fun t ty b h => ih t ty b h) _ ty hr b
    | arr t n =>
      simp only [resolve, Option.map_eq_some_iff] at hr
      obtain ⟨ty', hty', rfl⟩ := hr
      simp only [pyDec, dec]
      exact pyDecList_ref (pyDec S f t) (dec ty') (fun b => ih t ty' b hty') n b
    | dyn t =>
      simp only [resolve, Option.map_eq_some_iff] at hr
      obtain ⟨ty', hty', rfl⟩ := hr
      simp only [pyDec, dec]
      have h1 := readWord_ref b 32
      cases hr : readN 32 b.bits with
      | none =>
        rw [hr] at h1
        obtain ⟨e, he⟩ := h1
        exact ⟨e, by simp [he, bind, Except.bind]⟩
      | some xr =>
        obtain ⟨k, r⟩ := xr
        rw [hr] at h1
        obtain ⟨n, hn, hr'⟩ := h1
        simp only [hn, bind, Except.bind]
        have h2 := pyDecList_ref (pyDec S f t) (dec ty') (fun b => ih t ty' b hty') k
          { b with bitaddr := b.bitaddr + n }
        rw [bits_advance, ← hr'] at h2
        cases hc : decList (dec ty') k r with
        | none =>
          rw [hc] at h2
          obtain ⟨e, he⟩ := h2
          exact ⟨e, by simp [he]⟩
        | some cr =>
          obtain ⟨xs, r2⟩ := cr
          rw [hc] at h2
          obtain ⟨m, hm, hr2⟩ := h2
          refine ⟨n + m, by simp [hm, Nat.add_assoc], ?_⟩
          rw [hr2, bits_advance, List.drop_drop]
    | opt t =>
      simp only [resolve, Option.map_eq_some_iff] at hr
      obtain ⟨ty', hty', rfl⟩ := hr
      simp only [pyDec, dec]
      have h1 := readWord_ref b 8
      cases hr : readN 8 b.bits with
      | none =>
        rw [hr] at h1
        obtain ⟨e, he⟩ := h1
        exact ⟨e, by simp [he, bind, Except.bind]⟩
      | some xr =>
        obtain ⟨flag, r⟩ := xr
        rw [hr] at h1
        obtain ⟨n, hn, hr'⟩ := h1
        simp only [hn, bind, Except.bind]
        by_cases hf : flag = 0
        · subst hf
          exact ⟨n, by simp, hr'⟩
        · have hf' : (flag != 0) = true := by simpa using hf
          simp only [hf', ↓reduceIte, hf]
          have h2 := ih t ty' { b with bitaddr := b.bitaddr + n } hty'
          rw [bits_advance, ← hr'] at h2
          cases hc : dec ty' r with
          | none =>
            rw [hc] at h2
            obtain ⟨e, he⟩ := h2
            exact ⟨e, by simp [he]⟩
          | some cr =>
            obtain ⟨x, r2⟩ := cr
            rw [hc] at h2
            obtain ⟨m, hm, hr2⟩ := h2
            refine ⟨n + m, by simp [hm, Nat.add_assoc], ?_⟩
            simp only [Option.map_some]
            rw [hr2, bits_advance, List.drop_drop]

/-- `decode(fcp, name, bytes)` succeeds exactly when the canonical decoder does, with the
same value -/
theorem pyDecode_refines (S : Schema) (f : Nat) (name : String) (ty : Ty) (bytes : List Nat)
    (hr : resolve S f (.struct name) = some ty) :
    match decBytes ty bytes with
    | some v => pyDecode S f name bytes = .ok v
    | none => ∃ e, pyDecode S f name bytes = .error e := by
  have h := pyDec_refines S f (.struct name) ty (({} : Buf).pushBytes bytes) hr
  have hb : (({} : Buf).pushBytes bytes).bits = unpack bytes := by
    simp [Buf.bits, Buf.pushBytes]
  rw [hb] at h
  unfold decBytes pyDecode
  cases hd : dec ty (unpack bytes) with
  | none =>
    rw [hd] at h
    obtain ⟨e, he⟩ := h
    exact ⟨e, by simp [he, Except.map]⟩
  | some vr =>
    obtain ⟨v, r⟩ := vr
    rw [hd] at h
    obtain ⟨n, hn, _⟩ := h
    simp [hn, Except.map]

end Fcp
