/-!
# Utf8: which byte strings are texts

The Python codec writes a string as its UTF-8 bytes and reads it back with the strict UTF-8
decoder (`bytes.decode("utf-8")`: no overlong forms, no surrogates, nothing above U+10FFFF); the
C++ codecs carry the bytes of a `std::string` whose JSON form is UTF-8 as well.  `utf8Valid` is
that decoder's acceptance condition on a list of byte values.
-/
namespace Fcp

/-- the decoder as a state machine over the bytes: `k` continuation bytes are still owed, the next
one must lie in `lo..hi` (only the first continuation byte of a sequence has special bounds:
no overlong forms, no surrogates, nothing above U+10FFFF — Unicode Standard, table 3-7) -/
def utf8Go : Nat → Nat → Nat → List Nat → Bool
  | k, _, _, [] => k == 0
  | 0, _, _, b :: r =>
    if b < 0x80 then utf8Go 0 0 0 r
    else if 0xC2 ≤ b && b ≤ 0xDF then utf8Go 1 0x80 0xBF r
    else if b == 0xE0 then utf8Go 2 0xA0 0xBF r
    else if (0xE1 ≤ b && b ≤ 0xEC) || b == 0xEE || b == 0xEF then utf8Go 2 0x80 0xBF r
    else if b == 0xED then utf8Go 2 0x80 0x9F r
    else if b == 0xF0 then utf8Go 3 0x90 0xBF r
    else if 0xF1 ≤ b && b ≤ 0xF3 then utf8Go 3 0x80 0xBF r
    else if b == 0xF4 then utf8Go 3 0x80 0x8F r
    else false
  | k+1, lo, hi, b :: r => lo ≤ b && b ≤ hi && utf8Go k 0x80 0xBF r

/-- well-formed UTF-8 -/
def utf8Valid (cs : List Nat) : Bool := utf8Go 0 0 0 cs

theorem utf8Go_bytes (cs : List Nat) : ∀ (k lo hi : Nat), hi ≤ 0xBF → utf8Go k lo hi cs = true →
    cs.all (· < 256) = true := by
  induction cs with
  | nil => intros; rfl
  | cons b r ih =>
    intro k lo hi hhi h
    cases k with
    | zero =>
      simp only [utf8Go] at h
      simp only [List.all_cons, Bool.and_eq_true, decide_eq_true_eq]
      split at h
      · exact ⟨by omega, ih _ _ _ (by omega) h⟩
      split at h
      · rename_i h1; simp only [Bool.and_eq_true, decide_eq_true_eq] at h1
        exact ⟨by omega, ih _ _ _ (by omega) h⟩
      split at h
      · rename_i h1; simp only [beq_iff_eq] at h1
        exact ⟨by omega, ih _ _ _ (by omega) h⟩
      split at h
      · rename_i h1; simp only [Bool.or_eq_true, Bool.and_eq_true, decide_eq_true_eq, beq_iff_eq] at h1
        exact ⟨by omega, ih _ _ _ (by omega) h⟩
      split at h
      · rename_i h1; simp only [beq_iff_eq] at h1
        exact ⟨by omega, ih _ _ _ (by omega) h⟩
      split at h
      · rename_i h1; simp only [beq_iff_eq] at h1
        exact ⟨by omega, ih _ _ _ (by omega) h⟩
      split at h
      · rename_i h1; simp only [Bool.and_eq_true, decide_eq_true_eq] at h1
        exact ⟨by omega, ih _ _ _ (by omega) h⟩
      split at h
      · rename_i h1; simp only [beq_iff_eq] at h1
        exact ⟨by omega, ih _ _ _ (by omega) h⟩
      · cases h
    | succ k =>
      simp only [utf8Go, Bool.and_eq_true, decide_eq_true_eq] at h
      simp only [List.all_cons, Bool.and_eq_true, decide_eq_true_eq]
      exact ⟨by omega, ih _ _ _ (by omega) h.2⟩

/-- every byte of a valid text is a byte -/
theorem utf8Valid_bytes (cs : List Nat) (h : utf8Valid cs = true) : cs.all (· < 256) = true :=
  utf8Go_bytes cs 0 0 0 (by omega) h

/-- 7-bit texts are valid -/
theorem utf8Valid_of_ascii (cs : List Nat) (h : cs.all (· < 128) = true) : utf8Valid cs = true := by
  unfold utf8Valid
  induction cs with
  | nil => rfl
  | cons c cs ih =>
    simp only [List.all_cons, Bool.and_eq_true, decide_eq_true_eq] at h
    simp only [utf8Go, h.1, if_true]
    exact ih h.2

theorem utf8Go_zero_bounds (lo hi lo' hi' : Nat) (cs : List Nat) :
    utf8Go 0 lo hi cs = utf8Go 0 lo' hi' cs := by
  cases cs <;> simp [utf8Go]

theorem utf8Go_append (a b : List Nat) (hb : utf8Valid b = true) : ∀ (k lo hi : Nat),
    utf8Go k lo hi a = true → utf8Go k lo hi (a ++ b) = true := by
  induction a with
  | nil =>
    intro k lo hi h
    simp only [utf8Go, beq_iff_eq] at h
    subst h
    rw [List.nil_append, utf8Go_zero_bounds lo hi 0 0]
    exact hb
  | cons x xs ih =>
    intro k lo hi h
    cases k with
    | zero =>
      simp only [List.cons_append, utf8Go] at h ⊢
      repeat' split
      all_goals first | exact ih _ _ _ (by assumption) | simp_all
    | succ k =>
      simp only [List.cons_append, utf8Go, Bool.and_eq_true] at h ⊢
      exact ⟨h.1, ih _ _ _ h.2⟩

/-- texts can be concatenated -/
theorem utf8Valid_append (a b : List Nat) (ha : utf8Valid a = true) (hb : utf8Valid b = true) :
    utf8Valid (a ++ b) = true := utf8Go_append a b hb 0 0 0 ha

example : utf8Valid [0xC2, 0xB0, 0x43] = true := by decide          -- "°C"
example : utf8Valid [0xE2, 0x82, 0xAC] = true := by decide          -- "€"
example : utf8Valid [0xF0, 0x9F, 0x98, 0x80] = true := by decide    -- U+1F600
example : utf8Valid [0xB0, 0x43] = false := by decide               -- a lone continuation byte
example : utf8Valid [0xC0, 0x80] = false := by decide               -- overlong
example : utf8Valid [0xED, 0xA0, 0x80] = false := by decide         -- surrogate
example : utf8Valid [0xF4, 0x90, 0x80, 0x80] = false := by decide   -- above U+10FFFF

end Fcp
