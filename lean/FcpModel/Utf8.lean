/-!
# Utf8: which byte strings are texts

The Python codec writes a string as its UTF-8 bytes and reads it back with the strict UTF-8
decoder (`bytes.decode("utf-8")`: no overlong forms, no surrogates, nothing above U+10FFFF); the
C++ codecs carry the bytes of a `std::string` whose JSON form is UTF-8 as well.  `utf8Valid` is
that decoder's acceptance condition on a list of byte values.
-/
namespace Fcp

/-- the decoder as a state machine over the bytes: `k` continuation bytes are still owed, the next
one must lie in `lo..hi` (only the first continuation byte of a sequence has special bounds:
no overlong forms, no surrogates, nothing above U+10FFFF — Unicode Standard, table 3-7) -/
def utf8Go : Nat → Nat → Nat → List Nat → Bool
  | k, _, _, [] => k == 0
  | 0, _, _, b :: r =>
    if b < 0x80 then utf8Go 0 0 0 r
    else if 0xC2 ≤ b && b ≤ 0xDF then utf8Go 1 0x80 0xBF r
    else if b == 0xE0 then utf8Go 2 0xA0 0xBF r
    else if (0xE1 ≤ b && b ≤ 0xEC) || b == 0xEE || b == 0xEF then utf8Go 2 0x80 0xBF r
    else if b == 0xED then utf8Go 2 0x80 0x9F r
    else if b == 0xF0 then utf8Go 3 0x90 0xBF r
    else if 0xF1 ≤ b && b ≤ 0xF3 then utf8Go 3 0x80 0xBF r
    else if b == 0xF4 then utf8Go 3 0x80 0x8F r
    else false
  | k+1, lo, hi, b :: r => lo ≤ b && b ≤ hi && utf8Go k 0x80 0xBF r

/-- well-formed UTF-8 -/
def utf8Valid (cs : List Nat) : Bool := utf8Go 0 0 0 cs

theorem utf8Go_bytes (cs : List Nat) : ∀ (k lo hi : Nat), hi ≤ 0xBF → utf8Go k lo hi cs = true →
    cs.all (· < 256) = true := by
  induction cs with
  | nil => intros; rfl
  | cons b r ih =>
    intro k lo hi hhi h
    cases k with
    | zero =>
      simp only [utf8Go] at h
      simp only [List.all_cons, Bool.and_eq_true, decide_eq_true_eq]
      split at h
      · exact ⟨by omega, ih _ _ _ (by omega) h⟩
      split at h
      · rename_i h1; simp only [Bool.and_eq_true, decide_eq_true_eq] at h1
        exact ⟨by omega, ih _ _ _ (by omega) h⟩
      split at h
      · rename_i h1; simp only [beq_iff_eq] at h1
        exact ⟨by omega, ih _ _ _ (by omega) h⟩
      split at h
      · rename_i h1; simp only [Bool.or_eq_true, Bool.and_eq_true, decide_eq_true_eq, beq_iff_eq] at h1
        exact ⟨by omega, ih _ _ _ (by omega) h⟩
      split at h
      · rename_i h1; simp only [beq_iff_eq] at h1
        exact ⟨by omega, ih _ _ _ (by omega) h⟩
      split at h
      · rename_i h1; simp only [beq_iff_eq] at h1
        exact ⟨by omega, ih _ _ _ (by omega) h⟩
      split at h
      · rename_i h1; simp only [Bool.and_eq_true, decide_eq_true_eq] at h1
        exact ⟨by omega, ih _ _ _ (by omega) h⟩
      split at h
      · rename_i h1; simp only [beq_iff_eq] at h1
        exact ⟨by omega, ih _ _ _ (by omega) h⟩
      · cases h
    | succ k =>
      simp only [utf8Go, Bool.and_eq_true, decide_eq_true_eq] at h
      simp only [List.all_cons, Bool.and_eq_true, decide_eq_true_eq]
      exact ⟨by omega, ih _ _ _ (by omega) h.2⟩

/-- every byte of a valid text is a byte -/
theorem utf8Valid_bytes (cs : List Nat) (h : utf8Valid cs = true) : cs.all (· < 256) = true :=
  utf8Go_bytes cs 0 0 0 (by omega) h

/-- 7-bit texts are valid -/
theorem utf8Valid_of_ascii (cs : List Nat) (h : cs.all (· < 128) = true) : utf8Valid cs = true := by
  unfold utf8Valid
  induction cs with
  | nil => rfl
  | cons c cs ih =>
    simp only [List.all_cons, Bool.and_eq_true, decide_eq_true_eq] at h
    simp only [utf8Go, h.1, if_true]
    exact ih h.2

theorem utf8Go_zero_bounds (lo hi lo' hi' : Nat) (cs : List Nat) :
    utf8Go 0 lo hi cs = utf8Go 0 lo' hi' cs := by
  cases cs <;> simp [utf8Go]

theorem utf8Go_append (a b : List Nat) (hb : utf8Valid b = true) : ∀ (k lo hi : Nat),
    utf8Go k lo hi a = true → utf8Go k lo hi (a ++ b) = true := by
  induction a with
  | nil =>
    intro k lo hi h
    simp only [utf8Go, beq_iff_eq] at h
    subst h
    rw [List.nil_append, utf8Go_zero_bounds lo hi 0 0]
    exact hb
  | cons x xs ih =>
    intro k lo hi h
    cases k with
    | zero =>
      simp only [List.cons_append, utf8Go] at h ⊢
      repeat' split
      all_goals first | exact ih _ _ _ (by assumption) | simp_all
    | succ k =>
      simp only [List.cons_append, utf8Go, Bool.and_eq_true] at h ⊢
      exact ⟨h.1, ih _ _ _ h.2⟩

/-- texts can be concatenated -/
theorem utf8Valid_append (a b : List Nat) (ha : utf8Valid a = true) (hb : utf8Valid b = true) :
    utf8Valid (a ++ b) = true := utf8Go_append a b hb 0 0 0 ha

example : utf8Valid [0xC2, 0xB0, 0x43] = true := by decide          -- "°C"
example : utf8Valid [0xE2, 0x82, 0xAC] = true := by decide          -- "€"
example : utf8Valid [0xF0, 0x9F, 0x98, 0x80] = true := by decide    -- U+1F600
example : utf8Valid [0xB0, 0x43] = false := by decide               -- a lone continuation byte
example : utf8Valid [0xC0, 0x80] = false := by decide               -- overlong
example : utf8Valid [0xED, 0xA0, 0x80] = false := by decide         -- surrogate
example : utf8Valid [0xF4, 0x90, 0x80, 0x80] = false := by decide   -- above U+10FFFF

end Fcp

namespace Fcp

/-! ## every text has valid bytes: the UTF-8 encoding of a list of Unicode scalar values -/

/-- Unicode scalar values: code points without the surrogates -/
def isScalar (c : Nat) : Bool := c < 0xD800 || (0xE000 ≤ c && c < 0x110000)

/-- the UTF-8 bytes of one code point -/
def utf8Enc (c : Nat) : List Nat :=
  if c < 0x80 then [c]
  else if c < 0x800 then [0xC0 + c / 64, 0x80 + c % 64]
  else if c < 0x10000 then [0xE0 + c / 4096, 0x80 + c / 64 % 64, 0x80 + c % 64]
  else [0xF0 + c / 262144, 0x80 + c / 4096 % 64, 0x80 + c / 64 % 64, 0x80 + c % 64]

/-- what `str.encode("utf-8")` yields for a text given as its scalar values -/
def utf8Bytes (cs : List Nat) : List Nat := cs.flatMap utf8Enc

theorem utf8Enc_valid (c : Nat) (h : isScalar c = true) : utf8Valid (utf8Enc c) = true := by
  simp only [isScalar, Bool.or_eq_true, Bool.and_eq_true, decide_eq_true_eq] at h
  unfold utf8Valid utf8Enc
  by_cases h1 : c < 0x80
  · simp [h1, utf8Go]
  · by_cases h2 : c < 0x800
    · have a1 : ¬ (0xC0 + c / 64 < 0x80) := by omega
      have a2 : 0xC2 ≤ 0xC0 + c / 64 ∧ 0xC0 + c / 64 ≤ 0xDF := by omega
      simp only [h1, h2, if_false, if_true, utf8Go, a1, a2.1, a2.2, decide_true, Bool.and_self, Bool.and_true,
        beq_self_eq_true, Bool.and_eq_true, decide_eq_true_eq]
      omega
    · by_cases h3 : c < 0x10000
      · simp only [h1, h2, h3, if_false, if_true]
        -- the lead byte is one of 0xE0 .. 0xEF; each has its own bounds for the second byte
        have hq : c / 4096 = 0 ∨ c / 4096 = 1 ∨ c / 4096 = 2 ∨ c / 4096 = 3 ∨ c / 4096 = 4 ∨ c / 4096 = 5 ∨
            c / 4096 = 6 ∨ c / 4096 = 7 ∨ c / 4096 = 8 ∨ c / 4096 = 9 ∨ c / 4096 = 10 ∨ c / 4096 = 11 ∨
            c / 4096 = 12 ∨ c / 4096 = 13 ∨ c / 4096 = 14 ∨ c / 4096 = 15 := by omega
        rcases hq with q | q | q | q | q | q | q | q | q | q | q | q | q | q | q | q <;>
          (rw [q]; simp [utf8Go]; omega)
      · simp only [h1, h2, h3, if_false]
        have hq : c / 262144 = 0 ∨ c / 262144 = 1 ∨ c / 262144 = 2 ∨ c / 262144 = 3 ∨ c / 262144 = 4 := by omega
        rcases hq with q | q | q | q | q <;>
          (rw [q]; simp [utf8Go]; omega)

/-- **every text is in the codec's domain**: the UTF-8 bytes of any list of scalar values are valid -/
theorem utf8Bytes_valid (cs : List Nat) (h : cs.all isScalar = true) : utf8Valid (utf8Bytes cs) = true := by
  induction cs with
  | nil => rfl
  | cons c cs ih =>
    simp only [List.all_cons, Bool.and_eq_true] at h
    simp only [utf8Bytes, List.flatMap_cons]
    exact utf8Valid_append _ _ (utf8Enc_valid c h.1) (ih h.2)

example : utf8Bytes [0xB0, 0x43] = [0xC2, 0xB0, 0x43] := by decide
example : utf8Bytes [0x1F600] = [0xF0, 0x9F, 0x98, 0x80] := by decide

end Fcp
