import FcpModel.FieldOrder
/-!
# Dbc: what `fcp_dbc` hands to cantools, derived from the packed layout

`expectedDbc` mirrors `dbc_writer.write_dbc` / `_make_signals` up to the arguments of
`CanSignal(...)` / `CanMessage(...)`; cantools' printer is not modelled (the generated text
is read back by an independent reader in the harness).
-/
namespace Fcp

structure DbcSignal where
  name : String
  start : Nat
  length : Nat
  bigEndian : Bool
  signed : Bool
  isFloat : Bool
  unit : Option String
  isMux : Bool
  muxIds : Option (List Nat)
  muxSignal : Option String
  deriving Repr, Inhabited

structure DbcMessage where
  frameId : Int
  name : String
  dlc : Nat
  signals : List DbcSignal
  deriving Repr, Inhabited

inductive DbcErr where
  | noLayout     -- the encoder raised (variable-size field, missing struct)
  | empty        -- `encoding[-1]` on an empty layout
  | tooBig       -- "Message … too big"
  | noId         -- "No id field found in extension"
  deriving Repr, DecidableEq, Inhabited

def xvalStr? : XVal → Option String
  | .str s => some s
  | _ => none

/-- `piece.type.is_signed()` -/
def STy.isSigned : STy → Bool
  | .i _ => true
  | _ => false

def STy.isFloat : STy → Bool
  | .f32 => true
  | .f64 => true
  | _ => false

def replaceColons (s : String) : String := s.replace "::" "_"

/-- `_make_signals` -/
def makeSignals (ls : List Leaf) : Except DbcErr (List DbcSignal × Nat) :=
  match ls.getLast? with
  | none => .error .empty
  | some last =>
    if last.start + last.len > 64 then .error .tooBig
    else
      let muxNames := ls.filterMap fun l => (l.opts.lookup "mux_signal").bind xvalStr?
      let sigs := ls.map fun l =>
        let muxCount := match l.opts.lookup "mux_count" with
          | some (.int n) => some n.toNat
          | _ => none
        { name := replaceColons l.name,
          start := if l.endian != "little" then l.start + 7 else l.start,
          length := l.len,
          bigEndian := l.endian == "big",
          signed := l.ty.isSigned,
          isFloat := l.ty.isFloat,
          unit := l.unit,
          isMux := muxNames.contains l.name,
          muxIds := muxCount.map List.range,
          muxSignal := (l.opts.lookup "mux_signal").bind xvalStr? : DbcSignal }
      .ok (sigs, (last.start + last.len + 7) / 8)

def Impl.busName (i : Impl) : String :=
  match i.fields.lookup "bus" with
  | some (.str s) => s
  | some (.int n) => toString n
  | _ => "default"

/-- one CAN binding → one message -/
def dbcMessage (S : Schema) (fuel : Nat) (i : Impl) : Except DbcErr DbcMessage :=
  match generate S true fuel i with
  | none => .error .noLayout
  | some (ls, _) =>
    match makeSignals ls with
    | .error e => .error e
    | .ok (sigs, dlc) =>
      match i.fields.lookup "id" with
      | some (.int id) => .ok { frameId := id, name := i.name, dlc := dlc, signals := sigs }
      | _ => .error .noId

/-- `buses[bus]["messages"].append(m)` on an insertion-ordered dictionary -/
def addToBus {α : Type} (out : List (String × List α)) (bus : String) (m : α) : List (String × List α) :=
  if out.any (·.1 == bus) then
    out.map fun (b, ms) => if b == bus then (b, ms ++ [m]) else (b, ms)
  else
    out ++ [(bus, [m])]

/-- the dictionary after appending every `(bus, message)` pair in order -/
def groupByBus {α : Type} (pairs : List (String × α)) : List (String × List α) :=
  pairs.foldl (fun out p => addToBus out p.1 p.2) []

/-- `write_dbc`: the messages of every CAN binding, grouped by bus in order of first
appearance; any failing binding fails the whole generation -/
def expectedDbc (S : Schema) (fuel : Nat) : Except DbcErr (List (String × List DbcMessage)) := do
  let cans := S.impls.filter (·.protocol == "can")
  let pairs ← cans.mapM fun i => (dbcMessage S fuel i).map fun m => (i.busName, m)
  return groupByBus pairs

/-! ## frames packed according to the layout decode to the original values (Intel) -/

/-- little-endian packing of one value per leaf: the concatenation of the leaves' bits -/
def packLeaves : List Leaf → List Int → Bits
  | l :: ls, v :: vs => natBits l.len (toTwos l.len v) ++ packLeaves ls vs
  | _, _ => []

/-- Intel (little-endian) extraction of `len` bits at `start`, as DBC readers do -/
def extractIntel (frame : Bits) (start len : Nat) : Nat := bitsNat ((frame.drop start).take len)

theorem packLeaves_length (c e : Nat) (ls : List Leaf) (vs : List Int) (h : Tiles c ls e)
    (hv : vs.length = ls.length) : c + (packLeaves ls vs).length = e := by
  induction ls generalizing c vs with
  | nil => simp only [Tiles] at h; simp [packLeaves, h]
  | cons l ls ih =>
    cases vs with
    | nil => simp at hv
    | cons v vs =>
      simp only [List.length_cons, Nat.add_right_cancel_iff] at hv
      simp only [packLeaves, List.length_append, natBits_length]
      have := ih (c + l.len) vs h.2 hv
      omega

/-- **decode ∘ pack = id (Intel)**: in a frame packed from a tiling layout, extracting the
bit range of the `k`-th leaf returns the two's-complement word of the `k`-th value -/
theorem extract_pack (ls : List Leaf) (vs : List Int) (c e : Nat) (h : Tiles c ls e)
    (hv : vs.length = ls.length) (k : Nat) (hk : k < ls.length) :
    extractIntel (packLeaves ls vs) (ls[k].start - c) ls[k].len = toTwos ls[k].len (vs[k]'(by omega)) := by
  induction ls generalizing c vs k with
  | nil => simp at hk
  | cons l ls ih =>
    cases vs with
    | nil => simp at hv
    | cons v vs =>
      simp only [List.length_cons, Nat.add_right_cancel_iff] at hv
      cases k with
      | zero =>
        simp only [List.getElem_cons_zero, packLeaves, extractIntel, h.1, Nat.sub_self, List.drop_zero]
        rw [List.take_append_of_le_length (by simp), List.take_of_length_le (by simp)]
        exact bitsNat_natBits _ _ (toTwos_lt _ _)
      | succ k =>
        simp only [List.length_cons, Nat.add_lt_add_iff_right] at hk
        simp only [List.getElem_cons_succ, packLeaves, extractIntel]
        have hr := h.2.mem_range ls[k] (List.getElem_mem _)
        have hs : ls[k].start - c = l.len + (ls[k].start - (c + l.len)) := by omega
        have hd : (natBits l.len (toTwos l.len v) ++ packLeaves ls vs).drop
            (l.len + (ls[k].start - (c + l.len))) = (packLeaves ls vs).drop (ls[k].start - (c + l.len)) := by
          rw [List.drop_append, List.drop_of_length_le (by simp), natBits_length, List.nil_append]
          congr 1; omega
        rw [hs, hd]
        exact ih vs (c + l.len) h.2 hv k hk

/-! ## rejection of what does not fit -/

theorem makeSignals_ok_fits (ls : List Leaf) (sigs : List DbcSignal) (dlc c e : Nat)
    (ht : Tiles c ls e) (hc : c = 0) (h : makeSignals ls = .ok (sigs, dlc)) :
    e ≤ 64 ∧ dlc = (e + 7) / 8 := by
  unfold makeSignals at h
  split at h
  · cases h
  · rename_i last hlast
    split at h
    · cases h
    · rename_i hle
      simp only [Except.ok.injEq, Prod.mk.injEq] at h
      have hmem : last ∈ ls := List.mem_of_getLast? hlast
      -- the last leaf ends at `e`
      have hend : last.start + last.len = e := by
        subst hc
        clear h hle hmem
        induction ls generalizing e with
        | nil => simp at hlast
        | cons x xs ih =>
          cases xs with
          | nil =>
            simp only [List.getLast?_singleton, Option.some.injEq] at hlast
            subst hlast
            simp only [Tiles] at ht
            omega
          | cons y ys =>
            rw [List.getLast?_cons_cons] at hlast
            -- shift the origin: tiles from `0 + x.len`
            have ht2 := ht.2
            exact tiles_last_end _ _ _ _ ht2 hlast
      exact ⟨by omega, by rw [← hend]; exact h.2.symm⟩
where
  tiles_last_end (c e : Nat) (ls : List Leaf) (last : Leaf) (ht : Tiles c ls e)
      (hl : ls.getLast? = some last) : last.start + last.len = e := by
    induction ls generalizing c with
    | nil => simp at hl
    | cons x xs ih =>
      cases xs with
      | nil =>
        simp only [List.getLast?_singleton, Option.some.injEq] at hl
        subst hl
        simp only [Tiles] at ht
        omega
      | cons y ys =>
        rw [List.getLast?_cons_cons] at hl
        exact ih _ ht.2 hl

end Fcp
