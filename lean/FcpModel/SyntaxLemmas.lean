import FcpModel.Syntax
/-!
# Parsing inverts printing, at token level, for the recursive productions `value` and `type`

Printing is a relation (`ValToks v ts`, `TyToks t ts`): "the token list `ts` is a printing of
the tree" — any line numbers, and for words any spelling the word classifier accepts.
-/
namespace Fcp.Syntax

/-- number of nodes of a value: bounds both the nesting depth and the array lengths, which is
what the parser's fuel has to cover -/
def PVal.depth : PVal → Nat
  | .arr items => items.depth + 1
  | .cons v r => v.depth + r.depth + 1
  | _ => 1

def PVal.chainLen : PVal → Nat
  | .cons _ r => r.chainLen + 1
  | _ => 0

mutual
/-- `ValToks v ts`: `ts` prints the value `v` -/
inductive ValToks : PVal → List LTok → Prop where
  | num (s : String) (l : Nat) : ValToks (.num s) [⟨.num s, l⟩]
  | str (s : String) (l : Nat) : ValToks (.str s) [⟨.str s, l⟩]
  | ident (s : String) (l : Nat) : ValToks (.ident s) [⟨.ident s, l⟩]
  | arr (items : PVal) (ts : List LTok) (l : Nat) (h : ItemsToks items ts) :
      ValToks (.arr items) (⟨.sym '[', l⟩ :: ts)
/-- `ItemsToks items ts`: `ts` prints `v , v , … ]` (at least one value, then the bracket) -/
inductive ItemsToks : PVal → List LTok → Prop where
  | last (v : PVal) (ts : List LTok) (l : Nat) (h : ValToks v ts) :
      ItemsToks (.cons v .nil) (ts ++ [⟨.sym ']', l⟩])
  | more (v r : PVal) (ts rs : List LTok) (l : Nat) (h : ValToks v ts) (hr : ItemsToks r rs) :
      ItemsToks (.cons v r) (ts ++ ⟨.sym ',', l⟩ :: rs)
end

mutual
theorem parseValue_print : ∀ (v : PVal) (ts : List LTok), ValToks v ts →
    ∀ (f last : Nat) (rest : List LTok), v.depth ≤ f →
    parseValue f last (ts ++ rest) = .ok (v, rest)
  | _, _, .num s l, f, last, rest, hf => by
    cases f with
    | zero => simp [PVal.depth] at hf
    | succ f => simp [parseValue]
  | _, _, .str s l, f, last, rest, hf => by
    cases f with
    | zero => simp [PVal.depth] at hf
    | succ f => simp [parseValue]
  | _, _, .ident s l, f, last, rest, hf => by
    cases f with
    | zero => simp [PVal.depth] at hf
    | succ f => simp [parseValue]
  | _, _, .arr items ts l h, f, last, rest, hf => by
    cases f with
    | zero => simp [PVal.depth] at hf
    | succ f =>
      simp only [PVal.depth, Nat.add_le_add_iff_right] at hf
      simp only [List.cons_append, parseValue]
      have := parseItems_print items ts h f f l rest hf (by
        exact Nat.le_trans (chainLen_le_depth items) hf)
      simp [this, bind, Except.bind]
theorem parseItems_print : ∀ (items : PVal) (ts : List LTok), ItemsToks items ts →
    ∀ (f g last : Nat) (rest : List LTok), items.depth ≤ f → items.chainLen ≤ g →
    parseValue.parseItems f g last (ts ++ rest) = .ok (items, rest)
  | _, _, .last v ts l h, f, g, last, rest, hf, hg => by
    cases g with
    | zero => simp [PVal.chainLen] at hg
    | succ g =>
      have hv : v.depth ≤ f := by
        simp only [PVal.depth] at hf; omega
      have := parseValue_print v ts h f last (⟨.sym ']', l⟩ :: rest) hv
      simp only [List.append_assoc, List.singleton_append, parseValue.parseItems]
      simp [this, bind, Except.bind]
  | _, _, .more v r ts rs l h hr, f, g, last, rest, hf, hg => by
    cases g with
    | zero => simp [PVal.chainLen] at hg
    | succ g =>
      have hv : v.depth ≤ f := by
        simp only [PVal.depth] at hf; omega
      have hrd : r.depth ≤ f := by
        simp only [PVal.depth] at hf; omega
      have hrl : r.chainLen ≤ g := by
        simp only [PVal.chainLen] at hg; omega
      have h1 := parseValue_print v ts h f last (⟨.sym ',', l⟩ :: (rs ++ rest)) hv
      have h2 := parseItems_print r rs hr f g l rest hrd hrl
      simp only [List.append_assoc, List.cons_append, parseValue.parseItems]
      simp [h1, h2, bind, Except.bind]
theorem chainLen_le_depth : ∀ (items : PVal), items.chainLen ≤ items.depth
  | .cons v r => by
    have := chainLen_le_depth r
    simp only [PVal.chainLen, PVal.depth]
    omega
  | .num _ => by simp [PVal.chainLen]
  | .str _ => by simp [PVal.chainLen]
  | .ident _ => by simp [PVal.chainLen]
  | .arr _ => by simp [PVal.chainLen]
  | .nil => by simp [PVal.chainLen]
end

/-! ## types -/

def PTy.depth : PTy → Nat
  | .arr t _ => t.depth + 1
  | .dyn t => t.depth + 1
  | .opt t => t.depth + 1
  | _ => 1

/-- a word the type production reads as a user type name -/
def PlainName (s : String) : Prop :=
  (s == "Optional") = false ∧ (s == "f32") = false ∧ (s == "f64") = false ∧ (s == "str") = false ∧
    numericType s = none

/-- `TyToks t ts`: `ts` prints the type `t` (any spelling of `u<n>`/`i<n>` the classifier accepts) -/
inductive TyToks : PTy → List LTok → Prop where
  | u (n : Nat) (s : String) (l : Nat) (h : numericType s = some (.u n))
      (h1 : (s == "Optional") = false) (h2 : (s == "f32") = false) (h3 : (s == "f64") = false)
      (h4 : (s == "str") = false) : TyToks (.u n) [⟨.ident s, l⟩]
  | i (n : Nat) (s : String) (l : Nat) (h : numericType s = some (.i n))
      (h1 : (s == "Optional") = false) (h2 : (s == "f32") = false) (h3 : (s == "f64") = false)
      (h4 : (s == "str") = false) : TyToks (.i n) [⟨.ident s, l⟩]
  | f32 (l : Nat) : TyToks .f32 [⟨.ident "f32", l⟩]
  | f64 (l : Nat) : TyToks .f64 [⟨.ident "f64", l⟩]
  | str (l : Nat) : TyToks .str [⟨.ident "str", l⟩]
  | named (s : String) (l : Nat) (h : PlainName s) : TyToks (.named s l) [⟨.ident s, l⟩]
  | arr (t : PTy) (ts : List LTok) (size : String) (l1 l2 l3 l4 : Nat) (h : TyToks t ts) :
      TyToks (.arr t size) (⟨.sym '[', l1⟩ :: ts ++ [⟨.sym ',', l2⟩, ⟨.num size, l3⟩, ⟨.sym ']', l4⟩])
  | dyn (t : PTy) (ts : List LTok) (l1 l2 : Nat) (h : TyToks t ts) :
      TyToks (.dyn t) (⟨.sym '[', l1⟩ :: ts ++ [⟨.sym ']', l2⟩])
  | opt (t : PTy) (ts : List LTok) (l1 l2 l3 : Nat) (h : TyToks t ts) :
      TyToks (.opt t) (⟨.ident "Optional", l1⟩ :: ⟨.sym '[', l2⟩ :: ts ++ [⟨.sym ']', l3⟩])

/-- **parsing inverts printing** for the recursive `type` production, to any nesting depth -/
theorem parseType_print (t : PTy) (ts : List LTok) (h : TyToks t ts) :
    ∀ (f last : Nat) (rest : List LTok), t.depth ≤ f →
    parseType f last (ts ++ rest) = .ok (t, rest) := by
  induction h with
  | u n s l h h1 h2 h3 h4 =>
    intro f last rest hf
    cases f with
    | zero => simp [PTy.depth] at hf
    | succ f => simp [parseType, h, h1, h2, h3, h4]
  | i n s l h h1 h2 h3 h4 =>
    intro f last rest hf
    cases f with
    | zero => simp [PTy.depth] at hf
    | succ f => simp [parseType, h, h1, h2, h3, h4]
  | f32 l =>
    intro f last rest hf
    cases f with
    | zero => simp [PTy.depth] at hf
    | succ f => simp [parseType]
  | f64 l =>
    intro f last rest hf
    cases f with
    | zero => simp [PTy.depth] at hf
    | succ f => simp [parseType]
  | str l =>
    intro f last rest hf
    cases f with
    | zero => simp [PTy.depth] at hf
    | succ f => simp [parseType]
  | named s l h =>
    intro f last rest hf
    cases f with
    | zero => simp [PTy.depth] at hf
    | succ f =>
      obtain ⟨h1, h2, h3, h4, h5⟩ := h
      simp [parseType, h1, h2, h3, h4, h5]
  | arr t ts size l1 l2 l3 l4 h ih =>
    intro f last rest hf
    cases f with
    | zero => simp [PTy.depth] at hf
    | succ f =>
      simp only [PTy.depth, Nat.add_le_add_iff_right] at hf
      have := ih f l1 (⟨.sym ',', l2⟩ :: ⟨.num size, l3⟩ :: ⟨.sym ']', l4⟩ :: rest) hf
      simp only [List.cons_append, List.append_assoc, List.nil_append, parseType]
      simp [this, bind, Except.bind, expectNum, expectSym]
  | dyn t ts l1 l2 h ih =>
    intro f last rest hf
    cases f with
    | zero => simp [PTy.depth] at hf
    | succ f =>
      simp only [PTy.depth, Nat.add_le_add_iff_right] at hf
      have := ih f l1 (⟨.sym ']', l2⟩ :: rest) hf
      simp only [List.cons_append, List.append_assoc, List.nil_append, parseType]
      simp [this, bind, Except.bind]
  | opt t ts l1 l2 l3 h ih =>
    intro f last rest hf
    cases f with
    | zero => simp [PTy.depth] at hf
    | succ f =>
      simp only [PTy.depth, Nat.add_le_add_iff_right] at hf
      have := ih f l2 (⟨.sym ']', l3⟩ :: rest) hf
      simp only [List.cons_append, List.append_assoc, List.nil_append, parseType]
      simp [this, bind, Except.bind, expectSym]

end Fcp.Syntax

namespace Fcp.Syntax

/-! ## the lexer: every line number it reports exists in the source -/

/-- number of line feeds -/
def nl : List Char → Nat
  | [] => 0
  | c :: cs => (if c == '\n' then 1 else 0) + nl cs

theorem nl_append (a b : List Char) : nl (a ++ b) = nl a + nl b := by
  induction a with
  | nil => simp [nl]
  | cons c cs ih => simp only [List.cons_append, nl, ih]; omega

theorem nl_drop_le (cs : List Char) (k : Nat) : nl (cs.drop k) ≤ nl cs := by
  have := nl_append (cs.take k) (cs.drop k)
  rw [List.take_append_drop] at this
  omega

theorem nl_takeWhile_snd (p : Char → Bool) (cs : List Char) : nl (takeWhile p cs).2 ≤ nl cs := by
  induction cs with
  | nil => simp [takeWhile]
  | cons c cs ih =>
    simp only [takeWhile]
    split
    · simp only [nl]; omega
    · simp [nl]

theorem nl_takeWhile_pair (p : Char → Bool) (cs a b : List Char) (h : takeWhile p cs = (a, b)) :
    nl b ≤ nl cs := by
  have := nl_takeWhile_snd p cs
  rw [h] at this
  exact this

theorem skipBlock_nl (cs : List Char) (n : Nat) (r : List Char) (m : Nat)
    (h : skipBlock cs n = some (r, m)) : m + nl r ≤ n + nl cs := by
  fun_induction skipBlock cs n with
  | case1 n => cases h
  | case2 cs n =>
    simp only [Option.some.injEq, Prod.mk.injEq] at h
    obtain ⟨rfl, rfl⟩ := h
    simp [nl]
  | case3 c cs n hne ih =>
    have := ih h
    simp only [nl]
    split at this <;> simp_all <;> omega

theorem strBody_nl (cs s r : List Char) (h : strBody cs = some (s, r)) : nl r ≤ nl cs := by
  fun_induction strBody cs generalizing s r with
  | case1 => cases h
  | case2 cs => simp only [Option.some.injEq, Prod.mk.injEq] at h; obtain ⟨_, rfl⟩ := h; simp [nl]
  | case3 cs => cases h
  | case4 c cs hc => cases h
  | case5 c cs hc ih =>
    simp only [Option.map_eq_some_iff, Prod.exists] at h
    obtain ⟨a, b, hab, hh⟩ := h
    simp only [Prod.mk.injEq] at hh
    obtain ⟨_, rfl⟩ := hh
    have := ih a _ hab
    simp only [nl]; omega
  | case6 c cs h1 h2 h3 ih =>
    simp only [Option.map_eq_some_iff, Prod.exists] at h
    obtain ⟨a, b, hab, hh⟩ := h
    simp only [Prod.mk.injEq] at hh
    obtain ⟨_, rfl⟩ := hh
    have := ih a _ hab
    simp only [nl]; omega

/-- every line number the lexer attaches to a token, or to an error, lies between the
starting line and the starting line plus the number of line feeds in the input -/
theorem lexAux_lines (f : Nat) (cs : List Char) (line : Nat) (acc : List LTok) :
    ∀ (lo N : Nat), lo ≤ line → line + nl cs ≤ N → (∀ t ∈ acc, lo ≤ t.line ∧ t.line ≤ N) →
    (∀ ts, lexAux f cs line acc = .ok ts → ∀ t ∈ ts, lo ≤ t.line ∧ t.line ≤ N) ∧
    (∀ e, lexAux f cs line acc = .error e → lo ≤ e.line ∧ e.line ≤ N) := by
  fun_induction lexAux f cs line acc
  all_goals (intro lo N hlo hN hacc; try simp only [nl] at hN)
  -- leaves that are errors
  all_goals try (
    refine ⟨?_, ?_⟩
    · intro ts h; cases h
    · intro e h; cases h; exact ⟨hlo, by dsimp only; omega⟩)
  -- the leaf that returns the accumulated tokens
  all_goals try (
    refine ⟨?_, ?_⟩
    · intro ts h; cases h; intro t ht; exact hacc t (List.mem_reverse.mp ht)
    · intro e h; cases h)
  -- `match numBody … with` still in the goal: rewrite with the recorded equation
  all_goals try (simp only [‹numBody _ = none›])
  all_goals try (
    refine ⟨?_, ?_⟩
    · intro ts h; cases h
    · intro e h; cases h; exact ⟨hlo, by dsimp only; omega⟩)
  -- recursive cases
  all_goals try (simp only [‹numBody _ = some _›])
  all_goals (
    rename_i ih1
    refine ih1 lo N (by omega) ?_ ?_
    · first
      | omega
      | exact Nat.le_trans (Nat.add_le_add_left (nl_takeWhile_snd _ _) _) (by omega)
      | (have := strBody_nl _ _ _ ‹_›; omega)
      | (have := skipBlock_nl _ _ _ _ ‹_›; omega)
      | (simp only [nl]; omega)
      | exact Nat.le_trans (Nat.add_le_add_left (nl_drop_le _ _) _) (by first | omega | (simp only [nl]; omega))
      | (have h2 := nl_takeWhile_pair _ _ _ _ ‹_›; omega)
      | (simp_all; omega)
    · intro t ht
      first
      | exact hacc t ht
      | (rcases List.mem_cons.mp ht with rfl | h
         · exact ⟨hlo, by dsimp only; omega⟩
         · exact hacc t h))

/-- **the lexer never cites a line that is not there**: all token lines, and the line of a
lexical error, are between 1 and the number of lines of the source -/
theorem lex_lines (src : String) :
    (∀ ts, lex src = .ok ts → ∀ t ∈ ts, 1 ≤ t.line ∧ t.line ≤ 1 + nl src.toList) ∧
    (∀ e, lex src = .error e → 1 ≤ e.line ∧ e.line ≤ 1 + nl src.toList) :=
  lexAux_lines _ _ 1 [] 1 (1 + nl src.toList) (Nat.le_refl _) (Nat.le_refl _) (by intro t h; cases h)

end Fcp.Syntax
