import FcpModel.SplitLemmas
/-!
# Module imports are transparent, in general position

`SplitLemmas` covers a module imported at the top of a file.  Here a file may import any
number of modules at any positions, between ordinary declarations, each module again split to
any depth.  What makes a block of declarations movable into a module is a *frame* property:
elaborating it after a context gives the context merged with what it gives on its own —
true whenever no type name the block refers to is declared by the context (`Fresh`): a module
sees only its own declarations, so a reference to something declared outside fails inside the
module and the split is not a split of a well-formed file in the first place.
-/
namespace Fcp.Frontend
open Fcp.Syntax

def tyRefs : PTy → List String
  | .named s _ => [s]
  | .arr t _ => tyRefs t
  | .dyn t => tyRefs t
  | .opt t => tyRefs t
  | _ => []

/-- the type names a declaration looks up when it is elaborated -/
def declRefs : PDecl → List String
  | .struct _ fields _ => fields.flatMap fun f => tyRefs f.ty
  | _ => []

/-- the type names a declaration may add to the tree -/
def declName : PDecl → List String
  | .struct n _ _ => [n]
  | .enum n _ _ => [n]
  | _ => []

def declNames (ds : List PDecl) : List String := ds.flatMap declName

def Tree.typeNames (t : Tree) : List String := t.structs.map (·.name) ++ t.enums.map (·.name)

theorem find_append_fresh {α : Type} (l1 l2 : List α) (p : α → Bool) (h : ∀ x ∈ l1, p x = false) :
    (l1 ++ l2).find? p = l2.find? p := by
  induction l1 with
  | nil => rfl
  | cons a as ih =>
    have ha := h a List.mem_cons_self
    simp only [List.cons_append, List.find?_cons, ha]
    exact ih (fun x hx => h x (List.mem_cons_of_mem _ hx))

theorem getStruct_merge_fresh (T t : Tree) (n : String) (h : n ∉ T.typeNames) :
    (T.merge t).getStruct n = t.getStruct n := by
  unfold Tree.getStruct Tree.merge
  apply find_append_fresh
  intro x hx
  simp only [Tree.typeNames, List.mem_append, List.mem_map, not_or, not_exists, not_and] at h
  have := h.1 x hx
  simp only [beq_eq_false_iff_ne, ne_eq]
  exact this

theorem getEnum_merge_fresh (T t : Tree) (n : String) (h : n ∉ T.typeNames) :
    (T.merge t).getEnum n = t.getEnum n := by
  unfold Tree.getEnum Tree.merge
  apply find_append_fresh
  intro x hx
  simp only [Tree.typeNames, List.mem_append, List.mem_map, not_or, not_exists, not_and] at h
  have := h.2 x hx
  simp only [beq_eq_false_iff_ne, ne_eq]
  exact this

/-- **frame, types**: a type whose names are not declared by the context elaborates the same -/
theorem elabType_frame (T t : Tree) (file : String) (p : PTy) (h : ∀ n ∈ tyRefs p, n ∉ T.typeNames) :
    elabType (T.merge t) file p = elabType t file p := by
  induction p with
  | named s l =>
    have hs := h s (by simp [tyRefs])
    simp only [elabType, getStruct_merge_fresh T t s hs, getEnum_merge_fresh T t s hs]
  | arr e sz ih => simp only [elabType, ih (by simpa [tyRefs] using h)]
  | dyn e ih => simp only [elabType, ih (by simpa [tyRefs] using h)]
  | opt e ih => simp only [elabType, ih (by simpa [tyRefs] using h)]
  | _ => rfl

theorem elabField_frame (T t : Tree) (file sname : String) (f : PField) (h : ∀ n ∈ tyRefs f.ty, n ∉ T.typeNames) :
    elabField (T.merge t) file sname f = elabField t file sname f := by
  unfold elabField
  rw [elabType_frame T t file f.ty h]

theorem mapM_congr_mem {α β : Type} (g1 g2 : α → Except Err β) (l : List α) (h : ∀ a ∈ l, g1 a = g2 a) :
    l.mapM g1 = l.mapM g2 := by
  induction l with
  | nil => rfl
  | cons a as ih =>
    simp only [List.mapM_cons]
    rw [h a List.mem_cons_self, ih (fun x hx => h x (List.mem_cons_of_mem _ hx))]

theorem merge_assoc_structs (T t : Tree) (x : TStruct) (y : TImpl) :
    ({ T.merge t with structs := (T.merge t).structs ++ [x], impls := (T.merge t).impls ++ [y] } : Tree) =
      T.merge { t with structs := t.structs ++ [x], impls := t.impls ++ [y] } := by
  simp [Tree.merge, List.append_assoc]

/-- **frame, one declaration**: in a context whose type names the declaration does not refer
to, a declaration other than `mod` adds to the tree exactly what it adds without the context,
and fails exactly when it fails without it -/
theorem elabDecl_frame (l : List String → String → Except Err Tree) (fs : FS) (p : List String)
    (T t : Tree) (e : Option Err) (d : PDecl) (hd : isMod d = false) (h : ∀ n ∈ declRefs d, n ∉ T.typeNames) :
    elabDecl l fs p ⟨T.merge t, e⟩ d =
      ⟨T.merge (elabDecl l fs p ⟨t, e⟩ d).tree, (elabDecl l fs p ⟨t, e⟩ d).firstErr⟩ := by
  cases d with
  | mod mp ln => simp [isMod] at hd
  | struct name fields line =>
    have hm : fields.mapM (elabField (T.merge t) (p.getLast?.getD "") name) =
        fields.mapM (elabField t (p.getLast?.getD "") name) := by
      apply mapM_congr_mem
      intro f hf
      apply elabField_frame
      intro n hn
      exact h n (by simp only [declRefs, List.mem_flatMap]; exact ⟨f, hf, hn⟩)
    simp only [elabDecl, hm]
    cases fields.mapM (elabField t (p.getLast?.getD "") name) with
    | error err => simp [St.fail]
    | ok fs' => simp [Tree.merge, List.append_assoc]
  | enum name items line =>
    simp only [elabDecl]
    split
    · simp [St.fail]
    · cases items.mapM (elabEnumItem (p.getLast?.getD "")) with
      | error err => simp [St.fail]
      | ok es => simp [Tree.merge, List.append_assoc]
  | impl proto ty name items line => simp [elabDecl, Tree.merge, List.append_assoc]
  | service name id methods line =>
    simp only [elabDecl]
    cases pyInt? id with
    | none => simp [St.fail]
    | some i =>
      cases methods.mapM (elabMethod (p.getLast?.getD "")) with
      | error err => simp [St.fail]
      | ok ms => simp [Tree.merge, List.append_assoc]
  | device name fields line => simp [elabDecl, Tree.merge, List.append_assoc]

def Fresh (T : Tree) (ds : List PDecl) : Prop := ∀ d ∈ ds, ∀ n ∈ declRefs d, n ∉ T.typeNames

/-- **frame, a block**: a `mod`-free block that does not refer to the context's type names
elaborates, after the context, to the context merged with its own result -/
theorem foldDecls_frame (l : List String → String → Except Err Tree) (fs : FS) (p : List String) (T : Tree)
    (ds : List PDecl) (hm : ModFree ds) (hf : Fresh T ds) (t : Tree) (e : Option Err) :
    foldDecls l fs p ⟨T.merge t, e⟩ ds =
      ⟨T.merge (foldDecls l fs p ⟨t, e⟩ ds).tree, (foldDecls l fs p ⟨t, e⟩ ds).firstErr⟩ := by
  induction ds generalizing t e with
  | nil => rfl
  | cons d ds ih =>
    simp only [foldDecls, List.foldl_cons]
    rw [elabDecl_frame l fs p T t e d (hm d List.mem_cons_self) (hf d List.mem_cons_self)]
    exact ih (fun x hx => hm x (List.mem_cons_of_mem _ hx)) (fun x hx => hf x (List.mem_cons_of_mem _ hx)) _ _

theorem merge_empty (t : Tree) : t.merge {} = t := by
  cases t; simp [Tree.merge]

/-! ## type names of the tree come from the declarations seen so far -/

theorem elabDecl_names (l : List String → String → Except Err Tree) (fs : FS) (p : List String) (s : St) (d : PDecl)
    (hd : isMod d = false) : ∀ n ∈ (elabDecl l fs p s d).tree.typeNames, n ∈ s.tree.typeNames ∨ n ∈ declName d := by
  intro n hn
  cases d with
  | mod mp ln => simp [isMod] at hd
  | struct name fields line =>
    simp only [elabDecl] at hn
    cases hm : fields.mapM (elabField s.tree (p.getLast?.getD "") name) with
    | error err => rw [hm] at hn; exact .inl (by simpa [St.fail] using hn)
    | ok fs' =>
      rw [hm] at hn
      simp only [Tree.typeNames, List.map_append, List.map_cons, List.map_nil, List.mem_append, List.mem_singleton] at hn ⊢
      simp only [declName, List.mem_singleton]
      rcases hn with (h | h) | h
      · exact .inl (.inl h)
      · exact .inr h
      · exact .inl (.inr h)
  | enum name items line =>
    simp only [elabDecl] at hn
    split at hn
    · exact .inl (by simpa [St.fail] using hn)
    · cases hm : items.mapM (elabEnumItem (p.getLast?.getD "")) with
      | error err => rw [hm] at hn; exact .inl (by simpa [St.fail] using hn)
      | ok es =>
        rw [hm] at hn
        simp only [Tree.typeNames, List.map_append, List.map_cons, List.map_nil, List.mem_append, List.mem_singleton] at hn ⊢
        simp only [declName, List.mem_singleton]
        rcases hn with h | h | h
        · exact .inl (.inl h)
        · exact .inl (.inr h)
        · exact .inr h
  | impl proto ty name items line => exact .inl (by simpa [elabDecl, Tree.typeNames] using hn)
  | service name id methods line =>
    simp only [elabDecl] at hn
    cases hp : pyInt? id with
    | none => rw [hp] at hn; exact .inl (by simpa [St.fail] using hn)
    | some i =>
      rw [hp] at hn
      cases hm : methods.mapM (elabMethod (p.getLast?.getD "")) with
      | error err => rw [hm] at hn; exact .inl (by simpa [St.fail] using hn)
      | ok ms => rw [hm] at hn; exact .inl (by simpa [Tree.typeNames] using hn)
  | device name fields line => exact .inl (by simpa [elabDecl, Tree.typeNames] using hn)

theorem foldDecls_names (l : List String → String → Except Err Tree) (fs : FS) (p : List String) (ds : List PDecl)
    (hm : ModFree ds) (s : St) :
    ∀ n ∈ (foldDecls l fs p s ds).tree.typeNames, n ∈ s.tree.typeNames ∨ n ∈ declNames ds := by
  induction ds generalizing s with
  | nil => intro n hn; exact .inl hn
  | cons d ds ih =>
    intro n hn
    simp only [foldDecls, List.foldl_cons] at hn
    rcases ih (fun x hx => hm x (List.mem_cons_of_mem _ hx)) _ n hn with h | h
    · rcases elabDecl_names l fs p s d (hm d List.mem_cons_self) n h with h' | h'
      · exact .inl h'
      · exact .inr (by simp only [declNames, List.flatMap_cons, List.mem_append]; exact .inl h')
    · exact .inr (by simp only [declNames, List.flatMap_cons, List.mem_append]; exact .inr h)

/-! ## splits in general position -/

/-- `Split2 fs n path pre ds flat`: the declarations `ds` of the file at `path`, standing after
the (flat) declarations `pre`, are the declarations `flat` with any number of blocks moved —
at any positions, to import depth at most `n` — into module files of `fs`, each module again
such a split.  A moved block does not refer to a type name declared before it outside the
module (`hfresh`): it is self-contained, as a module has to be. -/
inductive Split2 (fs : FS) : Nat → List String → List PDecl → List PDecl → List PDecl → Prop where
  | nil (n : Nat) (path : List String) (pre : List PDecl) : Split2 fs n path pre [] []
  | decl (n : Nat) (path : List String) (pre : List PDecl) (d : PDecl) (ds flat : List PDecl) (hd : isMod d = false)
      (h : Split2 fs n path (pre ++ [d]) ds flat) : Split2 fs n path pre (d :: ds) (d :: flat)
  | mod (n : Nat) (path : List String) (pre : List PDecl) (mpath : List String) (line vl : Nat) (src : String)
      (inner flatInner ds flat : List PDecl)
      (hread : fs.read (modTarget path mpath) = some src)
      (hparse : parseText src = .ok ⟨"3", vl, inner⟩)
      (hin : Split2 fs n (modTarget path mpath) [] inner flatInner)
      (hfresh : ∀ d ∈ flatInner, ∀ x ∈ declRefs d, x ∉ declNames pre)
      (h : Split2 fs (n + 1) path (pre ++ flatInner) ds flat) :
      Split2 fs (n + 1) path pre (.mod mpath line :: ds) (flatInner ++ flat)

theorem Split2.modFree {fs : FS} {n : Nat} {path : List String} {pre ds flat : List PDecl}
    (h : Split2 fs n path pre ds flat) : ModFree flat := by
  induction h with
  | nil => intro d hd; cases hd
  | decl n path pre d ds flat hd h ih =>
    intro x hx
    rcases List.mem_cons.mp hx with rfl | hx
    · exact hd
    · exact ih x hx
  | mod n path pre mpath line vl src inner flatInner ds flat hread hparse hin hfresh h ihin ih =>
    intro x hx
    rcases List.mem_append.mp hx with hx | hx
    · exact ihin x hx
    · exact ih x hx

theorem typeNames_merge (a b : Tree) (x : String) :
    x ∈ (a.merge b).typeNames ↔ x ∈ a.typeNames ∨ x ∈ b.typeNames := by
  simp only [Tree.typeNames, Tree.merge, List.map_append, List.mem_append]
  constructor
  · rintro ((h | h) | (h | h))
    · exact .inl (.inl h)
    · exact .inr (.inl h)
    · exact .inl (.inr h)
    · exact .inr (.inr h)
  · rintro ((h | h) | (h | h))
    · exact .inl (.inl h)
    · exact .inr (.inl h)
    · exact .inl (.inr h)
    · exact .inr (.inr h)

theorem declNames_append (a b : List PDecl) : declNames (a ++ b) = declNames a ++ declNames b := by
  simp [declNames]

/-- the effect of `mod` on a state `s`, given the final state `r` of the module's own fold -/
def modStep (s r : St) (tname fname : String) (line : Nat) : St :=
  match r.firstErr with
  | some e => s.fail (e ++ [⟨"file", s!"Failed to parse {tname}", none, none⟩]
                ++ [⟨"import", s!"Failed to import {tname}", some fname, some line⟩])
  | none => { s with tree := s.tree.merge r.tree }

theorem fail_isSome (s : St) (e : Err) : (s.fail e).firstErr.isSome := by
  simp only [St.fail]; cases s.firstErr <;> simp [Option.orElse]

theorem modStep_sticky (s r : St) (tname fname : String) (line : Nat) (h : s.firstErr.isSome) :
    (modStep s r tname fname line).firstErr.isSome := by
  unfold modStep; split
  · exact fail_isSome _ _
  · exact h

theorem modStep_fail (s r : St) (tname fname : String) (line : Nat) (h : r.firstErr.isSome) :
    (modStep s r tname fname line).firstErr.isSome := by
  unfold modStep; split
  · exact fail_isSome _ _
  · rename_i hn; rw [hn] at h; simp at h

theorem modStep_ok (s r : St) (tname fname : String) (line : Nat) (h : r.firstErr = none) :
    modStep s r tname fname line = { s with tree := s.tree.merge r.tree } := by
  unfold modStep; rw [h]

/-- the step of a `mod` declaration on any state, in terms of the module's own fold -/
theorem elabDecl_mod (fs : FS) (fuel : Nat) (path mpath : List String) (line vl : Nat) (src : String)
    (inner : List PDecl) (s : St)
    (hread : fs.read (modTarget path mpath) = some src) (hparse : parseText src = .ok ⟨"3", vl, inner⟩) :
    elabDecl (loadFile fs (fuel + 1)) fs path s (.mod mpath line) =
      modStep s (foldDecls (loadFile fs fuel) fs (modTarget path mpath) {} inner)
        ((modTarget path mpath).getLast?.getD "") (path.getLast?.getD "") line := by
  simp only [elabDecl]
  have hr : fs.read (path.dropLast ++ mpath.dropLast ++ [mpath.getLast?.getD "" ++ ".fcp"]) = some src := hread
  rw [hr]
  simp only [loadFile, hparse, elabFile, beq_self_eq_true, ↓reduceIte]
  have hfd : List.foldl (fun s d => elabDecl (loadFile fs fuel) fs (modTarget path mpath) s d) {} inner =
      foldDecls (loadFile fs fuel) fs (modTarget path mpath) {} inner := rfl
  unfold modTarget at hfd ⊢
  rw [hfd]
  unfold modStep
  cases hfe : (foldDecls (loadFile fs fuel) fs (path.dropLast ++ mpath.dropLast ++ [mpath.getLast?.getD "" ++ ".fcp"]) {} inner).firstErr with
  | none => simp
  | some e => simp

/-- **C20 in general position**: folding the declarations of a split file (loading its
modules) from a state, and folding the flat declarations from an observationally equal state,
give the same tree, or both fail -/
theorem split2_fold (fs : FS) : ∀ (n : Nat) (path : List String) (pre ds flat : List PDecl),
    Split2 fs n path pre ds flat →
    ∀ (fuel : Nat), n ≤ fuel →
    ∀ (l2 : List String → String → Except Err Tree) (fs2 : FS) (p2 : List String) (s s' : St),
      s.view = s'.view → (∀ x ∈ s'.tree.typeNames, x ∈ declNames pre) →
      (foldDecls (loadFile fs fuel) fs path s ds).res = (foldDecls l2 fs2 p2 s' flat).res := by
  intro n path pre ds flat h
  induction h with
  | nil n path pre =>
    intro fuel _ l2 fs2 p2 s s' hv _
    exact res_of_view _ _ hv
  | decl n path pre d ds flat hd h ih =>
    intro fuel hfuel l2 fs2 p2 s s' hv hnames
    simp only [foldDecls, List.foldl_cons]
    apply ih fuel hfuel l2 fs2 p2 _ _ (elabDecl_view _ _ _ _ _ _ s s' d hd hv)
    intro x hx
    rw [declNames_append]
    rcases elabDecl_names l2 fs2 p2 s' d hd x hx with h1 | h1
    · exact List.mem_append.mpr (.inl (hnames x h1))
    · exact List.mem_append.mpr (.inr (by simpa [declNames] using h1))
  | mod n path pre mpath line vl src inner flatInner ds flat hread hparse hin hfresh h ihin ih =>
    intro fuel hfuel l2 fs2 p2 s s' hv hnames
    obtain ⟨fuel', rfl⟩ : ∃ f, fuel = f + 1 := ⟨fuel - 1, by omega⟩
    have hinner := ihin fuel' (by omega) l2 fs2 p2 {} {} rfl (by intro x hx; simp [Tree.typeNames] at hx)
    have hmf : ModFree flatInner := hin.modFree
    have htree : s.tree = s'.tree := by simp only [St.view, Prod.mk.injEq] at hv; exact hv.1
    have herr : s.firstErr.isSome = s'.firstErr.isSome := by simp only [St.view, Prod.mk.injEq] at hv; exact hv.2
    -- left: one `mod` step, then the rest; right: the block, then the rest
    have hL : foldDecls (loadFile fs (fuel' + 1)) fs path s (.mod mpath line :: ds) =
        foldDecls (loadFile fs (fuel' + 1)) fs path (elabDecl (loadFile fs (fuel' + 1)) fs path s (.mod mpath line)) ds := rfl
    rw [hL, foldDecls_append, elabDecl_mod fs fuel' path mpath line vl src inner s hread hparse]
    -- the flat side after the block, through the frame lemma
    have hfr : Fresh s'.tree flatInner := fun d hd x hx hmem => hfresh d hd x hx (hnames x hmem)
    have hframe := foldDecls_frame l2 fs2 p2 s'.tree flatInner hmf hfr {} s'.firstErr
    rw [merge_empty] at hframe
    have hs' : s' = (⟨s'.tree, s'.firstErr⟩ : St) := rfl
    rw [hs', hframe]
    cases hse : s'.firstErr with
    | some e0 =>
      -- already failed: both sides stay failed
      have hs : s.firstErr.isSome := by rw [herr, hse]; rfl
      have a := modStep_sticky s (foldDecls (loadFile fs fuel') fs (modTarget path mpath) {} inner)
        ((modTarget path mpath).getLast?.getD "") (path.getLast?.getD "") line hs
      have a' := foldDecls_err_sticky (loadFile fs (fuel' + 1)) fs path ds _ a
      have b : (foldDecls l2 fs2 p2 (⟨{}, some e0⟩ : St) flatInner).firstErr.isSome :=
        foldDecls_err_sticky l2 fs2 p2 flatInner (⟨{}, some e0⟩ : St) rfl
      have b' := foldDecls_err_sticky l2 fs2 p2 flat
        (⟨s'.tree.merge (foldDecls l2 fs2 p2 (⟨{}, some e0⟩ : St) flatInner).tree,
          (foldDecls l2 fs2 p2 (⟨{}, some e0⟩ : St) flatInner).firstErr⟩ : St) b
      rw [(res_none_iff _).mpr a', (res_none_iff _).mpr b']
    | none =>
      have hsn : s.firstErr = none := by
        cases hq : s.firstErr with
        | none => rfl
        | some q => rw [hq, hse] at herr; simp at herr
      cases hfe : (foldDecls (loadFile fs fuel') fs (modTarget path mpath) {} inner).firstErr with
      | some e =>
        -- the module fails: so does the block on its own, hence after the context
        have hnone : (foldDecls (loadFile fs fuel') fs (modTarget path mpath) {} inner).res = none :=
          (res_none_iff _).mpr (by simp [hfe])
        rw [hnone] at hinner
        have h2 : (foldDecls l2 fs2 p2 (⟨{}, none⟩ : St) flatInner).firstErr.isSome := (res_none_iff _).mp hinner.symm
        have a' := foldDecls_err_sticky (loadFile fs (fuel' + 1)) fs path ds _
          (modStep_fail s (foldDecls (loadFile fs fuel') fs (modTarget path mpath) {} inner)
            ((modTarget path mpath).getLast?.getD "") (path.getLast?.getD "") line (by simp [hfe]))
        have b' := foldDecls_err_sticky l2 fs2 p2 flat
          (⟨s'.tree.merge (foldDecls l2 fs2 p2 (⟨{}, none⟩ : St) flatInner).tree,
            (foldDecls l2 fs2 p2 (⟨{}, none⟩ : St) flatInner).firstErr⟩ : St) h2
        rw [(res_none_iff _).mpr a', (res_none_iff _).mpr b']
      | none =>
        have hsome : (foldDecls (loadFile fs fuel') fs (modTarget path mpath) {} inner).res =
            some (foldDecls (loadFile fs fuel') fs (modTarget path mpath) {} inner).tree := by
          simp [St.res, hfe]
        rw [hsome] at hinner
        -- the block on its own succeeds with the same tree
        have hr0 : (foldDecls l2 fs2 p2 (⟨{}, none⟩ : St) flatInner).firstErr = none ∧
            (foldDecls l2 fs2 p2 (⟨{}, none⟩ : St) flatInner).tree =
              (foldDecls (loadFile fs fuel') fs (modTarget path mpath) {} inner).tree := by
          have := hinner.symm
          simp only [St.res] at this
          split at this
          · cases this
          · rename_i hno
            simp only [Option.some.injEq] at this
            refine ⟨?_, this⟩
            cases hq : (foldDecls l2 fs2 p2 (⟨{}, none⟩ : St) flatInner).firstErr with
            | none => rfl
            | some q =>
              have : (foldDecls l2 fs2 p2 ({} : St) flatInner).firstErr = some q := hq
              rw [this] at hno; simp at hno
        rw [modStep_ok _ _ _ _ _ hfe]
        apply ih (fuel' + 1) hfuel l2 fs2 p2
        · simp only [St.view, hr0.1, hr0.2, htree, hsn]
        · intro x hx
          simp only at hx
          rw [declNames_append]
          rcases (typeNames_merge _ _ x).mp hx with h1 | h1
          · exact List.mem_append.mpr (.inl (hnames x h1))
          · rcases foldDecls_names l2 fs2 p2 flatInner hmf (⟨{}, none⟩ : St) x h1 with h2 | h2
            · simp [Tree.typeNames] at h2
            · exact List.mem_append.mpr (.inr h2)

/-- **C20, general**: a file whose declarations are a split in general position of `flat`
elaborates to the same tree as the single file holding `flat`, and fails exactly when it does -/
theorem split2_equiv (fs : FS) (n : Nat) (path : List String) (vl vl2 : Nat) (ds flat : List PDecl)
    (h : Split2 fs n path [] ds flat) (fuel : Nat) (hf : n ≤ fuel)
    (l2 : List String → String → Except Err Tree) (fs2 : FS) (p2 : List String) :
    (elabFile (loadFile fs fuel) fs path ⟨"3", vl, ds⟩).toOption =
      (elabFile l2 fs2 p2 ⟨"3", vl2, flat⟩).toOption := by
  rw [elabFile_toOption, elabFile_toOption]
  exact split2_fold fs n path [] ds flat h fuel hf l2 fs2 p2 {} {} rfl (by intro x hx; simp [Tree.typeNames] at hx)

end Fcp.Frontend
