/-!
# Syntax: tokens, a reference lexer and a recursive-descent reference parser for FCP

The implementation uses Lark's scannerless Earley engine; this is a deterministic reference
for the same grammar on the domain where the grammar is unambiguous: word-like tokens are
separated by at least one ignorable, parameters are written with parentheses.

Ignorables: space, tab, line feed, `//…` comments, `/* … */` comments.
-/
namespace Fcp.Syntax

inductive Tok where
  | ident (s : String)
  | num (s : String)      -- the literal text of a SIGNED_NUMBER
  | str (s : String)      -- the text between the quotes, not unescaped
  | sym (c : Char)        -- one of { } [ ] ( ) , : ; @ | = .
  deriving Repr, DecidableEq, Inhabited

structure LTok where
  tok : Tok
  line : Nat
  deriving Repr, DecidableEq, Inhabited

structure SynErr where
  msg : String
  line : Nat
  deriving Repr, DecidableEq, Inhabited

def isIdStart (c : Char) : Bool := c.isAlpha || c == '_'
def isIdChar (c : Char) : Bool := c.isAlphanum || c == '_'
def isSym (c : Char) : Bool := "{}[](),:;@|=.".toList.contains c

def takeWhile (p : Char → Bool) : List Char → List Char × List Char
  | [] => ([], [])
  | c :: cs => if p c then let (a, b) := takeWhile p cs; (c :: a, b) else ([], c :: cs)

/-- the rest of a `/* … */` comment: remaining input and number of line feeds skipped -/
def skipBlock : List Char → Nat → Option (List Char × Nat)
  | [], _ => none
  | '*' :: '/' :: cs, n => some (cs, n)
  | c :: cs, n => skipBlock cs (if c == '\n' then n + 1 else n)

/-- the body of a string up to the closing quote (no line feed inside; `\x` keeps both chars) -/
def strBody : List Char → Option (List Char × List Char)
  | [] => none
  | '"' :: cs => some ([], cs)
  | '\n' :: _ => none
  | '\\' :: c :: cs => if c == '\n' then none else (strBody cs).map fun (a, b) => ('\\' :: c :: a, b)
  | c :: cs => (strBody cs).map fun (a, b) => (c :: a, b)

/-- the digits / fraction / exponent of a number after an optional sign -/
def numBody (cs : List Char) : Option (List Char × List Char) :=
  let (ip, r1) := takeWhile Char.isDigit cs
  let (fp, r2) : List Char × List Char :=
    match r1 with
    | '.' :: r =>
      let (d, r') := takeWhile Char.isDigit r
      if ip.isEmpty && d.isEmpty then ([], r1) else ('.' :: d, r')
    | _ => ([], r1)
  if ip.isEmpty && fp.isEmpty then none
  else
    let (ep, r3) : List Char × List Char :=
      match r2 with
      | e :: r =>
        if e == 'e' || e == 'E' then
          let (sg, r') : List Char × List Char := match r with
            | '+' :: t => (['+'], t)
            | '-' :: t => (['-'], t)
            | _ => ([], r)
          let (d, r'') := takeWhile Char.isDigit r'
          if d.isEmpty then ([], r2) else (e :: sg ++ d, r'')
        else ([], r2)
      | [] => ([], r2)
    some (ip ++ fp ++ ep, r3)

/-- the lexer; `fuel` bounds the number of steps (input length + 1 suffices) -/
def lexAux : Nat → List Char → Nat → List LTok → Except SynErr (List LTok)
  | 0, _, line, _ => .error ⟨"lexer out of fuel", line⟩
  | _+1, [], _, acc => .ok acc.reverse
  | f+1, c :: cs, line, acc =>
    if c == ' ' || c == '\t' then lexAux f cs line acc
    else if c == '\n' then lexAux f cs (line + 1) acc
    else if c == '/' then
      match cs with
      | '/' :: r => lexAux f (takeWhile (· != '\n') r).2 line acc
      | '*' :: r =>
        match skipBlock r 0 with
        | some (r', n) => lexAux f r' (line + n) acc
        | none => .error ⟨"unterminated comment", line⟩
      | _ => .error ⟨"unexpected character /", line⟩
    else if c == '"' then
      match strBody cs with
      | some (s, r) => lexAux f r line (⟨.str (String.ofList s), line⟩ :: acc)
      | none => .error ⟨"unterminated string", line⟩
    else if isIdStart c then
      let (a, r) := takeWhile isIdChar cs
      lexAux f r line (⟨.ident (String.ofList (c :: a)), line⟩ :: acc)
    else if c.isDigit then
      match numBody (c :: cs) with
      | some (s, _) => lexAux f ((c :: cs).drop s.length) line (⟨.num (String.ofList s), line⟩ :: acc)
      | none => .error ⟨"bad number", line⟩
    else if c == '+' || c == '-' then
      match numBody cs with
      | some (s, _) => lexAux f (cs.drop s.length) line (⟨.num (String.ofList (c :: s)), line⟩ :: acc)
      | none => .error ⟨s!"unexpected character {c}", line⟩
    else if c == '.' then
      -- `.5` is a number, a lone `.` is the module path separator
      match cs with
      | d :: _ => if d.isDigit then
          match numBody (c :: cs) with
          | some (s, _) => lexAux f ((c :: cs).drop s.length) line (⟨.num (String.ofList s), line⟩ :: acc)
          | none => .error ⟨"bad number", line⟩
        else lexAux f cs line (⟨.sym c, line⟩ :: acc)
      | [] => lexAux f cs line (⟨.sym c, line⟩ :: acc)
    else if isSym c then lexAux f cs line (⟨.sym c, line⟩ :: acc)
    else .error ⟨s!"unexpected character {c}", line⟩

def lex (src : String) : Except SynErr (List LTok) :=
  lexAux (src.length + 1) src.toList 1 []

/-! ## parse tree -/

/-- `value`: arrays are `arr items` with `items` a `cons`/`nil` chain -/
inductive PVal where
  | num (text : String)
  | str (s : String)
  | ident (s : String)
  | arr (items : PVal)
  | nil
  | cons (v : PVal) (rest : PVal)
  deriving Repr, DecidableEq, Inhabited

inductive PTy where
  | u (n : Nat)
  | i (n : Nat)
  | f32
  | f64
  | str
  | named (s : String) (line : Nat)
  | arr (t : PTy) (size : String)
  | dyn (t : PTy)
  | opt (t : PTy)
  deriving Repr, DecidableEq, Inhabited

structure PParam where
  name : String
  args : List PVal
  deriving Repr, DecidableEq, Inhabited

structure PField where
  name : String
  id : String
  ty : PTy
  params : List PParam
  line : Nat
  deriving Repr, DecidableEq, Inhabited

inductive PItem where
  | field (name : String) (v : PVal)
  | signal (name : String) (fields : List (String × PVal)) (line : Nat)
  deriving Repr, DecidableEq, Inhabited

structure PMethod where
  name : String
  input : String
  id : String
  output : String
  line : Nat
  deriving Repr, DecidableEq, Inhabited

inductive PDecl where
  | struct (name : String) (fields : List PField) (line : Nat)
  | enum (name : String) (items : List (String × PVal × Nat)) (line : Nat)
  | impl (protocol type : String) (name : Option String) (items : List PItem) (line : Nat)
  | service (name : String) (id : String) (methods : List PMethod) (line : Nat)
  | device (name : String) (fields : List (String × PVal)) (line : Nat)
  | mod (path : List String) (line : Nat)
  deriving Repr, DecidableEq, Inhabited

structure PFile where
  version : String
  versionLine : Nat
  decls : List PDecl
  deriving Repr, DecidableEq, Inhabited

/-! ## recursive-descent parser over tokens -/

abbrev P (α : Type) := List LTok → Except SynErr (α × List LTok)

def lineOf (ts : List LTok) (last : Nat) : Nat :=
  match ts with
  | t :: _ => t.line
  | [] => last

def expectSym (c : Char) (last : Nat) : P Unit
  | ⟨.sym d, l⟩ :: r => if d == c then .ok ((), r) else .error ⟨s!"expected {c}", l⟩
  | ts => .error ⟨s!"expected {c}", lineOf ts last⟩

def expectIdent (last : Nat) : P (String × Nat)
  | ⟨.ident s, l⟩ :: r => .ok ((s, l), r)
  | ts => .error ⟨"expected identifier", lineOf ts last⟩

def expectKw (kw : String) (last : Nat) : P Nat
  | ⟨.ident s, l⟩ :: r => if s == kw then .ok (l, r) else .error ⟨s!"expected {kw}", l⟩
  | ts => .error ⟨s!"expected {kw}", lineOf ts last⟩

/-- drop one optional separator -/
def skipSym (c : Char) : List LTok → List LTok
  | ⟨.sym d, l⟩ :: r => if d == c then r else ⟨.sym d, l⟩ :: r
  | ts => ts

/-- drop one optional keyword -/
def skipKw (kw : String) : List LTok → List LTok
  | ⟨.ident s, l⟩ :: r => if s == kw then r else ⟨.ident s, l⟩ :: r
  | ts => ts

def expectNum (last : Nat) : P String
  | ⟨.num s, _⟩ :: r => .ok (s, r)
  | ts => .error ⟨"expected number", lineOf ts last⟩

/-- `u` / `i` followed by one or two digits -/
def numericType (s : String) : Option PTy :=
  match s.toList with
  | c :: ds =>
    if (c == 'u' || c == 'i') && (ds.length == 1 || ds.length == 2) && ds.all Char.isDigit then
      let n := (String.ofList ds).toNat!
      some (if c == 'u' then .u n else .i n)
    else none
  | [] => none

def parseType : Nat → Nat → P PTy
  | 0, last, ts => .error ⟨"type too deep", lineOf ts last⟩
  | f+1, last, ts =>
    match ts with
    | ⟨.sym '[', l⟩ :: r => do
      let (t, r1) ← parseType f l r
      match r1 with
      | ⟨.sym ']', _⟩ :: r2 => .ok (.dyn t, r2)
      | ⟨.sym ',', l2⟩ :: r2 => do
        let (n, r3) ← expectNum l2 r2
        let (_, r4) ← expectSym ']' l2 r3
        .ok (.arr t n, r4)
      | _ => .error ⟨"expected , or ]", lineOf r1 l⟩
    | ⟨.ident s, l⟩ :: r =>
      if s == "Optional" then
        match r with
        | ⟨.sym '[', l1⟩ :: r1 => do
          let (t, r2) ← parseType f l1 r1
          let (_, r3) ← expectSym ']' l1 r2
          .ok (.opt t, r3)
        | _ => .ok (.named s l, r)
      else if s == "f32" then .ok (.f32, r)
      else if s == "f64" then .ok (.f64, r)
      else if s == "str" then .ok (.str, r)
      else match numericType s with
        | some t => .ok (t, r)
        | none => .ok (.named s l, r)
    | _ => .error ⟨"expected type", lineOf ts last⟩

/-- `value ("," value)*` up to the closing bracket, as a `cons` chain -/
def parseValue : Nat → Nat → P PVal
  | 0, last, ts => .error ⟨"value too deep", lineOf ts last⟩
  | f+1, last, ts =>
    match ts with
    | ⟨.num s, _⟩ :: r => .ok (.num s, r)
    | ⟨.str s, _⟩ :: r => .ok (.str s, r)
    | ⟨.ident s, _⟩ :: r => .ok (.ident s, r)
    | ⟨.sym '[', l⟩ :: r => do
      let (items, r1) ← parseItems f f l r
      .ok (.arr items, r1)
    | _ => .error ⟨"expected value", lineOf ts last⟩
where
  parseItems (f : Nat) : Nat → Nat → P PVal
    | 0, last, ts => .error ⟨"array too long", lineOf ts last⟩
    | g+1, last, ts => do
      let (v, r1) ← parseValue f last ts
      match r1 with
      | ⟨.sym ',', l⟩ :: r2 => do
        let (rest, r3) ← parseItems f g l r2
        .ok (.cons v rest, r3)
      | ⟨.sym ']', _⟩ :: r2 => .ok (.cons v .nil, r2)
      | _ => .error ⟨"expected , or ]", lineOf r1 last⟩

/-- `param_argument*`: values each optionally followed by a comma, up to `)` -/
def parseArgs (vf : Nat) : Nat → Nat → P (List PVal)
  | 0, last, ts => .error ⟨"too many arguments", lineOf ts last⟩
  | g+1, last, ts =>
    match ts with
    | ⟨.sym ')', _⟩ :: r => .ok ([], r)
    | _ => do
      let (v, r1) ← parseValue vf last ts
      let r2 := skipSym ',' r1
      let (vs, r3) ← parseArgs vf g last r2
      .ok (v :: vs, r3)

/-- `"|"? param*` up to the `,` that ends the field; parameters are `name ( args ) "|"?` -/
def parseParams (vf : Nat) : Nat → Nat → P (List PParam)
  | 0, last, ts => .error ⟨"too many parameters", lineOf ts last⟩
  | g+1, last, ts =>
    match ts with
    | ⟨.ident s, l⟩ :: ⟨.sym '(', _⟩ :: r => do
      let (args, r1) ← parseArgs vf (r.length + 1) l r
      let r2 := skipSym '|' r1
      let (ps, r3) ← parseParams vf g l r2
      .ok (⟨s, args⟩ :: ps, r3)
    | _ => .ok ([], ts)

def parseFields (vf : Nat) : Nat → Nat → P (List PField)
  | 0, last, ts => .error ⟨"too many fields", lineOf ts last⟩
  | g+1, last, ts =>
    match ts with
    | ⟨.sym '}', _⟩ :: _ => .ok ([], ts)
    | _ => do
      let ((name, l), r1) ← expectIdent last ts
      let (_, r2) ← expectSym '@' l r1
      let (id, r3) ← expectNum l r2
      let (_, r4) ← expectSym ':' l r3
      let (ty, r5) ← parseType vf l r4
      let r6 := skipSym '|' r5
      let (ps, r7) ← parseParams vf (r6.length + 1) l r6
      let (_, r8) ← expectSym ',' l r7
      let (fs, r9) ← parseFields vf g l r8
      .ok (⟨name, id, ty, ps, l⟩ :: fs, r9)

def parseEnumItems (vf : Nat) : Nat → Nat → P (List (String × PVal × Nat))
  | 0, last, ts => .error ⟨"too many enumerators", lineOf ts last⟩
  | g+1, last, ts =>
    match ts with
    | ⟨.sym '}', _⟩ :: _ => .ok ([], ts)
    | _ => do
      let ((name, l), r1) ← expectIdent last ts
      let (_, r2) ← expectSym '=' l r1
      let (v, r3) ← parseValue vf l r2
      let (_, r4) ← expectSym ',' l r3
      let (es, r5) ← parseEnumItems vf g l r4
      .ok ((name, v, l) :: es, r5)

/-- `extension_field+` : `name : value ,` up to `}` -/
def parseExtFields (vf : Nat) : Nat → Nat → P (List (String × PVal))
  | 0, last, ts => .error ⟨"too many fields", lineOf ts last⟩
  | g+1, last, ts =>
    match ts with
    | ⟨.sym '}', _⟩ :: _ => .ok ([], ts)
    | _ => do
      let ((name, l), r1) ← expectIdent last ts
      let (_, r2) ← expectSym ':' l r1
      let (v, r3) ← parseValue vf l r2
      let (_, r4) ← expectSym ',' l r3
      let (fs, r5) ← parseExtFields vf g l r4
      .ok ((name, v) :: fs, r5)

def parseImplItems (vf : Nat) : Nat → Nat → P (List PItem)
  | 0, last, ts => .error ⟨"too many items", lineOf ts last⟩
  | g+1, last, ts =>
    match ts with
    | ⟨.sym '}', _⟩ :: _ => .ok ([], ts)
    | ⟨.ident "signal", l⟩ :: ⟨.ident name, _⟩ :: ⟨.sym '{', _⟩ :: r => do
      let (fs, r1) ← parseExtFields vf (r.length + 1) l r
      if fs.isEmpty then .error ⟨"signal block needs a field", l⟩ else
      let (_, r2) ← expectSym '}' l r1
      let (_, r3) ← expectSym ',' l r2
      let (is, r4) ← parseImplItems vf g l r3
      .ok (.signal name fs l :: is, r4)
    | _ => do
      let ((name, l), r1) ← expectIdent last ts
      let (_, r2) ← expectSym ':' l r1
      let (v, r3) ← parseValue vf l r2
      let (_, r4) ← expectSym ',' l r3
      let (is, r5) ← parseImplItems vf g l r4
      .ok (.field name v :: is, r5)

def parseMethods : Nat → Nat → P (List PMethod)
  | 0, last, ts => .error ⟨"too many methods", lineOf ts last⟩
  | g+1, last, ts =>
    match ts with
    | ⟨.sym '}', _⟩ :: _ => .ok ([], ts)
    | _ => do
      let (l, r0) ← expectKw "method" last ts
      let ((name, _), r1) ← expectIdent l r0
      let (_, r2) ← expectSym '(' l r1
      let ((inp, _), r3) ← expectIdent l r2
      let (_, r4) ← expectSym ')' l r3
      let (_, r5) ← expectSym '@' l r4
      let (id, r6) ← expectNum l r5
      let (_, r7) ← expectKw "returns" l r6
      let ((out, _), r8) ← expectIdent l r7
      let (_, r9) ← expectSym ',' l r8
      let (ms, r10) ← parseMethods g l r9
      .ok (⟨name, inp, id, out, l⟩ :: ms, r10)

def parseModPath : Nat → Nat → P (List String)
  | 0, last, ts => .error ⟨"module path too long", lineOf ts last⟩
  | g+1, last, ts => do
    let ((s, l), r1) ← expectIdent last ts
    match r1 with
    | ⟨.sym '.', _⟩ :: r2 => do
      let (ps, r3) ← parseModPath g l r2
      .ok (s :: ps, r3)
    | _ => .ok ([s], r1)

def parseDecl (last : Nat) : P PDecl
  | ⟨.ident "struct", l⟩ :: r => do
    let ((name, _), r1) ← expectIdent l r
    let (_, r2) ← expectSym '{' l r1
    let (fs, r3) ← parseFields (2 * r2.length + 2) (r2.length + 1) l r2
    if fs.isEmpty then .error ⟨"struct needs a field", lineOf r3 l⟩ else
    let (_, r4) ← expectSym '}' l r3
    .ok (.struct name fs l, r4)
  | ⟨.ident "enum", l⟩ :: r => do
    let ((name, _), r1) ← expectIdent l r
    let (_, r2) ← expectSym '{' l r1
    let (es, r3) ← parseEnumItems (2 * r2.length + 2) (r2.length + 1) l r2
    let (_, r4) ← expectSym '}' l r3
    .ok (.enum name es l, r4)
  | ⟨.ident "impl", l⟩ :: r => do
    let ((proto, _), r1) ← expectIdent l r
    let (_, r2) ← expectKw "for" l r1
    let ((ty, _), r3) ← expectIdent l r2
    let r4 : List LTok := skipKw "as" r3
    let (name, r5) : Option String × List LTok := match r4 with
      | ⟨.ident n, _⟩ :: r' => (some n, r')
      | _ => (none, r4)
    let (_, r6) ← expectSym '{' l r5
    let (is, r7) ← parseImplItems (2 * r6.length + 2) (r6.length + 1) l r6
    if is.isEmpty then .error ⟨"impl needs a field", lineOf r7 l⟩ else
    let (_, r8) ← expectSym '}' l r7
    .ok (.impl proto ty name is l, r8)
  | ⟨.ident "service", l⟩ :: r => do
    let ((name, _), r1) ← expectIdent l r
    let (_, r2) ← expectSym '@' l r1
    let (id, r3) ← expectNum l r2
    let (_, r4) ← expectSym '{' l r3
    let (ms, r5) ← parseMethods (r4.length + 1) l r4
    if ms.isEmpty then .error ⟨"service needs a method", lineOf r5 l⟩ else
    let (_, r6) ← expectSym '}' l r5
    .ok (.service name id ms l, r6)
  | ⟨.ident "device", l⟩ :: r => do
    let ((name, _), r1) ← expectIdent l r
    let (_, r2) ← expectSym '{' l r1
    let (fs, r3) ← parseExtFields (2 * r2.length + 2) (r2.length + 1) l r2
    if fs.isEmpty then .error ⟨"device needs a field", lineOf r3 l⟩ else
    let (_, r4) ← expectSym '}' l r3
    .ok (.device name fs l, r4)
  | ⟨.ident "mod", l⟩ :: r => do
    let (ps, r1) ← parseModPath (r.length + 1) l r
    let (_, r2) ← expectSym ';' l r1
    .ok (.mod ps l, r2)
  | ts => .error ⟨"expected declaration", lineOf ts last⟩

def parseDecls : Nat → Nat → List LTok → Except SynErr (List PDecl)
  | 0, last, _ => .error ⟨"too many declarations", last⟩
  | _+1, _, [] => .ok []
  | g+1, last, ts => do
    let (d, r) ← parseDecl last ts
    let ds ← parseDecls g (lineOf ts last) r
    .ok (d :: ds)

def parseFile (ts : List LTok) : Except SynErr PFile := do
  let (l, r0) ← expectKw "version" 1 ts
  let (_, r1) ← expectSym ':' l r0
  match r1 with
  | ⟨.str s, _⟩ :: r2 => do
    let ds ← parseDecls (r2.length + 1) l r2
    .ok ⟨s, l, ds⟩
  | _ => .error ⟨"expected version string", lineOf r1 l⟩

def parseText (src : String) : Except SynErr PFile := do
  let ts ← lex src
  parseFile ts

end Fcp.Syntax
