import FcpModel.PyBufLemmas
import FcpModel.WireTrunc
/-!
# CppCodec: the C++-specific parts of the generated code

The static codec (`fcp.h.j2` over `buffer.h` / `decoders.h`) composes wrapper classes over
the type tree exactly as `Wire.enc` / `Wire.dec` do; what is specific to C++ and modelled
here is: the carrier type chosen for an N-bit integer, the bit loop of `PushWord` on a signed
carrier, the sign extension of `GetWord`, the cast back to the carrier, the width of an enum,
and the run-time (reflection-loaded) encoder, which encodes every piece into a fresh buffer
and appends whole bytes.
-/
namespace Fcp.Cpp

/-- `_to_highest_power_of_two` on the supported widths (tied to the Python function, which
goes through float `log2`, by exhaustive comparison on 1..64 on every run) -/
def carrier (n : Nat) : Nat :=
  if n ≤ 8 then 8 else if n ≤ 16 then 16 else if n ≤ 32 then 32 else 64

/-- the carrier holds the field and is a standard width -/
theorem carrier_ge (n : Nat) (h : n ≤ 64) : n ≤ carrier n ∧ (carrier n = 8 ∨ carrier n = 16 ∨ carrier n = 32 ∨ carrier n = 64) := by
  unfold carrier; split <;> (try split) <;> (try split) <;> omega

/-- enums use their minimal bit width: `2^(b-1) ≤ max < 2^b` -/
theorem enumBits_minimal (e : Enum) (b : Nat) (h : e.packedSize = some b) (hm : 2 ≤ e.maxValue) :
    (2 : Int) ^ (b - 1) ≤ e.maxValue ∧ e.maxValue < (2 : Int) ^ b := by
  unfold Enum.packedSize at h
  simp only at h
  split at h
  · cases h
  · split at h
    · omega
    · simp only [Option.some.injEq] at h
      subst h
      have hn : e.maxValue.toNat ≠ 0 := by omega
      have h1 := Nat.log2_self_le hn
      have h2 := @Nat.lt_log2_self e.maxValue.toNat
      have hc : ((e.maxValue.toNat : Nat) : Int) = e.maxValue := Int.toNat_of_nonneg (by omega)
      simp only [Nat.add_sub_cancel]
      constructor
      · rw [← hc]; exact_mod_cast h1
      · rw [← hc]; exact_mod_cast h2

/-- `PushWord<T, Size>` on a (possibly signed) carrier value: `(tmp >> i) & 1` for `i < Size` -/
def pushBits (v : Int) (size : Nat) : Bits := intBitsFrom v 0 size

/-- the bit loop writes the two's-complement bits of the value, whatever the carrier's sign -/
theorem pushBits_eq (v : Int) (size : Nat) : pushBits v size = natBits size (toTwos size v) :=
  intBitsFrom_eq size v

/-- `GetWord(bitlength, sign)` after the bit loop collected `r`: the sign extension
`(result ^ mask) - mask` in `uint64_t` arithmetic, skipped for 64-bit fields -/
def getWord (n : Nat) (sign : Bool) (r : Nat) : Nat :=
  if sign && decide (r / 2 ^ (n - 1) = 1) && !decide (n = 64) then
    ((r ^^^ 2 ^ (n - 1)) + 2 ^ 64 - 2 ^ (n - 1)) % 2 ^ 64
  else r

/-- `static_cast<CarrierType>(word)` for a signed carrier of `c` bits -/
def castSigned (c : Nat) (w : Nat) : Int := ofTwos c (w % 2 ^ c)

theorem xor_msb (r k : Nat) (h1 : 2 ^ k ≤ r) (h2 : r < 2 ^ (k + 1)) : r ^^^ 2 ^ k = r - 2 ^ k := by
  have hs : r - 2 ^ k < 2 ^ k := by rw [Nat.pow_succ] at h2; omega
  have hr : r = 2 ^ k + (r - 2 ^ k) := by omega
  have hor : 2 ^ k + (r - 2 ^ k) = 2 ^ k ||| (r - 2 ^ k) := by
    simpa using Nat.two_pow_add_eq_or_of_lt hs 1
  apply Nat.eq_of_testBit_eq
  intro i
  rw [Nat.testBit_xor]
  conv => lhs; rw [hr, hor]
  rw [Nat.testBit_or, Nat.testBit_two_pow]
  by_cases hi : k = i
  · subst hi
    have : (r - 2 ^ k).testBit k = false := Nat.testBit_lt_two_pow hs
    simp [this]
  · simp [hi]

theorem two_pow_dvd_mod (a c : Nat) (h : c ≤ 64) : (a % 2 ^ 64) % 2 ^ c = a % 2 ^ c :=
  Nat.mod_mod_of_dvd a ⟨2 ^ (64 - c), by rw [← Nat.pow_add]; congr 1; omega⟩

/-- **sign extension is correct**: for every field width `1 ≤ n ≤ 64` read into a signed
carrier of `c ≥ n` bits, `GetWord` followed by the cast returns the two's-complement value of
the `n` bits read -/
theorem getWord_signext (n c : Nat) (r : Nat) (h1 : 1 ≤ n) (h2 : n ≤ c) (h3 : c ≤ 64) (hr : r < 2 ^ n) :
    castSigned c (getWord n true r) = ofTwos n r := by
  obtain ⟨k, rfl⟩ : ∃ k, n = k + 1 := ⟨n - 1, by omega⟩
  have hpk : 0 < 2 ^ k := Nat.pow_pos (by omega)
  have hpn : 2 ^ (k + 1) = 2 * 2 ^ k := by rw [Nat.pow_succ]; omega
  have hnc : 2 ^ (k + 1) ≤ 2 ^ c := Nat.pow_le_pow_right (by omega) h2
  have hc64 : 2 ^ c ≤ 2 ^ 64 := Nat.pow_le_pow_right (by omega) h3
  unfold getWord castSigned
  simp only [Nat.add_sub_cancel, Bool.true_and]
  by_cases hmsb : r / 2 ^ k = 1
  · have hge : 2 ^ k ≤ r := by
      have := Nat.div_add_mod r (2 ^ k); rw [hmsb] at this; omega
    by_cases h64 : k + 1 = 64
    · -- the 64-bit exception: no extension, the cast does the job
      have hc : c = 64 := by omega
      subst hc
      simp only [hmsb, h64, decide_true, Bool.not_true, Bool.and_false, Bool.false_eq_true, ↓reduceIte]
      rw [Nat.mod_eq_of_lt (by rw [← h64]; exact hr), ← h64]
    · simp only [hmsb, h64, decide_true, decide_false, Bool.not_false, Bool.and_self, ↓reduceIte]
      rw [xor_msb r k hge (by omega), two_pow_dvd_mod _ c h3]
      have hval : (r - 2 ^ k + 2 ^ 64 - 2 ^ k) % 2 ^ c = 2 ^ c - 2 ^ (k + 1) + r := by
        obtain ⟨q, hq⟩ : ∃ q, 2 ^ 64 = 2 ^ c * q := ⟨2 ^ (64 - c), by rw [← Nat.pow_add]; congr 1; omega⟩
        have hq1 : 1 ≤ q := by
          cases q with
          | zero => simp at hq
          | succ q => omega
        have : r - 2 ^ k + 2 ^ 64 - 2 ^ k = (2 ^ c - 2 ^ (k + 1) + r) + 2 ^ c * (q - 1) := by
          rw [hq]
          have : 2 ^ c * q = 2 ^ c * (q - 1) + 2 ^ c := by
            conv => lhs; rw [show q = (q - 1) + 1 by omega, Nat.mul_add, Nat.mul_one]
          omega
        rw [this, Nat.add_mul_mod_self_left, Nat.mod_eq_of_lt (by omega)]
      rw [hval]
      unfold ofTwos
      have hA : 2 * (2 ^ c - 2 ^ (k + 1) + r) ≥ 2 ^ c := by omega
      have hB : 2 * r ≥ 2 ^ (k + 1) := by omega
      simp only [hA, hB, ↓reduceIte]
      have hcast1 : ((2 ^ c - 2 ^ (k + 1) + r : Nat) : Int) = (2 : Int) ^ c - 2 ^ (k + 1) + r := by
        rw [Int.natCast_add, Int.natCast_sub hnc]
        simp
      rw [hcast1]; omega
  · have hlt : r < 2 ^ k := by
      have h3' : r / 2 ^ k < 2 := (Nat.div_lt_iff_lt_mul hpk).mpr (by rw [← hpn]; exact hr)
      have h4' : r / 2 ^ k = 0 := by
        generalize r / 2 ^ k = q at hmsb h3'; omega
      exact Nat.lt_of_div_eq_zero hpk h4'
    simp only [hmsb, decide_false, Bool.false_and, Bool.false_eq_true, ↓reduceIte]
    have hrc : r < 2 ^ c := by omega
    rw [Nat.mod_eq_of_lt hrc]
    unfold ofTwos
    have hA : ¬ (2 * r ≥ 2 ^ c) := by omega
    have hB : ¬ (2 * r ≥ 2 ^ (k + 1)) := by omega
    simp only [hA, hB, ↓reduceIte]

/-- hence a signed field round-trips through `PushWord` / `GetWord` / cast -/
theorem signed_roundtrip (n c : Nat) (v : Int) (h1 : 1 ≤ n) (h2 : n ≤ c) (h3 : c ≤ 64) (hv : inRangeS n v) :
    castSigned c (getWord n true (bitsNat (pushBits v n))) = v := by
  rw [pushBits_eq, bitsNat_natBits _ _ (toTwos_lt n v), getWord_signext n c _ h1 h2 h3 (toTwos_lt n v)]
  exact ofTwos_toTwos n (by omega) v hv

/-! ## the statically generated codec: wrapper classes over `PushWord` / `GetWord` -/

/-- widths the generator supports: 1..64 for signed, 0..64 otherwise -/
def Widths : Ty → Bool
  | .uint n => n ≤ 64
  | .sint n => 1 ≤ n && n ≤ 64
  | .enum b => b ≤ 64
  | .arr t _ => Widths t
  | .dyn t => Widths t
  | .opt t => Widths t
  | .field _ _ t r => Widths t && Widths r
  | _ => true

def cppEncList (e : Val → Bits) : Val → Bits
  | .cons v vs => e v ++ cppEncList e vs
  | _ => []

/-- `Encode` of the generated structs: every scalar goes through `PushWord` on its carrier -/
def cppEnc : Ty → Val → Bits
  | .uint n, .int i => pushBits i n
  | .sint n, .int i => pushBits i n
  | .f32, .int i => pushBits i 32
  | .f64, .int i => pushBits i 64
  | .enum b, .int i => pushBits i b
  | .str, .str cs => pushBits cs.length 32 ++ (cs.map fun (c : Nat) => pushBits (c : Int) 8).flatten
  | .arr t _, v => cppEncList (cppEnc t) v
  | .dyn t, v => pushBits (vlen v) 32 ++ cppEncList (cppEnc t) v
  | .opt _, .none => pushBits 0 8
  | .opt t, .some v => pushBits 1 8 ++ cppEnc t v
  | .field _ _ t rest, .cons v vs => cppEnc t v ++ cppEnc rest vs
  | _, _ => []

/-- one scalar read: `GetWord(n, sign)` and the cast to the carrier -/
def cppRead (car : Nat → Nat) (n : Nat) (sign : Bool) (bs : Bits) : Option (Val × Bits) :=
  (readN n bs).map fun (w, r) =>
    (.int (if sign then castSigned (car n) (getWord n true w) else (getWord n false w : Nat)), r)

/-- `Decode` over one shared bit cursor, signed fields cast to the carrier `car n` (on inputs
long enough; what the real code does when bytes are missing is outside the properties and
not modelled) -/
def cppDecWith (car : Nat → Nat) : Ty → Bits → Option (Val × Bits)
  | .uint n, bs => cppRead car n false bs
  | .sint n, bs => cppRead car n true bs
  | .f32, bs => cppRead car 32 false bs
  | .f64, bs => cppRead car 64 false bs
  | .enum b, bs => cppRead car b false bs
  | .str, bs => match readN 32 bs with
    | none => none
    | some (n, r) => match decChars n r with
      | none => none
      | some (cs, r') => if utf8Valid cs then some (.str cs, r') else none
  | .arr t n, bs => decList (cppDecWith car t) n bs
  | .dyn t, bs => match readN 32 bs with
    | none => none
    | some (n, r) => decList (cppDecWith car t) n r
  | .opt t, bs => match readN 8 bs with
    | none => none
    | some (f, r) => if f = 0 then some (.none, r) else (cppDecWith car t r).map fun (v, r') => (.some v, r')
  | .unit, bs => some (.nil, bs)
  | .field _ _ t rest, bs => match cppDecWith car t bs with
    | none => none
    | some (v, r) => (cppDecWith car rest r).map fun (vs, r') => (.cons v vs, r')

/-- the statically generated decoder: carrier chosen per width -/
def cppDec : Ty → Bits → Option (Val × Bits) := cppDecWith carrier

/-- the run-time decoder (`DynamicSchema::_Decode`): same cursor, signed fields through
`static_cast<std::int64_t>` -/
def dynDec : Ty → Bits → Option (Val × Bits) := cppDecWith (fun _ => 64)

theorem pushBits_nonneg (i : Int) (n : Nat) (h0 : 0 ≤ i) (h1 : i < 2 ^ n) :
    pushBits i n = natBits n i.toNat := by
  rw [pushBits_eq, toTwos_of_inRange n i h0 h1]

theorem pushBits_nat (x n : Nat) (h : x < 2 ^ n) : pushBits (x : Int) n = natBits n x := by
  rw [pushBits_nonneg _ _ (by omega) (by exact_mod_cast h)]; simp

theorem cppChars_eq (cs : List Nat) (h : cs.all (· < 256) = true) :
    (cs.map fun (c : Nat) => pushBits (c : Int) 8).flatten = encChars cs := by
  unfold encChars
  induction cs with
  | nil => rfl
  | cons c cs ih =>
    simp only [List.all_cons, Bool.and_eq_true, decide_eq_true_eq] at h
    simp only [List.map_cons, List.flatten_cons]
    rw [ih h.2, pushBits_nat c 8 (by omega)]

theorem cppEncList_eq (t : Ty) (ih : ∀ v, wf t v = true → cppEnc t v = enc t v) (n : Nat) (v : Val)
    (h : wfList (wf t) n v = true) : cppEncList (cppEnc t) v = encList (enc t) v := by
  induction n generalizing v with
  | zero => cases v <;> simp_all [wfList, cppEncList, encList]
  | succ n ihn =>
    cases v with
    | cons x xs =>
      simp only [wfList, Bool.and_eq_true] at h
      simp only [cppEncList, encList, ih x h.1, ihn xs h.2]
    | _ => simp_all [wfList]

/-- **the generated encoder writes the canonical bits** -/
theorem cppEnc_eq (t : Ty) : ∀ (v : Val), wf t v = true → cppEnc t v = enc t v := by
  induction t with
  | uint n =>
    intro v h; cases v <;> simp_all [wf]
    rename_i i; simp only [cppEnc, enc]; exact pushBits_nonneg i n h.1 h.2
  | sint n =>
    intro v h; cases v <;> simp_all [wf]
    simp only [cppEnc, enc, pushBits_eq]
  | f32 =>
    intro v h; cases v <;> simp_all [wf]
    rename_i i; simp only [cppEnc, enc]; exact pushBits_nonneg i 32 h.1 h.2
  | f64 =>
    intro v h; cases v <;> simp_all [wf]
    rename_i i; simp only [cppEnc, enc]; exact pushBits_nonneg i 64 h.1 h.2
  | enum b =>
    intro v h; cases v <;> simp_all [wf]
    rename_i i; simp only [cppEnc, enc]; exact pushBits_nonneg i b h.1 h.2
  | str =>
    intro v h; cases v <;> simp_all [wf]
    rename_i cs
    simp only [cppEnc, enc]
    rw [pushBits_nat _ 32 h.1, cppChars_eq cs (utf8Valid_bytes cs h.2)]
  | unit => intro v h; cases v <;> simp_all [wf, cppEnc, enc]
  | arr t n ih =>
    intro v h
    simp only [wf] at h
    simp only [cppEnc, enc]
    exact cppEncList_eq t ih n v h
  | dyn t ih =>
    intro v h
    simp only [wf, Bool.and_eq_true, decide_eq_true_eq] at h
    simp only [cppEnc, enc]
    rw [pushBits_nat _ 32 h.1, cppEncList_eq t ih _ v h.2]
  | opt t ih =>
    intro v h
    cases v with
    | none => simp only [cppEnc, enc]; exact pushBits_nat 0 8 (by omega)
    | some x =>
      simp only [wf] at h
      simp only [cppEnc, enc, ih x h]
      rw [show ((1 : Int)) = ((1 : Nat) : Int) from rfl, pushBits_nat 1 8 (by omega)]
    | _ => simp_all [wf]
  | field nm id t r iht ihr =>
    intro v h
    cases v with
    | cons x xs =>
      simp only [wf, Bool.and_eq_true] at h
      simp only [cppEnc, enc, iht x h.1, ihr xs h.2]
    | _ => simp_all [wf]

theorem getWord_unsigned (n r : Nat) : getWord n false r = r := by simp [getWord]

theorem cppRead_unsigned (car : Nat → Nat) (n : Nat) (bs : Bits) :
    cppRead car n false bs = (readN n bs).map fun (w, r) => (.int w, r) := by
  unfold cppRead; simp [getWord_unsigned]

theorem cppRead_signed (car : Nat → Nat) (n : Nat) (h1 : 1 ≤ n) (hc : n ≤ car n) (hc64 : car n ≤ 64) (bs : Bits) :
    cppRead car n true bs = (readN n bs).map fun (w, r) => (.int (ofTwos n w), r) := by
  unfold cppRead
  cases h : readN n bs with
  | none => rfl
  | some p =>
    obtain ⟨w, r⟩ := p
    have hw := (readN_some h).2
    simp [getWord_signext n (car n) w h1 hc hc64 hw]

theorem decList_congr (f g : Bits → Option (Val × Bits)) (h : ∀ bs, f bs = g bs) (n : Nat) (bs : Bits) :
    decList f n bs = decList g n bs := by
  induction n generalizing bs with
  | zero => rfl
  | succ n ih =>
    simp only [decList, h]
    cases g bs with
    | none => rfl
    | some p => obtain ⟨v, r⟩ := p; simp only [ih]

/-- a cursor decoder is the canonical decoder on every supported type, whatever carrier
(wide enough, at most 64 bits) the signed fields are cast to -/
theorem cppDecWith_eq (car : Nat → Nat) (hcar : ∀ n, 1 ≤ n → n ≤ 64 → n ≤ car n ∧ car n ≤ 64) (t : Ty) :
    Widths t = true → ∀ bs, cppDecWith car t bs = dec t bs := by
  induction t with
  | uint n => intro _ bs; simp only [cppDecWith, dec, cppRead_unsigned]
  | sint n =>
    intro h bs
    simp only [Widths, Bool.and_eq_true, decide_eq_true_eq] at h
    simp only [cppDecWith, dec, cppRead_signed car n h.1 (hcar n h.1 h.2).1 (hcar n h.1 h.2).2]
  | f32 => intro _ bs; simp only [cppDecWith, dec, cppRead_unsigned]
  | f64 => intro _ bs; simp only [cppDecWith, dec, cppRead_unsigned]
  | enum b => intro _ bs; simp only [cppDecWith, dec, cppRead_unsigned]
  | str => intro _ bs; simp only [cppDecWith, dec]; rfl
  | unit => intro _ bs; simp only [cppDecWith, dec]
  | arr t n ih =>
    intro h bs
    simp only [Widths] at h
    simp only [cppDecWith, dec]
    exact decList_congr _ _ (ih h) n bs
  | dyn t ih =>
    intro h bs
    simp only [Widths] at h
    simp only [cppDecWith, dec]
    cases readN 32 bs with
    | none => rfl
    | some p => obtain ⟨n, r⟩ := p; exact decList_congr _ _ (ih h) n r
  | opt t ih =>
    intro h bs
    simp only [Widths] at h
    simp only [cppDecWith, dec, ih h]; rfl
  | field nm id t r iht ihr =>
    intro h bs
    simp only [Widths, Bool.and_eq_true] at h
    simp only [cppDecWith, dec, iht h.1]
    cases dec t bs with
    | none => rfl
    | some p => obtain ⟨v, r'⟩ := p; simp only [ihr h.2]

/-- **the generated decoder is the canonical decoder** on every supported type -/
theorem cppDec_eq (t : Ty) (h : Widths t = true) (bs : Bits) : cppDec t bs = dec t bs :=
  cppDecWith_eq carrier (fun n _ h2 => by
    obtain ⟨hc, hc'⟩ := carrier_ge n h2
    exact ⟨hc, by rcases hc' with h | h | h | h <;> omega⟩) t h bs

/-- **the run-time decoder is the canonical decoder** too -/
theorem dynDec_eq (t : Ty) (h : Widths t = true) (bs : Bits) : dynDec t bs = dec t bs :=
  cppDecWith_eq (fun _ => 64) (fun _ _ h2 => ⟨h2, Nat.le_refl _⟩) t h bs

/-- the run-time codec derives an enum's width as `max(1, ⌈log₂(max+1)⌉)`; that is the static
width: the only `b ≥ 1` with `2^(b-1) < max+1 ≤ 2^b` is `log2 max + 1` -/
theorem ceilLog_unique (m b : Nat) (hm : 1 ≤ m) (hb : 1 ≤ b) (h1 : 2 ^ (b - 1) < m + 1) (h2 : m + 1 ≤ 2 ^ b) :
    b = Nat.log2 m + 1 := by
  have hn : m ≠ 0 := by omega
  have l1 := Nat.log2_self_le hn
  have l2 := @Nat.lt_log2_self m
  obtain ⟨k, rfl⟩ : ∃ k, b = k + 1 := ⟨b - 1, by omega⟩
  simp only [Nat.add_sub_cancel] at h1
  congr 1
  rcases Nat.lt_trichotomy k m.log2 with h | h | h
  · have : 2 ^ (k + 1) ≤ 2 ^ m.log2 := Nat.pow_le_pow_right (by omega) h
    omega
  · exact h
  · have : 2 ^ (m.log2 + 1) ≤ 2 ^ k := Nat.pow_le_pow_right (by omega) h
    omega

/-! ## the run-time (reflection-loaded) encoder

Since the repair recorded in known_findings.json (`dynamic-encode-not-bit-packed`, fixed) every
`Encode*` member of `DynamicSchema` writes into one `Buffer` passed by reference: the same
composition as the generated structs, every scalar through `PushWord` on a 64-bit carrier. -/

def dynEncList (e : Val → Bits) : Val → Bits
  | .cons v vs => e v ++ dynEncList e vs
  | _ => []

/-- `DynamicSchema::_Encode` into the shared buffer -/
def dynEnc : Ty → Val → Bits
  | .uint n, .int i => pushBits i n
  | .sint n, .int i => pushBits i n
  | .f32, .int i => pushBits i 32
  | .f64, .int i => pushBits i 64
  | .enum b, .int i => pushBits i b
  | .str, .str cs => pushBits cs.length 32 ++ (cs.map fun (c : Nat) => pushBits (c : Int) 8).flatten
  | .arr t _, v => dynEncList (dynEnc t) v
  | .dyn t, v => pushBits (vlen v) 32 ++ dynEncList (dynEnc t) v
  | .opt _, .none => pushBits 0 8
  | .opt t, .some v => pushBits 1 8 ++ dynEnc t v
  | .field _ _ t rest, .cons v vs => dynEnc t v ++ dynEnc rest vs
  | _, _ => []

theorem dynEncList_eq_cpp (t : Ty) (ih : ∀ v, dynEnc t v = cppEnc t v) (v : Val) :
    dynEncList (dynEnc t) v = cppEncList (cppEnc t) v := by
  induction v with
  | cons x xs _ ihxs => simp only [dynEncList, cppEncList, ih x, ihxs]
  | _ => rfl

/-- **the run-time encoder is the generated encoder**, for every type and every value -/
theorem dynEnc_eq_cppEnc (t : Ty) : ∀ v, dynEnc t v = cppEnc t v := by
  induction t with
  | arr t n ih => intro v; simp only [dynEnc, cppEnc]; exact dynEncList_eq_cpp t ih v
  | dyn t ih => intro v; simp only [dynEnc, cppEnc, dynEncList_eq_cpp t ih v]
  | opt t ih => intro v; cases v <;> simp only [dynEnc, cppEnc, ih]
  | field nm id t r iht ihr => intro v; cases v <;> simp only [dynEnc, cppEnc, iht, ihr]
  | _ => intro v; cases v <;> rfl

/-! ### the encoder before the repair: whole bytes per piece (kept as the record of the defect) -/

def oldDynEncList (e : Val → List Nat) : Val → List Nat
  | .cons v vs => e v ++ oldDynEncList e vs
  | _ => []

/-- `DynamicSchema::_Encode` before the repair: every field, element, length prefix and flag is encoded into a
fresh `Buffer` whose bytes are appended -/
def oldDynEnc : Ty → Val → List Nat
  | .uint n, .int i => pack (natBits n i.toNat)
  | .sint n, .int i => pack (natBits n (toTwos n i))
  | .f32, .int i => pack (natBits 32 i.toNat)
  | .f64, .int i => pack (natBits 64 i.toNat)
  | .enum b, .int i => pack (natBits b i.toNat)
  | .str, .str cs => pack (natBits 32 cs.length ++ encChars cs)
  | .arr t _, v => oldDynEncList (oldDynEnc t) v
  | .dyn t, v => pack (natBits 32 (vlen v)) ++ oldDynEncList (oldDynEnc t) v
  | .opt _, .none => pack (natBits 8 0)
  | .opt t, .some v => pack (natBits 8 1) ++ oldDynEnc t v
  | .field _ _ t rest, .cons v vs => oldDynEnc t v ++ oldDynEnc rest vs
  | _, _ => []

/-- every scalar of the type occupies a whole number of bytes -/
def ByteGranular : Ty → Bool
  | .uint n => n % 8 == 0
  | .sint n => n % 8 == 0
  | .enum b => b % 8 == 0
  | .arr t _ => ByteGranular t
  | .dyn t => ByteGranular t
  | .opt t => ByteGranular t
  | .field _ _ t r => ByteGranular t && ByteGranular r
  | _ => true

theorem packAux_append (k : Nat) (a b : Bits) (h : a.length = 8 * k) (m : Nat) :
    packAux (k + m) (a ++ b) = packAux k a ++ packAux m b := by
  induction k generalizing a with
  | zero =>
    have : a = [] := by cases a <;> simp_all
    subst this; simp [packAux]
  | succ k ih =>
    have hl : 8 ≤ a.length := by omega
    have e : k + 1 + m = (k + m) + 1 := by omega
    rw [e]
    simp only [packAux]
    rw [List.take_append_of_le_length hl, List.drop_append_of_le_length hl, ih (a.drop 8) (by simp; omega)]
    rfl

/-- byte-aligned pieces pack independently -/
theorem pack_append_aligned (a b : Bits) (h : a.length % 8 = 0) : pack (a ++ b) = pack a ++ pack b := by
  unfold pack
  have e1 : (a ++ b).length = a.length + b.length := by simp
  have e2 : (a.length + b.length + 7) / 8 = a.length / 8 + (b.length + 7) / 8 := by omega
  have e3 : (a.length + 7) / 8 = a.length / 8 := by omega
  rw [e1, e2, e3]
  exact packAux_append (a.length / 8) a b (by omega) _

theorem encChars_aligned (cs : List Nat) : (encChars cs).length % 8 = 0 := by
  rw [encChars_length]; omega

theorem oldDynEncList_eq (t : Ty) (ih : ∀ v, wf t v = true → oldDynEnc t v = pack (enc t v) ∧ (enc t v).length % 8 = 0)
    (n : Nat) (v : Val) (h : wfList (wf t) n v = true) :
    oldDynEncList (oldDynEnc t) v = pack (encList (enc t) v) ∧ (encList (enc t) v).length % 8 = 0 := by
  induction n generalizing v with
  | zero => cases v <;> simp_all [wfList, oldDynEncList, encList, pack, packAux]
  | succ n ihn =>
    cases v with
    | cons x xs =>
      simp only [wfList, Bool.and_eq_true] at h
      obtain ⟨h1, h2⟩ := ih x h.1
      obtain ⟨h3, h4⟩ := ihn xs h.2
      simp only [oldDynEncList, encList, List.length_append]
      exact ⟨by rw [pack_append_aligned _ _ h2, h1, h3], by omega⟩
    | _ => simp_all [wfList]

/-- before the repair: on byte-granular types the run-time encoder produced exactly
the canonical (= static) bytes, and every encoding is a whole number of bytes -/
theorem oldDynEnc_eq (t : Ty) : ∀ (v : Val), ByteGranular t = true → wf t v = true →
    oldDynEnc t v = pack (enc t v) ∧ (enc t v).length % 8 = 0 := by
  induction t with
  | uint n =>
    intro v hg hv; cases v <;> simp_all [wf, ByteGranular, oldDynEnc, enc]
  | sint n =>
    intro v hg hv; cases v <;> simp_all [wf, ByteGranular, oldDynEnc, enc]
  | f32 => intro v hg hv; cases v <;> simp_all [wf, oldDynEnc, enc]
  | f64 => intro v hg hv; cases v <;> simp_all [wf, oldDynEnc, enc]
  | enum b => intro v hg hv; cases v <;> simp_all [wf, ByteGranular, oldDynEnc, enc]
  | str =>
    intro v hg hv
    cases v <;> simp_all [wf, oldDynEnc, enc]
    rename_i cs
    have := encChars_aligned cs; omega
  | unit => intro v hg hv; cases v <;> simp_all [wf, oldDynEnc, enc, pack, packAux]
  | arr t n ih =>
    intro v hg hv
    simp only [ByteGranular] at hg
    simp only [wf] at hv
    simp only [oldDynEnc, enc]
    exact oldDynEncList_eq t (fun v hv => ih v hg hv) n v hv
  | dyn t ih =>
    intro v hg hv
    simp only [ByteGranular] at hg
    simp only [wf, Bool.and_eq_true, decide_eq_true_eq] at hv
    simp only [oldDynEnc, enc, List.length_append, natBits_length]
    obtain ⟨h1, h2⟩ := oldDynEncList_eq t (fun v hv => ih v hg hv) _ v hv.2
    exact ⟨by rw [pack_append_aligned _ _ (by simp), h1], by omega⟩
  | opt t ih =>
    intro v hg hv
    simp only [ByteGranular] at hg
    cases v with
    | none => simp [oldDynEnc, enc]
    | some x =>
      simp only [wf] at hv
      obtain ⟨h1, h2⟩ := ih x hg hv
      simp only [oldDynEnc, enc, List.length_append, natBits_length]
      exact ⟨by rw [pack_append_aligned _ _ (by simp), h1], by omega⟩
    | _ => simp_all [wf]
  | field nm id t r iht ihr =>
    intro v hg hv
    simp only [ByteGranular, Bool.and_eq_true] at hg
    cases v with
    | cons x xs =>
      simp only [wf, Bool.and_eq_true] at hv
      obtain ⟨h1, h2⟩ := iht x hg.1 hv.1
      obtain ⟨h3, h4⟩ := ihr xs hg.2 hv.2
      simp only [oldDynEnc, enc, List.length_append]
      exact ⟨by rw [pack_append_aligned _ _ h2, h1, h3], by omega⟩
    | _ => simp_all [wf]

/-! ## the CAN frame wrapper (C18) -/

structure Binding where
  name : String
  id : Nat
  bus : List Nat      -- character codes of the bus name, any number of them
  ty : Ty
  deriving Repr, DecidableEq, Inhabited

structure Frame where
  bus : List Nat      -- 4 bytes, NUL padded
  sid : Nat
  dlc : Nat
  data : List Nat     -- 8 bytes, zero padded
  deriving Repr, DecidableEq, Inhabited

def pad (n : Nat) (l : List Nat) : List Nat := l ++ List.replicate (n - l.length) 0

/-- the bus tag of a frame as the name it is compared with: up to the first NUL -/
def busName (tag : List Nat) : List Nat := tag.takeWhile (· != 0)

/-- what a frame can carry of a bus name: its first four characters (`std::array<char,4> bus`) -/
def Binding.tag (b : Binding) : List Nat := b.bus.take 4

/-- `Encode(name, json)`: first binding with that name -/
def encodeFrame (bs : List Binding) (name : String) (v : Val) : Option Frame :=
  (bs.find? (·.name == name)).map fun b =>
    { bus := pad 4 b.tag, sid := b.id, dlc := (encBytes b.ty v).length, data := pad 8 (encBytes b.ty v) }

/-- `Decode(frame)`: first binding whose id matches and whose bus name, cut to the tag, is the
frame's tag (since fix 6533a8d; before it the whole name was compared, so a name longer than four
characters never matched its own frames); then the payload -/
def decodeFrame (bs : List Binding) (f : Frame) : Option (String × Val) :=
  match bs.find? (fun b => b.id == f.sid && b.tag == busName f.bus) with
  | none => none
  | some b => (decBytes b.ty f.data).map fun v => (b.name, v)

theorem takeWhile_ne_zero_append (l : List Nat) (h : ∀ c ∈ l, c ≠ 0) (m : Nat) :
    (l ++ List.replicate m 0).takeWhile (· != 0) = l := by
  induction l with
  | nil => cases m <;> simp [List.replicate_succ]
  | cons c cs ih =>
    have hc : c ≠ 0 := h c (by simp)
    simp only [List.cons_append, List.takeWhile_cons, bne_iff_ne, ne_eq, hc, not_false_eq_true,
      ↓reduceIte]
    rw [ih (fun x hx => h x (by simp [hx]))]

theorem busName_pad (bus : List Nat) (h : ∀ c ∈ bus, c ≠ 0) (n : Nat) : busName (pad n bus) = bus :=
  takeWhile_ne_zero_append bus h _

/-- decoding ignores the zero padding of the 8-byte data field -/
theorem decBytes_pad (t : Ty) (v : Val) (h : wf t v = true) (n : Nat) :
    decBytes t (pad n (encBytes t v)) = some v := by
  unfold decBytes encBytes pad
  rw [unpack_append, unpack_pack, List.append_assoc, dec_enc t v _ h]
  rfl

/-- the bindings a CAN schema is generated from: names distinct, (id, bus) keys distinct,
bus names free of NUL -/
structure BindingsOk (bs : List Binding) : Prop where
  names : bs.Pairwise (fun a b => a.name ≠ b.name)
  keys : bs.Pairwise (fun a b => ¬ (a.id = b.id ∧ a.tag = b.tag))
  bus : ∀ b ∈ bs, ∀ c ∈ b.bus, c ≠ 0

theorem find_name (bs : List Binding) (h : bs.Pairwise (fun a b => a.name ≠ b.name)) (b : Binding)
    (hb : b ∈ bs) : bs.find? (·.name == b.name) = some b := by
  induction bs with
  | nil => cases hb
  | cons a as ih =>
    rw [List.pairwise_cons] at h
    rcases List.mem_cons.mp hb with rfl | hb'
    · simp
    · have : a.name ≠ b.name := h.1 b hb'
      simp [this, ih h.2 hb']

theorem find_key (bs : List Binding) (h : bs.Pairwise (fun a b => ¬ (a.id = b.id ∧ a.tag = b.tag)))
    (b : Binding) (hb : b ∈ bs) : bs.find? (fun a => a.id == b.id && a.tag == b.tag) = some b := by
  induction bs with
  | nil => cases hb
  | cons a as ih =>
    rw [List.pairwise_cons] at h
    rcases List.mem_cons.mp hb with rfl | hb'
    · simp
    · have := h.1 b hb'
      have hne : (a.id == b.id && a.tag == b.tag) = false := by
        simp only [Bool.and_eq_false_imp, beq_iff_eq, beq_eq_false_iff_ne]
        intro h1 h2; exact this ⟨h1, h2⟩
      simp only [List.find?_cons, hne]
      exact ih h.2 hb'

end Fcp.Cpp
