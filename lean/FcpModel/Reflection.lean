import FcpModel.PyCodecRefine
/-!
# Reflection: model of `FcpV2.reflection()` and of every `reflection()` method

Strings are lists of character codes (the wire format carries bytes).  Source positions
(`meta`) are whatever the parser recorded: they are inputs of the model.
-/
namespace Fcp.Refl

abbrev Str := List Nat

/-- type expressions with names as code lists -/
inductive RTy where
  | u (n : Nat) | i (n : Nat) | f32 | f64 | str
  | enum (name : Str) | struct (name : Str)
  | arr (t : RTy) (n : Nat) | dyn (t : RTy) | opt (t : RTy)
  deriving Repr, DecidableEq, Inhabited

structure RMeta where
  line : Int
  endLine : Int
  column : Int
  endColumn : Int
  startPos : Int
  endPos : Int
  filename : Str
  deriving Repr, DecidableEq, Inhabited

/-- extension values -/
inductive XV where
  | int (i : Int)
  | flt (repr : Str)     -- Python's repr of the float, as the harness passes it
  | str (s : Str)
  | arr (items : XV)     -- `cons`/`nil` chain
  | nil
  | cons (v : XV) (rest : XV)
  deriving Repr, DecidableEq, Inhabited

structure RField where
  name : Str
  id : Int
  ty : RTy
  unit : Option Str
  min : Option Nat      -- IEEE-754 word of the float
  max : Option Nat
  pos : Option RMeta
  deriving Repr, DecidableEq, Inhabited

structure RStruct where
  name : Str
  fields : List RField
  pos : Option RMeta
  deriving Repr, DecidableEq, Inhabited

structure REnumerator where
  name : Str
  value : Int
  pos : Option RMeta
  deriving Repr, DecidableEq, Inhabited

structure REnum where
  name : Str
  items : List REnumerator
  pos : Option RMeta
  deriving Repr, DecidableEq, Inhabited

structure RSignal where
  name : Str
  fields : List (Str × XV)
  pos : Option RMeta
  deriving Repr, DecidableEq, Inhabited

structure RImpl where
  name : Str
  protocol : Str
  type : Str
  fields : List (Str × XV)
  signals : List RSignal
  pos : Option RMeta
  deriving Repr, DecidableEq, Inhabited

structure RMethod where
  name : Str
  id : Int
  input : Str
  output : Str
  pos : Option RMeta
  deriving Repr, DecidableEq, Inhabited

structure RService where
  name : Str
  id : Int
  methods : List RMethod
  pos : Option RMeta
  deriving Repr, DecidableEq, Inhabited

structure RSchema where
  version : Int := 3000
  structs : List RStruct := []
  enums : List REnum := []
  impls : List RImpl := []
  services : List RService := []
  deriving Repr, DecidableEq, Inhabited

/-! ## building values -/

def mkList : List Val → Val
  | [] => .nil
  | v :: vs => .cons v (mkList vs)

def vStr (s : Str) : Val := .str s
def vOpt : Option Val → Val
  | none => .none
  | some v => .some v

/-- decimal digits of a natural number, as character codes -/
def digitsAux : Nat → Nat → List Nat → List Nat
  | 0, _, acc => acc
  | f+1, n, acc => if n < 10 then (48 + n) :: acc else digitsAux f (n / 10) ((48 + n % 10) :: acc)

def natCodes (n : Nat) : Str := digitsAux (n + 1) n []

def intCodes (i : Int) : Str :=
  if i < 0 then 45 :: natCodes i.natAbs else natCodes i.toNat

-- "Array", "DynamicArray", "Optional", "unsigned", "signed", "float", "double", "str", "Enum", "Struct", "f32", "f64"
def cArray : Str := [65, 114, 114, 97, 121]
def cDynamicArray : Str := [68, 121, 110, 97, 109, 105, 99, 65, 114, 114, 97, 121]
def cOptional : Str := [79, 112, 116, 105, 111, 110, 97, 108]
def cUnsigned : Str := [117, 110, 115, 105, 103, 110, 101, 100]
def cSigned : Str := [115, 105, 103, 110, 101, 100]
def cFloat : Str := [102, 108, 111, 97, 116]
def cDouble : Str := [100, 111, 117, 98, 108, 101]
def cStr : Str := [115, 116, 114]
def cEnum : Str := [69, 110, 117, 109]
def cStruct : Str := [83, 116, 114, 117, 99, 116]
def cF32 : Str := [102, 51, 50]
def cF64 : Str := [102, 54, 52]

/-- one `Type` record: (name, size, type) -/
def tyRec (name : Str) (size : Nat) (kind : Str) : Val :=
  mkList [vStr name, .int size, vStr kind]

/-- `Type.reflection()`: the flattened type chain -/
def chain : RTy → List Val
  | .u n => [tyRec (117 :: natCodes n) 1 cUnsigned]
  | .i n => [tyRec (105 :: natCodes n) 1 cSigned]
  | .f32 => [tyRec cF32 1 cFloat]
  | .f64 => [tyRec cF64 1 cDouble]
  | .str => [tyRec cStr 1 cStr]
  | .enum n => [tyRec n 1 cEnum]
  | .struct n => [tyRec n 1 cStruct]
  | .arr t n => tyRec cArray n cArray :: chain t
  | .dyn t => tyRec cDynamicArray 1 cDynamicArray :: chain t
  | .opt t => tyRec cOptional 1 cOptional :: chain t

def metaVal (m : RMeta) : Val :=
  mkList [.int m.line, .int m.endLine, .int m.column, .int m.endColumn, .int m.startPos, .int m.endPos,
          vStr m.filename]

def optMeta (m : Option RMeta) : Val := vOpt (m.map metaVal)

/-- Python `repr` of a `str`: single quotes unless the text has a `'` and no `"`; backslash,
the chosen quote, tab / line feed / carriage return and the other control characters escaped
(texts are byte lists: UTF-8; bytes of printable characters outside ASCII pass through `repr` unchanged, which is the domain the harness generates) -/
def hexDigit (n : Nat) : Nat := if n < 10 then 48 + n else 87 + n

def pyReprStr (s : Str) : Str :=
  let q : Nat := if s.contains 39 && !s.contains 34 then 34 else 39
  let esc (c : Nat) : Str :=
    if c = 92 then [92, 92]
    else if c = q then [92, q]
    else if c = 9 then [92, 116]
    else if c = 10 then [92, 110]
    else if c = 13 then [92, 114]
    else if c < 32 || c = 127 then [92, 120, hexDigit (c / 16), hexDigit (c % 16)]
    else [c]
  q :: (s.map esc).flatten ++ [q]

/-- Python `str(value)` of an extension value (strings inside lists are `repr`-ed) -/
def pyRepr : XV → Str
  | .int i => intCodes i
  | .flt r => r
  | .str s => pyReprStr s
  | .arr items => 91 :: pyItems items ++ [93]
  | .nil => []
  | .cons v r => pyRepr v
where
  pyItems : XV → Str
    | .cons v .nil => pyRepr v
    | .cons v r => pyRepr v ++ [44, 32] ++ pyItems r
    | _ => []

def pyStr : XV → Str
  | .str s => s
  | v => pyRepr v

def dictVal (kvs : List (Str × XV)) : Val :=
  mkList (kvs.map fun (k, v) => mkList [vStr k, vStr (pyStr v)])

def fieldVal (f : RField) : Val :=
  mkList [vStr f.name, .int f.id, mkList (chain f.ty), vOpt (f.unit.map vStr),
          vOpt (f.min.map fun w => .int w), vOpt (f.max.map fun w => .int w), optMeta f.pos]

def structVal (s : RStruct) : Val :=
  mkList [vStr s.name, mkList (s.fields.map fieldVal), optMeta s.pos]

def enumVal (e : REnum) : Val :=
  mkList [vStr e.name, mkList (e.items.map fun x => mkList [vStr x.name, .int x.value, optMeta x.pos]),
          optMeta e.pos]

def signalVal (s : RSignal) : Val := mkList [vStr s.name, dictVal s.fields, optMeta s.pos]

def implVal (i : RImpl) : Val :=
  mkList [vStr i.name, vStr i.protocol, vStr i.type, dictVal i.fields, mkList (i.signals.map signalVal),
          optMeta i.pos]

def methodVal (m : RMethod) : Val :=
  mkList [vStr m.name, .int m.id, vStr m.input, vStr m.output, optMeta m.pos]

def serviceVal (s : RService) : Val :=
  mkList [vStr s.name, .int s.id, mkList (s.methods.map methodVal), optMeta s.pos]

/-- `FcpV2.reflection()` as a value of the `Fcp` struct of reflection.fcp (fields in id order) -/
def reflect (S : RSchema) : Val :=
  mkList [mkList [.int 0x66, .int 0x63, .int 0x70], .int S.version,
          mkList (S.structs.map structVal), mkList (S.enums.map enumVal),
          mkList (S.impls.map implVal), mkList (S.services.map serviceVal)]

/-! ## the reflection schema (hand-written from reflection.fcp; re-checked against the
file by `Generated/ReflSchema.lean` on every run) -/

def fld (n : String) (id : Int) (t : Ty) (r : Ty) : Ty := .field n id t r

def tyMeta : Ty :=
  fld "line" 0 (.sint 32) <| fld "end_line" 1 (.sint 32) <| fld "column" 2 (.sint 32) <|
  fld "end_column" 3 (.sint 32) <| fld "start_pos" 4 (.sint 32) <| fld "end_pos" 5 (.sint 32) <|
  fld "filename" 6 .str .unit

def tyType : Ty := fld "name" 0 .str <| fld "size" 1 (.uint 32) <| fld "type" 2 .str .unit

def tyStructField : Ty :=
  fld "name" 0 .str <| fld "field_id" 1 (.uint 32) <| fld "type" 2 (.dyn tyType) <|
  fld "unit" 3 (.opt .str) <| fld "min_value" 4 (.opt .f64) <| fld "max_value" 5 (.opt .f64) <|
  fld "meta" 6 (.opt tyMeta) .unit

def tyStruct : Ty := fld "name" 0 .str <| fld "fields" 1 (.dyn tyStructField) <| fld "meta" 2 (.opt tyMeta) .unit

def tyEnumeration : Ty := fld "name" 0 .str <| fld "value" 1 (.sint 32) <| fld "meta" 2 (.opt tyMeta) .unit

def tyEnum : Ty := fld "name" 0 .str <| fld "enumeration" 1 (.dyn tyEnumeration) <| fld "meta" 2 (.opt tyMeta) .unit

def tyDictField : Ty := fld "name" 0 .str <| fld "value" 1 .str .unit

def tySignalBlock : Ty := fld "name" 0 .str <| fld "fields" 1 (.dyn tyDictField) <| fld "meta" 2 (.opt tyMeta) .unit

def tyImpl : Ty :=
  fld "name" 0 .str <| fld "protocol" 1 .str <| fld "type" 3 .str <| fld "fields" 4 (.dyn tyDictField) <|
  fld "signals" 5 (.dyn tySignalBlock) <| fld "meta" 6 (.opt tyMeta) .unit

def tyMethod : Ty :=
  fld "name" 0 .str <| fld "id" 1 (.uint 32) <| fld "input" 2 .str <| fld "output" 3 .str <|
  fld "meta" 4 (.opt tyMeta) .unit

def tyService : Ty :=
  fld "name" 0 .str <| fld "id" 1 (.uint 32) <| fld "methods" 2 (.dyn tyMethod) <| fld "meta" 3 (.opt tyMeta) .unit

/-- the closed type of struct `Fcp` in reflection.fcp -/
def reflTy : Ty :=
  fld "tag" 0 (.arr (.uint 8) 3) <| fld "version" 1 (.uint 16) <| fld "structs" 2 (.dyn tyStruct) <|
  fld "enums" 3 (.dyn tyEnum) <| fld "impls" 4 (.dyn tyImpl) <| fld "services" 5 (.dyn tyService) .unit

/-! ## the type chain is a faithful flattening -/

/-- rebuild a type from its chain (what the C++ run-time codec does after loading it) -/
def unchain : List Val → Option RTy
  | [] => none
  | .cons (.str name) (.cons (.int size) (.cons (.str kind) .nil)) :: rest =>
    if kind = cArray then (unchain rest).map (RTy.arr · size.toNat)
    else if kind = cDynamicArray then (unchain rest).map RTy.dyn
    else if kind = cOptional then (unchain rest).map RTy.opt
    else if kind = cEnum then (if rest.isEmpty then some (.enum name) else none)
    else if kind = cStruct then (if rest.isEmpty then some (.struct name) else none)
    else if kind = cFloat then (if rest.isEmpty then some .f32 else none)
    else if kind = cDouble then (if rest.isEmpty then some .f64 else none)
    else if kind = cStr then (if rest.isEmpty then some .str else none)
    else none  -- numeric names are parsed by the harness-side / C++ code; see `chain_kind`
  | _ => none

/-- the scalar at the leaf of the type is not `u<n>` / `i<n>` (whose width is spelled in the name) -/
def leafNonNumeric : RTy → Bool
  | .u _ => false
  | .i _ => false
  | .arr t _ => leafNonNumeric t
  | .dyn t => leafNonNumeric t
  | .opt t => leafNonNumeric t
  | _ => true

/-- **the flattened chain is faithful**: the type (containers in nesting order, array sizes,
the scalar family and user type names) is recovered from its chain -/
theorem unchain_chain (t : RTy) (h : leafNonNumeric t = true) : unchain (chain t) = some t := by
  induction t with
  | arr e n ih =>
    simp only [leafNonNumeric] at h
    simp [chain, unchain, tyRec, mkList, vStr, ih h]
  | dyn e ih =>
    simp only [leafNonNumeric] at h
    have : cDynamicArray ≠ cArray := by decide
    simp [chain, unchain, tyRec, mkList, vStr, ih h, this]
  | opt e ih =>
    simp only [leafNonNumeric] at h
    have h1 : cOptional ≠ cArray := by decide
    have h2 : cOptional ≠ cDynamicArray := by decide
    simp [chain, unchain, tyRec, mkList, vStr, ih h, h1, h2]
  | u n => simp [leafNonNumeric] at h
  | i n => simp [leafNonNumeric] at h
  | f32 =>
    have h1 : cFloat ≠ cArray := by decide
    have h2 : cFloat ≠ cDynamicArray := by decide
    have h3 : cFloat ≠ cOptional := by decide
    have h4 : cFloat ≠ cEnum := by decide
    have h5 : cFloat ≠ cStruct := by decide
    simp [chain, unchain, tyRec, mkList, vStr, h1, h2, h3, h4, h5]
  | f64 =>
    have h1 : cDouble ≠ cArray := by decide
    have h2 : cDouble ≠ cDynamicArray := by decide
    have h3 : cDouble ≠ cOptional := by decide
    have h4 : cDouble ≠ cEnum := by decide
    have h5 : cDouble ≠ cStruct := by decide
    have h6 : cDouble ≠ cFloat := by decide
    simp [chain, unchain, tyRec, mkList, vStr, h1, h2, h3, h4, h5, h6]
  | str =>
    have h1 : cStr ≠ cArray := by decide
    have h2 : cStr ≠ cDynamicArray := by decide
    have h3 : cStr ≠ cOptional := by decide
    have h4 : cStr ≠ cEnum := by decide
    have h5 : cStr ≠ cStruct := by decide
    have h6 : cStr ≠ cFloat := by decide
    have h7 : cStr ≠ cDouble := by decide
    simp [chain, unchain, tyRec, mkList, vStr, h1, h2, h3, h4, h5, h6, h7]
  | enum n =>
    have h1 : cEnum ≠ cArray := by decide
    have h2 : cEnum ≠ cDynamicArray := by decide
    have h3 : cEnum ≠ cOptional := by decide
    simp [chain, unchain, tyRec, mkList, vStr, h1, h2, h3]
  | struct n =>
    have h1 : cStruct ≠ cArray := by decide
    have h2 : cStruct ≠ cDynamicArray := by decide
    have h3 : cStruct ≠ cOptional := by decide
    have h4 : cStruct ≠ cEnum := by decide
    simp [chain, unchain, tyRec, mkList, vStr, h1, h2, h3, h4]

end Fcp.Refl
