import FcpModel.Reflection
/-!
# Which schemas have a reflection record that fits reflection.fcp

`C12_lossless` takes `wf reflTy (reflect S)` as its hypothesis: a statement about the *record*.
Here the same class is described on the *schema*: `InReflRange S` lists, declaration by
declaration, the bounds that the fixed-width fields of reflection.fcp impose (ids in `u32`,
enumerators and source positions in `i32`, version in `u16`, texts valid UTF-8 and shorter than
2^32, lists shorter than 2^32), and `wf_reflect` proves that the two coincide.  The recorded
findings `negative-field-id` and `enumerator-beyond-i32` are exactly two ways of leaving it.
-/
namespace Fcp.Refl
open Fcp
set_option linter.unusedSimpArgs false

def okStr (s : Str) : Bool := s.length < 2^32 && utf8Valid s
def okI32 (i : Int) : Bool := -(2^31 : Int) ≤ i && i < 2^31
def okU32 (i : Int) : Bool := 0 ≤ i && i < 2^32

def okMeta (m : RMeta) : Bool :=
  okI32 m.line && okI32 m.endLine && okI32 m.column && okI32 m.endColumn && okI32 m.startPos &&
  okI32 m.endPos && okStr m.filename

def okOptMeta : Option RMeta → Bool
  | none => true
  | some m => okMeta m

/-- every entry of the type chain: a text name, a size in `u32` -/
def okChain : RTy → Bool
  | .u n => okStr (117 :: natCodes n)
  | .i n => okStr (105 :: natCodes n)
  | .f32 | .f64 | .str => true
  | .enum n => okStr n
  | .struct n => okStr n
  | .arr t n => n < 2^32 && okChain t
  | .dyn t => okChain t
  | .opt t => okChain t

def okTy (t : RTy) : Bool := (chain t).length < 2^32 && okChain t

def okOptStr : Option Str → Bool
  | none => true
  | some s => okStr s

def okOptWord : Option Nat → Bool
  | none => true
  | some w => w < 2^64

def okField (f : RField) : Bool :=
  okStr f.name && okU32 f.id && okTy f.ty && okOptStr f.unit && okOptWord f.min && okOptWord f.max &&
  okOptMeta f.pos

def okStruct (s : RStruct) : Bool :=
  okStr s.name && (s.fields.length < 2^32 && s.fields.all okField) && okOptMeta s.pos

def okEnumerator (x : REnumerator) : Bool := okStr x.name && okI32 x.value && okOptMeta x.pos

def okEnum (e : REnum) : Bool :=
  okStr e.name && (e.items.length < 2^32 && e.items.all okEnumerator) && okOptMeta e.pos

/-- extension fields travel as text: the key and Python's `str(value)` -/
def okDict (kvs : List (Str × XV)) : Bool :=
  kvs.length < 2^32 && kvs.all fun kv => okStr kv.1 && okStr (pyStr kv.2)

def okSignal (s : RSignal) : Bool := okStr s.name && okDict s.fields && okOptMeta s.pos

def okImpl (i : RImpl) : Bool :=
  okStr i.name && okStr i.protocol && okStr i.type && okDict i.fields &&
  (i.signals.length < 2^32 && i.signals.all okSignal) && okOptMeta i.pos

def okMethod (m : RMethod) : Bool :=
  okStr m.name && okU32 m.id && okStr m.input && okStr m.output && okOptMeta m.pos

def okService (s : RService) : Bool :=
  okStr s.name && okU32 s.id && (s.methods.length < 2^32 && s.methods.all okMethod) && okOptMeta s.pos

/-- the schemas whose reflection record fits reflection.fcp -/
def InReflRange (S : RSchema) : Bool :=
  (0 ≤ S.version && S.version < 2^16) &&
  (S.structs.length < 2^32 && S.structs.all okStruct) &&
  (S.enums.length < 2^32 && S.enums.all okEnum) &&
  (S.impls.length < 2^32 && S.impls.all okImpl) &&
  (S.services.length < 2^32 && S.services.all okService)

/-! ## lists -/

@[simp] theorem vlen_mkList (vs : List Val) : vlen (mkList vs) = vs.length := by
  induction vs with
  | nil => rfl
  | cons v vs ih => simp [mkList, vlen, ih]

theorem wfList_mkList (p : Val → Bool) (vs : List Val) :
    wfList p vs.length (mkList vs) = vs.all p := by
  induction vs with
  | nil => rfl
  | cons v vs ih => simp [mkList, wfList, ih]

theorem wf_dyn_map {α} (t : Ty) (f : α → Val) (l : List α) :
    wf (.dyn t) (mkList (l.map f)) = (decide (l.length < 2^32) && l.all fun x => wf t (f x)) := by
  have h := wfList_mkList (wf t) (l.map f)
  simp only [List.length_map] at h
  simp [wf, h, List.all_map, Function.comp_def]

theorem wf_dyn_list (t : Ty) (l : List Val) :
    wf (.dyn t) (mkList l) = (decide (l.length < 2^32) && l.all (wf t)) := by
  have h := wfList_mkList (wf t) l
  simp [wf, h]

/-! ## components -/

theorem wf_cons (n : String) (id : Int) (t r : Ty) (v vs : Val) :
    wf (.field n id t r) (.cons v vs) = (wf t v && wf r vs) := by simp [wf]
theorem wf_nil : wf .unit .nil = true := by simp [wf]

theorem wf_str (s : Str) : wf .str (vStr s) = okStr s := by simp [wf, vStr, okStr]

theorem wf_i32 (i : Int) : wf (.sint 32) (.int i) = okI32 i := by simp [wf, okI32]
theorem wf_u32 (i : Int) : wf (.uint 32) (.int i) = okU32 i := by simp [wf, okU32]

theorem wf_meta (m : RMeta) : wf tyMeta (metaVal m) = okMeta m := by
  simp [tyMeta, fld, metaVal, mkList, wf, okMeta, okI32, okStr, vStr, Bool.and_assoc]

theorem wf_optMeta (m : Option RMeta) : wf (.opt tyMeta) (optMeta m) = okOptMeta m := by
  cases m with
  | none => rfl
  | some m => simp [optMeta, vOpt, wf, okOptMeta, wf_meta]

theorem wf_tyRec (name : Str) (size : Nat) (kind : Str) :
    wf tyType (tyRec name size kind) = (okStr name && decide (size < 2^32) && okStr kind) := by
  simp [tyType, fld, tyRec, mkList, wf, vStr, okStr, Bool.and_assoc]
  have h : ((size : Int) < 4294967296) ↔ (size < 4294967296) := by omega
  simp only [h]

theorem chain_all (t : RTy) : (chain t).all (wf tyType) = okChain t := by
  induction t with
  | arr e n ih =>
    have h : okStr cArray = true := by decide
    simp [chain, okChain, wf_tyRec, h, ih]
  | dyn e ih =>
    have h : okStr cDynamicArray = true := by decide
    simp [chain, okChain, wf_tyRec, h, ih]
  | opt e ih =>
    have h : okStr cOptional = true := by decide
    simp [chain, okChain, wf_tyRec, h, ih]
  | u n =>
    have h : okStr cUnsigned = true := by decide
    simp [chain, okChain, wf_tyRec, h]
  | i n =>
    have h : okStr cSigned = true := by decide
    simp [chain, okChain, wf_tyRec, h]
  | f32 =>
    have h : okStr cFloat = true := by decide
    have h' : okStr cF32 = true := by decide
    simp [chain, okChain, wf_tyRec, h, h']
  | f64 =>
    have h : okStr cDouble = true := by decide
    have h' : okStr cF64 = true := by decide
    simp [chain, okChain, wf_tyRec, h, h']
  | str =>
    have h : okStr cStr = true := by decide
    simp [chain, okChain, wf_tyRec, h]
  | enum n =>
    have h : okStr cEnum = true := by decide
    simp [chain, okChain, wf_tyRec, h]
  | struct n =>
    have h : okStr cStruct = true := by decide
    simp [chain, okChain, wf_tyRec, h]

theorem wf_chain (t : RTy) : wf (.dyn tyType) (mkList (chain t)) = okTy t := by
  rw [wf_dyn_list, chain_all]; rfl

theorem wf_optStr (u : Option Str) : wf (.opt .str) (vOpt (u.map vStr)) = okOptStr u := by
  cases u with
  | none => rfl
  | some s => simp [vOpt, wf, okOptStr, vStr, okStr]

theorem wf_optWord (w : Option Nat) : wf (.opt .f64) (vOpt (w.map fun w => .int w)) = okOptWord w := by
  cases w with
  | none => rfl
  | some w =>
    have h : ((w : Int) < 18446744073709551616) ↔ (w < 18446744073709551616) := by omega
    simp [vOpt, wf, okOptWord, h]

theorem wf_field (f : RField) : wf tyStructField (fieldVal f) = okField f := by
  simp only [tyStructField, fld, fieldVal, mkList, wf_cons, wf_nil, wf_str, wf_u32, wf_i32, wf_chain, wf_optStr, wf_optWord, wf_optMeta,
    okField, Bool.and_true, Bool.and_assoc]

theorem wf_struct (s : RStruct) : wf tyStruct (structVal s) = okStruct s := by
  simp only [tyStruct, fld, structVal, mkList, wf_cons, wf_nil, wf_str, wf_u32, wf_i32, wf_dyn_map, wf_field, wf_optMeta, okStruct,
    Bool.and_true, Bool.and_assoc]

theorem wf_enumerator (x : REnumerator) :
    wf tyEnumeration ((vStr x.name).cons ((Val.int x.value).cons ((optMeta x.pos).cons Val.nil))) = okEnumerator x := by
  simp only [tyEnumeration, fld, mkList, wf_cons, wf_nil, wf_str, wf_u32, wf_i32, wf_optMeta, okEnumerator, Bool.and_true, Bool.and_assoc]

theorem wf_enum (e : REnum) : wf tyEnum (enumVal e) = okEnum e := by
  simp only [tyEnum, fld, enumVal, mkList, wf_cons, wf_nil, wf_str, wf_u32, wf_i32, wf_dyn_map, wf_enumerator, wf_optMeta, okEnum,
    Bool.and_true, Bool.and_assoc]

theorem wf_dict (kvs : List (Str × XV)) : wf (.dyn tyDictField) (dictVal kvs) = okDict kvs := by
  unfold dictVal okDict
  rw [wf_dyn_map]
  congr 1
  apply List.all_congr rfl
  intro kv
  obtain ⟨k, v⟩ := kv
  simp only [tyDictField, fld, mkList, wf_cons, wf_nil, wf_str, wf_u32, wf_i32, Bool.and_true]

theorem wf_signal (s : RSignal) : wf tySignalBlock (signalVal s) = okSignal s := by
  simp only [tySignalBlock, fld, signalVal, mkList, wf_cons, wf_nil, wf_str, wf_u32, wf_i32, wf_dict, wf_optMeta, okSignal, Bool.and_true,
    Bool.and_assoc]

theorem wf_impl (i : RImpl) : wf tyImpl (implVal i) = okImpl i := by
  simp only [tyImpl, fld, implVal, mkList, wf_cons, wf_nil, wf_str, wf_u32, wf_i32, wf_dict, wf_dyn_map, wf_signal, wf_optMeta, okImpl,
    Bool.and_true, Bool.and_assoc]

theorem wf_method (m : RMethod) : wf tyMethod (methodVal m) = okMethod m := by
  simp only [tyMethod, fld, methodVal, mkList, wf_cons, wf_nil, wf_str, wf_u32, wf_i32, wf_optMeta, okMethod, Bool.and_true, Bool.and_assoc]

theorem wf_service (s : RService) : wf tyService (serviceVal s) = okService s := by
  simp only [tyService, fld, serviceVal, mkList, wf_cons, wf_nil, wf_str, wf_u32, wf_i32, wf_dyn_map, wf_method, wf_optMeta, okService,
    Bool.and_true, Bool.and_assoc]

/-- **the record fits reflection.fcp exactly for the schemas in range** -/
theorem wf_reflect (S : RSchema) : wf reflTy (reflect S) = InReflRange S := by
  simp only [reflTy, fld, reflect, mkList, wf_cons, wf_nil, wf_str, wf_u32, wf_i32, wfList, wf_dyn_map, wf_struct, wf_enum, wf_impl,
    wf_service, InReflRange, Bool.and_true, Bool.and_assoc]
  have h : wf ((Ty.uint 8).arr 3) ((Val.int 102).cons ((Val.int 99).cons ((Val.int 112).cons Val.nil))) = true := by
    decide
  rw [h]
  simp [wf, Bool.and_assoc]

/-! ## the type part in natural terms: widths, sizes, names and nesting depth -/

theorem digitsAux_ok (f n : Nat) (acc : List Nat) (h : acc.all (· < 128) = true) :
    (digitsAux f n acc).all (· < 128) = true ∧ (digitsAux f n acc).length ≤ f + acc.length := by
  induction f generalizing n acc with
  | zero => simp [digitsAux, h]
  | succ f ih =>
    unfold digitsAux
    split
    · refine ⟨?_, by simp; omega⟩
      simp only [List.all_cons, h, Bool.and_true, decide_eq_true_eq]; omega
    · have h' : ((48 + n % 10) :: acc).all (· < 128) = true := by
        simp only [List.all_cons, h, Bool.and_true, decide_eq_true_eq]; omega
      have := ih (n / 10) _ h'
      refine ⟨this.1, ?_⟩
      have h2 := this.2
      simp only [List.length_cons] at h2
      omega

theorem natCodes_ok (n : Nat) : (natCodes n).all (· < 128) = true ∧ (natCodes n).length ≤ n + 1 := by
  have := digitsAux_ok (n + 1) n [] rfl
  simpa [natCodes] using this

/-- widths and array sizes below 2^32 − 2 (the real ones are at most 64), type names that are texts -/
def smallTy : RTy → Bool
  | .u n => n < 2^32 - 2
  | .i n => n < 2^32 - 2
  | .f32 | .f64 | .str => true
  | .enum n => okStr n
  | .struct n => okStr n
  | .arr t n => n < 2^32 && smallTy t
  | .dyn t => smallTy t
  | .opt t => smallTy t

def RTy.depth : RTy → Nat
  | .arr t _ => t.depth + 1
  | .dyn t => t.depth + 1
  | .opt t => t.depth + 1
  | _ => 0

theorem chain_length (t : RTy) : (chain t).length = t.depth + 1 := by
  induction t <;> simp [chain, RTy.depth, *]

theorem okChain_of_small (t : RTy) (h : smallTy t = true) : okChain t = true := by
  induction t with
  | u n =>
    have := natCodes_ok n
    simp only [smallTy, decide_eq_true_eq] at h
    have hv : utf8Valid (117 :: natCodes n) = true :=
      utf8Valid_of_ascii _ (by simp only [List.all_cons, this.1, Bool.and_true, decide_eq_true_eq]; omega)
    simp only [okChain, okStr, List.length_cons, hv, Bool.and_true, decide_eq_true_eq]
    omega
  | i n =>
    have := natCodes_ok n
    simp only [smallTy, decide_eq_true_eq] at h
    have hv : utf8Valid (105 :: natCodes n) = true :=
      utf8Valid_of_ascii _ (by simp only [List.all_cons, this.1, Bool.and_true, decide_eq_true_eq]; omega)
    simp only [okChain, okStr, List.length_cons, hv, Bool.and_true, decide_eq_true_eq]
    omega
  | arr e n ih =>
    simp only [smallTy, Bool.and_eq_true, decide_eq_true_eq] at h
    simp [okChain, h.1, ih h.2]
  | dyn e ih => exact ih h
  | opt e ih => exact ih h
  | f32 => rfl
  | f64 => rfl
  | str => rfl
  | enum n => exact h
  | struct n => exact h

theorem okTy_of_small (t : RTy) (h : smallTy t = true) (hd : t.depth + 1 < 2^32) : okTy t = true := by
  simp [okTy, chain_length, okChain_of_small t h]
  omega

end Fcp.Refl
