import FcpModel.Syntax
/-!
# The lexer inverts printing (character level)

`Render ts line cs`: the text `cs` is a printing of the token list `ts` starting on line `line`
— every token preceded by any run of ignorables (spaces, tabs, line feeds, `//` comments,
`/* */` comments), word-like tokens separated from what follows, the recorded line of each
token being the line it starts on.  `lex_render`: the reference lexer maps every such text
back to exactly `ts`.  Together with `parseFile_print` (token level) this closes the reference
front end from characters to the tree.
-/
namespace Fcp.Syntax

/-! ## ignorables -/

/-- a `/* */` body: no `*/` inside -/
def noClose : List Char → Bool
  | '*' :: '/' :: _ => false
  | _ :: cs => noClose cs
  | [] => true

def nlCount : List Char → Nat
  | [] => 0
  | c :: cs => (if c == '\n' then 1 else 0) + nlCount cs

theorem skipBlock_body (body cs : List Char) (n : Nat) (h : noClose body = true) :
    skipBlock (body ++ '*' :: '/' :: cs) n = some (cs, n + nlCount body) := by
  fun_induction noClose body generalizing n with
  | case1 t => simp at h
  | case2 c b hne ih =>
    have hb := ih (if c == '\n' then n + 1 else n) h
    have hstep : skipBlock (c :: (b ++ '*' :: '/' :: cs)) n =
        skipBlock (b ++ '*' :: '/' :: cs) (if c == '\n' then n + 1 else n) := by
      rw [skipBlock]
      intro t hc ht
      cases b with
      | nil => simp at ht
      | cons d b' =>
        simp only [List.cons_append, List.cons.injEq] at ht
        exact hne b' hc (by rw [ht.1])
    simp only [List.cons_append]
    rw [hstep, hb]
    simp only [nlCount]
    split <;> simp <;> omega
  | case3 => simp [skipBlock, nlCount]

/-- a run of ignorables and the number of line feeds in it -/
inductive Ign : List Char → Nat → Prop
  | nil : Ign [] 0
  | space (cs n) : Ign cs n → Ign (' ' :: cs) n
  | tab (cs n) : Ign cs n → Ign ('\t' :: cs) n
  | nl (cs n) : Ign cs n → Ign ('\n' :: cs) (n + 1)
  | line (body cs n) : body.all (· != '\n') = true → Ign cs n → Ign ('/' :: '/' :: (body ++ '\n' :: cs)) (n + 1)
  | block (body cs n) : noClose body = true → Ign cs n →
      Ign ('/' :: '*' :: (body ++ '*' :: '/' :: cs)) (nlCount body + n)

theorem takeWhile_append (p : Char → Bool) (a r : List Char) (ha : a.all p = true)
    (hr : r.head?.all (fun c => !p c) = true) : takeWhile p (a ++ r) = (a, r) := by
  induction a with
  | nil =>
    cases r with
    | nil => rfl
    | cons c r => simp at hr; simp [takeWhile, hr]
  | cons c a ih =>
    simp only [List.all_cons, Bool.and_eq_true] at ha
    simp [takeWhile, ha.1, ih ha.2]

theorem lex_ign (ig : List Char) (n : Nat) (h : Ign ig n) (rest : List Char) (line : Nat) (acc : List LTok)
    (k f : Nat) (hf : ig.length + k ≤ f) :
    ∃ f', k ≤ f' ∧ lexAux f (ig ++ rest) line acc = lexAux f' rest (line + n) acc := by
  induction h generalizing line f with
  | nil => exact ⟨f, by simpa using hf, by simp⟩
  | space cs n _ ih =>
    obtain ⟨f0, rfl⟩ : ∃ f0, f = f0 + 1 := ⟨f - 1, by simp at hf; omega⟩
    obtain ⟨f', hk, he⟩ := ih line f0 (by simp at hf; omega)
    exact ⟨f', hk, by rw [← he]; simp [lexAux]⟩
  | tab cs n _ ih =>
    obtain ⟨f0, rfl⟩ : ∃ f0, f = f0 + 1 := ⟨f - 1, by simp at hf; omega⟩
    obtain ⟨f', hk, he⟩ := ih line f0 (by simp at hf; omega)
    exact ⟨f', hk, by rw [← he]; simp [lexAux]⟩
  | nl cs n _ ih =>
    obtain ⟨f0, rfl⟩ : ∃ f0, f = f0 + 1 := ⟨f - 1, by simp at hf; omega⟩
    obtain ⟨f', hk, he⟩ := ih (line + 1) f0 (by simp at hf; omega)
    refine ⟨f', hk, ?_⟩
    have : line + (n + 1) = line + 1 + n := by omega
    rw [this, ← he]; simp [lexAux]
  | line body cs n hb _ ih =>
    obtain ⟨f1, rfl⟩ : ∃ f1, f = f1 + 2 := ⟨f - 2, by simp at hf; omega⟩
    obtain ⟨f', hk, he⟩ := ih (line + 1) f1 (by simp at hf; omega)
    refine ⟨f', hk, ?_⟩
    have : line + (n + 1) = line + 1 + n := by omega
    rw [this, ← he]
    have htw : takeWhile (· != '\n') (body ++ '\n' :: (cs ++ rest)) = (body, '\n' :: (cs ++ rest)) :=
      takeWhile_append _ _ _ hb (by simp)
    simp [lexAux, htw]
  | block body cs n hb _ ih =>
    obtain ⟨f0, rfl⟩ : ∃ f0, f = f0 + 1 := ⟨f - 1, by simp at hf; omega⟩
    obtain ⟨f', hk, he⟩ := ih (line + nlCount body) f0 (by simp at hf; omega)
    refine ⟨f', hk, ?_⟩
    have : line + (nlCount body + n) = line + nlCount body + n := by omega
    rw [this, ← he]
    have hs := skipBlock_body body (cs ++ rest) 0 hb
    simp only [Nat.zero_add] at hs
    simp [lexAux, hs]

/-! ## character classes -/

theorem digit_not_idStart (c : Char) (h : c.isDigit = true) : isIdStart c = false := by
  simp only [Char.isDigit, isIdStart, Char.isAlpha, Char.isUpper, Char.isLower, Bool.and_eq_true, decide_eq_true_eq,
    Bool.or_eq_false_iff, Bool.and_eq_false_iff, decide_eq_false_iff_not, beq_eq_false_iff_ne, ne_eq] at *
  have h2 := h.2
  refine ⟨⟨?_, ?_⟩, ?_⟩
  · first
      | (left; intro h3; exact absurd (UInt32.le_trans h3 h2) (by decide))
      | (rintro ⟨h3, _⟩; exact absurd (UInt32.le_trans h3 h2) (by decide))
  · first
      | (left; intro h3; exact absurd (UInt32.le_trans h3 h2) (by decide))
      | (rintro ⟨h3, _⟩; exact absurd (UInt32.le_trans h3 h2) (by decide))
  · rintro rfl; revert h2; decide

theorem digit_ne (c : Char) (h : c.isDigit = true) :
    c ≠ ' ' ∧ c ≠ '\t' ∧ c ≠ '\n' ∧ c ≠ '/' ∧ c ≠ '"' := by
  refine ⟨?_, ?_, ?_, ?_, ?_⟩ <;> (rintro rfl; revert h; decide)

theorem idStart_ne (c : Char) (h : isIdStart c = true) :
    c ≠ ' ' ∧ c ≠ '\t' ∧ c ≠ '\n' ∧ c ≠ '/' ∧ c ≠ '"' := by
  refine ⟨?_, ?_, ?_, ?_, ?_⟩ <;> (rintro rfl; revert h; decide)

def symChars : List Char := "{}[](),:;@|=.".toList

theorem sym_facts : ∀ c ∈ symChars,
    c ≠ ' ' ∧ c ≠ '\t' ∧ c ≠ '\n' ∧ c ≠ '/' ∧ c ≠ '"' ∧ isIdStart c = false ∧ c.isDigit = false ∧
    c ≠ '+' ∧ c ≠ '-' ∧ isSym c = true := by decide

/-! ## token texts -/

theorem lex_ident (c : Char) (a rest : List Char) (hc : isIdStart c = true) (ha : a.all isIdChar = true)
    (hr : rest.head?.all (fun c => !isIdChar c) = true) (f line : Nat) (acc : List LTok) :
    lexAux (f + 1) (c :: (a ++ rest)) line acc =
      lexAux f rest line (⟨.ident (String.ofList (c :: a)), line⟩ :: acc) := by
  obtain ⟨h1, h2, h3, h4, h5⟩ := idStart_ne c hc
  have htw := takeWhile_append isIdChar a rest ha hr
  simp [lexAux, h1, h2, h3, h4, h5, hc, htw]

theorem lex_sym (c : Char) (rest : List Char) (hc : c ∈ symChars)
    (hr : c = '.' → rest.head?.all (fun d => !d.isDigit) = true) (f line : Nat) (acc : List LTok) :
    lexAux (f + 1) (c :: rest) line acc = lexAux f rest line (⟨.sym c, line⟩ :: acc) := by
  obtain ⟨h1, h2, h3, h4, h5, h6, h7, h8, h9, h10⟩ := sym_facts c hc
  by_cases hd : c = '.'
  · subst hd
    have hr' := hr rfl
    cases rest with
    | nil => simp [lexAux, isIdStart]
    | cons d r =>
      simp at hr'
      simp [lexAux, isIdStart, hr']
  · simp [lexAux, h1, h2, h3, h4, h5, h6, h7, h8, h9, h10, hd]

/-- the inside of a string literal: no bare quote or line feed, backslashes in pairs with what follows -/
def strOk : List Char → Bool
  | [] => true
  | '"' :: _ => false
  | '\n' :: _ => false
  | '\\' :: c :: cs => c != '\n' && strOk cs
  | ['\\'] => false
  | _ :: cs => strOk cs

theorem strBody_print (body rest : List Char) (h : strOk body = true) :
    strBody (body ++ '"' :: rest) = some (body, rest) := by
  fun_induction strOk body with
  | case1 => simp [strBody]
  | case2 => simp at h
  | case3 => simp at h
  | case4 c cs ih =>
    simp only [Bool.and_eq_true, bne_iff_ne, ne_eq] at h
    simp [strBody, h.1, ih h.2]
  | case5 => simp at h
  | case6 c cs h1 h2 h3 h4 ih =>
    have hb : c ≠ '\\' := by
      intro e
      cases cs with
      | nil => exact h4 e rfl
      | cons d ds => exact h3 d ds e rfl
    have hq : c ≠ '"' := fun e => h1 e
    have hn : c ≠ '\n' := fun e => h2 e
    rw [List.cons_append, strBody]
    · rw [ih h]; rfl
    all_goals (intros; simp_all)

theorem lex_str (body rest : List Char) (h : strOk body = true) (f line : Nat) (acc : List LTok) :
    lexAux (f + 1) ('"' :: (body ++ '"' :: rest)) line acc =
      lexAux f rest line (⟨.str (String.ofList body), line⟩ :: acc) := by
  simp [lexAux, strBody_print body rest h]

/-! ## numbers: digits, an optional fraction, an optional exponent -/

inductive Frac : List Char → Prop
  | none : Frac []
  | some (d : List Char) : d.all Char.isDigit = true → Frac ('.' :: d)

inductive Expo : List Char → Prop
  | none : Expo []
  | mk (e : Char) (sg d : List Char) : (e = 'e' ∨ e = 'E') → (sg = [] ∨ sg = ['+'] ∨ sg = ['-']) →
      d ≠ [] → d.all Char.isDigit = true → Expo (e :: (sg ++ d))

/-- what may follow a number: nothing, or a character that cannot continue it -/
def numSep (rest : List Char) : Bool :=
  rest.head?.all fun c => !c.isDigit && c != '.' && c != 'e' && c != 'E'

theorem numSep_head (rest : List Char) (h : numSep rest = true) :
    rest.head?.all (fun c => !c.isDigit) = true := by
  cases rest with
  | nil => rfl
  | cons c r => simp [numSep] at h ⊢; exact h.1.1.1

/-- the exponent part, as `numBody` reads it -/
def expPart (r2 : List Char) : List Char × List Char :=
  match r2 with
  | e :: r =>
    if e == 'e' || e == 'E' then
      let (sg, r') : List Char × List Char := match r with
        | '+' :: t => (['+'], t)
        | '-' :: t => (['-'], t)
        | _ => ([], r)
      let (d, r'') := takeWhile Char.isDigit r'
      if d.isEmpty then ([], r2) else (e :: sg ++ d, r'')
    else ([], r2)
  | [] => ([], r2)

theorem expPart_print (ep rest : List Char) (he : Expo ep) (hs : numSep rest = true) :
    expPart (ep ++ rest) = (ep, rest) := by
  cases he with
  | none =>
    cases rest with
    | nil => rfl
    | cons c r =>
      simp [numSep] at hs
      simp [expPart, hs.1.2, hs.2]
  | mk e sg d hE hsg hd hdig =>
    have htw := takeWhile_append Char.isDigit d rest hdig (numSep_head rest hs)
    obtain ⟨d0, ds, rfl⟩ : ∃ d0 ds, d = d0 :: ds := by
      cases d with
      | nil => exact absurd rfl hd
      | cons a b => exact ⟨a, b, rfl⟩
    have hd0 : d0.isDigit = true := by simp at hdig; exact hdig.1
    have hp : d0 ≠ '+' := by rintro rfl; revert hd0; decide
    have hm : d0 ≠ '-' := by rintro rfl; revert hd0; decide
    simp only [List.cons_append] at htw
    rcases hE with rfl | rfl <;> rcases hsg with rfl | rfl | rfl <;>
      simp [expPart, htw, hp, hm]

/-- the fraction part, as `numBody` reads it -/
def fracPart (ip r1 : List Char) : List Char × List Char :=
  match r1 with
  | '.' :: r =>
    let (d, r') := takeWhile Char.isDigit r
    if ip.isEmpty && d.isEmpty then ([], r1) else ('.' :: d, r')
  | _ => ([], r1)

theorem numBody_eq (cs : List Char) : numBody cs =
    (let (ip, r1) := takeWhile Char.isDigit cs
     let (fp, r2) := fracPart ip r1
     if ip.isEmpty && fp.isEmpty then none
     else
       let (ep, r3) := expPart r2
       some (ip ++ fp ++ ep, r3)) := rfl

theorem fracPart_print (ip fp tail : List Char) (hne : ip ≠ []) (hf : Frac fp)
    (ht : fp = [] → tail.head?.all (fun c => c != '.') = true)
    (hd : fp ≠ [] → tail.head?.all (fun c => !c.isDigit) = true) :
    fracPart ip (fp ++ tail) = (fp, tail) := by
  cases hf with
  | none =>
    have := ht rfl
    cases tail with
    | nil => rfl
    | cons c r =>
      simp at this
      simp [fracPart, this]
  | some d hdig =>
    have htw := takeWhile_append Char.isDigit d tail hdig (hd (by simp))
    cases ip with
    | nil => exact absurd rfl hne
    | cons a b => simp [fracPart, htw]

theorem numBody_print (ip fp ep rest : List Char) (hne : ip ≠ []) (hip : ip.all Char.isDigit = true)
    (hf : Frac fp) (he : Expo ep) (hs : numSep rest = true) :
    numBody (ip ++ (fp ++ (ep ++ rest))) = some (ip ++ fp ++ ep, rest) := by
  -- what follows each part does not continue it
  have hEp : (ep ++ rest).head?.all (fun c => !c.isDigit && c != '.') = true := by
    cases he with
    | none =>
      cases rest with
      | nil => rfl
      | cons c r => simp [numSep] at hs; simp [hs.1.1.1, hs.1.1.2]
    | mk e sg d hE _ _ _ => rcases hE with rfl | rfl <;> simp <;> decide
  have hFp : (fp ++ (ep ++ rest)).head?.all (fun c => !c.isDigit) = true := by
    cases hf with
    | none =>
      cases h : ep ++ rest with
      | nil => rfl
      | cons c r => rw [h] at hEp; simp at hEp; simp [hEp.1]
    | some d _ => simp
  have h1 := takeWhile_append Char.isDigit ip (fp ++ (ep ++ rest)) hip hFp
  have h2 := fracPart_print ip fp (ep ++ rest) hne hf
    (fun _ => by
      cases h : ep ++ rest with
      | nil => rfl
      | cons c r => rw [h] at hEp; simp at hEp; simp [hEp.2])
    (fun _ => by
      cases h : ep ++ rest with
      | nil => rfl
      | cons c r => rw [h] at hEp; simp at hEp; simp [hEp.1])
  have h3 := expPart_print ep rest he hs
  rw [numBody_eq]
  simp only [h1, h2, h3]
  cases ip with
  | nil => exact absurd rfl hne
  | cons a b => simp

theorem lex_num (c : Char) (ip' fp ep rest : List Char) (hc : c.isDigit = true)
    (hip : ip'.all Char.isDigit = true) (hf : Frac fp) (he : Expo ep) (hs : numSep rest = true)
    (f line : Nat) (acc : List LTok) :
    lexAux (f + 1) (c :: (ip' ++ (fp ++ (ep ++ rest)))) line acc =
      lexAux f rest line (⟨.num (String.ofList ((c :: ip') ++ fp ++ ep)), line⟩ :: acc) := by
  obtain ⟨h1, h2, h3, h4, h5⟩ := digit_ne c hc
  have h6 := digit_not_idStart c hc
  have hnb := numBody_print (c :: ip') fp ep rest (by simp) (by simp [hc, hip]) hf he hs
  simp only [List.cons_append] at hnb
  simp [lexAux, h1, h2, h3, h4, h5, h6, hc, hnb]

theorem lex_snum (sg : Char) (ip fp ep rest : List Char) (hsg : sg = '+' ∨ sg = '-') (hne : ip ≠ [])
    (hip : ip.all Char.isDigit = true) (hf : Frac fp) (he : Expo ep) (hs : numSep rest = true)
    (f line : Nat) (acc : List LTok) :
    lexAux (f + 1) (sg :: (ip ++ (fp ++ (ep ++ rest)))) line acc =
      lexAux f rest line (⟨.num (String.ofList (sg :: (ip ++ fp ++ ep))), line⟩ :: acc) := by
  have hnb := numBody_print ip fp ep rest hne hip hf he hs
  rcases hsg with rfl | rfl <;> simp [lexAux, isIdStart, hnb]

/-! ## printing and the inverse -/

/-- the text of one token -/
inductive TokText : Tok → List Char → Prop
  | ident (c : Char) (a : List Char) : isIdStart c = true → a.all isIdChar = true →
      TokText (.ident (String.ofList (c :: a))) (c :: a)
  | num (c : Char) (ip' fp ep : List Char) : c.isDigit = true → ip'.all Char.isDigit = true → Frac fp → Expo ep →
      TokText (.num (String.ofList ((c :: ip') ++ fp ++ ep))) (c :: (ip' ++ (fp ++ ep)))
  | snum (sg : Char) (ip fp ep : List Char) : (sg = '+' ∨ sg = '-') → ip ≠ [] → ip.all Char.isDigit = true →
      Frac fp → Expo ep → TokText (.num (String.ofList (sg :: (ip ++ fp ++ ep)))) (sg :: (ip ++ (fp ++ ep)))
  | str (body : List Char) : strOk body = true → TokText (.str (String.ofList body)) ('"' :: (body ++ ['"']))
  | sym (c : Char) : c ∈ symChars → TokText (.sym c) [c]

/-- what may follow the text of a token, so that the token ends where its text ends -/
def TokSep : Tok → List Char → Prop
  | .ident _, rest => rest.head?.all (fun c => !isIdChar c) = true
  | .num _, rest => numSep rest = true
  | .str _, _ => True
  | .sym c, rest => c = '.' → rest.head?.all (fun d => !d.isDigit) = true

theorem TokText.length_pos {t : Tok} {txt : List Char} (h : TokText t txt) : 1 ≤ txt.length := by
  cases h <;> simp

theorem lex_tok (t : Tok) (txt : List Char) (h : TokText t txt) (rest : List Char) (hs : TokSep t rest)
    (f line : Nat) (acc : List LTok) :
    lexAux (f + 1) (txt ++ rest) line acc = lexAux f rest line (⟨t, line⟩ :: acc) := by
  cases h with
  | ident c a hc ha => exact lex_ident c a rest hc ha hs f line acc
  | num c ip' fp ep hc hip hf he =>
    have := lex_num c ip' fp ep rest hc hip hf he hs f line acc
    simpa [List.append_assoc] using this
  | snum sg ip fp ep hsg hne hip hf he =>
    have := lex_snum sg ip fp ep rest hsg hne hip hf he hs f line acc
    simpa [List.append_assoc] using this
  | str body hb =>
    have := lex_str body rest hb f line acc
    simpa [List.append_assoc] using this
  | sym c hc => exact lex_sym c rest hc hs f line acc

/-- `Render ts line cs`: `cs` is a printing of the tokens `ts` that starts on line `line` -/
inductive Render : List LTok → Nat → List Char → Prop
  | nil (ig : List Char) (n line : Nat) : Ign ig n → Render [] line ig
  | comment (ig : List Char) (n : Nat) (body : List Char) (line : Nat) : Ign ig n →
      body.all (· != '\n') = true → Render [] line (ig ++ '/' :: '/' :: body)
  | cons (ig : List Char) (n : Nat) (t : Tok) (txt rest : List Char) (ts : List LTok) (line : Nat) :
      Ign ig n → TokText t txt → TokSep t rest → Render ts (line + n) rest →
      Render (⟨t, line + n⟩ :: ts) line (ig ++ (txt ++ rest))

theorem lexAux_render (ts : List LTok) (line : Nat) (cs : List Char) (h : Render ts line cs) :
    ∀ (acc : List LTok) (f : Nat), cs.length + 1 ≤ f → lexAux f cs line acc = .ok (acc.reverse ++ ts) := by
  induction h with
  | nil ig n line hig =>
    intro acc f hf
    obtain ⟨f', hk, he⟩ := lex_ign ig n hig [] line acc 1 f hf
    obtain ⟨f'', rfl⟩ : ∃ f'', f' = f'' + 1 := ⟨f' - 1, by omega⟩
    simp only [List.append_nil] at he
    rw [he]; simp [lexAux]
  | comment ig n body line hig hb =>
    intro acc f hf
    obtain ⟨f', hk, he⟩ := lex_ign ig n hig ('/' :: '/' :: body) line acc 2 f (by simp at hf; omega)
    obtain ⟨f'', rfl⟩ : ∃ f'', f' = f'' + 2 := ⟨f' - 2, by omega⟩
    rw [he]
    have htw : takeWhile (· != '\n') body = (body, []) := by
      have := takeWhile_append (· != '\n') body [] hb rfl
      simpa using this
    simp [lexAux, htw]
  | cons ig n t txt rest ts line hig htxt hsep _ ih =>
    intro acc f hf
    have hl := htxt.length_pos
    obtain ⟨f', hk, he⟩ := lex_ign ig n hig (txt ++ rest) line acc (txt.length + rest.length + 1) f
      (by simp at hf; omega)
    obtain ⟨f'', rfl⟩ : ∃ f'', f' = f'' + 1 := ⟨f' - 1, by omega⟩
    rw [he, lex_tok t txt htxt rest hsep f'' (line + n) acc, ih _ f'' (by omega)]
    simp

/-- **the lexer inverts printing**: every printing of a token list, with any ignorables between
the tokens, lexes back to exactly that list (tokens and the lines they start on) -/
theorem lex_render (ts : List LTok) (cs : List Char) (h : Render ts 1 cs) :
    lex (String.ofList cs) = .ok ts := by
  have := lexAux_render ts 1 cs h [] (cs.length + 1) (Nat.le_refl _)
  simpa [lex] using this

end Fcp.Syntax
