import FcpModel.Syntax
/-!
# The lexer inverts printing (character level)

`Render ts line cs`: the text `cs` is a printing of the token list `ts` starting on line `line`
— every token preceded by any run of ignorables (spaces, tabs, line feeds, `//` comments,
`/* */` comments), word-like tokens separated from what follows, the recorded line of each
token being the line it starts on.  `lex_render`: the reference lexer maps every such text
back to exactly `ts`.  Together with `parseFile_print` (token level) this closes the reference
front end from characters to the tree.
-/
namespace Fcp.Syntax

/-! ## ignorables -/

/-- a `/* */` body: no `*/` inside -/
def noClose : List Char → Bool
  | '*' :: '/' :: _ => false
  | _ :: cs => noClose cs
  | [] => true

def nlCount : List Char → Nat
  | [] => 0
  | c :: cs => (if c == '\n' then 1 else 0) + nlCount cs

theorem skipBlock_body (body cs : List Char) (n : Nat) (h : noClose body = true) :
    skipBlock (body ++ '*' :: '/' :: cs) n = some (cs, n + nlCount body) := by
  fun_induction noClose body generalizing n with
  | case1 t => simp at h
  | case2 c b hne ih =>
    have hb := ih (if c == '\n' then n + 1 else n) h
    have hstep : skipBlock (c :: (b ++ '*' :: '/' :: cs)) n =
        skipBlock (b ++ '*' :: '/' :: cs) (if c == '\n' then n + 1 else n) := by
      rw [skipBlock]
      intro t hc ht
      cases b with
      | nil => simp at ht
      | cons d b' =>
        simp only [List.cons_append, List.cons.injEq] at ht
        exact hne b' hc (by rw [ht.1])
    simp only [List.cons_append]
    rw [hstep, hb]
    simp only [nlCount]
    split <;> simp <;> omega
  | case3 => simp [skipBlock, nlCount]

/-- a run of ignorables and the number of line feeds in it -/
inductive Ign : List Char → Nat → Prop
  | nil : Ign [] 0
  | space (cs n) : Ign cs n → Ign (' ' :: cs) n
  | tab (cs n) : Ign cs n → Ign ('\t' :: cs) n
  | nl (cs n) : Ign cs n → Ign ('\n' :: cs) (n + 1)
  | line (body cs n) : body.all (· != '\n') = true → Ign cs n → Ign ('/' :: '/' :: (body ++ '\n' :: cs)) (n + 1)
  | block (body cs n) : noClose body = true → Ign cs n →
      Ign ('/' :: '*' :: (body ++ '*' :: '/' :: cs)) (nlCount body + n)

theorem takeWhile_append (p : Char → Bool) (a r : List Char) (ha : a.all p = true)
    (hr : r.head?.all (fun c => !p c) = true) : takeWhile p (a ++ r) = (a, r) := by
  induction a with
  | nil =>
    cases r with
    | nil => rfl
    | cons c r => simp at hr; simp [takeWhile, hr]
  | cons c a ih =>
    simp only [List.all_cons, Bool.and_eq_true] at ha
    simp [takeWhile, ha.1, ih ha.2]

theorem lex_ign (ig : List Char) (n : Nat) (h : Ign ig n) (rest : List Char) (line : Nat) (acc : List LTok)
    (k f : Nat) (hf : ig.length + k ≤ f) :
    ∃ f', k ≤ f' ∧ lexAux f (ig ++ rest) line acc = lexAux f' rest (line + n) acc := by
  induction h generalizing line f with
  | nil => exact ⟨f, by simpa using hf, by simp⟩
  | space cs n _ ih =>
    obtain ⟨f0, rfl⟩ : ∃ f0, f = f0 + 1 := ⟨f - 1, by simp at hf; omega⟩
    obtain ⟨f', hk, he⟩ := ih line f0 (by simp at hf; omega)
    exact ⟨f', hk, by rw [← he]; simp [lexAux]⟩
  | tab cs n _ ih =>
    obtain ⟨f0, rfl⟩ : ∃ f0, f = f0 + 1 := ⟨f - 1, by simp at hf; omega⟩
    obtain ⟨f', hk, he⟩ := ih line f0 (by simp at hf; omega)
    exact ⟨f', hk, by rw [← he]; simp [lexAux]⟩
  | nl cs n _ ih =>
    obtain ⟨f0, rfl⟩ : ∃ f0, f = f0 + 1 := ⟨f - 1, by simp at hf; omega⟩
    obtain ⟨f', hk, he⟩ := ih (line + 1) f0 (by simp at hf; omega)
    refine ⟨f', hk, ?_⟩
    have : line + (n + 1) = line + 1 + n := by omega
    rw [this, ← he]; simp [lexAux]
  | line body cs n hb _ ih =>
    obtain ⟨f1, rfl⟩ : ∃ f1, f = f1 + 2 := ⟨f - 2, by simp at hf; omega⟩
    obtain ⟨f', hk, he⟩ := ih (line + 1) f1 (by simp at hf; omega)
    refine ⟨f', hk, ?_⟩
    have : line + (n + 1) = line + 1 + n := by omega
    rw [this, ← he]
    have htw : takeWhile (· != '\n') (body ++ '\n' :: (cs ++ rest)) = (body, '\n' :: (cs ++ rest)) :=
      takeWhile_append _ _ _ hb (by simp)
    simp [lexAux, htw]
  | block body cs n hb _ ih =>
    obtain ⟨f0, rfl⟩ : ∃ f0, f = f0 + 1 := ⟨f - 1, by simp at hf; omega⟩
    obtain ⟨f', hk, he⟩ := ih (line + nlCount body) f0 (by simp at hf; omega)
    refine ⟨f', hk, ?_⟩
    have : line + (nlCount body + n) = line + nlCount body + n := by omega
    rw [this, ← he]
    have hs := skipBlock_body body (cs ++ rest) 0 hb
    simp only [Nat.zero_add] at hs
    simp [lexAux, hs]

end Fcp.Syntax
