import FcpModel.Wire
import FcpModel.Layout
/-!
# Field ids, not declaration order, fix the order (C15) — and the layout agrees with the
wire format on sizes (C04/C14)
-/
namespace Fcp

/-! ## `sortFields` -/

theorem insertField_perm (f : Field) (l : List Field) : (insertField f l).Perm (f :: l) := by
  induction l with
  | nil => exact List.Perm.refl _
  | cons g gs ih =>
    simp only [insertField]
    split
    · exact List.Perm.refl _
    · exact ((List.Perm.cons g ih).trans (List.Perm.swap f g gs))

theorem sortFields_perm (fs : List Field) : (sortFields fs).Perm fs := by
  induction fs with
  | nil => exact List.Perm.refl _
  | cons f fs ih =>
    simp only [sortFields, List.foldr_cons]
    exact (insertField_perm f _).trans (List.Perm.cons f ih)

theorem insertField_sorted (f : Field) (l : List Field) (h : l.Pairwise (fun a b => a.id ≤ b.id)) :
    (insertField f l).Pairwise (fun a b => a.id ≤ b.id) := by
  induction l with
  | nil => simp [insertField]
  | cons g gs ih =>
    simp only [insertField]
    split
    · rename_i hle
      refine List.Pairwise.cons ?_ h
      intro b hb
      rcases List.mem_cons.mp hb with rfl | hb
      · exact hle
      · exact Int.le_trans hle (List.rel_of_pairwise_cons h hb)
    · rename_i hnle
      have hgf : g.id ≤ f.id := by omega
      refine List.Pairwise.cons ?_ (ih h.tail)
      intro b hb
      have := (insertField_perm f gs).mem_iff.mp hb
      rcases List.mem_cons.mp this with rfl | hb'
      · exact hgf
      · exact List.rel_of_pairwise_cons h hb'

theorem sortFields_sorted (fs : List Field) : (sortFields fs).Pairwise (fun a b => a.id ≤ b.id) := by
  induction fs with
  | nil => simp [sortFields]
  | cons f fs ih => simp only [sortFields, List.foldr_cons]; exact insertField_sorted f _ ih

theorem eq_of_nodup_map {α β : Type} (f : α → β) (l : List α) (hn : (l.map f).Nodup)
    {a b : α} (ha : a ∈ l) (hb : b ∈ l) (h : f a = f b) : a = b := by
  induction l with
  | nil => cases ha
  | cons x xs ih =>
    simp only [List.map_cons, List.nodup_cons] at hn
    rcases List.mem_cons.mp ha with rfl | ha' <;> rcases List.mem_cons.mp hb with rfl | hb'
    · rfl
    · exact absurd (h ▸ List.mem_map_of_mem (f := f) hb') hn.1
    · exact absurd (h ▸ List.mem_map_of_mem (f := f) ha') hn.1
    · exact ih hn.2 ha' hb'

/-- with distinct field ids, the sorted field list does not depend on declaration order -/
theorem sortFields_eq_of_perm (fs fs' : List Field) (p : fs.Perm fs')
    (hn : (fs.map (·.id)).Nodup) : sortFields fs = sortFields fs' := by
  apply List.Perm.eq_of_pairwise (le := fun a b => a.id ≤ b.id) _ (sortFields_sorted fs)
    (sortFields_sorted fs')
  · exact (sortFields_perm fs).trans (p.trans (sortFields_perm fs').symm)
  · intro a b ha hb hab hba
    have hid : a.id = b.id := Int.le_antisymm hab hba
    have ha' : a ∈ fs := (sortFields_perm fs).mem_iff.mp ha
    have hb' : b ∈ fs := p.mem_iff.mpr ((sortFields_perm fs').mem_iff.mp hb)
    exact eq_of_nodup_map (·.id) fs hn ha' hb' hid

/-! ## a declaration-permuted twin schema -/

/-- the sorted field list a struct name stands for -/
def Schema.sortedFields (S : Schema) (n : String) : Option (List Field) :=
  (S.getStruct n).map fun st => sortFields st.fields

/-- `S'` is `S` with the fields of each struct written in another order (ids kept) -/
def Twin (S S' : Schema) : Prop :=
  (∀ n, S.sortedFields n = S'.sortedFields n) ∧ (∀ n, S.getEnum n = S'.getEnum n)

theorem resolve_twin (S S' : Schema) (h : Twin S S') : ∀ f t, resolve S f t = resolve S' f t := by
  intro f
  induction f with
  | zero => intro t; simp [resolve]
  | succ f ih =>
    intro t
    have hf : resolve S f = resolve S' f := funext ih
    cases t with
    | struct n =>
      have := h.1 n
      unfold Schema.sortedFields at this
      simp only [resolve]
      cases h1 : S.getStruct n <;> cases h2 : S'.getStruct n <;> simp_all
    | enum n => simp only [resolve, h.2]
    | arr t n => simp only [resolve, ih]
    | dyn t => simp only [resolve, ih]
    | opt t => simp only [resolve, ih]
    | _ => simp only [resolve]

theorem typeLength_twin (S S' : Schema) (h : Twin S S') (t : STy) :
    typeLength S t = typeLength S' t := typeLength_congr' S S' h.2 t
where
  typeLength_congr' (S S' : Schema) (he : ∀ n, S.getEnum n = S'.getEnum n) (t : STy) :
      typeLength S t = typeLength S' t := by
    induction t with
    | arr t n ih => simp only [typeLength, ih]
    | enum n => simp only [typeLength, he]
    | _ => rfl

theorem genSignal_twin (S S' : Schema) (unroll : Bool) (impl : Impl) (h : Twin S S') :
    ∀ f, genSignal S unroll impl f = genSignal S' unroll impl f := by
  intro f
  induction f with
  | zero => funext pre name look ty unit cur; simp [genSignal]
  | succ f ih =>
    funext pre name look ty unit cur
    have hleaf : mkLeaf S impl pre name look ty unit cur = mkLeaf S' impl pre name look ty unit cur := by
      unfold mkLeaf; rw [typeLength_twin S S' h]
    cases ty with
    | struct n =>
      have := h.1 n
      unfold Schema.sortedFields at this
      simp only [genSignal, ih]
      cases h1 : S.getStruct n <;> cases h2 : S'.getStruct n <;> simp_all
    | _ => simp only [genSignal, hleaf, ih]

/-- the packed layout of a binding is the same for a declaration-permuted twin -/
theorem generate_twin (S S' : Schema) (unroll : Bool) (fuel : Nat) (impl : Impl) (h : Twin S S') :
    generate S unroll fuel impl = generate S' unroll fuel impl := by
  have := h.1 impl.type
  unfold Schema.sortedFields at this
  unfold generate
  rw [genSignal_twin S S' unroll impl h]
  cases h1 : S.getStruct impl.type <;> cases h2 : S'.getStruct impl.type <;> simp_all

/-! ## the layout and the wire format agree on sizes -/

/-- static wire size of a closed type, `none` for variable-size types -/
def staticBits : Ty → Option Nat
  | .uint n => some n
  | .sint n => some n
  | .f32 => some 32
  | .f64 => some 64
  | .enum b => some b
  | .arr t n => if n = 0 then some 0 else (staticBits t).map (n * ·)
  | .unit => some 0
  | .field _ _ t r => match staticBits t, staticBits r with
    | some a, some b => some (a + b)
    | _, _ => none
  | _ => none

theorem encList_length (t : Ty) (k : Nat)
    (ih : ∀ v, wf t v = true → (enc t v).length = k) (n : Nat) (v : Val)
    (hv : wfList (wf t) n v = true) : (encList (enc t) v).length = n * k := by
  induction n generalizing v with
  | zero => cases v <;> simp_all [wfList, encList]
  | succ n ihn =>
    cases v with
    | cons x xs =>
      simp only [wfList, Bool.and_eq_true] at hv
      simp only [encList, List.length_append, ih x hv.1, ihn xs hv.2]
      rw [Nat.add_mul]; omega
    | _ => simp_all [wfList]

/-- every in-range value of a fixed-size type encodes to exactly `staticBits` bits -/
theorem enc_length_static (t : Ty) : ∀ (n : Nat) (v : Val), staticBits t = some n →
    wf t v = true → (enc t v).length = n := by
  induction t with
  | uint k => intro n v h hv; cases v <;> simp_all [staticBits, wf, enc]
  | sint k => intro n v h hv; cases v <;> simp_all [staticBits, wf, enc]
  | f32 => intro n v h hv; cases v <;> simp_all [staticBits, wf, enc]
  | f64 => intro n v h hv; cases v <;> simp_all [staticBits, wf, enc]
  | enum b => intro n v h hv; cases v <;> simp_all [staticBits, wf, enc]
  | str => intro n v h; simp [staticBits] at h
  | dyn t _ => intro n v h; simp [staticBits] at h
  | opt t _ => intro n v h; simp [staticBits] at h
  | unit => intro n v h hv; cases v <;> simp_all [staticBits, wf, enc]
  | arr t k ih =>
    intro n v h hv
    simp only [staticBits] at h
    simp only [wf] at hv
    simp only [enc]
    split at h
    · rename_i hk
      subst hk
      simp only [Option.some.injEq] at h
      subst h
      cases v <;> simp_all [wfList, encList]
    · simp only [Option.map_eq_some_iff] at h
      obtain ⟨m, hm, rfl⟩ := h
      exact encList_length t m (fun v hv => ih m v hm hv) k v hv
  | field nm id t r iht ihr =>
    intro n v h hv
    simp only [staticBits] at h
    split at h
    · rename_i a b ha hb
      simp only [Option.some.injEq] at h
      subst h
      cases v with
      | cons x xs =>
        simp only [wf, Bool.and_eq_true] at hv
        simp only [enc, List.length_append, iht a x ha hv.1, ihr b xs hb hv.2]
      | _ => simp_all [wf]
    · cases h

theorem typeLength_static (S : Schema) : ∀ (t : STy) (m f : Nat) (ty : Ty),
    typeLength S t = some m → resolve S f t = some ty → staticBits ty = some m := by
  intro t
  induction t with
  | arr t n ih =>
    intro m f ty hl hr
    cases f with
    | zero => simp [resolve] at hr
    | succ f =>
      simp only [resolve, Option.map_eq_some_iff] at hr
      obtain ⟨ty', hty', rfl⟩ := hr
      simp only [typeLength, Option.map_eq_some_iff] at hl
      obtain ⟨k, hk, rfl⟩ := hl
      have := ih k f ty' hk hty'
      simp only [staticBits, this]
      split
      · rename_i h0; subst h0; simp
      · rfl
  | u n =>
    intro m f ty hl hr
    cases f with
    | zero => simp [resolve] at hr
    | succ f =>
      simp only [typeLength, Option.some.injEq] at hl
      simp only [resolve, Option.some.injEq] at hr
      subst hr; subst hl; rfl
  | i n =>
    intro m f ty hl hr
    cases f with
    | zero => simp [resolve] at hr
    | succ f =>
      simp only [typeLength, Option.some.injEq] at hl
      simp only [resolve, Option.some.injEq] at hr
      subst hr; subst hl; rfl
  | f32 =>
    intro m f ty hl hr
    cases f with
    | zero => simp [resolve] at hr
    | succ f =>
      simp only [typeLength, Option.some.injEq] at hl
      simp only [resolve, Option.some.injEq] at hr
      subst hr; subst hl; rfl
  | f64 =>
    intro m f ty hl hr
    cases f with
    | zero => simp [resolve] at hr
    | succ f =>
      simp only [typeLength, Option.some.injEq] at hl
      simp only [resolve, Option.some.injEq] at hr
      subst hr; subst hl; rfl
  | enum n =>
    intro m f ty hl hr
    cases f with
    | zero => simp [resolve] at hr
    | succ f =>
      simp only [typeLength] at hl
      simp only [resolve, hl, Option.map_some, Option.some.injEq] at hr
      subst hr; rfl
  | str => intro m f ty hl; simp [typeLength] at hl
  | struct n => intro m f ty hl; simp [typeLength] at hl
  | dyn t _ => intro m f ty hl; simp [typeLength] at hl
  | opt t _ => intro m f ty hl; simp [typeLength] at hl

theorem mkLeaf_static (S : Schema) (impl : Impl) (pre name look : String) (sty : STy)
    (unit : Option String) (cur : Nat) (ls : List Leaf) (e f : Nat) (ty : Ty)
    (h : mkLeaf S impl pre name look sty unit cur = some (ls, e)) (hr : resolve S f sty = some ty) :
    staticBits ty = some (e - cur) ∧ cur ≤ e := by
  unfold mkLeaf at h
  split at h
  · cases h
  · rename_i len hlen
    simp only [Option.some.injEq, Prod.mk.injEq] at h
    obtain ⟨_, rfl⟩ := h
    have := typeLength_static S sty len f ty hlen hr
    exact ⟨by rw [this]; congr 1; omega, by omega⟩

theorem genFieldsWith_static (g : String → String → STy → Option String → Gen) (r : STy → Option Ty)
    (hg : ∀ nm lk t u c ls e ty, g nm lk t u c = some (ls, e) → r t = some ty →
      staticBits ty = some (e - c) ∧ c ≤ e)
    (fs : List Field) (c : Nat) (ls : List Leaf) (e : Nat) (ty : Ty)
    (h : genFieldsWith g fs c = some (ls, e)) (hr : resolveFieldsWith r fs = some ty) :
    staticBits ty = some (e - c) ∧ c ≤ e := by
  induction fs generalizing c ls e ty with
  | nil =>
    simp only [genFieldsWith, Option.some.injEq, Prod.mk.injEq] at h
    simp only [resolveFieldsWith, Option.some.injEq] at hr
    subst hr
    obtain ⟨_, rfl⟩ := h
    simp [staticBits]
  | cons fd rest ih =>
    simp only [genFieldsWith] at h
    split at h
    · cases h
    · rename_i l1 c1 h1
      split at h
      · cases h
      · rename_i l2 c2 h2
        simp only [Option.some.injEq, Prod.mk.injEq] at h
        obtain ⟨_, rfl⟩ := h
        simp only [resolveFieldsWith] at hr
        split at hr
        · rename_i t1 rt ht1 hrt
          simp only [Option.some.injEq] at hr
          subst hr
          obtain ⟨ha, hca⟩ := hg _ _ _ _ _ _ _ _ h1 ht1
          obtain ⟨hb, hcb⟩ := ih _ _ _ _ h2 hrt
          simp only [staticBits, ha, hb]
          exact ⟨by congr 1; omega, by omega⟩
        · cases hr

theorem genArrWith_static (g : String → Gen) (ty : Ty)
    (hg : ∀ nm c ls e, g nm c = some (ls, e) → staticBits ty = some (e - c) ∧ c ≤ e)
    (name : String) (k i c : Nat) (ls : List Leaf) (e : Nat)
    (h : genArrWith g name k i c = some (ls, e)) :
    c ≤ e ∧ (k = 0 → e = c) ∧ ∀ m, staticBits ty = some m → e = c + k * m := by
  induction k generalizing i c ls e with
  | zero =>
    simp only [genArrWith, Option.some.injEq, Prod.mk.injEq] at h
    obtain ⟨_, rfl⟩ := h
    simp
  | succ k ih =>
    simp only [genArrWith] at h
    split at h
    · cases h
    · rename_i l1 c1 h1
      split at h
      · cases h
      · rename_i l2 c2 h2
        simp only [Option.some.injEq, Prod.mk.injEq] at h
        obtain ⟨_, rfl⟩ := h
        obtain ⟨ha, hca⟩ := hg _ _ _ _ h1
        obtain ⟨hcb, _, hb⟩ := ih _ _ _ _ h2
        refine ⟨by omega, by omega, ?_⟩
        intro m hm
        rw [hm] at ha
        simp only [Option.some.injEq] at ha
        have := hb m hm
        rw [this, Nat.add_mul]; omega

/-- **layout = wire size**: the bits a field occupies in the packed layout are exactly the
static wire size of its resolved type -/
theorem genSignal_static (S : Schema) (unroll : Bool) (impl : Impl) :
    ∀ (f : Nat) (pre name look : String) (sty : STy) (unit : Option String) (c : Nat)
      (ls : List Leaf) (e : Nat) (ty : Ty),
      genSignal S unroll impl f pre name look sty unit c = some (ls, e) →
      resolve S f sty = some ty → staticBits ty = some (e - c) ∧ c ≤ e := by
  intro f
  induction f with
  | zero => intro pre name look sty unit c ls e ty h; simp [genSignal] at h
  | succ f ih =>
    intro pre name look sty unit c ls e ty h hr
    cases sty with
    | struct sn =>
      simp only [genSignal] at h
      simp only [resolve] at hr
      split at h
      · cases h
      · rename_i st hst
        rw [hst] at hr
        exact genFieldsWith_static _ (resolve S f)
          (fun nm lk t u c ls e ty h hr => ih _ _ _ _ _ _ _ _ _ h hr) _ _ _ _ _ h hr
    | arr t n =>
      simp only [genSignal] at h
      split at h
      · simp only [resolve, Option.map_eq_some_iff] at hr
        obtain ⟨ty', hty', rfl⟩ := hr
        obtain ⟨hce, h0, hm⟩ := genArrWith_static _ ty'
          (fun nm c ls e h => ih _ _ _ _ _ _ _ _ _ h hty') _ _ _ _ _ _ h
        refine ⟨?_, hce⟩
        simp only [staticBits]
        split
        · rename_i hn; rw [h0 hn]; simp
        · rename_i hn
          -- at least one element was generated, so its type has a static size
          cases hs : staticBits ty' with
          | some m => rw [hm m hs]; simp
          | none =>
            exfalso
            cases n with
            | zero => exact hn rfl
            | succ k =>
              simp only [genArrWith] at h
              split at h
              · cases h
              · rename_i l1 c1 h1
                have := (ih _ _ _ _ _ _ _ _ _ h1 hty').1
                rw [hs] at this; cases this
      · exact mkLeaf_static S impl pre name look _ unit c ls e (f+1) ty h hr
    | u n => simp only [genSignal] at h; exact mkLeaf_static S impl pre name look _ unit c ls e (f+1) ty h hr
    | i n => simp only [genSignal] at h; exact mkLeaf_static S impl pre name look _ unit c ls e (f+1) ty h hr
    | f32 => simp only [genSignal] at h; exact mkLeaf_static S impl pre name look _ unit c ls e (f+1) ty h hr
    | f64 => simp only [genSignal] at h; exact mkLeaf_static S impl pre name look _ unit c ls e (f+1) ty h hr
    | str => simp only [genSignal] at h; exact mkLeaf_static S impl pre name look _ unit c ls e (f+1) ty h hr
    | enum nm => simp only [genSignal] at h; exact mkLeaf_static S impl pre name look _ unit c ls e (f+1) ty h hr
    | dyn t => simp only [genSignal] at h; exact mkLeaf_static S impl pre name look _ unit c ls e (f+1) ty h hr
    | opt t => simp only [genSignal] at h; exact mkLeaf_static S impl pre name look _ unit c ls e (f+1) ty h hr

/-- the total size of a binding's layout is the static wire size of the bound struct -/
theorem generate_static (S : Schema) (unroll : Bool) (fuel : Nat) (impl : Impl)
    (ls : List Leaf) (e : Nat) (ty : Ty) (h : generate S unroll fuel impl = some (ls, e))
    (hr : resolve S (fuel + 1) (.struct impl.type) = some ty) : staticBits ty = some e := by
  unfold generate at h
  simp only [resolve] at hr
  split at h
  · cases h
  · rename_i st hst
    rw [hst] at hr
    have := genFieldsWith_static _ (resolve S fuel)
      (fun nm lk t u c ls e ty h hr => genSignal_static S unroll impl fuel _ _ _ _ _ _ _ _ _ h hr)
      _ _ _ _ _ h hr
    simpa using this.1

end Fcp
