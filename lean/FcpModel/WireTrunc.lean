import FcpModel.Wire
/-!
# Truncation and consumption lemmas for the canonical decoder
-/
namespace Fcp

theorem readN_take_none (k : Nat) (bs : Bits) (n : Nat) (h : n < k) :
    readN k (bs.take n) = none := by
  rw [readN_none]
  have : (bs.take n).length ≤ n := by simp; omega
  omega

/-- strict prefixes of `natBits k x ++ rest`, shorter than `k`, do not decode -/
theorem readN_prefix_none (k x : Nat) (rest : Bits) (n : Nat) (h : n < k) :
    readN k ((natBits k x ++ rest).take n) = none := readN_take_none _ _ _ h

theorem encChars_length (cs : List Nat) : (encChars cs).length = 8 * cs.length := by
  induction cs with
  | nil => rfl
  | cons c cs ih =>
    simp only [encChars, List.map_cons, List.flatten_cons, List.length_append, natBits_length,
      List.length_cons]
    simp only [encChars] at ih
    omega

theorem decChars_prefix_none (cs : List Nat) (h : cs.all (· < 256) = true) (n : Nat)
    (hn : n < (encChars cs).length) : decChars cs.length ((encChars cs).take n) = none := by
  induction cs generalizing n with
  | nil => simp [encChars] at hn
  | cons c cs ih =>
    simp only [List.all_cons, Bool.and_eq_true, decide_eq_true_eq] at h
    have hlen : (encChars (c :: cs)) = natBits 8 c ++ encChars cs := by simp [encChars]
    rw [hlen] at hn ⊢
    simp only [List.length_cons, decChars]
    by_cases h8 : n < 8
    · rw [readN_take_none 8 _ n h8]
    · rw [List.take_append]
      have e1 : (natBits 8 c).take n = natBits 8 c := List.take_of_length_le (by simp; omega)
      rw [e1, readN_natBits 8 c _ (by omega)]
      simp only [natBits_length]
      have : n - 8 < (encChars cs).length := by
        simp only [List.length_append, natBits_length] at hn; omega
      rw [ih h.2 (n - 8) this]

theorem encList_length_zero_of_nil (f : Val → Bits) : encList f .nil = [] := rfl

theorem decList_prefix_none (t : Ty)
    (ihd : ∀ v rest, wf t v = true → dec t (enc t v ++ rest) = some (v, rest))
    (ihp : ∀ v n, wf t v = true → n < (enc t v).length → dec t ((enc t v).take n) = none)
    (k : Nat) (v : Val) (h : wfList (wf t) k v = true) (n : Nat)
    (hn : n < (encList (enc t) v).length) :
    decList (dec t) k ((encList (enc t) v).take n) = none := by
  induction k generalizing v n with
  | zero => cases v <;> simp_all [wfList, encList]
  | succ k ihk =>
    cases v with
    | cons x xs =>
      simp only [wfList, Bool.and_eq_true] at h
      simp only [encList, List.length_append] at hn
      simp only [encList, decList]
      by_cases hx : n < (enc t x).length
      · rw [List.take_append]
        have : n - (enc t x).length = 0 := by omega
        rw [this]
        simp only [List.take_zero, List.append_nil]
        rw [ihp x n h.1 hx]
      · rw [List.take_append]
        have e1 : (enc t x).take n = enc t x := List.take_of_length_le (by omega)
        rw [e1, ihd x _ h.1]
        simp only
        rw [ihk xs h.2 _ (by omega)]
    | _ => simp_all [wfList]

/-- **truncation**: no strict prefix of a canonical encoding decodes -/
theorem dec_prefix_none (t : Ty) : ∀ (v : Val) (n : Nat), wf t v = true →
    n < (enc t v).length → dec t ((enc t v).take n) = none := by
  induction t with
  | uint k =>
    intro v n h hn
    cases v <;> simp_all [wf, enc, dec]
    exact readN_take_none _ _ _ hn
  | sint k =>
    intro v n h hn
    cases v <;> simp_all [wf, enc, dec]
    exact readN_take_none _ _ _ hn
  | f32 =>
    intro v n h hn
    cases v <;> simp_all [wf, enc, dec]
    exact readN_take_none _ _ _ hn
  | f64 =>
    intro v n h hn
    cases v <;> simp_all [wf, enc, dec]
    exact readN_take_none _ _ _ hn
  | enum b =>
    intro v n h hn
    cases v <;> simp_all [wf, enc, dec]
    exact readN_take_none _ _ _ hn
  | str =>
    intro v n h hn
    cases v with
    | str cs =>
      simp only [wf, Bool.and_eq_true, decide_eq_true_eq] at h
      simp only [enc, List.length_append, natBits_length] at hn
      simp only [enc, dec]
      by_cases h32 : n < 32
      · rw [readN_take_none 32 _ n h32]
      · rw [List.take_append]
        have e1 : (natBits 32 cs.length).take n = natBits 32 cs.length :=
          List.take_of_length_le (by simp; omega)
        rw [e1, readN_natBits 32 _ _ h.1]
        simp only [natBits_length]
        rw [decChars_prefix_none cs (utf8Valid_bytes cs h.2) (n - 32) (by omega)]
    | _ => simp_all [wf]
  | arr t k ih =>
    intro v n h hn
    simp only [wf] at h
    simp only [enc] at hn
    simp only [enc, dec]
    exact decList_prefix_none t (fun v rest h => dec_enc t v rest h) (fun v n h hn => ih v n h hn)
      k v h n hn
  | dyn t ih =>
    intro v n h hn
    simp only [wf, Bool.and_eq_true, decide_eq_true_eq] at h
    simp only [enc, List.length_append, natBits_length] at hn
    simp only [enc, dec]
    by_cases h32 : n < 32
    · rw [readN_take_none 32 _ n h32]
    · rw [List.take_append]
      have e1 : (natBits 32 (vlen v)).take n = natBits 32 (vlen v) :=
        List.take_of_length_le (by simp; omega)
      rw [e1, readN_natBits 32 _ _ h.1]
      simp only [natBits_length]
      exact decList_prefix_none t (fun v rest h => dec_enc t v rest h)
        (fun v n h hn => ih v n h hn) _ v h.2 _ (by omega)
  | opt t ih =>
    intro v n h hn
    cases v with
    | none =>
      simp only [enc, natBits_length] at hn
      simp only [enc, dec]
      rw [readN_take_none 8 _ n hn]
    | some x =>
      simp only [wf] at h
      simp only [enc, List.length_append, natBits_length] at hn
      simp only [enc, dec]
      by_cases h8 : n < 8
      · rw [readN_take_none 8 _ n h8]
      · rw [List.take_append]
        have e1 : (natBits 8 1).take n = natBits 8 1 := List.take_of_length_le (by simp; omega)
        rw [e1, readN_natBits 8 1 _ (by omega)]
        simp only [natBits_length]
        rw [ih x (n - 8) h (by omega)]
        simp
    | _ => simp_all [wf]
  | unit =>
    intro v n h hn
    cases v <;> simp_all [wf, enc]
  | field name id t r iht ihr =>
    intro v n h hn
    cases v with
    | cons x xs =>
      simp only [wf, Bool.and_eq_true] at h
      simp only [enc, List.length_append] at hn
      simp only [enc, dec]
      by_cases hx : n < (enc t x).length
      · rw [List.take_append]
        have : n - (enc t x).length = 0 := by omega
        rw [this]
        simp only [List.take_zero, List.append_nil]
        rw [iht x n h.1 hx]
      · rw [List.take_append]
        have e1 : (enc t x).take n = enc t x := List.take_of_length_le (by omega)
        rw [e1, dec_enc t x _ h.1]
        simp only
        rw [ihr xs _ h.2 (by omega)]
        rfl
    | _ => simp_all [wf]

/-! ## consumption: a returned value accounts for exactly the bits that were present -/

theorem decChars_consumes (k : Nat) (bs : Bits) (cs : List Nat) (r : Bits)
    (h : decChars k bs = some (cs, r)) : bs = encChars cs ++ r ∧ cs.length = k := by
  induction k generalizing bs cs with
  | zero => simp [decChars] at h; simp [h, encChars]
  | succ k ih =>
    simp only [decChars] at h
    split at h
    · cases h
    · rename_i c bs' hc
      split at h
      · cases h
      · rename_i cs' r' hcs
        simp only [Option.some.injEq, Prod.mk.injEq] at h
        obtain ⟨rfl, rfl⟩ := h
        obtain ⟨h1, h2⟩ := ih _ _ hcs
        obtain ⟨h3, _⟩ := readN_some hc
        constructor
        · rw [h3, h1]; simp [encChars]
        · simp [h2]

theorem decList_consumes (t : Ty)
    (ih : ∀ bs v r, dec t bs = some (v, r) → bs = enc t v ++ r ∨ True)
    (ihl : ∀ bs v r, dec t bs = some (v, r) → bs.length = (enc t v).length + r.length ∧
      r = bs.drop (enc t v).length)
    (k : Nat) (bs : Bits) (v : Val) (r : Bits) (h : decList (dec t) k bs = some (v, r)) :
    bs.length = (encList (enc t) v).length + r.length ∧ r = bs.drop (encList (enc t) v).length
      ∧ vlen v = k := by
  induction k generalizing bs v with
  | zero =>
    simp only [decList, Option.some.injEq, Prod.mk.injEq] at h
    obtain ⟨rfl, rfl⟩ := h
    simp [encList, vlen]
  | succ k ihk =>
    simp only [decList] at h
    split at h
    · cases h
    · rename_i x bs' hx
      split at h
      · cases h
      · rename_i xs r' hxs
        simp only [Option.some.injEq, Prod.mk.injEq] at h
        obtain ⟨rfl, rfl⟩ := h
        obtain ⟨h1, h2⟩ := ihl _ _ _ hx
        obtain ⟨h3, h4, h5⟩ := ihk _ _ hxs
        refine ⟨?_, ?_, ?_⟩
        · simp only [encList, List.length_append]; omega
        · simp only [encList, List.length_append]
          rw [h4, h2, List.drop_drop]
        · simp [vlen, h5]

/-- a decoded value accounts for exactly the bits consumed: the input is as long as the
canonical encoding of the value plus the remainder, and the remainder is the input's tail -/
theorem dec_consumes (t : Ty) : ∀ (bs : Bits) (v : Val) (r : Bits), dec t bs = some (v, r) →
    bs.length = (enc t v).length + r.length ∧ r = bs.drop (enc t v).length := by
  have prim : ∀ (k : Nat) (bs : Bits) (w : Nat) (r : Bits), readN k bs = some (w, r) →
      bs.length = k + r.length ∧ r = bs.drop k := by
    intro k bs w r h
    obtain ⟨h1, _⟩ := readN_some h
    subst h1
    simp
  induction t with
  | uint n =>
    intro bs v r h
    simp only [dec, Option.map_eq_some_iff, Prod.exists] at h
    obtain ⟨w, r', hr, hv⟩ := h
    simp only [Prod.mk.injEq] at hv
    obtain ⟨rfl, rfl⟩ := hv
    simpa [enc] using prim _ _ _ _ hr
  | sint n =>
    intro bs v r h
    simp only [dec, Option.map_eq_some_iff, Prod.exists] at h
    obtain ⟨w, r', hr, hv⟩ := h
    simp only [Prod.mk.injEq] at hv
    obtain ⟨rfl, rfl⟩ := hv
    simpa [enc] using prim _ _ _ _ hr
  | f32 =>
    intro bs v r h
    simp only [dec, Option.map_eq_some_iff, Prod.exists] at h
    obtain ⟨w, r', hr, hv⟩ := h
    simp only [Prod.mk.injEq] at hv
    obtain ⟨rfl, rfl⟩ := hv
    simpa [enc] using prim _ _ _ _ hr
  | f64 =>
    intro bs v r h
    simp only [dec, Option.map_eq_some_iff, Prod.exists] at h
    obtain ⟨w, r', hr, hv⟩ := h
    simp only [Prod.mk.injEq] at hv
    obtain ⟨rfl, rfl⟩ := hv
    simpa [enc] using prim _ _ _ _ hr
  | enum b =>
    intro bs v r h
    simp only [dec, Option.map_eq_some_iff, Prod.exists] at h
    obtain ⟨w, r', hr, hv⟩ := h
    simp only [Prod.mk.injEq] at hv
    obtain ⟨rfl, rfl⟩ := hv
    simpa [enc] using prim _ _ _ _ hr
  | str =>
    intro bs v r h
    simp only [dec] at h
    split at h
    · cases h
    · rename_i n r1 hn
      split at h
      · cases h
      rename_i cs r' hcs
      split at h
      case isFalse => cases h
      simp only [Option.some.injEq, Prod.mk.injEq] at h
      obtain ⟨rfl, rfl⟩ := h
      obtain ⟨h1, h2⟩ := prim _ _ _ _ hn
      obtain ⟨h3, h4⟩ := decChars_consumes _ _ _ _ hcs
      simp only [enc, List.length_append, natBits_length, encChars_length]
      constructor
      · rw [h1, h3]; simp [encChars_length]; omega
      · rw [← List.drop_drop, ← h2, h3]; simp [encChars_length]
  | arr t n ih =>
    intro bs v r h
    simp only [dec] at h
    obtain ⟨h1, h2, _⟩ := decList_consumes t (fun _ _ _ _ => Or.inr trivial) ih n bs v r h
    exact ⟨by simpa [enc] using h1, by simpa [enc] using h2⟩
  | dyn t ih =>
    intro bs v r h
    simp only [dec] at h
    split at h
    · cases h
    · rename_i n r1 hn
      obtain ⟨h1, h2⟩ := prim _ _ _ _ hn
      obtain ⟨h3, h4, _⟩ := decList_consumes t (fun _ _ _ _ => Or.inr trivial) ih n r1 v r h
      simp only [enc, List.length_append, natBits_length]
      constructor
      · omega
      · rw [← List.drop_drop, ← h2]; exact h4
  | opt t ih =>
    intro bs v r h
    simp only [dec] at h
    split at h
    · cases h
    · rename_i f r1 hf
      obtain ⟨h1, h2⟩ := prim _ _ _ _ hf
      split at h
      · simp only [Option.some.injEq, Prod.mk.injEq] at h
        obtain ⟨rfl, rfl⟩ := h
        simp only [enc, natBits_length]
        exact ⟨h1, h2⟩
      · simp only [Option.map_eq_some_iff, Prod.exists] at h
        obtain ⟨x, r', hx, hv⟩ := h
        simp only [Prod.mk.injEq] at hv
        obtain ⟨rfl, rfl⟩ := hv
        obtain ⟨h3, h4⟩ := ih _ _ _ hx
        simp only [enc, List.length_append, natBits_length]
        constructor
        · omega
        · rw [← List.drop_drop, ← h2]; exact h4
  | unit =>
    intro bs v r h
    simp only [dec, Option.some.injEq, Prod.mk.injEq] at h
    obtain ⟨rfl, rfl⟩ := h
    simp [enc]
  | field name id t rest iht ihr =>
    intro bs v r h
    simp only [dec] at h
    split at h
    · cases h
    · rename_i x r1 hx
      simp only [Option.map_eq_some_iff, Prod.exists] at h
      obtain ⟨xs, r', hxs, hv⟩ := h
      simp only [Prod.mk.injEq] at hv
      obtain ⟨rfl, rfl⟩ := hv
      obtain ⟨h1, h2⟩ := iht _ _ _ hx
      obtain ⟨h3, h4⟩ := ihr _ _ _ hxs
      simp only [enc, List.length_append]
      constructor
      · omega
      · rw [← List.drop_drop, ← h2]; exact h4

end Fcp
