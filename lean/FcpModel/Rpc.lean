import FcpModel.Schema
import FcpModel.Verifier
/-!
# The rpc layer of the C++ generator (`plugins/fcp_cpp/fcp_cpp/rpc.py`: `generate_rpc`)

Before rendering, the C++ generator extends (a copy of) the schema: for every method of every
service an input and an output wrapper struct around the payload, each with a `default`
binding, an enum `ServiceId` of the services and one enum `<Service>MethodId` per service, both
padded to 8 bits with an enumerator `Size = 255`.  The model follows the code as repaired by
`d1ce970` (names are the declared names, as in the service templates) and `88563f4` (wrappers
kept per wrapper type): Python dict semantics for the two tables (first position, last value).

Proved: the user's declarations are untouched and come first (`rpc_prefix`), so every user type
resolves in the extended schema to what it resolved to before (`rpc_resolve`: the rpc layer
cannot change the wire format of a user struct); and on a schema that passes the plug-in's
service check (`CppOk`, FcpModel/Verifier.lean) with at least one method per service (the grammar's
rule) the generation does not raise (`rpc_total`).
-/
namespace Fcp.Rpc

/-- `d[k] = v` on an insertion-ordered dict -/
def dictSet {α : Type} (d : List (String × α)) (k : String) (v : α) : List (String × α) :=
  if d.any (·.1 == k) then d.map (fun p => if p.1 == k then (k, v) else p) else d ++ [(k, v)]

def wrapper (sv : Service) (payload suffix : String) : Struct :=
  { name := payload ++ suffix,
    fields := [{ name := "service_id", id := 0, ty := .enum "ServiceId" },
               { name := "method_id", id := 1, ty := .enum (sv.name ++ "MethodId") },
               { name := "payload", id := 2, ty := .struct payload }] }

/-- `method_data`: wrapper name ↦ wrapper struct, over all services and methods -/
def methodData (S : Schema) : List (String × Struct) :=
  S.services.foldl (fun d sv =>
    sv.methods.foldl (fun d m =>
      dictSet (dictSet d (m.input ++ "Input") (wrapper sv m.input "Input"))
        (m.output ++ "Output") (wrapper sv m.output "Output")) d) []

/-- `service_methods_enum`: service name ↦ (method name, id) list -/
def methodTable (S : Schema) : List (String × List Enumerator) :=
  S.services.foldl (fun d sv => dictSet d sv.name (sv.methods.map fun m => ⟨m.name, m.id⟩)) []

/-- Python `max` of a non-empty list (`none` where it raises on the empty list) -/
def maxValue : List Enumerator → Option Int
  | [] => none
  | x :: xs => some (xs.foldl (fun m y => if y.value > m then y.value else m) x.value)

/-- `_set_bitsize(enum, 8)`: `none` where it raises -/
def setBitsize (e : Enum) : Option Enum :=
  match maxValue e.enumeration with
  | none => none
  | some m =>
    if m > 255 then none
    else if m < 255 then some { e with enumeration := e.enumeration ++ [⟨"Size", 255⟩] }
    else some e

def allSome {α : Type} : List (Option α) → Option (List α)
  | [] => some []
  | none :: _ => none
  | some a :: r => (allSome r).map (a :: ·)

def rpcEnums (S : Schema) : Option (List Enum) :=
  if S.services.isEmpty then some []
  else
    match setBitsize ⟨"ServiceId", S.services.map fun sv => ⟨sv.name, sv.id⟩⟩,
          allSome ((methodTable S).map fun p => setBitsize ⟨p.1 ++ "MethodId", p.2⟩) with
    | some e, some es => some (e :: es)
    | _, _ => none

/-- every payload is a declared struct (`fcp.get_struct(...).unwrap()` raises otherwise) -/
def payloadsOk (S : Schema) : Bool :=
  S.services.all fun sv => sv.methods.all fun m => (S.getStruct m.input).isSome && (S.getStruct m.output).isSome

/-- `generate_rpc` (`none` where it raises) -/
def rpc (S : Schema) : Option Schema :=
  if !payloadsOk S then none else
  match rpcEnums S with
  | none => none
  | some es =>
    let ws := (methodData S).map (·.2)
    some { S with structs := S.structs ++ ws,
                  impls := S.impls ++ ws.map (fun w => ⟨w.name, "default", w.name, [], []⟩),
                  enums := S.enums ++ es }

/-! ## the user's declarations come first and are untouched -/

theorem rpc_prefix (S S' : Schema) (h : rpc S = some S') :
    S.structs <+: S'.structs ∧ S.enums <+: S'.enums ∧ S.impls <+: S'.impls ∧
      S'.services = S.services ∧ S'.devices = S.devices := by
  unfold rpc at h
  split at h
  · cases h
  · cases he : rpcEnums S with
    | none => rw [he] at h; cases h
    | some es =>
      rw [he] at h
      simp only [Option.some.injEq] at h
      subst h
      exact ⟨List.prefix_append _ _, List.prefix_append _ _, List.prefix_append _ _, rfl, rfl⟩

theorem find?_prefix {α : Type} (p : α → Bool) (l l' : List α) (h : l <+: l') (a : α)
    (hf : l.find? p = some a) : l'.find? p = some a := by
  obtain ⟨t, rfl⟩ := h
  rw [List.find?_append, hf]
  rfl

theorem getStruct_prefix (S S' : Schema) (h : S.structs <+: S'.structs) (n : String) (st : Struct)
    (hs : S.getStruct n = some st) : S'.getStruct n = some st :=
  find?_prefix _ _ _ h st hs

theorem getEnum_prefix (S S' : Schema) (h : S.enums <+: S'.enums) (n : String) (e : Enum)
    (hs : S.getEnum n = some e) : S'.getEnum n = some e :=
  find?_prefix _ _ _ h e hs

theorem resolveFieldsWith_mono (r r' : STy → Option Ty) (fs : List Field)
    (h : ∀ f ∈ fs, ∀ t, r f.ty = some t → r' f.ty = some t) :
    ∀ ty, resolveFieldsWith r fs = some ty → resolveFieldsWith r' fs = some ty := by
  induction fs with
  | nil => intro ty hty; simpa [resolveFieldsWith] using hty
  | cons f rest ih =>
    intro ty hty
    simp only [resolveFieldsWith] at hty ⊢
    cases hf : r f.ty with
    | none => rw [hf] at hty; simp at hty
    | some t =>
      cases hr : resolveFieldsWith r rest with
      | none => rw [hf, hr] at hty; simp at hty
      | some rt =>
        rw [hf, hr] at hty
        rw [h f List.mem_cons_self t hf,
          ih (fun g hg => h g (List.mem_cons_of_mem _ hg)) rt hr]
        exact hty

/-- **a type that resolves in the schema resolves to the same closed type in any schema that
extends its struct and enum lists** -/
theorem resolve_prefix (S S' : Schema) (hs : S.structs <+: S'.structs) (he : S.enums <+: S'.enums) :
    ∀ (fuel : Nat) (t : STy) (ty : Ty), resolve S fuel t = some ty → resolve S' fuel t = some ty := by
  intro fuel
  induction fuel with
  | zero => intro t ty h; simp [resolve] at h
  | succ f ih =>
    intro t ty h
    cases t with
    | u n => simpa [resolve] using h
    | i n => simpa [resolve] using h
    | f32 => simpa [resolve] using h
    | f64 => simpa [resolve] using h
    | str => simpa [resolve] using h
    | «enum» name =>
      simp only [resolve] at h ⊢
      cases hg : S.getEnum name with
      | none => rw [hg] at h; simp at h
      | some e => rw [hg] at h; rw [getEnum_prefix S S' he name e hg]; exact h
    | arr e n =>
      simp only [resolve] at h ⊢
      cases hr : resolve S f e with
      | none => rw [hr] at h; simp at h
      | some x => rw [hr] at h; rw [ih e x hr]; exact h
    | dyn e =>
      simp only [resolve] at h ⊢
      cases hr : resolve S f e with
      | none => rw [hr] at h; simp at h
      | some x => rw [hr] at h; rw [ih e x hr]; exact h
    | opt e =>
      simp only [resolve] at h ⊢
      cases hr : resolve S f e with
      | none => rw [hr] at h; simp at h
      | some x => rw [hr] at h; rw [ih e x hr]; exact h
    | struct name =>
      simp only [resolve] at h ⊢
      cases hg : S.getStruct name with
      | none => rw [hg] at h; simp at h
      | some st =>
        rw [hg] at h
        rw [getStruct_prefix S S' hs name st hg]
        exact resolveFieldsWith_mono _ _ _ (fun fd _ t ht => ih fd.ty t ht) ty h

/-- **the rpc layer cannot change the wire format of a user type** -/
theorem rpc_resolve (S S' : Schema) (h : rpc S = some S') (fuel : Nat) (t : STy) (ty : Ty)
    (hr : resolve S fuel t = some ty) : resolve S' fuel t = some ty := by
  obtain ⟨hs, he, _⟩ := rpc_prefix S S' h
  exact resolve_prefix S S' hs he fuel t ty hr

/-! ## generation does not raise on a schema that passes the plug-in's service check -/

theorem foldl_max_le (l : List Enumerator) (m0 : Int) (b : Int) (h0 : m0 ≤ b) (h : ∀ x ∈ l, x.value ≤ b) :
    l.foldl (fun m y => if y.value > m then y.value else m) m0 ≤ b := by
  induction l generalizing m0 with
  | nil => simpa using h0
  | cons y ys ih =>
    simp only [List.foldl_cons]
    apply ih
    · split
      · exact h y List.mem_cons_self
      · exact h0
    · exact fun x hx => h x (List.mem_cons_of_mem _ hx)

theorem setBitsize_isSome (e : Enum) (hne : e.enumeration ≠ []) (h : ∀ x ∈ e.enumeration, x.value ≤ 255) :
    (setBitsize e).isSome := by
  unfold setBitsize
  cases hl : e.enumeration with
  | nil => exact absurd hl hne
  | cons x xs =>
    simp only [maxValue]
    have hm := foldl_max_le xs x.value 255 (h x (by rw [hl]; exact List.mem_cons_self))
      (fun y hy => h y (by rw [hl]; exact List.mem_cons_of_mem _ hy))
    split
    · omega
    · split <;> rfl

theorem mem_dictSet {α : Type} (d : List (String × α)) (k : String) (v : α) (p : String × α)
    (h : p ∈ dictSet d k v) : p ∈ d ∨ p = (k, v) := by
  unfold dictSet at h
  split at h
  · obtain ⟨q, hq, rfl⟩ := List.mem_map.mp h
    split
    · exact Or.inr rfl
    · exact Or.inl hq
  · rcases List.mem_append.mp h with h | h
    · exact Or.inl h
    · simp only [List.mem_singleton] at h; exact Or.inr h

theorem methodTable_mem (S : Schema) : ∀ p ∈ methodTable S, ∃ sv ∈ S.services,
    p.2 = sv.methods.map fun m => (⟨m.name, m.id⟩ : Enumerator) := by
  unfold methodTable
  suffices H : ∀ (svs : List Service) (d : List (String × List Enumerator)),
      (∀ p ∈ d, ∃ sv ∈ S.services, p.2 = sv.methods.map fun m => (⟨m.name, m.id⟩ : Enumerator)) →
      (∀ sv ∈ svs, sv ∈ S.services) →
      ∀ p ∈ svs.foldl (fun d sv => dictSet d sv.name (sv.methods.map fun m => ⟨m.name, m.id⟩)) d,
        ∃ sv ∈ S.services, p.2 = sv.methods.map fun m => (⟨m.name, m.id⟩ : Enumerator) by
    exact H S.services [] (by simp) (fun sv h => h)
  intro svs
  induction svs with
  | nil => intro d hd _ p hp; exact hd p hp
  | cons sv rest ih =>
    intro d hd hsub p hp
    simp only [List.foldl_cons] at hp
    refine ih _ ?_ (fun x hx => hsub x (List.mem_cons_of_mem _ hx)) p hp
    intro q hq
    rcases mem_dictSet _ _ _ q hq with hq | rfl
    · exact hd q hq
    · exact ⟨sv, hsub sv List.mem_cons_self, rfl⟩

theorem allSome_isSome {α : Type} (l : List (Option α)) (h : ∀ x ∈ l, x.isSome) : (allSome l).isSome := by
  induction l with
  | nil => rfl
  | cons x xs ih =>
    cases x with
    | none => exact absurd (h none List.mem_cons_self) (by simp)
    | some a =>
      simp only [allSome]
      have := ih (fun y hy => h y (List.mem_cons_of_mem _ hy))
      cases hx : allSome xs with
      | none => rw [hx] at this; cases this
      | some r => rfl

/-- **a schema that passes the C++ plug-in's service check generates**: with ids in 0..255
and at least one method per service (the grammar's rule) `generate_rpc` does not raise -/
theorem rpc_total (S : Schema) (c : CppOk S) (hm : ∀ sv ∈ S.services, sv.methods ≠ []) : (rpc S).isSome := by
  unfold rpc
  have he : (rpcEnums S).isSome := by
    unfold rpcEnums
    split
    · rfl
    · rename_i hne
      have h1 : (setBitsize ⟨"ServiceId", S.services.map fun sv => ⟨sv.name, sv.id⟩⟩).isSome := by
        apply setBitsize_isSome
        · intro h
          simp only [List.map_eq_nil_iff] at h
          simp [h] at hne
        · intro x hx
          obtain ⟨sv, hsv, rfl⟩ := List.mem_map.mp hx
          exact (c.idRange sv hsv).2
      have h2 : (allSome ((methodTable S).map fun p => setBitsize ⟨p.1 ++ "MethodId", p.2⟩)).isSome := by
        apply allSome_isSome
        intro x hx
        obtain ⟨p, hp, rfl⟩ := List.mem_map.mp hx
        obtain ⟨sv, hsv, hp2⟩ := methodTable_mem S p hp
        apply setBitsize_isSome
        · simp only [hp2]
          intro h
          simp only [List.map_eq_nil_iff] at h
          exact hm sv hsv h
        · intro y hy
          simp only [hp2] at hy
          obtain ⟨m, hmm, rfl⟩ := List.mem_map.mp hy
          exact (c.methodIdRange sv hsv m hmm).2
      cases ha : setBitsize ⟨"ServiceId", S.services.map fun sv => ⟨sv.name, sv.id⟩⟩ with
      | none => rw [ha] at h1; cases h1
      | some e =>
        cases hb : allSome ((methodTable S).map fun p => setBitsize ⟨p.1 ++ "MethodId", p.2⟩) with
        | none => rw [hb] at h2; cases h2
        | some es => rfl
  have hp : payloadsOk S = true := by
    unfold payloadsOk
    simp only [List.all_eq_true, Bool.and_eq_true]
    exact fun sv hsv m hmm => c.payloads sv hsv m hmm
  simp only [hp, Bool.not_true, Bool.false_eq_true, if_false]
  cases hr : rpcEnums S with
  | none => rw [hr] at he; cases he
  | some es => rfl

end Fcp.Rpc
