/-!
# Sched: model of `can_send_<dev>_msgs_scheduled` (can_device_c.jinja)

```c
static uint32_t last_call_t = 0;
static uint32_t last_send_t[N] = {0};
if (last_call_t == time) return;
last_call_t = time;
// for each message i, in order:
if (PERIOD_i != -1 && (time - last_send_t[i] >= PERIOD_i)) { send(encode(dev->msg_i)); last_send_t[i] = time; }
```
Timestamps are `uint32_t` (naturals below `2^32`), the subtraction wraps, and the
comparison with the `int` literal `PERIOD_i` is unsigned.
-/
namespace Fcp.Sched

def W : Nat := 2 ^ 32

/-- `(uint32_t) PERIOD` -/
def periodU (p : Int) : Nat := (p % (W : Int)).toNat

/-- `PERIOD != -1 && (time - last >= PERIOD)` in `uint32_t` arithmetic -/
def due (p : Int) (t last : Nat) : Bool :=
  p != -1 && decide (periodU p ≤ (t + W - last) % W)

/-- one message's slot of the loop body: new `last_send_t[i]` and whether it was sent -/
def stepMsg (p : Int) (last t : Nat) : Nat × Bool :=
  if due p t last then (t, true) else (last, false)

structure State where
  lastCall : Nat := 0
  lastSend : List Nat
  deriving Repr

def init (periods : List Int) : State := { lastCall := 0, lastSend := periods.map fun _ => 0 }

/-- the loop over the messages: new `last_send_t` array and the sent flags -/
def stepAll (t : Nat) : List Int → List Nat → List Nat × List Bool
  | p :: ps, l :: ls =>
    ((stepMsg p l t).1 :: (stepAll t ps ls).1, (stepMsg p l t).2 :: (stepAll t ps ls).2)
  | _, _ => ([], [])

/-- one call of the scheduler: new state and, per message, whether a frame was sent -/
def step (periods : List Int) (s : State) (t : Nat) : State × List Bool :=
  if s.lastCall == t then (s, periods.map fun _ => false)
  else ({ lastCall := t, lastSend := (stepAll t periods s.lastSend).1 }, (stepAll t periods s.lastSend).2)

/-- the trace of a call history -/
def run (periods : List Int) : State → List Nat → List (List Bool)
  | _, [] => []
  | s, t :: ts => let (s', out) := step periods s t; out :: run periods s' ts

/-! ## reference automaton, one message at a time -/

/-- message with period `p`: sent on a call exactly when the timestamp differs from the
previous call's and at least `p` has elapsed (mod 2^32) since its previous transmission -/
def spec (p : Int) : Nat → Nat → List Nat → List Bool
  | _, _, [] => []
  | prevT, lastTx, t :: ts =>
    let sent := t != prevT && due p t lastTx
    sent :: spec p t (if sent then t else lastTx) ts

theorem stepAll_getD (t : Nat) (ps : List Int) (ls : List Nat) (i : Nat)
    (hi : i < ps.length) (hl : ls.length = ps.length) :
    (stepAll t ps ls).2.getD i false = (stepMsg (ps.getD i 0) (ls.getD i 0) t).2 ∧
    (stepAll t ps ls).1.getD i 0 = (stepMsg (ps.getD i 0) (ls.getD i 0) t).1 ∧
    (stepAll t ps ls).1.length = ps.length := by
  induction ps generalizing ls i with
  | nil => simp at hi
  | cons p ps ih =>
    cases ls with
    | nil => simp at hl
    | cons l ls =>
      simp only [List.length_cons, Nat.add_right_cancel_iff] at hl
      cases i with
      | zero =>
        simp only [stepAll, List.getD_cons_zero, List.length_cons, true_and]
        cases ps with
        | nil => cases ls <;> simp_all [stepAll]
        | cons q qs =>
          cases ls with
          | nil => simp at hl
          | cons m ms => have := (ih (m :: ms) 0 (by simp) hl).2.2; omega
      | succ i =>
        simp only [List.length_cons, Nat.add_lt_add_iff_right] at hi
        obtain ⟨h1, h2, h3⟩ := ih ls i hi hl
        simp only [stepAll, List.getD_cons_succ, List.length_cons]
        exact ⟨h1, h2, by omega⟩

theorem stepAll_length (t : Nat) (ps : List Int) (ls : List Nat) (hl : ls.length = ps.length) :
    (stepAll t ps ls).1.length = ps.length := by
  induction ps generalizing ls with
  | nil => cases ls <;> simp [stepAll]
  | cons p ps ih =>
    cases ls with
    | nil => simp at hl
    | cons l ls =>
      simp only [List.length_cons, Nat.add_right_cancel_iff] at hl
      simp [stepAll, ih ls hl]

/-- **refinement**: for every call history, the implementation's trace projected on message
`i` is the reference automaton's trace for that message — messages do not interfere -/
theorem run_refines_spec (periods : List Int) (i : Nat) (hi : i < periods.length) :
    ∀ (ts : List Nat) (s : State), s.lastSend.length = periods.length →
      (run periods s ts).map (fun row => row.getD i false) =
        spec (periods.getD i 0) s.lastCall (s.lastSend.getD i 0) ts := by
  intro ts
  induction ts with
  | nil => intro s _; rfl
  | cons t ts ih =>
    intro s hl
    simp only [run, step, spec]
    by_cases hc : s.lastCall = t
    · subst hc
      simp only [beq_self_eq_true, ↓reduceIte, List.map_cons, bne_self_eq_false, Bool.false_and,
        Bool.false_eq_true]
      rw [ih s hl]
      congr 1
      simp [List.getD_eq_getElem?_getD, hi]
    · have hne : (s.lastCall == t) = false := by simpa using hc
      have hne' : (t != s.lastCall) = true := by simpa using fun h => hc h.symm
      simp only [hne, Bool.false_eq_true, ↓reduceIte, List.map_cons, hne', Bool.true_and]
      obtain ⟨h1, h2, _⟩ := stepAll_getD t periods s.lastSend i hi hl
      rw [ih _ (stepAll_length t periods s.lastSend hl)]
      simp only [h1, h2, stepMsg]
      cases due (periods.getD i 0) t (s.lastSend.getD i 0) <;> simp

/-! ## consequences, on the reference automaton -/

/-- a message without a period is never sent -/
theorem spec_no_period (prevT lastTx : Nat) (ts : List Nat) :
    ∀ b ∈ spec (-1) prevT lastTx ts, b = false := by
  induction ts generalizing prevT lastTx with
  | nil => intro b hb; cases hb
  | cons t ts ih =>
    intro b hb
    simp only [spec, due, bne_self_eq_false, Bool.false_and, Bool.and_false, Bool.false_eq_true,
      ↓reduceIte, List.mem_cons] at hb
    rcases hb with rfl | hb
    · rfl
    · exact ih _ _ b hb

/-- the times at which the message was transmitted, given the trace -/
def txTimes : List Nat → List Bool → List Nat
  | t :: ts, b :: bs => if b then t :: txTimes ts bs else txTimes ts bs
  | _, _ => []

/-- consecutive elements of a list are related by `R` -/
def Chain (R : Nat → Nat → Prop) : Nat → List Nat → Prop
  | _, [] => True
  | a, b :: l => R a b ∧ Chain R b l

/-- **never twice within less than P**: every transmission is at least `P` (mod 2^32,
unsigned) after the previous one, and the first at least `P` after time 0 -/
theorem spec_spacing (p : Int) (prevT lastTx : Nat) (ts : List Nat) :
    Chain (fun a b => periodU p ≤ (b + W - a) % W) lastTx (txTimes ts (spec p prevT lastTx ts)) := by
  induction ts generalizing prevT lastTx with
  | nil => simp [spec, txTimes, Chain]
  | cons t ts ih =>
    simp only [spec, txTimes]
    by_cases hs : (t != prevT && due p t lastTx) = true
    · simp only [hs, ↓reduceIte, Chain]
      refine ⟨?_, ih t t⟩
      simp only [Bool.and_eq_true, due, decide_eq_true_eq] at hs
      exact hs.2.2
    · have : (t != prevT && due p t lastTx) = false := by simpa using hs
      simp only [this, Bool.false_eq_true, ↓reduceIte]
      exact ih t lastTx

/-- **due is sent**: a call whose timestamp differs from the previous call's, at least `P`
after the last transmission, transmits -/
theorem spec_due_sent (p : Int) (prevT lastTx t : Nat) (ts : List Nat) (hp : p ≠ -1)
    (ht : t ≠ prevT) (hd : periodU p ≤ (t + W - lastTx) % W) :
    (spec p prevT lastTx (t :: ts)).head? = some true := by
  simp only [spec, List.head?_cons, Option.some.injEq, Bool.and_eq_true, bne_iff_ne, ne_eq, due,
    decide_eq_true_eq]
  exact ⟨ht, by simpa using hp, hd⟩

/-- with true (unwrapped) times: if the real elapsed time between two instants is below
`2^32`, the wrapped difference the scheduler computes *is* the elapsed time -/
theorem wrapped_diff (T1 T2 : Nat) (h : T1 ≤ T2) (hlt : T2 - T1 < W) :
    ((T2 % W) + W - (T1 % W)) % W = T2 - T1 := by
  have hW : W = 4294967296 := by decide
  rw [hW] at hlt ⊢
  omega

end Fcp.Sched
