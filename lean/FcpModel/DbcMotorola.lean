import FcpModel.Dbc
/-!
# DbcMotorola: big-endian (Motorola) signals of the generated DBC

The DBC writer emits a big-endian leaf at layout range `[start, start + len)` as a Motorola
signal whose start bit is `start + 7` (the most significant bit of its first byte, in DBC bit
numbering `8 * byte + bit`).  A DBC reader walks such a signal from its MSB downwards inside
a byte and continues at bit 7 of the next byte ("sawtooth").  For the leaves the writer
supports (byte-aligned, whole bytes) that reads the bytes of the range most significant first.
-/
namespace Fcp

/-- the bits of a Motorola signal, most significant first, starting at DBC bit `p` -/
def motoBits (frame : Bits) : Nat → Nat → List Bool
  | _, 0 => []
  | p, n+1 => frame.getD p false :: motoBits frame (if p % 8 = 0 then p + 15 else p - 1) n

def msbNat (bs : List Bool) : Nat := bs.foldl (fun acc b => 2 * acc + (if b then 1 else 0)) 0

/-- Motorola extraction as DBC readers do -/
def extractMotorola (frame : Bits) (start len : Nat) : Nat := msbNat (motoBits frame start len)

/-- big-endian placement of the low `8*k` bits of `w`: most significant byte first, each byte
LSB-first inside the bit list (as every byte of a frame is) -/
def bigBits : Nat → Nat → Bits
  | 0, _ => []
  | k+1, w => natBits 8 (w / 256 ^ k) ++ bigBits k w

theorem bigBits_length (k w : Nat) : (bigBits k w).length = 8 * k := by
  induction k with
  | zero => rfl
  | succ k ih => simp [bigBits, ih]; omega

/-- one value per leaf, big-endian leaves with their bytes swapped -/
def packLeavesE : List Leaf → List Int → Bits
  | l :: ls, v :: vs =>
    (if l.endian == "big" then bigBits (l.len / 8) (toTwos l.len v) else natBits l.len (toTwos l.len v))
      ++ packLeavesE ls vs
  | _, _ => []

theorem foldl_msb (init : Nat) (b : List Bool) :
    b.foldl (fun acc x => 2 * acc + (if x then 1 else 0)) init
      = init * 2 ^ b.length + b.foldl (fun acc x => 2 * acc + (if x then 1 else 0)) 0 := by
  induction b generalizing init with
  | nil => simp
  | cons x xs ih =>
    simp only [List.foldl_cons, List.length_cons, Nat.pow_succ]
    rw [ih (2 * init + if x = true then 1 else 0), ih (2 * 0 + if x = true then 1 else 0)]
    generalize List.foldl (fun acc x => 2 * acc + if x = true then 1 else 0) 0 xs = B
    generalize 2 ^ xs.length = P
    cases x <;> grind

theorem msbNat_append (a b : List Bool) : msbNat (a ++ b) = msbNat a * 2 ^ b.length + msbNat b := by
  unfold msbNat
  rw [List.foldl_append, foldl_msb]

/-- eight sawtooth steps from bit 7 of byte `b` read that byte and land on bit 7 of the next -/
theorem motoBits_byte (frame : Bits) (b n : Nat) :
    motoBits frame (8 * b + 7) (n + 8) =
      [frame.getD (8 * b + 7) false, frame.getD (8 * b + 6) false, frame.getD (8 * b + 5) false,
       frame.getD (8 * b + 4) false, frame.getD (8 * b + 3) false, frame.getD (8 * b + 2) false,
       frame.getD (8 * b + 1) false, frame.getD (8 * b) false] ++ motoBits frame (8 * (b + 1) + 7) n := by
  have e7 : (8 * b + 7) % 8 ≠ 0 := by omega
  have e6 : (8 * b + 6) % 8 ≠ 0 := by omega
  have e5 : (8 * b + 5) % 8 ≠ 0 := by omega
  have e4 : (8 * b + 4) % 8 ≠ 0 := by omega
  have e3 : (8 * b + 3) % 8 ≠ 0 := by omega
  have e2 : (8 * b + 2) % 8 ≠ 0 := by omega
  have e1 : (8 * b + 1) % 8 ≠ 0 := by omega
  have e0 : (8 * b) % 8 = 0 := by omega
  simp only [motoBits, e7, e6, e5, e4, e3, e2, e1, e0, ↓reduceIte,
    show 8 * b + 7 - 1 = 8 * b + 6 by omega, show 8 * b + 6 - 1 = 8 * b + 5 by omega,
    show 8 * b + 5 - 1 = 8 * b + 4 by omega, show 8 * b + 4 - 1 = 8 * b + 3 by omega,
    show 8 * b + 3 - 1 = 8 * b + 2 by omega, show 8 * b + 2 - 1 = 8 * b + 1 by omega,
    show 8 * b + 1 - 1 = 8 * b by omega, show 8 * b + 15 = 8 * (b + 1) + 7 by omega,
    List.cons_append, List.nil_append]

theorem getD_mid (pre mid post : Bits) (i : Nat) (hi : i < mid.length) :
    (pre ++ mid ++ post).getD (pre.length + i) false = mid.getD i false := by
  simp only [List.getD_eq_getElem?_getD, List.append_assoc]
  rw [List.getElem?_append_right (by omega), Nat.add_sub_cancel_left, List.getElem?_append_left hi]

theorem msbNat_reverse (l : Bits) : msbNat l.reverse = bitsNat l := by
  induction l with
  | nil => rfl
  | cons b bs ih =>
    rw [List.reverse_cons, msbNat_append, ih]
    simp only [List.length_singleton, Nat.pow_one, bitsNat, msbNat, List.foldl_cons, List.foldl_nil]
    omega

/-- the byte read MSB-first is the byte -/
theorem msb_byte (x : Nat) :
    msbNat [(natBits 8 x).getD 7 false, (natBits 8 x).getD 6 false, (natBits 8 x).getD 5 false,
            (natBits 8 x).getD 4 false, (natBits 8 x).getD 3 false, (natBits 8 x).getD 2 false,
            (natBits 8 x).getD 1 false, (natBits 8 x).getD 0 false] = x % 256 := by
  have h := msbNat_reverse (natBits 8 x)
  rw [bitsNat_natBits_mod] at h
  rw [← h]
  simp only [natBits, List.getD_cons_succ, List.getD_cons_zero, List.reverse_cons, List.reverse_nil,
    List.nil_append, List.cons_append]

/-- **Motorola extraction of a big-endian leaf**: in a frame holding `bigBits k w` at the
byte-aligned bit offset `8*b`, the Motorola signal starting at `8*b + 7` of length `8*k` reads
the low `8*k` bits of `w` -/
theorem extractMotorola_bigBits (pre post : Bits) (b k w : Nat) (hp : pre.length = 8 * b) :
    extractMotorola (pre ++ bigBits k w ++ post) (8 * b + 7) (8 * k) = w % 2 ^ (8 * k) := by
  unfold extractMotorola
  induction k generalizing pre b with
  | zero => simp [motoBits, msbNat, Nat.mod_one]
  | succ k ih =>
    have e : 8 * (k + 1) = 8 * k + 8 := by omega
    rw [e, motoBits_byte, msbNat_append]
    -- the first byte
    have hb : ∀ i, i < 8 → (pre ++ bigBits (k + 1) w ++ post).getD (8 * b + i) false
        = (natBits 8 (w / 256 ^ k)).getD i false := by
      intro i hi
      have : pre ++ bigBits (k + 1) w ++ post = pre ++ natBits 8 (w / 256 ^ k) ++ (bigBits k w ++ post) := by
        simp [bigBits, List.append_assoc]
      rw [this, ← hp, getD_mid _ _ _ _ (by simpa using hi)]
    rw [hb 7 (by omega), hb 6 (by omega), hb 5 (by omega), hb 4 (by omega), hb 3 (by omega),
      hb 2 (by omega), hb 1 (by omega)]
    have h0 := hb 0 (by omega)
    simp only [Nat.add_zero] at h0
    rw [h0, msb_byte]
    -- the remaining bytes
    have hrest : pre ++ bigBits (k + 1) w ++ post
        = (pre ++ natBits 8 (w / 256 ^ k)) ++ bigBits k w ++ post := by
      simp [bigBits, List.append_assoc]
    rw [hrest, ih (pre ++ natBits 8 (w / 256 ^ k)) (b + 1) (by simp [hp]; omega)]
    -- arithmetic: (w / 256^k % 256) * 2^(8k) + w % 2^(8k) = w % 2^(8k+8)
    have hl : (motoBits ((pre ++ natBits 8 (w / 256 ^ k)) ++ bigBits k w ++ post) (8 * (b + 1) + 7) (8 * k)).length = 8 * k := by
      generalize (pre ++ natBits 8 (w / 256 ^ k)) ++ bigBits k w ++ post = fr
      generalize 8 * (b + 1) + 7 = p
      generalize 8 * k = n
      induction n generalizing p with
      | zero => rfl
      | succ n ihn => simp [motoBits, ihn]
    rw [hl]
    have p1 : (256 : Nat) ^ k = 2 ^ (8 * k) := by
      rw [show (256 : Nat) = 2 ^ 8 by rfl, ← Nat.pow_mul]
    rw [p1]
    have p2 : (2 : Nat) ^ (8 * k + 8) = 2 ^ (8 * k) * 256 := by rw [Nat.pow_add]
    rw [p2, Nat.mod_mul]
    generalize 2 ^ (8 * k) = P
    rw [Nat.mul_comm]
    exact Nat.add_comm _ _

/-- the bits one leaf contributes to the frame -/
def leafPiece (l : Leaf) (v : Int) : Bits :=
  if l.endian == "big" then bigBits (l.len / 8) (toTwos l.len v) else natBits l.len (toTwos l.len v)

theorem leafPiece_length (l : Leaf) (v : Int) (h : l.endian = "big" → l.len % 8 = 0) :
    (leafPiece l v).length = l.len := by
  unfold leafPiece
  split
  · rename_i hb
    have := h (by simpa using hb)
    rw [bigBits_length]; omega
  · simp

/-- a frame packed from a tiling layout splits around its `k`-th leaf at that leaf's offset -/
theorem packLeavesE_split (ls : List Leaf) (vs : List Int) (c e : Nat) (h : Tiles c ls e)
    (hv : vs.length = ls.length) (hbig : ∀ l ∈ ls, l.endian = "big" → l.len % 8 = 0)
    (k : Nat) (hk : k < ls.length) :
    ∃ pre post, packLeavesE ls vs = pre ++ leafPiece ls[k] (vs[k]'(by omega)) ++ post ∧
      pre.length = ls[k].start - c := by
  induction ls generalizing c vs k with
  | nil => simp at hk
  | cons l ls ih =>
    cases vs with
    | nil => simp at hv
    | cons v vs =>
      simp only [List.length_cons, Nat.add_right_cancel_iff] at hv
      cases k with
      | zero =>
        refine ⟨[], packLeavesE ls vs, ?_, ?_⟩
        · simp [packLeavesE, leafPiece]
        · simp [h.1]
      | succ k =>
        simp only [List.length_cons, Nat.add_lt_add_iff_right] at hk
        obtain ⟨pre, post, h1, h2⟩ := ih vs (c + l.len) h.2 hv (fun x hx => hbig x (by simp [hx])) k hk
        have hr := h.2.mem_range ls[k] (List.getElem_mem _)
        refine ⟨leafPiece l v ++ pre, post, ?_, ?_⟩
        · simp only [List.getElem_cons_succ, packLeavesE]
          rw [h1]
          simp [leafPiece, List.append_assoc]
        · simp only [List.getElem_cons_succ, List.length_append]
          rw [leafPiece_length l v (hbig l (by simp)), h2]
          omega

theorem extractIntel_mid (pre post : Bits) (n w : Nat) (hw : w < 2 ^ n) :
    extractIntel (pre ++ natBits n w ++ post) pre.length n = w := by
  unfold extractIntel
  rw [List.append_assoc, List.drop_append, List.drop_of_length_le (Nat.le_refl _), Nat.sub_self, List.drop_zero,
    List.nil_append, List.take_append_of_le_length (by simp), List.take_of_length_le (by simp)]
  exact bitsNat_natBits n w hw

/-- **decode ∘ pack = id, both byte orders**: in a frame packed from a tiling layout that starts
at bit 0, reading the `k`-th signal as the generated DBC describes it — Intel at `start` for a
little-endian leaf, Motorola at `start + 7` for a big-endian (byte-aligned, whole-byte) leaf —
returns the two's-complement word of the `k`-th value -/
theorem extract_packE (ls : List Leaf) (vs : List Int) (e : Nat) (h : Tiles 0 ls e)
    (hv : vs.length = ls.length)
    (hbig : ∀ l ∈ ls, l.endian = "big" → l.len % 8 = 0 ∧ l.start % 8 = 0)
    (k : Nat) (hk : k < ls.length) :
    (if ls[k].endian == "big" then extractMotorola (packLeavesE ls vs) (ls[k].start + 7) ls[k].len
     else extractIntel (packLeavesE ls vs) ls[k].start ls[k].len) = toTwos ls[k].len (vs[k]'(by omega)) := by
  obtain ⟨pre, post, h1, h2⟩ := packLeavesE_split ls vs 0 e h hv (fun l hl hb => (hbig l hl hb).1) k hk
  simp only [Nat.sub_zero] at h2
  rw [h1]
  unfold leafPiece
  split
  · rename_i hb
    obtain ⟨ha, hs⟩ := hbig ls[k] (List.getElem_mem _) (by simpa using hb)
    have e1 : ls[k].start = 8 * (ls[k].start / 8) := by omega
    have e2 : ls[k].len = 8 * (ls[k].len / 8) := by omega
    have := extractMotorola_bigBits pre post (ls[k].start / 8) (ls[k].len / 8) (toTwos ls[k].len (vs[k]'(by omega)))
      (by omega)
    rw [← e1, ← e2] at this
    rw [this]
    exact Nat.mod_eq_of_lt (toTwos_lt _ _)
  · rw [← h2]
    exact extractIntel_mid pre post _ _ (toTwos_lt _ _)

end Fcp
