import Lean.Data.Json
import FcpModel.Schema
/-!
# JSON glue for the line protocol (driver side)

Schemas travel in the shape of `FcpV2.to_dict()`, except that the harness turns
every Python `dict` whose order matters (`fields` of impls, signal blocks and
devices) into a list of `[key, value]` pairs and every float into `{"f": "<repr>"}`.
-/
open Lean
namespace Fcp.J

def tyName (s : String) : Except String (Char × Nat) :=
  match s.toList with
  | c :: ds => match (String.ofList ds).toNat? with
    | some n => .ok (c, n)
    | none => .error s!"bad numeric type {s}"
  | [] => .error "empty type name"

partial def sty (j : Json) : Except String STy := do
  let k ← j.getObjValAs? String "type"
  match k with
  | "unsigned" => let (_, n) ← tyName (← j.getObjValAs? String "name"); return .u n
  | "signed" => let (_, n) ← tyName (← j.getObjValAs? String "name"); return .i n
  | "float" => return .f32
  | "double" => return .f64
  | "str" => return .str
  | "Enum" => return .enum (← j.getObjValAs? String "name")
  | "Struct" => return .struct (← j.getObjValAs? String "name")
  | "Array" => return .arr (← sty (← j.getObjVal? "underlying_type")) (← j.getObjValAs? Nat "size")
  | "DynamicArray" => return .dyn (← sty (← j.getObjVal? "underlying_type"))
  | "Optional" => return .opt (← sty (← j.getObjVal? "underlying_type"))
  | _ => throw s!"bad type kind {k}"

partial def xval (j : Json) : Except String XVal :=
  match j with
  | .str s => .ok (.str s)
  | .num n => if n.exponent == 0 then .ok (.int n.mantissa) else .ok (.flt (toString n))
  | .arr a => do return .arr (← a.toList.mapM xval)
  | .obj _ => do
    match j.getObjValAs? String "f" with
    | .ok s => return .flt s
    | .error _ => throw "bad extension value object"
  | .bool b => .ok (.str (toString b))
  | .null => .ok (.str "None")

def pairs (j : Json) : Except String (List (String × XVal)) := do
  let a ← j.getArr?
  a.toList.mapM fun p => do
    let q ← p.getArr?
    if h : q.size = 2 then
      return (← q[0].getStr?, ← xval q[1])
    else throw "bad pair"

def optStr (j : Json) (k : String) : Option String :=
  match j.getObjValAs? String k with
  | .ok s => some s
  | .error _ => none

def field (j : Json) : Except String Field := do
  return { name := ← j.getObjValAs? String "name",
           id := ← j.getObjValAs? Int "field_id",
           ty := ← sty (← j.getObjVal? "type"),
           unit := optStr j "unit" }

def struct (j : Json) : Except String Struct := do
  let fs ← j.getObjValAs? (Array Json) "fields"
  return { name := ← j.getObjValAs? String "name", fields := ← fs.toList.mapM field }

def enum (j : Json) : Except String Enum := do
  let es ← j.getObjValAs? (Array Json) "enumeration"
  return { name := ← j.getObjValAs? String "name",
           enumeration := ← es.toList.mapM fun e => do
             return { name := ← e.getObjValAs? String "name", value := ← e.getObjValAs? Int "value" } }

def signalBlock (j : Json) : Except String SignalBlock := do
  return { name := ← j.getObjValAs? String "name", fields := ← pairs (← j.getObjVal? "fields") }

def impl (j : Json) : Except String Impl := do
  let ss ← j.getObjValAs? (Array Json) "signals"
  return { name := ← j.getObjValAs? String "name",
           protocol := ← j.getObjValAs? String "protocol",
           type := ← j.getObjValAs? String "type",
           fields := ← pairs (← j.getObjVal? "fields"),
           signals := ← ss.toList.mapM signalBlock }

def service (j : Json) : Except String Service := do
  let ms ← j.getObjValAs? (Array Json) "methods"
  return { name := ← j.getObjValAs? String "name", id := ← j.getObjValAs? Int "id",
           methods := ← ms.toList.mapM fun m => do
             return { name := ← m.getObjValAs? String "name", id := ← m.getObjValAs? Int "id",
                      input := ← m.getObjValAs? String "input",
                      output := ← m.getObjValAs? String "output" } }

def device (j : Json) : Except String Device := do
  let fs ← pairs (← j.getObjVal? "fields")
  let sv := fs.find? (·.1 == "services")
  let services : Option (List String) := sv.map fun (_, v) =>
    match v with
    | .arr l => l.map fun x => match x with | .str s => s | .int i => toString i | _ => "?"
    | .str s => s.toList.map (·.toString)
    | _ => []
  return { name := ← j.getObjValAs? String "name", services := services }

def arrOr (j : Json) (k : String) : Array Json :=
  match j.getObjValAs? (Array Json) k with
  | .ok a => a
  | .error _ => #[]

def schema (j : Json) : Except String Schema := do
  return { structs := ← (arrOr j "structs").toList.mapM struct,
           enums := ← (arrOr j "enums").toList.mapM enum,
           impls := ← (arrOr j "impls").toList.mapM impl,
           services := ← (arrOr j "services").toList.mapM service,
           devices := ← (arrOr j "devices").toList.mapM device }

/-- values: int → number, string → {"s":[codes]}, None → null, Some v → {"some": v},
lists and struct values → arrays -/
partial def val (j : Json) : Except String Val :=
  match j with
  | .num n => if n.exponent == 0 then .ok (.int n.mantissa) else .error "non-integer number"
  | .null => .ok .none
  | .arr a => do
    let vs ← a.toList.mapM val
    return vs.foldr Val.cons Val.nil
  | .obj _ => do
    match j.getObjVal? "s" with
    | .ok s => do
      let cs ← s.getArr?
      return .str (← cs.toList.mapM fun c => c.getNat?)
    | .error _ => return .some (← val (← j.getObjVal? "some"))
  | _ => .error "bad value"

partial def valToJson : Val → Json
  | .int i => .num ⟨i, 0⟩
  | .str cs => Json.mkObj [("s", .arr (cs.map (fun (c : Nat) => Json.num ⟨(c : Int), 0⟩)).toArray)]
  | .none => .null
  | .some v => Json.mkObj [("some", valToJson v)]
  | .nil => .arr #[]
  | .cons v vs => match valToJson vs with
    | .arr a => .arr (#[valToJson v] ++ a)
    | _ => .arr #[valToJson v]

def natsToJson (l : List Nat) : Json := .arr (l.map (fun (c : Nat) => Json.num ⟨(c : Int), 0⟩)).toArray

def natList (j : Json) : Except String (List Nat) := do
  let a ← j.getArr?
  a.toList.mapM fun c => c.getNat?

end Fcp.J
