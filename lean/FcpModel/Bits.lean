/-!
# Bits: LSB-first bit lists, bytes, two's complement

Shared by every codec model.  Core Lean only.
-/
namespace Fcp

abbrev Bits := List Bool

/-- the `k` low bits of `x`, least significant first -/
def natBits : Nat → Nat → Bits
  | 0, _ => []
  | k+1, x => (x % 2 == 1) :: natBits k (x / 2)

/-- value of an LSB-first bit list -/
def bitsNat : Bits → Nat
  | [] => 0
  | b :: bs => (if b then 1 else 0) + 2 * bitsNat bs

/-- read `k` bits from the front, failing when fewer are present -/
def readN (k : Nat) (bs : Bits) : Option (Nat × Bits) :=
  if (bs.take k).length < k then none else some (bitsNat (bs.take k), bs.drop k)

/-- two's complement of `i` on `n` bits -/
def toTwos (n : Nat) (i : Int) : Nat := (i % (2^n : Int)).toNat

/-- signed reading of an `n`-bit word -/
def ofTwos (n : Nat) (w : Nat) : Int := if 2 * w ≥ 2^n then (w : Int) - 2^n else w

def packAux : Nat → Bits → List Nat
  | 0, _ => []
  | k+1, bs => bitsNat (bs.take 8) :: packAux k (bs.drop 8)

/-- 8 bits per byte, LSB first, zero padding in the last byte -/
def pack (bs : Bits) : List Nat := packAux ((bs.length + 7) / 8) bs

def unpack : List Nat → Bits
  | [] => []
  | b :: bs => natBits 8 b ++ unpack bs

/-! ## lemmas -/

theorem readN_eq (k : Nat) (bs : Bits) :
    readN k bs = if bs.length < k then none else some (bitsNat (bs.take k), bs.drop k) := by
  unfold readN
  have : (bs.take k).length < k ↔ bs.length < k := by
    rw [List.length_take]; omega
  by_cases h : bs.length < k
  · rw [if_pos (this.mpr h), if_pos h]
  · rw [if_neg (fun h' => h (this.mp h')), if_neg h]

@[simp] theorem natBits_length (k x : Nat) : (natBits k x).length = k := by
  induction k generalizing x with
  | zero => rfl
  | succ k ih => simp [natBits, ih]

theorem bitsNat_lt (l : Bits) : bitsNat l < 2 ^ l.length := by
  induction l with
  | nil => simp [bitsNat]
  | cons b l ih =>
    simp only [bitsNat, List.length_cons, Nat.pow_succ]
    split <;> omega

theorem bitsNat_natBits (k x : Nat) (h : x < 2^k) : bitsNat (natBits k x) = x := by
  induction k generalizing x with
  | zero => simp at h; simp [natBits, bitsNat, h]
  | succ k ih =>
    simp only [natBits, bitsNat]
    have : x / 2 < 2^k := by omega
    rw [ih _ this]
    by_cases hx : x % 2 = 1 <;> simp [hx] <;> omega

theorem bitsNat_natBits_mod (k x : Nat) : bitsNat (natBits k x) = x % 2^k := by
  induction k generalizing x with
  | zero => simp [natBits, bitsNat, Nat.mod_one]
  | succ k ih =>
    simp only [natBits, bitsNat]
    rw [ih]
    have h2 : x % 2 ^ (k+1) = x % 2 + 2 * ((x / 2) % 2 ^ k) := by
      rw [Nat.pow_succ, Nat.mul_comm, Nat.mod_mul]
    rw [h2]
    by_cases hx : x % 2 = 1 <;> simp [hx] <;> omega

theorem natBits_bitsNat (l : Bits) (k : Nat) (h : l.length ≤ k) :
    natBits k (bitsNat l) = l ++ List.replicate (k - l.length) false := by
  induction l generalizing k with
  | nil =>
    simp only [bitsNat, List.length_nil, Nat.sub_zero, List.nil_append]
    induction k with
    | zero => rfl
    | succ k ih => simp [natBits, List.replicate_succ, ih]
  | cons b l ih =>
    cases k with
    | zero => simp at h
    | succ k =>
      simp only [List.length_cons] at h
      have hl : l.length ≤ k := by omega
      simp only [natBits, bitsNat, List.length_cons, List.cons_append]
      have h1 : ((if b = true then 1 else 0) + 2 * bitsNat l) / 2 = bitsNat l := by
        split <;> omega
      have h2 : (((if b = true then 1 else 0) + 2 * bitsNat l) % 2 == 1) = b := by
        cases b <;> simp <;> omega
      rw [h1, h2, ih k hl]
      simp

theorem natBits_full (l : Bits) : natBits l.length (bitsNat l) = l := by
  have := natBits_bitsNat l l.length (Nat.le_refl _)
  simpa using this

theorem readN_natBits (k x : Nat) (rest : Bits) (h : x < 2^k) :
    readN k (natBits k x ++ rest) = some (x, rest) := by
  rw [readN_eq]
  have hl := natBits_length k x
  simp [hl, bitsNat_natBits k x h]

theorem readN_some {k : Nat} {bs : Bits} {w : Nat} {r : Bits} (h : readN k bs = some (w, r)) :
    bs = natBits k w ++ r ∧ w < 2^k := by
  rw [readN_eq] at h
  split at h
  · cases h
  · rename_i hlen
    simp only [Option.some.injEq, Prod.mk.injEq] at h
    obtain ⟨hw, hr⟩ := h
    have hlen' : (bs.take k).length = k := by simp; omega
    constructor
    · rw [← hw, ← hr]
      have := natBits_full (bs.take k)
      rw [hlen'] at this
      rw [this, List.take_append_drop]
    · rw [← hw]
      have := bitsNat_lt (bs.take k)
      rwa [hlen'] at this

theorem readN_none {k : Nat} {bs : Bits} : readN k bs = none ↔ bs.length < k := by
  rw [readN_eq]
  split <;> simp_all

/-! two's complement -/

def inRangeS (n : Nat) (i : Int) : Prop := -(2^(n-1) : Int) ≤ i ∧ i < 2^(n-1)

theorem toTwos_lt (n : Nat) (i : Int) : toTwos n i < 2^n := by
  unfold toTwos
  have hp : (0:Int) < 2^n := Int.pow_pos (by omega)
  have h1 := Int.emod_lt_of_pos i hp
  have h2 := Int.emod_nonneg i (Int.ne_of_gt hp)
  have : (((i % 2^n).toNat : Nat) : Int) < ((2^n : Nat) : Int) := by
    rw [Int.toNat_of_nonneg h2]; push_cast; exact h1
  exact Int.ofNat_lt.mp this

theorem ofTwos_toTwos (n : Nat) (hn : 0 < n) (i : Int) (h : inRangeS n i) :
    ofTwos n (toTwos n i) = i := by
  obtain ⟨k, rfl⟩ : ∃ k, n = k + 1 := ⟨n - 1, by omega⟩
  unfold inRangeS at h
  simp only [Nat.add_sub_cancel] at h
  unfold ofTwos toTwos
  have hp : (2:Int)^(k+1) = 2 * 2^k := by rw [Int.pow_succ]; omega
  have hpos : (0:Int) < 2^k := Int.pow_pos (by omega)
  have hN : ((2:Nat)^(k+1) : Nat) = 2 * 2^k := by rw [Nat.pow_succ]; omega
  by_cases hi : 0 ≤ i
  · have : i % (2^(k+1) : Int) = i := Int.emod_eq_of_lt hi (by omega)
    rw [this]
    have h2 : ¬ (2 * i.toNat ≥ 2^(k+1)) := by
      have : (i.toNat : Int) = i := Int.toNat_of_nonneg hi
      have hcast : ((2^(k+1) : Nat) : Int) = 2 * 2^k := by push_cast; omega
      omega
    simp [h2]; omega
  · have : i % (2^(k+1) : Int) = i + 2^(k+1) := by
      rw [← Int.add_emod_right]; exact Int.emod_eq_of_lt (by omega) (by omega)
    rw [this]
    have hcast : ((2^(k+1) : Nat) : Int) = 2 * 2^k := by push_cast; omega
    have h2 : (2 * (i + 2^(k+1)).toNat ≥ 2^(k+1)) := by
      have : ((i + 2^(k+1)).toNat : Int) = i + 2^(k+1) := Int.toNat_of_nonneg (by omega)
      omega
    simp [h2]
    have : ((i + 2^(k+1)).toNat : Int) = i + 2^(k+1) := Int.toNat_of_nonneg (by omega)
    omega

theorem ofTwos_inRange (n : Nat) (hn : 0 < n) (w : Nat) (hw : w < 2^n) : inRangeS n (ofTwos n w) := by
  obtain ⟨k, rfl⟩ : ∃ k, n = k + 1 := ⟨n - 1, by omega⟩
  unfold inRangeS ofTwos
  simp only [Nat.add_sub_cancel]
  have hN : ((2:Nat)^(k+1) : Nat) = 2 * 2^k := by rw [Nat.pow_succ]; omega
  have hp : (2:Int)^(k+1) = 2 * 2^k := by rw [Int.pow_succ]; omega
  have hc : ((2^k : Nat) : Int) = (2:Int)^k := by push_cast; rfl
  have hpos : (0:Int) < 2^k := Int.pow_pos (by omega)
  split <;> constructor <;> omega

/-! pack / unpack -/

@[simp] theorem unpack_length (bs : List Nat) : (unpack bs).length = 8 * bs.length := by
  induction bs with
  | nil => rfl
  | cons b bs ih => simp [unpack, ih]; omega

theorem unpack_append (a b : List Nat) : unpack (a ++ b) = unpack a ++ unpack b := by
  induction a with
  | nil => rfl
  | cons x a ih => simp [unpack, ih]

@[simp] theorem packAux_length (k : Nat) (bs : Bits) : (packAux k bs).length = k := by
  induction k generalizing bs with
  | zero => rfl
  | succ k ih => simp [packAux, ih]

theorem pack_length (bs : Bits) : (pack bs).length = (bs.length + 7) / 8 := by
  simp [pack]

theorem unpack_packAux (k : Nat) (bs : Bits) (h : bs.length ≤ 8 * k) :
    unpack (packAux k bs) = bs ++ List.replicate (8 * k - bs.length) false := by
  induction k generalizing bs with
  | zero =>
    have : bs = [] := by
      cases bs with
      | nil => rfl
      | cons _ _ => simp at h
    simp [packAux, unpack, this]
  | succ k ih =>
    simp only [packAux, unpack]
    have hd : (bs.drop 8).length ≤ 8 * k := by simp; omega
    rw [ih _ hd, natBits_bitsNat _ 8 (by simp; omega)]
    by_cases hl : bs.length ≤ 8
    · have h1 : bs.take 8 = bs := List.take_of_length_le hl
      have h2 : bs.drop 8 = [] := List.drop_of_length_le hl
      rw [h1, h2]
      simp only [List.nil_append, List.length_nil, Nat.sub_zero, List.append_assoc,
        List.replicate_append_replicate]
      congr 2; omega
    · have h1 : (bs.take 8).length = 8 := by simp; omega
      rw [h1]
      simp only [Nat.sub_self, List.replicate_zero, List.append_nil, List.length_drop]
      rw [← List.append_assoc, List.take_append_drop]
      congr 2; omega

theorem unpack_pack (bs : Bits) :
    unpack (pack bs) = bs ++ List.replicate (8 * ((bs.length + 7) / 8) - bs.length) false :=
  unpack_packAux _ bs (by omega)

theorem unpack_pack_pad_lt (bs : Bits) : 8 * ((bs.length + 7) / 8) - bs.length < 8 := by omega

def bytesOk (bs : List Nat) : Prop := ∀ b ∈ bs, b < 256

theorem packAux_bytesOk (k : Nat) (bs : Bits) : bytesOk (packAux k bs) := by
  induction k generalizing bs with
  | zero => intro b hb; simp [packAux] at hb
  | succ k ih =>
    intro b hb
    simp only [packAux, List.mem_cons] at hb
    rcases hb with rfl | hb
    · have := bitsNat_lt (bs.take 8)
      have h8 : (bs.take 8).length ≤ 8 := by simp; omega
      have : 2 ^ (bs.take 8).length ≤ 2 ^ 8 := Nat.pow_le_pow_right (by omega) h8
      omega
    · exact ih _ b hb

theorem pack_bytesOk (bs : Bits) : bytesOk (pack bs) := packAux_bytesOk _ _

theorem unpack_injective (a b : List Nat) (ha : bytesOk a) (hb : bytesOk b)
    (h : unpack a = unpack b) : a = b := by
  induction a generalizing b with
  | nil =>
    cases b with
    | nil => rfl
    | cons y b =>
      have := congrArg List.length h
      simp [unpack] at this
      omega
  | cons x a ih =>
    cases b with
    | nil =>
      have := congrArg List.length h
      simp [unpack] at this
    | cons y b =>
      simp only [unpack] at h
      have hx : x < 256 := ha x (by simp)
      have hy : y < 256 := hb y (by simp)
      have hlen : (natBits 8 x).length = (natBits 8 y).length := by simp
      obtain ⟨h1, h2⟩ := List.append_inj h hlen
      have : x = y := by
        have e1 := bitsNat_natBits 8 x (by omega)
        have e2 := bitsNat_natBits 8 y (by omega)
        rw [← e1, ← e2, h1]
      subst this
      congr 1
      exact ih b (fun z hz => ha z (by simp [hz])) (fun z hz => hb z (by simp [hz])) h2

/-- a byte list whose unpacking is `bits` plus fewer than 8 zero bits is `pack bits` -/
theorem eq_pack_of_unpack (bytes : List Nat) (bits : Bits) (k : Nat)
    (hb : bytesOk bytes) (hk : k < 8) (h : unpack bytes = bits ++ List.replicate k false) :
    bytes = pack bits := by
  apply unpack_injective _ _ hb (pack_bytesOk _)
  rw [h, unpack_pack]
  have hl := congrArg List.length h
  simp only [unpack_length, List.length_append, List.length_replicate] at hl
  congr 2
  omega

end Fcp
