import FcpModel.Layout
/-!
# Verifier: model of `fcp.verifier` and of the plug-in checks

`verifyModel` is the category loop of `Verifier.verify` with the registered checks in
registration order, each written with the code's own `count(x) > 1` idiom.
`WellFormed`, `DbcOk`, `COk` are the specification.
-/
namespace Fcp

inductive Rule where
  | emptyStruct | dupField | dupEnumName | dupEnumValue | dupImpl | implNoStruct
  | dupCanId | implTooBig | dupType | missingService | serviceRpc | intWidth
  deriving Repr, DecidableEq, Inhabited

inductive CheckSet where
  | general | dbc | canC | cpp
  deriving Repr, DecidableEq, Inhabited

/-- first element of `xs` failing `ok`, as the loop `for node in nodes: check(node).attempt()` -/
def firstFail {α : Type} (ok : α → Bool) (r : Rule) (xs : List α) : Except Rule Unit :=
  if xs.all ok then .ok () else .error r

def typeNames (S : Schema) : List String := S.structs.map (·.name) ++ S.enums.map (·.name)

def implKeys (S : Schema) : List (String × String) := S.impls.map fun i => (i.name, i.protocol)

def serviceNames (S : Schema) : List String := S.services.map (·.name)

/-- key of an impl's `id` field for equality (`impl.fields.get("id")`) -/
def xvalKey : XVal → String
  | .int i => "i" ++ toString i
  | .flt s => "f" ++ s
  | .str s => "s" ++ s
  | .arr _ => "a"

def Impl.idKey (i : Impl) : String :=
  match i.fields.lookup "id" with
  | some v => xvalKey v
  | none => "none"

def canIdKeys (S : Schema) : List String :=
  (S.impls.filter (·.protocol == "can")).map (·.idKey)

/-- packed size of a CAN binding, `none` when it has no static size -/
def implBits (S : Schema) (fuel : Nat) (i : Impl) : Option Nat :=
  (generate S true fuel i).map (·.2)

/-! the checks -/

def chkEmptyStruct (S : Schema) : Except Rule Unit :=
  firstFail (fun st : Struct => !st.fields.isEmpty) .emptyStruct S.structs

def chkDupField (S : Schema) : Except Rule Unit :=
  firstFail (fun st : Struct =>
    st.fields.all fun f => (st.fields.map (·.name)).count f.name ≤ 1) .dupField S.structs

def chkDupEnumName (S : Schema) : Except Rule Unit :=
  firstFail (fun e : Enum =>
    e.enumeration.all fun x => (e.enumeration.map (·.name)).count x.name ≤ 1) .dupEnumName S.enums

def chkDupEnumValue (S : Schema) : Except Rule Unit :=
  firstFail (fun e : Enum =>
    e.enumeration.all fun x => (e.enumeration.map (·.value)).count x.value ≤ 1) .dupEnumValue S.enums

def chkDupImpl (S : Schema) : Except Rule Unit :=
  firstFail (fun i : Impl => (implKeys S).count (i.name, i.protocol) ≤ 1) .dupImpl S.impls

def chkImplStruct (S : Schema) : Except Rule Unit :=
  firstFail (fun i : Impl => (S.getStruct i.type).isSome) .implNoStruct S.impls

def chkDupCanId (S : Schema) : Except Rule Unit :=
  firstFail (fun i : Impl => !(i.protocol == "can") || (canIdKeys S).count i.idKey ≤ 1) .dupCanId S.impls

def chkImplSize (S : Schema) (fuel : Nat) : Except Rule Unit :=
  firstFail (fun i : Impl => !(i.protocol == "can") ||
    (match implBits S fuel i with | some n => n ≤ 64 | none => false)) .implTooBig S.impls

def chkDupType (S : Schema) : Except Rule Unit :=
  firstFail (fun n : String => (typeNames S).count n ≤ 1) .dupType (typeNames S)

def chkServices (S : Schema) : Except Rule Unit :=
  firstFail (fun d : Device =>
    match d.services with
    | none => true
    | some l => l.all fun s => (serviceNames S).contains s) .missingService S.devices

/-- the innermost element type of a field type (containers peeled off) -/
def STy.leaf : STy → STy
  | .arr t _ => t.leaf
  | .dyn t => t.leaf
  | .opt t => t.leaf
  | t => t

/-- the C++ plug-in's check of one field (category `field`): an integer has a carrier type -/
def widthOk (t : STy) : Bool :=
  match t.leaf with
  | .u n => decide (1 ≤ n ∧ n ≤ 64)
  | .i n => decide (1 ≤ n ∧ n ≤ 64)
  | _ => true

def chkWidths (S : Schema) : Except Rule Unit :=
  firstFail (fun st : Struct => st.fields.all fun f => widthOk f.ty) .intWidth S.structs

/-- the C++ plug-in's check of one service (category `service`): what its rpc layer needs -/
def serviceRpcOk (S : Schema) (sv : Service) : Bool :=
  decide ((S.services.map (·.name)).count sv.name ≤ 1) &&
  decide ((S.services.map (·.id)).count sv.id ≤ 1) &&
  decide (0 ≤ sv.id ∧ sv.id ≤ 255) &&
  sv.methods.all fun m =>
    decide ((sv.methods.map (·.name)).count m.name ≤ 1) &&
    decide ((sv.methods.map (·.id)).count m.id ≤ 1) &&
    decide (0 ≤ m.id ∧ m.id ≤ 255) &&
    (S.getStruct m.input).isSome && (S.getStruct m.output).isSome

def chkServiceRpc (S : Schema) : Except Rule Unit :=
  firstFail (serviceRpcOk S) .serviceRpc S.services

/-- `Verifier.verify`: categories struct, field, enum, impl, signal_block, type, service, device -/
def verifyModel (cs : CheckSet) (fuel : Nat) (S : Schema) : Except Rule Unit := do
  chkEmptyStruct S
  chkDupField S
  match cs with
  | .cpp => chkWidths S
  | _ => pure ()
  chkDupEnumName S
  chkDupEnumValue S
  chkDupImpl S
  match cs with
  | .general => pure ()
  | .dbc => do chkImplStruct S; chkDupCanId S
  | .canC => do chkImplStruct S; chkImplSize S fuel
  | .cpp => pure ()
  chkDupType S
  match cs with
  | .cpp => chkServiceRpc S
  | _ => pure ()
  chkServices S

/-! ## specification -/

structure WellFormed (S : Schema) : Prop where
  types : (typeNames S).Nodup
  impls : (implKeys S).Nodup
  fields : ∀ st ∈ S.structs, (st.fields.map (·.name)).Nodup
  nonempty : ∀ st ∈ S.structs, st.fields ≠ []
  enumNames : ∀ e ∈ S.enums, (e.enumeration.map (·.name)).Nodup
  enumValues : ∀ e ∈ S.enums, (e.enumeration.map (·.value)).Nodup
  services : ∀ d ∈ S.devices, ∀ l, d.services = some l → ∀ s ∈ l, s ∈ serviceNames S

structure DbcOk (S : Schema) : Prop where
  bound : ∀ i ∈ S.impls, (S.getStruct i.type).isSome
  ids : (canIdKeys S).Nodup

structure COk (S : Schema) (fuel : Nat) : Prop where
  bound : ∀ i ∈ S.impls, (S.getStruct i.type).isSome
  size : ∀ i ∈ S.impls, i.protocol = "can" → ∃ n, implBits S fuel i = some n ∧ n ≤ 64

/-- every integer field of every struct has a carrier type (1 to 64 bits), inside containers too -/
def WidthsOk (S : Schema) : Prop := ∀ st ∈ S.structs, ∀ f ∈ st.fields, widthOk f.ty = true

/-- what the rpc layer of the C++ generator needs from the services of a schema -/
structure CppOk (S : Schema) : Prop where
  names : (S.services.map (·.name)).Nodup
  ids : (S.services.map (·.id)).Nodup
  idRange : ∀ sv ∈ S.services, 0 ≤ sv.id ∧ sv.id ≤ 255
  methodNames : ∀ sv ∈ S.services, (sv.methods.map (·.name)).Nodup
  methodIds : ∀ sv ∈ S.services, (sv.methods.map (·.id)).Nodup
  methodIdRange : ∀ sv ∈ S.services, ∀ m ∈ sv.methods, 0 ≤ m.id ∧ m.id ≤ 255
  payloads : ∀ sv ∈ S.services, ∀ m ∈ sv.methods, (S.getStruct m.input).isSome ∧ (S.getStruct m.output).isSome

/-! ## the `count > 1` idiom is `Nodup` -/

theorem all_count_le_one_iff_nodup {α : Type} [BEq α] [LawfulBEq α] (l : List α) :
    (∀ x ∈ l, l.count x ≤ 1) ↔ l.Nodup := by
  rw [List.nodup_iff_count]
  constructor
  · intro h a
    by_cases ha : a ∈ l
    · exact h a ha
    · rw [List.count_eq_zero_of_not_mem ha]; omega
  · intro h x _; exact h x

theorem firstFail_ok {α : Type} (ok : α → Bool) (r : Rule) (xs : List α) :
    firstFail ok r xs = .ok () ↔ ∀ x ∈ xs, ok x = true := by
  unfold firstFail
  by_cases h : xs.all ok = true
  · simp only [h, if_true, true_iff]; exact List.all_eq_true.mp h
  · simp only [h]
    constructor
    · intro h'; cases h'
    · intro h'; exact absurd (List.all_eq_true.mpr h') h

theorem firstFail_cases {α : Type} (ok : α → Bool) (r : Rule) (xs : List α) :
    firstFail ok r xs = .ok () ∨ firstFail ok r xs = .error r := by
  unfold firstFail; split <;> simp

theorem map_count_nodup {α β : Type} [BEq β] [LawfulBEq β] (l : List α) (f : α → β) :
    (l.all fun x => decide ((l.map f).count (f x) ≤ 1)) = true ↔ (l.map f).Nodup := by
  rw [← all_count_le_one_iff_nodup]
  simp only [List.all_eq_true, decide_eq_true_eq, List.mem_map, forall_exists_index, and_imp,
    forall_apply_eq_imp_iff₂]

/-! ## verdict = specification -/

theorem seq_ok (a b : Except Rule Unit) :
    (do a; b) = .ok () ↔ a = .ok () ∧ b = .ok () := by
  cases a with
  | error e => simp [bind, Except.bind]
  | ok u => cases u; simp [bind, Except.bind]

theorem chkEmptyStruct_ok (S : Schema) :
    chkEmptyStruct S = .ok () ↔ ∀ st ∈ S.structs, st.fields ≠ [] := by
  unfold chkEmptyStruct
  rw [firstFail_ok]
  constructor
  · intro h st hst; have := h st hst; simpa [List.isEmpty_iff] using this
  · intro h st hst; have := h st hst; simpa [List.isEmpty_iff] using this

theorem chkDupField_ok (S : Schema) :
    chkDupField S = .ok () ↔ ∀ st ∈ S.structs, (st.fields.map (·.name)).Nodup := by
  unfold chkDupField
  rw [firstFail_ok]
  constructor
  · intro h st hst; exact (map_count_nodup st.fields (·.name)).mp (h st hst)
  · intro h st hst; exact (map_count_nodup st.fields (·.name)).mpr (h st hst)

theorem chkDupEnumName_ok (S : Schema) :
    chkDupEnumName S = .ok () ↔ ∀ e ∈ S.enums, (e.enumeration.map (·.name)).Nodup := by
  unfold chkDupEnumName
  rw [firstFail_ok]
  constructor
  · intro h e he; exact (map_count_nodup e.enumeration (·.name)).mp (h e he)
  · intro h e he; exact (map_count_nodup e.enumeration (·.name)).mpr (h e he)

theorem chkDupEnumValue_ok (S : Schema) :
    chkDupEnumValue S = .ok () ↔ ∀ e ∈ S.enums, (e.enumeration.map (·.value)).Nodup := by
  unfold chkDupEnumValue
  rw [firstFail_ok]
  constructor
  · intro h e he; exact (map_count_nodup e.enumeration (·.value)).mp (h e he)
  · intro h e he; exact (map_count_nodup e.enumeration (·.value)).mpr (h e he)

theorem chkDupImpl_ok (S : Schema) : chkDupImpl S = .ok () ↔ (implKeys S).Nodup := by
  unfold chkDupImpl implKeys
  rw [firstFail_ok, ← map_count_nodup S.impls (fun i => (i.name, i.protocol))]
  simp only [List.all_eq_true]

theorem chkDupType_ok (S : Schema) : chkDupType S = .ok () ↔ (typeNames S).Nodup := by
  unfold chkDupType
  rw [firstFail_ok, ← all_count_le_one_iff_nodup]
  simp only [decide_eq_true_eq]

theorem chkServices_ok (S : Schema) :
    chkServices S = .ok () ↔
      ∀ d ∈ S.devices, ∀ l, d.services = some l → ∀ s ∈ l, s ∈ serviceNames S := by
  unfold chkServices
  rw [firstFail_ok]
  constructor
  · intro h d hd l hl s hs
    have := h d hd
    rw [hl] at this
    simp only [List.all_eq_true, List.contains_iff_mem] at this
    exact this s hs
  · intro h d hd
    cases hl : d.services with
    | none => rfl
    | some l =>
      simp only [List.all_eq_true, List.contains_iff_mem]
      exact h d hd l hl

theorem chkImplStruct_ok (S : Schema) :
    chkImplStruct S = .ok () ↔ ∀ i ∈ S.impls, (S.getStruct i.type).isSome := by
  unfold chkImplStruct
  rw [firstFail_ok]

theorem chkDupCanId_ok (S : Schema) : chkDupCanId S = .ok () ↔ (canIdKeys S).Nodup := by
  unfold chkDupCanId
  rw [firstFail_ok]
  have key := map_count_nodup (S.impls.filter (·.protocol == "can")) (·.idKey)
  unfold canIdKeys
  rw [← key]
  simp only [List.all_eq_true, List.mem_filter, Bool.or_eq_true, Bool.not_eq_true', and_imp]
  constructor
  · intro h i hi hc
    rcases h i hi with h1 | h1
    · rw [hc] at h1; cases h1
    · exact h1
  · intro h i hi
    by_cases hc : (i.protocol == "can") = true
    · exact Or.inr (h i hi hc)
    · exact Or.inl (by simpa using hc)

theorem chkImplSize_ok (S : Schema) (fuel : Nat) :
    chkImplSize S fuel = .ok () ↔
      ∀ i ∈ S.impls, i.protocol = "can" → ∃ n, implBits S fuel i = some n ∧ n ≤ 64 := by
  unfold chkImplSize
  rw [firstFail_ok]
  constructor
  · intro h i hi hc
    have := h i hi
    simp only [hc, beq_self_eq_true, Bool.not_true, Bool.false_or] at this
    cases hb : implBits S fuel i with
    | none => rw [hb] at this; cases this
    | some n => rw [hb] at this; exact ⟨n, rfl, by simpa using this⟩
  · intro h i hi
    by_cases hc : i.protocol = "can"
    · obtain ⟨n, hn, hle⟩ := h i hi hc
      simp [hc, hn, hle]
    · simp [hc]

theorem wellFormed_iff (S : Schema) : WellFormed S ↔
    ((typeNames S).Nodup ∧ (implKeys S).Nodup ∧ (∀ st ∈ S.structs, (st.fields.map (·.name)).Nodup) ∧
     (∀ st ∈ S.structs, st.fields ≠ []) ∧ (∀ e ∈ S.enums, (e.enumeration.map (·.name)).Nodup) ∧
     (∀ e ∈ S.enums, (e.enumeration.map (·.value)).Nodup) ∧
     (∀ d ∈ S.devices, ∀ l, d.services = some l → ∀ s ∈ l, s ∈ serviceNames S)) :=
  ⟨fun w => ⟨w.types, w.impls, w.fields, w.nonempty, w.enumNames, w.enumValues, w.services⟩,
   fun ⟨a, b, c, d, e, f, g⟩ => ⟨a, b, c, d, e, f, g⟩⟩

theorem dbcOk_iff (S : Schema) : DbcOk S ↔
    ((∀ i ∈ S.impls, (S.getStruct i.type).isSome) ∧ (canIdKeys S).Nodup) :=
  ⟨fun d => ⟨d.bound, d.ids⟩, fun ⟨a, b⟩ => ⟨a, b⟩⟩

theorem cOk_iff (S : Schema) (fuel : Nat) : COk S fuel ↔
    ((∀ i ∈ S.impls, (S.getStruct i.type).isSome) ∧
     (∀ i ∈ S.impls, i.protocol = "can" → ∃ n, implBits S fuel i = some n ∧ n ≤ 64)) :=
  ⟨fun d => ⟨d.bound, d.size⟩, fun ⟨a, b⟩ => ⟨a, b⟩⟩

theorem pure_ok : (pure () : Except Rule Unit) = .ok () ↔ True := by simp [pure, Except.pure]

/-- **general verifier**: succeeds exactly on well-formed schemas -/
theorem verify_iff_general (fuel : Nat) (S : Schema) :
    verifyModel .general fuel S = .ok () ↔ WellFormed S := by
  unfold verifyModel
  simp only [seq_ok, chkEmptyStruct_ok, chkDupField_ok, chkDupEnumName_ok, chkDupEnumValue_ok,
    chkDupImpl_ok, chkDupType_ok, chkServices_ok, wellFormed_iff, pure_ok, true_and]
  constructor
  · rintro ⟨a, b, c, d, e, t, sv⟩; exact ⟨t, e, b, a, c, d, sv⟩
  · rintro ⟨t, e, b, a, c, d, sv⟩; exact ⟨a, b, c, d, e, t, sv⟩

/-- **with the DBC plug-in's checks** -/
theorem verify_iff_dbc (fuel : Nat) (S : Schema) :
    verifyModel .dbc fuel S = .ok () ↔ WellFormed S ∧ DbcOk S := by
  unfold verifyModel
  simp only [seq_ok, chkEmptyStruct_ok, chkDupField_ok, chkDupEnumName_ok, chkDupEnumValue_ok,
    chkDupImpl_ok, chkDupType_ok, chkServices_ok, chkImplStruct_ok, chkDupCanId_ok,
    wellFormed_iff, dbcOk_iff]
  constructor
  · rintro ⟨a, b, c, d, e, i, k, t, sv⟩; exact ⟨⟨t, e, b, a, c, d, sv⟩, i, k⟩
  · rintro ⟨⟨t, e, b, a, c, d, sv⟩, i, k⟩; exact ⟨a, b, c, d, e, i, k, t, sv⟩

/-- **with the C plug-in's checks** -/
theorem verify_iff_c (fuel : Nat) (S : Schema) :
    verifyModel .canC fuel S = .ok () ↔ WellFormed S ∧ COk S fuel := by
  unfold verifyModel
  simp only [seq_ok, chkEmptyStruct_ok, chkDupField_ok, chkDupEnumName_ok, chkDupEnumValue_ok,
    chkDupImpl_ok, chkDupType_ok, chkServices_ok, chkImplStruct_ok, chkImplSize_ok,
    wellFormed_iff, cOk_iff]
  constructor
  · rintro ⟨a, b, c, d, e, i, k, t, sv⟩; exact ⟨⟨t, e, b, a, c, d, sv⟩, i, k⟩
  · rintro ⟨⟨t, e, b, a, c, d, sv⟩, i, k⟩; exact ⟨a, b, c, d, e, i, k, t, sv⟩

theorem forall_count_map_nodup {α β : Type} [BEq β] [LawfulBEq β] (l : List α) (f : α → β) :
    (∀ x ∈ l, (l.map f).count (f x) ≤ 1) ↔ (l.map f).Nodup := by
  rw [← all_count_le_one_iff_nodup]
  simp only [List.mem_map, forall_exists_index, and_imp, forall_apply_eq_imp_iff₂]

theorem chkServiceRpc_ok (S : Schema) : chkServiceRpc S = .ok () ↔ CppOk S := by
  unfold chkServiceRpc
  rw [firstFail_ok]
  simp only [serviceRpcOk, Bool.and_eq_true, decide_eq_true_eq, List.all_eq_true]
  constructor
  · intro h
    refine ⟨?_, ?_, ?_, ?_, ?_, ?_, ?_⟩
    · exact (forall_count_map_nodup S.services (·.name)).mp fun sv hsv => (h sv hsv).1.1.1
    · exact (forall_count_map_nodup S.services (·.id)).mp fun sv hsv => (h sv hsv).1.1.2
    · exact fun sv hsv => (h sv hsv).1.2
    · exact fun sv hsv => (forall_count_map_nodup sv.methods (·.name)).mp fun m hm => ((h sv hsv).2 m hm).1.1.1.1
    · exact fun sv hsv => (forall_count_map_nodup sv.methods (·.id)).mp fun m hm => ((h sv hsv).2 m hm).1.1.1.2
    · exact fun sv hsv m hm => ((h sv hsv).2 m hm).1.1.2
    · exact fun sv hsv m hm => ⟨((h sv hsv).2 m hm).1.2, ((h sv hsv).2 m hm).2⟩
  · intro c sv hsv
    refine ⟨⟨⟨?_, ?_⟩, c.idRange sv hsv⟩, fun m hm => ⟨⟨⟨⟨?_, ?_⟩, c.methodIdRange sv hsv m hm⟩, (c.payloads sv hsv m hm).1⟩, (c.payloads sv hsv m hm).2⟩⟩
    · exact (forall_count_map_nodup S.services (·.name)).mpr c.names sv hsv
    · exact (forall_count_map_nodup S.services (·.id)).mpr c.ids sv hsv
    · exact (forall_count_map_nodup sv.methods (·.name)).mpr (c.methodNames sv hsv) m hm
    · exact (forall_count_map_nodup sv.methods (·.id)).mpr (c.methodIds sv hsv) m hm

theorem chkWidths_ok (S : Schema) : chkWidths S = .ok () ↔ WidthsOk S := by
  unfold chkWidths WidthsOk
  rw [firstFail_ok]
  simp only [List.all_eq_true]

/-- **with the C++ plug-in's checks** (categories `field` and `service`, added with the fixes
6f85ba7 and 35b0f7d) -/
theorem verify_iff_cpp (fuel : Nat) (S : Schema) :
    verifyModel .cpp fuel S = .ok () ↔ WellFormed S ∧ WidthsOk S ∧ CppOk S := by
  unfold verifyModel
  simp only [seq_ok, chkEmptyStruct_ok, chkDupField_ok, chkDupEnumName_ok, chkDupEnumValue_ok,
    chkDupImpl_ok, chkDupType_ok, chkServices_ok, chkServiceRpc_ok, chkWidths_ok, wellFormed_iff, pure_ok, true_and]
  constructor
  · rintro ⟨a, b, w, c, d, e, t, k, sv⟩; exact ⟨⟨t, e, b, a, c, d, sv⟩, w, k⟩
  · rintro ⟨⟨t, e, b, a, c, d, sv⟩, w, k⟩; exact ⟨a, b, w, c, d, e, t, k, sv⟩

/-! ## the verdict does not depend on declaration order -/

/-- `S'` lists the same declarations as `S`, each list in some other order -/
structure SchemaPerm (S S' : Schema) : Prop where
  structs : S.structs.Perm S'.structs
  enums : S.enums.Perm S'.enums
  impls : S.impls.Perm S'.impls
  services : S.services.Perm S'.services
  devices : S.devices.Perm S'.devices

theorem SchemaPerm.symm {S S' : Schema} (h : SchemaPerm S S') : SchemaPerm S' S :=
  ⟨h.structs.symm, h.enums.symm, h.impls.symm, h.services.symm, h.devices.symm⟩

theorem getStruct_isSome (S : Schema) (n : String) :
    (S.getStruct n).isSome ↔ ∃ st ∈ S.structs, st.name = n := by
  unfold Schema.getStruct
  rw [List.find?_isSome]
  simp

theorem WellFormed.perm {S S' : Schema} (p : SchemaPerm S S') (w : WellFormed S) : WellFormed S' := by
  constructor
  · have : (typeNames S).Perm (typeNames S') := (p.structs.map _).append (p.enums.map _)
    exact this.nodup_iff.mp w.types
  · have : (implKeys S).Perm (implKeys S') := p.impls.map _
    exact this.nodup_iff.mp w.impls
  · intro st hst; exact w.fields st (p.structs.mem_iff.mpr hst)
  · intro st hst; exact w.nonempty st (p.structs.mem_iff.mpr hst)
  · intro e he; exact w.enumNames e (p.enums.mem_iff.mpr he)
  · intro e he; exact w.enumValues e (p.enums.mem_iff.mpr he)
  · intro d hd l hl s hs
    have := w.services d (p.devices.mem_iff.mpr hd) l hl s hs
    have hp : (serviceNames S).Perm (serviceNames S') := p.services.map _
    exact hp.mem_iff.mp this

theorem DbcOk.perm {S S' : Schema} (p : SchemaPerm S S') (d : DbcOk S) : DbcOk S' := by
  constructor
  · intro i hi
    have := d.bound i (p.impls.mem_iff.mpr hi)
    rw [getStruct_isSome] at this ⊢
    obtain ⟨st, hst, hn⟩ := this
    exact ⟨st, p.structs.mem_iff.mp hst, hn⟩
  · have : (canIdKeys S).Perm (canIdKeys S') := (p.impls.filter _).map _
    exact this.nodup_iff.mp d.ids

theorem getStruct_isSome_perm {S S' : Schema} (p : SchemaPerm S S') (n : String)
    (h : (S.getStruct n).isSome) : (S'.getStruct n).isSome := by
  rw [getStruct_isSome] at h ⊢
  obtain ⟨st, hst, hn⟩ := h
  exact ⟨st, p.structs.mem_iff.mp hst, hn⟩

theorem CppOk.perm {S S' : Schema} (p : SchemaPerm S S') (c : CppOk S) : CppOk S' := by
  have mem : ∀ sv, sv ∈ S'.services → sv ∈ S.services := fun sv h => p.services.mem_iff.mpr h
  exact {
    names := (p.services.map _).nodup_iff.mp c.names
    ids := (p.services.map _).nodup_iff.mp c.ids
    idRange := fun sv h => c.idRange sv (mem sv h)
    methodNames := fun sv h => c.methodNames sv (mem sv h)
    methodIds := fun sv h => c.methodIds sv (mem sv h)
    methodIdRange := fun sv h => c.methodIdRange sv (mem sv h)
    payloads := fun sv h m hm =>
      ⟨getStruct_isSome_perm p _ (c.payloads sv (mem sv h) m hm).1, getStruct_isSome_perm p _ (c.payloads sv (mem sv h) m hm).2⟩ }

/-- the verdict with the C++ plug-in's check is invariant under reordering the declarations -/
theorem verify_perm_cpp (fuel : Nat) (S S' : Schema) (p : SchemaPerm S S') :
    (verifyModel .cpp fuel S = .ok ()) ↔ (verifyModel .cpp fuel S' = .ok ()) := by
  rw [verify_iff_cpp, verify_iff_cpp]
  have wp : ∀ {A B : Schema}, SchemaPerm A B → WidthsOk A → WidthsOk B :=
    fun q h st hst => h st (q.structs.mem_iff.mpr hst)
  exact ⟨fun ⟨w, x, c⟩ => ⟨w.perm p, wp p x, c.perm p⟩, fun ⟨w, x, c⟩ => ⟨w.perm p.symm, wp p.symm x, c.perm p.symm⟩⟩

/-- the general verdict is invariant under reordering the declarations -/
theorem verify_perm_general (fuel : Nat) (S S' : Schema) (p : SchemaPerm S S') :
    (verifyModel .general fuel S = .ok ()) ↔ (verifyModel .general fuel S' = .ok ()) := by
  rw [verify_iff_general, verify_iff_general]
  exact ⟨WellFormed.perm p, WellFormed.perm p.symm⟩

/-- so is the verdict with the DBC checks -/
theorem verify_perm_dbc (fuel : Nat) (S S' : Schema) (p : SchemaPerm S S') :
    (verifyModel .dbc fuel S = .ok ()) ↔ (verifyModel .dbc fuel S' = .ok ()) := by
  rw [verify_iff_dbc, verify_iff_dbc]
  exact ⟨fun ⟨w, d⟩ => ⟨w.perm p, d.perm p⟩, fun ⟨w, d⟩ => ⟨w.perm p.symm, d.perm p.symm⟩⟩

/-! the C check set: the packed size of a binding does not depend on declaration order
either, because type names are unique -/

theorem find?_of_mem_nodup {α : Type} (f : α → String) (l : List α) (a : α)
    (hn : (l.map f).Nodup) (ha : a ∈ l) : l.find? (fun x => f x == f a) = some a := by
  induction l with
  | nil => cases ha
  | cons x xs ih =>
    simp only [List.map_cons, List.nodup_cons] at hn
    simp only [List.find?_cons]
    by_cases hx : f x = f a
    · simp only [hx, beq_self_eq_true]
      rcases List.mem_cons.mp ha with rfl | hm
      · rfl
      · exact absurd (hx ▸ List.mem_map_of_mem (f := f) hm) hn.1
    · have : (f x == f a) = false := by simpa using hx
      simp only [this]
      rcases List.mem_cons.mp ha with rfl | hm
      · exact absurd rfl hx
      · exact ih hn.2 hm

theorem find?_perm_unique {α : Type} (f : α → String) (l l' : List α) (n : String)
    (p : l.Perm l') (hn : (l.map f).Nodup) :
    l.find? (fun x => f x == n) = l'.find? (fun x => f x == n) := by
  have hn' : (l'.map f).Nodup := (p.map f).nodup_iff.mp hn
  cases h : l.find? (fun x => f x == n) with
  | none =>
    rw [List.find?_eq_none] at h
    symm
    rw [List.find?_eq_none]
    intro x hx
    exact h x (p.mem_iff.mpr hx)
  | some a =>
    have ha := List.mem_of_find?_eq_some h
    have hp := List.find?_some h
    have hfa : f a = n := by simpa using hp
    subst hfa
    exact (find?_of_mem_nodup f l' a hn' (p.mem_iff.mp ha)).symm

theorem typeLength_congr (S S' : Schema) (he : ∀ n, S.getEnum n = S'.getEnum n) (t : STy) :
    typeLength S t = typeLength S' t := by
  induction t with
  | arr t n ih => simp only [typeLength, ih]
  | enum n => simp only [typeLength, he]
  | _ => rfl

theorem genSignal_congr (S S' : Schema) (unroll : Bool) (impl : Impl)
    (hs : ∀ n, S.getStruct n = S'.getStruct n) (he : ∀ n, S.getEnum n = S'.getEnum n) :
    ∀ f, genSignal S unroll impl f = genSignal S' unroll impl f := by
  intro f
  induction f with
  | zero => funext pre name look ty unit cur; simp [genSignal]
  | succ f ih =>
    funext pre name look ty unit cur
    have hleaf : mkLeaf S impl pre name look ty unit cur = mkLeaf S' impl pre name look ty unit cur := by
      unfold mkLeaf; rw [typeLength_congr S S' he]
    cases ty <;> simp only [genSignal, hleaf, hs, ih]

theorem generate_congr (S S' : Schema) (unroll : Bool) (fuel : Nat) (impl : Impl)
    (hs : ∀ n, S.getStruct n = S'.getStruct n) (he : ∀ n, S.getEnum n = S'.getEnum n) :
    generate S unroll fuel impl = generate S' unroll fuel impl := by
  unfold generate
  rw [hs, genSignal_congr S S' unroll impl hs he]

theorem COk.perm {S S' : Schema} (fuel : Nat) (p : SchemaPerm S S') (w : WellFormed S)
    (d : COk S fuel) : COk S' fuel := by
  have hns : (S.structs.map (·.name)).Nodup := (List.nodup_append.mp w.types).1
  have hne : (S.enums.map (·.name)).Nodup := (List.nodup_append.mp w.types).2.1
  have hs : ∀ n, S.getStruct n = S'.getStruct n := fun n =>
    find?_perm_unique (fun st : Struct => st.name) _ _ n p.structs hns
  have he : ∀ n, S.getEnum n = S'.getEnum n := fun n =>
    find?_perm_unique (fun e : Enum => e.name) _ _ n p.enums hne
  constructor
  · intro i hi
    rw [← hs]; exact d.bound i (p.impls.mem_iff.mpr hi)
  · intro i hi hc
    obtain ⟨n, hn, hle⟩ := d.size i (p.impls.mem_iff.mpr hi) hc
    refine ⟨n, ?_, hle⟩
    unfold implBits at hn ⊢
    rw [← generate_congr S S' true fuel i hs he]; exact hn

/-- and so is the verdict with the C checks -/
theorem verify_perm_c (fuel : Nat) (S S' : Schema) (p : SchemaPerm S S') :
    (verifyModel .canC fuel S = .ok ()) ↔ (verifyModel .canC fuel S' = .ok ()) := by
  rw [verify_iff_c, verify_iff_c]
  exact ⟨fun ⟨w, d⟩ => ⟨w.perm p, d.perm fuel p w⟩,
         fun ⟨w, d⟩ => ⟨w.perm p.symm, d.perm fuel p.symm w⟩⟩

end Fcp
