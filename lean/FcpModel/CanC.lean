import FcpModel.Dbc
/-!
# CanC: model of the generated C CAN code (can_device_c.jinja + can_signal_parser.c)

The runtime works on a `uint64_t` word: every signal is masked to its length, shifted to its
start bit and OR-ed into the word, which is stored little-endian into the 8 data bytes.
Decoding shifts back, masks, and sign-extends signed signals.  Scale is 1, offset 0 and the
byte order little-endian on the advertised subset.
-/
namespace Fcp.CanC

def W64 : Nat := 2 ^ 64

/-- `set_bitfield(data, start, length)`: `((uint64_t) data & bitmask(length)) << start` in
64-bit arithmetic; `data` is the C value converted to `uint64_t` (two's complement) -/
def setBitfield (v : Int) (start len : Nat) : Nat :=
  (((toTwos 64 v) % 2 ^ len) <<< start) % W64

/-- `get_bitfield(word, start, length)` -/
def getBitfield (word start len : Nat) : Nat := (word >>> start) % 2 ^ len

/-- `bitfield_sign_conv` -/
def signConv (bits len : Nat) : Int := ofTwos len bits

/-- `can_encode_msg_<m>`: OR of the encoded signals -/
def encodeWord : List Leaf → List Int → Nat
  | l :: ls, v :: vs => setBitfield v l.start l.len ||| encodeWord ls vs
  | _, _ => 0

/-- the 8 data bytes: `*(uint64_t *) data = word` on a little-endian machine -/
def wordBytes (w : Nat) : List Nat := (List.range 8).map fun k => (w >>> (8 * k)) % 256

structure Frame where
  id : Int
  dlc : Nat
  data : List Nat
  deriving Repr, DecidableEq

def encodeMsg (id : Int) (ls : List Leaf) (total : Nat) (vs : List Int) : Frame :=
  { id := id, dlc := (total + 7) / 8, data := wordBytes (encodeWord ls vs) }

/-- `can_decode_msg_<m>`: one value per signal -/
def decodeWord (word : Nat) (ls : List Leaf) : List Int :=
  ls.map fun l =>
    let b := getBitfield word l.start l.len
    if l.ty.isSigned then signConv b l.len else (b : Int)

/-! ## the OR of tiled fields is the concatenation of their bits -/

theorem bitsNat_append (a b : Bits) : bitsNat (a ++ b) = bitsNat a + 2 ^ a.length * bitsNat b := by
  induction a with
  | nil => simp [bitsNat]
  | cons x xs ih =>
    simp only [List.cons_append, bitsNat, ih, List.length_cons, Nat.pow_succ]
    rw [Nat.mul_add, Nat.mul_comm (2 ^ xs.length) 2, Nat.mul_assoc]
    omega

theorem toTwos_mod (len : Nat) (v : Int) (h : len ≤ 64) : toTwos 64 v % 2 ^ len = toTwos len v := by
  unfold toTwos
  have hp : (0 : Int) < 2 ^ len := Int.pow_pos (by omega)
  have h64 : (0 : Int) < 2 ^ 64 := Int.pow_pos (by omega)
  have hdvd : (2 : Int) ^ len ∣ 2 ^ 64 := ⟨2 ^ (64 - len), by rw [← Int.pow_add]; congr 1; omega⟩
  have h1 := Int.emod_nonneg v (Int.ne_of_gt h64)
  have h2 := Int.emod_nonneg v (Int.ne_of_gt hp)
  have key : (v % 2 ^ 64) % 2 ^ len = v % 2 ^ len := Int.emod_emod_of_dvd v hdvd
  apply Int.ofNat_inj.mp
  rw [Int.natCast_emod, Int.toNat_of_nonneg h1, Int.toNat_of_nonneg h2, Int.natCast_pow]
  exact key

/-- the word being built while the cursor is at `c`: the bits written so far, below `2^c` -/
theorem encodeWord_eq (ls : List Leaf) (vs : List Int) (c e : Nat) (ht : Tiles c ls e)
    (hv : vs.length = ls.length) (he : e ≤ 64) :
    encodeWord ls vs = 2 ^ c * bitsNat (packLeaves ls vs) := by
  induction ls generalizing c vs with
  | nil => cases vs <;> simp [encodeWord, packLeaves, bitsNat]
  | cons l ls ih =>
    cases vs with
    | nil => simp at hv
    | cons v vs =>
      simp only [List.length_cons, Nat.add_right_cancel_iff] at hv
      have hr := ht.2.total
      have hle : c + l.len ≤ 64 := by omega
      have hl64 : l.len ≤ 64 := by omega
      simp only [encodeWord, packLeaves, ih vs (c + l.len) ht.2 hv]
      rw [bitsNat_append, natBits_length, bitsNat_natBits _ _ (toTwos_lt _ _)]
      unfold setBitfield
      rw [ht.1, toTwos_mod l.len v hl64, Nat.shiftLeft_eq]
      have hlt : toTwos l.len v * 2 ^ c < 2 ^ (c + l.len) := by
        have := toTwos_lt l.len v
        rw [Nat.pow_add, Nat.mul_comm]
        exact Nat.mul_lt_mul_of_pos_left this (Nat.pow_pos (by omega))
      have hW : 2 ^ (c + l.len) ≤ W64 := Nat.pow_le_pow_right (by omega) hle
      rw [Nat.mod_eq_of_lt (by omega)]
      -- low part below 2^(c+len), high part a multiple of 2^(c+len): OR is +
      have hhigh : 2 ^ (c + l.len) * bitsNat (packLeaves ls vs) =
          bitsNat (packLeaves ls vs) <<< (c + l.len) := by rw [Nat.shiftLeft_eq, Nat.mul_comm]
      rw [hhigh, Nat.or_comm, ← Nat.shiftLeft_add_eq_or_of_lt hlt, Nat.shiftLeft_eq, Nat.pow_add,
        Nat.mul_add, Nat.mul_comm (toTwos l.len v), Nat.add_comm, ← Nat.mul_assoc,
        Nat.mul_comm (bitsNat _)]
      congr 1
      rw [Nat.mul_assoc, Nat.mul_comm (bitsNat _)]

theorem bitsNat_shiftRight (bits : Bits) (n : Nat) : bitsNat bits >>> n = bitsNat (bits.drop n) := by
  induction n generalizing bits with
  | zero => simp
  | succ n ih =>
    cases bits with
    | nil => simp [bitsNat]
    | cons b bs =>
      simp only [List.drop_succ_cons, bitsNat]
      rw [Nat.shiftRight_succ_inside, ← ih bs]
      congr 1
      cases b <;> simp <;> omega

theorem mod_double (b x P : Nat) (hb : b ≤ 1) (hP : 0 < P) :
    (b + 2 * x) % (2 * P) = b + 2 * (x % P) := by
  have hx := Nat.div_add_mod x P
  have hr := Nat.mod_lt x hP
  have e : b + 2 * x = (b + 2 * (x % P)) + (2 * P) * (x / P) := by
    have : 2 * x = 2 * (P * (x / P)) + 2 * (x % P) := by rw [← Nat.mul_add, hx]
    rw [this, Nat.mul_assoc]; omega
  rw [e, Nat.add_mul_mod_self_left, Nat.mod_eq_of_lt (by omega)]

theorem bitsNat_mod (bits : Bits) (n : Nat) : bitsNat bits % 2 ^ n = bitsNat (bits.take n) := by
  induction n generalizing bits with
  | zero => simp [bitsNat, Nat.mod_one]
  | succ n ih =>
    cases bits with
    | nil => simp [bitsNat]
    | cons b bs =>
      simp only [List.take_succ_cons, bitsNat, ← ih bs]
      rw [Nat.pow_succ, Nat.mul_comm (2 ^ n) 2]
      exact mod_double _ _ _ (by split <;> omega) (Nat.pow_pos (by omega))

/-- reading a leaf's bit range back from the encoded word gives its two's-complement word -/
theorem getBitfield_encode (ls : List Leaf) (vs : List Int) (e : Nat) (ht : Tiles 0 ls e)
    (hv : vs.length = ls.length) (he : e ≤ 64) (k : Nat) (hk : k < ls.length) :
    getBitfield (encodeWord ls vs) ls[k].start ls[k].len = toTwos ls[k].len (vs[k]'(by omega)) := by
  have hw := encodeWord_eq ls vs 0 e ht hv he
  simp only [Nat.pow_zero, Nat.one_mul] at hw
  unfold getBitfield
  rw [hw, bitsNat_shiftRight, bitsNat_mod]
  have := extract_pack ls vs 0 e ht hv k hk
  simpa [extractIntel] using this

/-- in-range for a leaf: unsigned leaves hold `0 ≤ v < 2^len`, signed ones `-2^(len-1) ≤ v < 2^(len-1)` -/
def leafInRange (l : Leaf) (v : Int) : Prop :=
  if l.ty.isSigned then 0 < l.len ∧ inRangeS l.len v else 0 ≤ v ∧ v < 2 ^ l.len

/-- **decode ∘ encode = id** on the generated C code's word -/
theorem decode_encode (ls : List Leaf) (vs : List Int) (e : Nat) (ht : Tiles 0 ls e)
    (hv : vs.length = ls.length) (he : e ≤ 64)
    (hr : ∀ k (hk : k < ls.length), leafInRange ls[k] (vs[k]'(by omega))) :
    decodeWord (encodeWord ls vs) ls = vs := by
  apply List.ext_getElem
  · simp [decodeWord, hv]
  · intro k h1 h2
    have hk : k < ls.length := by simpa [decodeWord] using h1
    simp only [decodeWord, List.getElem_map]
    rw [getBitfield_encode ls vs e ht hv he k hk]
    have hrk := hr k hk
    unfold leafInRange at hrk
    split
    · rename_i hs
      rw [if_pos hs] at hrk
      exact ofTwos_toTwos _ hrk.1 _ hrk.2
    · rename_i hs
      rw [if_neg hs] at hrk
      rw [toTwos_of_inRange' _ _ hrk.1 hrk.2]
      exact Int.toNat_of_nonneg hrk.1
where
  toTwos_of_inRange' (n : Nat) (i : Int) (h0 : 0 ≤ i) (h1 : i < 2 ^ n) : toTwos n i = i.toNat := by
    unfold toTwos; rw [Int.emod_eq_of_lt h0 h1]

/-- the encoded word is the number whose bits are the layout packing of the values -/
theorem encodeWord_is_packing (ls : List Leaf) (vs : List Int) (e : Nat) (ht : Tiles 0 ls e)
    (hv : vs.length = ls.length) (he : e ≤ 64) :
    encodeWord ls vs = bitsNat (packLeaves ls vs) := by
  have := encodeWord_eq ls vs 0 e ht hv he
  simpa using this

/-- byte `k` of the frame is the `k`-th group of 8 bits of the layout packing -/
theorem frame_byte (ls : List Leaf) (vs : List Int) (e : Nat) (ht : Tiles 0 ls e)
    (hv : vs.length = ls.length) (he : e ≤ 64) (k : Nat) (hk : k < 8) :
    (wordBytes (encodeWord ls vs))[k]'(by simp [wordBytes, hk]) =
      bitsNat (((packLeaves ls vs).drop (8 * k)).take 8) := by
  simp only [wordBytes, List.getElem_map, List.getElem_range]
  rw [encodeWord_is_packing ls vs e ht hv he, bitsNat_shiftRight]
  exact bitsNat_mod _ 8

end Fcp.CanC
