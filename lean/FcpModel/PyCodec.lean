import FcpModel.Schema
import FcpModel.Utf8
/-!
# PyCodec: model of `src/fcp/serde.py`

Two layers, both transliterations of the Python:

* `Buf` — `_Buffer` (a list of bytes and a bit cursor) with `set_bit`, `get_bit`,
  `push_word`, `read_word`, `push_bytes`;
* `pyEnc` / `pyDec` — the `_encode` / `_decode` dispatch on the surface type with the
  schema as environment, one unit of fuel per Python stack frame.

Errors are a small enum: `overrun` is `ValueError("buffer overrrun")`, `other` is any
other exception (`KeyError`, `TypeError`, `IndexError`, `UnicodeDecodeError`,
`Unmatched type`, unwrap of `Nothing`, recursion limit).
-/
namespace Fcp

inductive PyErr where
  | overrun
  | other
  deriving Repr, DecidableEq, Inhabited

structure Buf where
  buffer : List Nat := []
  bitaddr : Nat := 0
  deriving Repr, Inhabited

/-- `word >> i & 1` on a Python integer (arithmetic shift: two's complement bits) -/
def intBit (w : Int) (i : Nat) : Nat := ((w >>> i) % 2).toNat

/-- `_Buffer.set_bit` on the byte list: grow by one zero byte when the addressed byte
is absent, then OR the bit in.  `none` is the `IndexError` of `buffer[byte_addr]`. -/
def setBit (buffer : List Nat) (bit : Nat) (bitaddr : Nat) : Option (List Nat) :=
  let byteAddr := bitaddr >>> 3
  let intra := bitaddr &&& 7
  let buffer := if buffer.length ≤ byteAddr then buffer ++ [0] else buffer
  if byteAddr < buffer.length then
    some (buffer.set byteAddr (buffer.getD byteAddr 0 ||| (bit <<< intra)))
  else none

/-- `_Buffer.get_bit`; `none` is "buffer overrrun" -/
def getBit (buffer : List Nat) (bitaddr : Nat) : Option Nat :=
  let byteAddr := bitaddr >>> 3
  let intra := bitaddr &&& 7
  if byteAddr < buffer.length then some ((buffer.getD byteAddr 0 >>> intra) &&& 1) else none

/-- the `for i in range(bits)` loop of `push_word`, from iteration `i` -/
def pushLoop (w : Int) (addr : Nat) : Nat → Nat → List Nat → Option (List Nat)
  | 0, _, buffer => some buffer
  | rem+1, i, buffer =>
    match setBit buffer (intBit w i) (addr + i) with
    | none => none
    | some b' => pushLoop w addr rem (i+1) b'

def Buf.pushWord (b : Buf) (w : Int) (bits : Nat) : Except PyErr Buf :=
  match pushLoop w b.bitaddr bits 0 b.buffer with
  | none => .error .other
  | some buffer => .ok { buffer := buffer, bitaddr := b.bitaddr + bits }

/-- the loop of `read_word`, from iteration `i` with accumulated `word` -/
def readLoop (buffer : List Nat) (addr : Nat) : Nat → Nat → Nat → Option Nat
  | 0, _, word => some word
  | rem+1, i, word =>
    match getBit buffer (addr + i) with
    | none => none
    | some bit => readLoop buffer addr rem (i+1) (word ||| (bit <<< i))

def Buf.readWord (b : Buf) (bits : Nat) : Except PyErr (Nat × Buf) :=
  match readLoop b.buffer b.bitaddr bits 0 0 with
  | none => .error .overrun
  | some w => .ok (w, { b with bitaddr := b.bitaddr + bits })

def Buf.pushBytes (b : Buf) (bytes : List Nat) : Buf := { b with buffer := b.buffer ++ bytes }

/-! ## the codec -/

/-- `_decode_builtin_signed`: `word >= max / 2` → `-(max - word)` -/
def pySigned (length : Nat) (word : Nat) : Int :=
  if 2 * word ≥ 2 ^ length then (word : Int) - 2 ^ length else word

def pyEncList (e : Val → Buf → Except PyErr Buf) : Val → Buf → Except PyErr Buf
  | .cons v vs, b => do let b' ← e v b; pyEncList e vs b'
  | .nil, b => .ok b
  | _, _ => .error .other

/-- `for i in range(type.size): _encode(..., data[i])` — extra elements are ignored,
missing ones are an `IndexError` -/
def pyEncArr (e : Val → Buf → Except PyErr Buf) : Nat → Val → Buf → Except PyErr Buf
  | 0, _, b => .ok b
  | k+1, .cons v vs, b => do let b' ← e v b; pyEncArr e k vs b'
  | _+1, _, _ => .error .other

def pyEncChars : List Nat → Buf → Except PyErr Buf
  | [], b => .ok b
  | c :: cs, b => do let b' ← b.pushWord c 8; pyEncChars cs b'

/-- fields of a struct value in the order the struct is iterated -/
def pyEncFields (e : STy → Val → Buf → Except PyErr Buf) :
    List Field → Val → Buf → Except PyErr Buf
  | [], _, b => .ok b
  | fd :: rest, .cons v vs, b => do let b' ← e fd.ty v b; pyEncFields e rest vs b'
  | _ :: _, _, _ => .error .other

/-- `_encode` -/
def pyEnc (S : Schema) : Nat → STy → Val → Buf → Except PyErr Buf
  | 0, _, _, _ => .error .other
  | _+1, .u n, .int i, b => b.pushWord i n
  | _+1, .i n, .int i, b => b.pushWord i n
  | _+1, .f32, .int i, b => b.pushWord i 32
  | _+1, .f64, .int i, b => b.pushWord i 64
  | _+1, .enum name, .int i, b =>
    match (S.getEnum name).bind (·.packedSize) with
    | none => .error .other
    | some bits => b.pushWord i bits
  | _+1, .str, .str cs, b => do
    let b' ← b.pushWord cs.length 32
    pyEncChars cs b'
  | f+1, .struct name, v, b =>
    match S.getStruct name with
    | none => .error .other
    | some st => pyEncFields (pyEnc S f) (sortFields st.fields) v b
  | f+1, .arr t n, v, b => pyEncArr (pyEnc S f t) n v b
  | f+1, .dyn t, v, b => do
    let b' ← b.pushWord (vlen v) 32
    pyEncList (pyEnc S f t) v b'
  | _+1, .opt _, .none, b => b.pushWord 0 8
  | f+1, .opt t, .some v, b => do
    let b' ← b.pushWord 1 8
    pyEnc S f t v b'
  | _+1, _, _, _ => .error .other

/-- `encode(fcp, name, data)` -/
def pyEncode (S : Schema) (fuel : Nat) (name : String) (v : Val) : Except PyErr (List Nat) :=
  (pyEnc S fuel (.struct name) v {}).map (·.buffer)

def pyDecList (d : Buf → Except PyErr (Val × Buf)) : Nat → Buf → Except PyErr (Val × Buf)
  | 0, b => .ok (.nil, b)
  | k+1, b => do
    let (v, b') ← d b
    let (vs, b'') ← pyDecList d k b'
    .ok (.cons v vs, b'')

def pyDecChars : Nat → Buf → Except PyErr (List Nat × Buf)
  | 0, b => .ok ([], b)
  | k+1, b => do
    let (c, b') ← b.readWord 8
    let (cs, b'') ← pyDecChars k b'
    .ok (c :: cs, b'')

def pyDecFields (d : STy → Buf → Except PyErr (Val × Buf)) :
    List Field → Buf → Except PyErr (Val × Buf)
  | [], b => .ok (.nil, b)
  | fd :: rest, b => do
    let (v, b') ← d fd.ty b
    let (vs, b'') ← pyDecFields d rest b'
    .ok (.cons v vs, b'')

/-- `_decode` -/
def pyDec (S : Schema) : Nat → STy → Buf → Except PyErr (Val × Buf)
  | 0, _, _ => .error .other
  | _+1, .u n, b => do let (w, b') ← b.readWord n; .ok (.int w, b')
  | _+1, .i n, b => do let (w, b') ← b.readWord n; .ok (.int (pySigned n w), b')
  | _+1, .f32, b => do let (w, b') ← b.readWord 32; .ok (.int w, b')
  | _+1, .f64, b => do let (w, b') ← b.readWord 64; .ok (.int w, b')
  | _+1, .enum name, b =>
    match (S.getEnum name).bind (·.packedSize) with
    | none => .error .other
    | some bits => do let (w, b') ← b.readWord bits; .ok (.int w, b')
  | _+1, .str, b => do
    let (n, b') ← b.readWord 32
    let (cs, b'') ← pyDecChars n b'
    if utf8Valid cs then .ok (.str cs, b'') else .error .other
  | f+1, .struct name, b =>
    match S.getStruct name with
    | none => .error .other
    | some st => pyDecFields (pyDec S f) (sortFields st.fields) b
  | f+1, .arr t n, b => pyDecList (pyDec S f t) n b
  | f+1, .dyn t, b => do
    let (n, b') ← b.readWord 32
    pyDecList (pyDec S f t) n b'
  | f+1, .opt t, b => do
    let (flag, b') ← b.readWord 8
    if flag != 0 then do
      let (v, b'') ← pyDec S f t b'
      .ok (.some v, b'')
    else .ok (.none, b')

/-- `decode(fcp, name, data)` -/
def pyDecode (S : Schema) (fuel : Nat) (name : String) (bytes : List Nat) : Except PyErr Val :=
  (pyDec S fuel (.struct name) (({} : Buf).pushBytes bytes)).map (·.1)

end Fcp
