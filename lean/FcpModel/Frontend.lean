import FcpModel.Syntax
import FcpModel.Schema
/-!
# Frontend: the transformer's actions (`FcpV2Transformer`), declare-before-use resolution
and module loading over an abstract file system

`elabFile` folds over the declarations of a parsed file exactly as Lark's bottom-up
transformer visits them: a user type reference is looked up among the structs, then the
enums, collected *so far* (including what earlier `mod` imports merged); the first failing
declaration, in source order, is the reported error.
-/
namespace Fcp.Frontend
open Fcp.Syntax

/-- the tree, in the shape of `FcpV2.to_dict()` -/
structure TField where
  name : String
  id : Int
  ty : STy
  unit : Option String := none
  min : Option String := none   -- float literal text
  max : Option String := none
  deriving Repr, Inhabited

structure TStruct where
  name : String
  fields : List TField
  deriving Repr, Inhabited

structure TSignal where
  name : String
  fields : List (String × XVal)
  deriving Repr, Inhabited

structure TImpl where
  name : String
  protocol : String
  type : String
  fields : List (String × XVal)
  signals : List TSignal
  deriving Repr, Inhabited

structure TService where
  name : String
  id : Int
  methods : List Method
  deriving Repr, Inhabited

structure TDevice where
  name : String
  fields : List (String × XVal)
  deriving Repr, Inhabited

structure Tree where
  structs : List TStruct := []
  enums : List Enum := []
  impls : List TImpl := []
  services : List TService := []
  devices : List TDevice := []
  deriving Repr, Inhabited

/-- one entry of an error chain: message class, cited file and line (if a node is attached) -/
structure EMsg where
  kind : String
  text : String
  file : Option String := none
  line : Option Nat := none
  deriving Repr, Inhabited

abbrev Err := List EMsg

/-- Python `int(text)` on a SIGNED_NUMBER literal: succeeds exactly on integer literals -/
def pyInt? (s : String) : Option Int :=
  match s.toList with
  | '-' :: ds => if !ds.isEmpty && ds.all Char.isDigit then some (-((String.ofList ds).toNat! : Int)) else none
  | '+' :: ds => if !ds.isEmpty && ds.all Char.isDigit then some ((String.ofList ds).toNat! : Int) else none
  | ds => if !ds.isEmpty && ds.all Char.isDigit then some ((String.ofList ds).toNat! : Int) else none

mutual
def xvalOf : PVal → XVal
  | .num s => match pyInt? s with | some i => .int i | none => .flt s
  | .str s => .str s
  | .ident s => .str s
  | .arr items => .arr (xlistOf items)
  | .nil => .arr []
  | .cons v r => .arr (xvalOf v :: xlistOf r)
def xlistOf : PVal → List XVal
  | .cons v r => xvalOf v :: xlistOf r
  | _ => []
end

/-- dict semantics: later duplicates win, first position kept -/
def dictOf {α : Type} (kvs : List (String × α)) : List (String × α) :=
  kvs.foldl (fun acc (k, v) =>
    if acc.any (·.1 == k) then acc.map (fun (k', v') => if k' == k then (k', v) else (k', v'))
    else acc ++ [(k, v)]) []

def Tree.getStruct (t : Tree) (n : String) : Option TStruct := t.structs.find? (·.name == n)
def Tree.getEnum (t : Tree) (n : String) : Option Enum := t.enums.find? (·.name == n)

/-- the `type` production against the declarations collected so far -/
def elabType (t : Tree) (file : String) : PTy → Except Err STy
  | .u n => .ok (.u n)
  | .i n => .ok (.i n)
  | .f32 => .ok .f32
  | .f64 => .ok .f64
  | .str => .ok .str
  | .named s line =>
    if (t.getStruct s).isSome then .ok (.struct s)
    else if (t.getEnum s).isSome then .ok (.enum s)
    else .error [⟨"type-not-found", s!"Type '{s}' cannot be found.", some file, some line⟩]
  | .arr e size =>
    match elabType t file e with
    | .error err => .error (err ++ [⟨"array", "Error parsing array type", none, none⟩])
    | .ok e' =>
      match pyInt? size with
      | some n => .ok (.arr e' n.toNat)
      | none => .error [⟨"unsupported", "non-integer array size (int() truncation not modelled)", none, none⟩]
  | .dyn e =>
    match elabType t file e with
    | .error err => .error (err ++ [⟨"dynamic-array", "Error parsing dynamic array type", none, none⟩])
    | .ok e' => .ok (.dyn e')
  | .opt e =>
    match elabType t file e with
    | .error err => .error (err ++ [⟨"optional", "Error parsing optional type", none, none⟩])
    | .ok e' => .ok (.opt e')

def isFloatLit (s : String) : Bool := (pyInt? s).isNone

/-- `_convert_params` plus the type checks of `StructField`: `unit(<str>)`, `range(<float>, <float>)` -/
def elabParams (file : String) (line : Nat) (ps : List PParam) :
    Except Err (Option String × Option String × Option String) :=
  let d := dictOf (ps.map fun p => (p.name, p.args))
  d.foldlM (fun (acc : Option String × Option String × Option String) (name, args) =>
    let bad (m : String) : Except Err (Option String × Option String × Option String) :=
      .error [⟨"semantic", m, some file, some line⟩]
    if name == "unit" then
      match args with
      | .str s :: _ => .ok (some s, acc.2.1, acc.2.2)
      | .ident s :: _ => .ok (some s, acc.2.1, acc.2.2)
      | _ => bad "unit needs a string argument"
    else if name == "range" then
      match args with
      | .num a :: .num b :: _ =>
        if isFloatLit a && isFloatLit b then .ok (acc.1, some a, some b) else bad "range needs float arguments"
      | _ => bad "range needs two float arguments"
    else bad s!"unknown parameter {name}") (none, none, none)

def elabField (t : Tree) (file : String) (sname : String) (f : PField) : Except Err TField := do
  let (unit, mn, mx) ← elabParams file f.line f.params
  let id ← match pyInt? f.id with
    | some i => pure i
    | none => .error [⟨"semantic", "field id must be an integer", some file, some f.line⟩]
  match elabType t file f.ty with
  | .error err =>
    .error (err ++ [⟨"field-type", "Error parsing type in struct field", none, none⟩,
                    ⟨"field", s!"Failed to parse field in struct {sname}", none, none⟩])
  | .ok ty => .ok { name := f.name, id := id, ty := ty, unit := unit, min := mn, max := mx }

def elabExt (kvs : List (String × PVal)) : List (String × XVal) :=
  dictOf (kvs.map fun (k, v) => (k, xvalOf v))

/-- an abstract file system: path components from the root directory ↦ contents -/
abbrev FS := List (List String × String)

def FS.read (fs : FS) (p : List String) : Option String := (fs.find? (·.1 == p)).map (·.2)

def Tree.merge (a b : Tree) : Tree :=
  { structs := a.structs ++ b.structs, enums := a.enums ++ b.enums, impls := a.impls ++ b.impls,
    services := a.services ++ b.services, devices := a.devices ++ b.devices }

/-- the state of one transformer while it walks a file: the tree so far and the result of
every declaration visited so far -/
structure St where
  tree : Tree := {}
  firstErr : Option Err := none

def St.fail (s : St) (e : Err) : St := { s with firstErr := s.firstErr.orElse fun _ => some e }

def err1 (kind text file : String) (line : Nat) : Err := [⟨kind, text, some file, some line⟩]

def elabEnumItem (fname : String) (it : String × PVal × Nat) : Except Err Enumerator :=
  match it.2.1 with
  | .num x => match pyInt? x with
    | some i => .ok ⟨it.1, i⟩
    | none => .error (err1 "semantic" "enum value must be an integer" fname it.2.2)
  | _ => .error (err1 "semantic" "enum value must be an integer" fname it.2.2)

def elabMethod (fname : String) (m : PMethod) : Except Err Method :=
  match pyInt? m.id with
  | some i => .ok ⟨m.name, i, m.input, m.output⟩
  | none => .error (err1 "semantic" "method id must be an integer" fname m.line)

/-- the action of one top-level declaration; `loader` loads an imported module -/
def elabDecl (loader : List String → String → Except Err Tree) (fs : FS) (path : List String)
    (s : St) (d : PDecl) : St :=
  let fname := path.getLast?.getD ""
  let t := s.tree
  match d with
  | .struct name fields _ =>
    match fields.mapM (elabField t fname name) with
    | .error e => s.fail e
    | .ok fs' =>
      { s with tree := { t with structs := t.structs ++ [⟨name, fs'⟩],
                                impls := t.impls ++ [⟨name, "default", name, [], []⟩] } }
  | .enum name items line =>
    if items.isEmpty then s.fail (err1 "semantic" s!"Enum {name} as no values" fname line) else
    match items.mapM (elabEnumItem fname) with
    | .error e => s.fail e
    | .ok es => { s with tree := { t with enums := t.enums ++ [⟨name, es⟩] } }
  | .impl proto ty name items _ =>
    let fields := items.filterMap fun | .field k v => some (k, v) | _ => none
    let sigs := items.filterMap fun | .signal n kvs _ => some (⟨n, elabExt kvs⟩ : TSignal) | _ => none
    { s with tree := { t with impls := t.impls ++ [⟨name.getD ty, proto, ty, elabExt fields, sigs⟩] } }
  | .service name id methods line =>
    match pyInt? id, methods.mapM (elabMethod fname) with
    | some i, .ok ms => { s with tree := { t with services := t.services ++ [⟨name, i, ms⟩] } }
    | none, _ => s.fail (err1 "semantic" "service id must be an integer" fname line)
    | _, .error e => s.fail e
  | .device name fields _ =>
    { s with tree := { t with devices := t.devices ++ [⟨name, elabExt fields⟩] } }
  | .mod mpath line =>
    let target := path.dropLast ++ mpath.dropLast ++ [mpath.getLast?.getD "" ++ ".fcp"]
    let tname := target.getLast?.getD ""
    match fs.read target with
    | none => s.fail [⟨"file-not-found", s!"File not found: {tname}", none, none⟩]
    | some src =>
      match loader target src with
      | .error e => s.fail (e ++ [⟨"import", s!"Failed to import {tname}", some fname, some line⟩])
      | .ok sub => { s with tree := t.merge sub }

/-- elaboration of an already parsed file -/
def elabFile (loader : List String → String → Except Err Tree) (fs : FS) (path : List String)
    (pf : PFile) : Except Err Tree :=
  let fname := path.getLast?.getD ""
  let s0 : St := {}
  let s0 := if pf.version == "3" then s0
    else s0.fail [⟨"version", "Expected IDL version 3", some fname, some pf.versionLine⟩]
  let s := pf.decls.foldl (fun s d => elabDecl loader fs path s d) s0
  match s.firstErr with
  | some e => .error (e ++ [⟨"file", s!"Failed to parse {fname}", none, none⟩])
  | none => .ok s.tree

/-- `FcpV2Transformer(...).transform(parse(file))`; `fuel` bounds the import depth -/
def loadFile (fs : FS) : Nat → List String → String → Except Err Tree
  | 0, path, _ => .error [⟨"unsupported", "import depth exceeded", path.getLast?, none⟩]
  | fuel+1, path, src =>
    match parseText src with
    | .error e => .error [⟨"syntax", e.msg, some (path.getLast?.getD ""), some e.line⟩]
    | .ok pf => elabFile (loadFile fs fuel) fs path pf

/-- `get_fcp(root)` -/
def load (fs : FS) (root : List String) : Except Err Tree :=
  match fs.read root with
  | none => .error [⟨"file-not-found", "root file missing", none, none⟩]
  | some src => loadFile fs 16 root src

end Fcp.Frontend
