import FcpModel.Schema
import FcpModel.Utf8
/-!
# Wire: the canonical FCP wire format (specification)

`enc`/`dec` over the closed type tree.  Every codec model (Python, C++ static,
C++ dynamic) is compared with this one.
-/
namespace Fcp

def wfList (wf : Val → Bool) : Nat → Val → Bool
  | 0, .nil => true
  | k+1, .cons v vs => wf v && wfList wf k vs
  | _, _ => false

/-- in range for the type (decidable) -/
def wf : Ty → Val → Bool
  | .uint n, .int i => 0 ≤ i && i < 2^n
  | .sint n, .int i => 0 < n && -(2^(n-1) : Int) ≤ i && i < 2^(n-1)
  | .f32, .int i => 0 ≤ i && i < 2^32
  | .f64, .int i => 0 ≤ i && i < 2^64
  | .enum b, .int i => 0 ≤ i && i < 2^b
  | .str, .str cs => cs.length < 2^32 && utf8Valid cs
  | .arr t n, v => wfList (wf t) n v
  | .dyn t, v => vlen v < 2^32 && wfList (wf t) (vlen v) v
  | .opt _, .none => true
  | .opt t, .some v => wf t v
  | .unit, .nil => true
  | .field _ _ t rest, .cons v vs => wf t v && wf rest vs
  | _, _ => false

def encList (enc : Val → Bits) : Val → Bits
  | .cons v vs => enc v ++ encList enc vs
  | _ => []

def encChars (cs : List Nat) : Bits := (cs.map (natBits 8)).flatten

/-- canonical encoding, as a list of bits -/
def enc : Ty → Val → Bits
  | .uint n, .int i => natBits n i.toNat
  | .sint n, .int i => natBits n (toTwos n i)
  | .f32, .int i => natBits 32 i.toNat
  | .f64, .int i => natBits 64 i.toNat
  | .enum b, .int i => natBits b i.toNat
  | .str, .str cs => natBits 32 cs.length ++ encChars cs
  | .arr t _, v => encList (enc t) v
  | .dyn t, v => natBits 32 (vlen v) ++ encList (enc t) v
  | .opt _, .none => natBits 8 0
  | .opt t, .some v => natBits 8 1 ++ enc t v
  | .field _ _ t rest, .cons v vs => enc t v ++ enc rest vs
  | _, _ => []

def decList (dec : Bits → Option (Val × Bits)) : Nat → Bits → Option (Val × Bits)
  | 0, bs => some (.nil, bs)
  | k+1, bs => match dec bs with
    | none => none
    | some (v, bs') => match decList dec k bs' with
      | none => none
      | some (vs, bs'') => some (.cons v vs, bs'')

def decChars : Nat → Bits → Option (List Nat × Bits)
  | 0, bs => some ([], bs)
  | k+1, bs => match readN 8 bs with
    | none => none
    | some (c, bs') => match decChars k bs' with
      | none => none
      | some (cs, bs'') => some (c :: cs, bs'')

/-- canonical decoding: value and remaining bits; `none` when a needed bit is absent
(or the bytes of a string are not well-formed UTF-8, which the Python decoder rejects) -/
def dec : Ty → Bits → Option (Val × Bits)
  | .uint n, bs => (readN n bs).map fun (w, r) => (.int w, r)
  | .sint n, bs => (readN n bs).map fun (w, r) => (.int (ofTwos n w), r)
  | .f32, bs => (readN 32 bs).map fun (w, r) => (.int w, r)
  | .f64, bs => (readN 64 bs).map fun (w, r) => (.int w, r)
  | .enum b, bs => (readN b bs).map fun (w, r) => (.int w, r)
  | .str, bs => match readN 32 bs with
    | none => none
    | some (n, r) => match decChars n r with
      | none => none
      | some (cs, r') => if utf8Valid cs then some (.str cs, r') else none
  | .arr t n, bs => decList (dec t) n bs
  | .dyn t, bs => match readN 32 bs with
    | none => none
    | some (n, r) => decList (dec t) n r
  | .opt t, bs => match readN 8 bs with
    | none => none
    | some (f, r) => if f = 0 then some (.none, r) else (dec t r).map fun (v, r') => (.some v, r')
  | .unit, bs => some (.nil, bs)
  | .field _ _ t rest, bs => match dec t bs with
    | none => none
    | some (v, r) => (dec rest r).map fun (vs, r') => (.cons v vs, r')

def encBytes (t : Ty) (v : Val) : List Nat := pack (enc t v)

/-- decode a byte string; the padding bits of the last byte are left over and ignored -/
def decBytes (t : Ty) (bytes : List Nat) : Option Val := (dec t (unpack bytes)).map (·.1)

/-! ## round trip -/

theorem toNat_lt_of_lt {i : Int} {n : Nat} (h0 : 0 ≤ i) (h1 : i < 2^n) : i.toNat < 2^n := by
  have := Int.toNat_of_nonneg h0
  have : ((i.toNat : Nat) : Int) < ((2^n : Nat) : Int) := by push_cast; omega
  exact Int.ofNat_lt.mp this

theorem decChars_enc (cs : List Nat) (h : cs.all (· < 256) = true) (rest : Bits) :
    decChars cs.length (encChars cs ++ rest) = some (cs, rest) := by
  induction cs with
  | nil => simp [decChars, encChars]
  | cons c cs ih =>
    simp only [List.all_cons, Bool.and_eq_true, decide_eq_true_eq] at h
    simp only [encChars, List.length_cons, List.map_cons, List.flatten_cons, List.append_assoc,
      decChars]
    rw [readN_natBits 8 c _ (by omega)]
    have := ih h.2
    simp only [encChars] at this
    simp [this]

theorem decList_enc (t : Ty)
    (ih : ∀ v rest, wf t v = true → dec t (enc t v ++ rest) = some (v, rest))
    (n : Nat) (v : Val) (h : wfList (wf t) n v = true) (rest : Bits) :
    decList (dec t) n (encList (enc t) v ++ rest) = some (v, rest) := by
  induction n generalizing v with
  | zero => cases v <;> simp_all [wfList, decList, encList]
  | succ k ihk =>
    cases v <;> simp_all [wfList, decList, encList]

theorem wfList_vlen (f : Val → Bool) (n : Nat) (v : Val) (h : wfList f n v = true) :
    vlen v = n := by
  induction n generalizing v with
  | zero => cases v <;> simp_all [wfList, vlen]
  | succ k ih => cases v <;> simp_all [wfList, vlen]

/-- **round trip**: decoding an encoding followed by anything returns the value and
exactly the suffix -/
theorem dec_enc (t : Ty) : ∀ (v : Val) (rest : Bits), wf t v = true →
    dec t (enc t v ++ rest) = some (v, rest) := by
  induction t with
  | uint n =>
    intro v rest h
    cases v <;> simp_all [wf, enc, dec]
    rename_i i
    rw [readN_natBits n _ rest (toNat_lt_of_lt h.1 h.2)]
    simp [Int.toNat_of_nonneg h.1]
  | sint n =>
    intro v rest h
    cases v <;> simp_all [wf, enc, dec]
    rename_i i
    obtain ⟨⟨hn, h0⟩, h1⟩ := h
    rw [readN_natBits n _ rest (toTwos_lt n i)]
    simp [ofTwos_toTwos n hn i ⟨h0, h1⟩]
  | f32 =>
    intro v rest h
    cases v <;> simp_all [wf, enc, dec]
    rename_i i
    rw [readN_natBits 32 _ rest (toNat_lt_of_lt h.1 (by simpa using h.2))]
    simp [Int.toNat_of_nonneg h.1]
  | f64 =>
    intro v rest h
    cases v <;> simp_all [wf, enc, dec]
    rename_i i
    rw [readN_natBits 64 _ rest (toNat_lt_of_lt h.1 (by simpa using h.2))]
    simp [Int.toNat_of_nonneg h.1]
  | enum b =>
    intro v rest h
    cases v <;> simp_all [wf, enc, dec]
    rename_i i
    rw [readN_natBits b _ rest (toNat_lt_of_lt h.1 h.2)]
    simp [Int.toNat_of_nonneg h.1]
  | str =>
    intro v rest h
    cases v <;> simp_all [wf, enc, dec]
    rename_i cs
    rw [readN_natBits 32 _ _ h.1]
    have := decChars_enc cs (utf8Valid_bytes cs h.2) rest
    simp only [this]
    simpa using h.2
  | arr t n ih =>
    intro v rest h
    simp only [wf] at h
    simp only [enc, dec]
    exact decList_enc t (fun v rest h => ih v rest h) n v h rest
  | dyn t ih =>
    intro v rest h
    simp only [wf, Bool.and_eq_true, decide_eq_true_eq] at h
    simp only [enc, dec, List.append_assoc]
    rw [readN_natBits 32 _ _ h.1]
    exact decList_enc t (fun v rest h => ih v rest h) _ v h.2 rest
  | opt t ih =>
    intro v rest h
    cases v <;> simp_all [wf, enc, dec]
    · rw [readN_natBits 8 0 rest (by omega)]; simp
    · rw [readN_natBits 8 1 _ (by omega)]; simp; exact ih _ _ h
  | unit =>
    intro v rest h
    cases v <;> simp_all [wf, enc, dec]
  | field name id t r iht ihr =>
    intro v rest h
    cases v <;> simp_all [wf, enc, dec]

/-- byte-level round trip: the zero padding of the last byte is ignored -/
theorem decBytes_encBytes (t : Ty) (v : Val) (h : wf t v = true) :
    decBytes t (encBytes t v) = some v := by
  unfold decBytes encBytes
  rw [unpack_pack, dec_enc t v _ h]
  rfl

/-- the canonical encoding is injective on in-range values -/
theorem enc_injective (t : Ty) (v w : Val) (hv : wf t v = true) (hw : wf t w = true)
    (h : enc t v = enc t w) : v = w := by
  have h1 := dec_enc t v [] hv
  have h2 := dec_enc t w [] hw
  rw [h] at h1
  rw [h1] at h2
  simpa using h2

end Fcp
