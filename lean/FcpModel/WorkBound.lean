import FcpModel.WireTrunc
/-!
# WorkBound: the decoder's work is bounded by the input length

`reads t bs` counts the `read_word` calls the decoder makes on input `bs` for type `t`
(one per scalar, length prefix, presence flag and character; a failing read is counted and
stops the decoder).  For every type in which no dynamic array has a zero-width element type
(`PosWidth`), `reads t bs ≤ weight t * (1 + bs.length)`, where `weight t` depends on the
schema only: a huge length prefix with no data behind it costs what the data present costs.
-/
namespace Fcp

/-- least number of bits a value of the type occupies -/
def minBits : Ty → Nat
  | .uint n => n
  | .sint n => n
  | .f32 => 32
  | .f64 => 64
  | .enum b => b
  | .str => 32
  | .arr t n => n * minBits t
  | .dyn _ => 32
  | .opt _ => 8
  | .unit => 0
  | .field _ _ t r => minBits t + minBits r

/-- no dynamic array has an element type of zero width -/
def PosWidth : Ty → Bool
  | .arr t _ => PosWidth t
  | .dyn t => PosWidth t && decide (1 ≤ minBits t)
  | .opt t => PosWidth t
  | .field _ _ t r => PosWidth t && PosWidth r
  | _ => true

/-- schema-only factor of the bound -/
def weight : Ty → Nat
  | .str => 2
  | .arr t n => n * weight t
  | .dyn t => 1 + 2 * weight t
  | .opt t => 1 + weight t
  | .unit => 0
  | .field _ _ t r => weight t + weight r
  | _ => 1

def readsList (rd : Bits → Nat) (dc : Bits → Option (Val × Bits)) : Nat → Bits → Nat
  | 0, _ => 0
  | k+1, bs => rd bs + match dc bs with
    | none => 0
    | some (_, r) => readsList rd dc k r

def readsChars : Nat → Bits → Nat
  | 0, _ => 0
  | k+1, bs => 1 + match readN 8 bs with
    | none => 0
    | some (_, r) => readsChars k r

/-- number of `read_word` calls of the decoder (same recursion as `dec`) -/
def reads : Ty → Bits → Nat
  | .uint _, _ => 1
  | .sint _, _ => 1
  | .f32, _ => 1
  | .f64, _ => 1
  | .enum _, _ => 1
  | .str, bs => 1 + match readN 32 bs with
    | none => 0
    | some (n, r) => readsChars n r
  | .arr t n, bs => readsList (reads t) (dec t) n bs
  | .dyn t, bs => 1 + match readN 32 bs with
    | none => 0
    | some (n, r) => readsList (reads t) (dec t) n r
  | .opt t, bs => 1 + match readN 8 bs with
    | none => 0
    | some (f, r) => if f = 0 then 0 else reads t r
  | .unit, _ => 0
  | .field _ _ t rest, bs => reads t bs + match dec t bs with
    | none => 0
    | some (_, r) => reads rest r

theorem readN_len {k : Nat} {bs : Bits} {w : Nat} {r : Bits} (h : readN k bs = some (w, r)) :
    bs.length = k + r.length := by
  obtain ⟨h1, _⟩ := readN_some h
  subst h1
  simp

theorem readsChars_le (k : Nat) (bs : Bits) : readsChars k bs ≤ k ∧ readsChars k bs ≤ 1 + bs.length := by
  induction k generalizing bs with
  | zero => simp [readsChars]
  | succ k ih =>
    simp only [readsChars]
    cases h : readN 8 bs with
    | none => simp
    | some p =>
      obtain ⟨c, r⟩ := p
      have hl := readN_len h
      have := ih r
      simp only
      omega

/-- what the induction carries for one type -/
def Bound (t : Ty) : Prop :=
  ∀ bs : Bits,
    (∀ v r, dec t bs = some (v, r) →
      r.length + minBits t ≤ bs.length ∧ reads t bs ≤ weight t * (1 + (bs.length - r.length))) ∧
    (dec t bs = none → reads t bs ≤ weight t * (1 + bs.length))

theorem Bound.scalar (t : Ty) (n : Nat) (hd : ∀ bs, ∃ f : Nat → Val, dec t bs = (readN n bs).map fun (w, r) => (f w, r))
    (hr : ∀ bs, reads t bs = 1) (hw : weight t = 1) (hm : minBits t = n) : Bound t := by
  intro bs
  obtain ⟨f, hf⟩ := hd bs
  rw [hr, hw, hm]
  constructor
  · intro v r h
    rw [hf] at h
    simp only [Option.map_eq_some_iff, Prod.exists] at h
    obtain ⟨w, r', hrd, hv⟩ := h
    simp only [Prod.mk.injEq] at hv
    obtain ⟨_, rfl⟩ := hv
    have := readN_len hrd
    omega
  · intro _; omega

/-- elements of a dynamic array (each consumes at least one bit) -/
theorem readsList_pos (t : Ty) (hb : Bound t) (hp : 1 ≤ minBits t) (k : Nat) (bs : Bits) :
    (∀ vs r, decList (dec t) k bs = some (vs, r) →
      r.length ≤ bs.length ∧ readsList (reads t) (dec t) k bs ≤ 2 * weight t * (bs.length - r.length)) ∧
    (decList (dec t) k bs = none →
      readsList (reads t) (dec t) k bs ≤ weight t * (1 + 2 * bs.length)) := by
  induction k generalizing bs with
  | zero =>
    simp only [decList, readsList]
    constructor
    · intro vs r h
      simp only [Option.some.injEq, Prod.mk.injEq] at h
      obtain ⟨_, rfl⟩ := h
      simp
    · intro h; cases h
  | succ k ih =>
    simp only [decList, readsList]
    obtain ⟨hs, hn⟩ := hb bs
    cases hd : dec t bs with
    | none =>
      have := hn hd
      simp only
      constructor
      · intro vs r h; cases h
      · intro _; grind
    | some p =>
      obtain ⟨v, r1⟩ := p
      obtain ⟨h1, h2⟩ := hs v r1 hd
      obtain ⟨ihs, ihn⟩ := ih r1
      simp only
      have e : weight t * (1 + (bs.length - r1.length)) ≤ 2 * weight t * (bs.length - r1.length) := by
        have := Nat.mul_le_mul_left (weight t) (show 1 + (bs.length - r1.length) ≤ 2 * (bs.length - r1.length) by omega)
        grind
      cases hl : decList (dec t) k r1 with
      | none =>
        have := ihn hl
        simp only
        constructor
        · intro vs r h; cases h
        · intro _
          have e2 : 2 * weight t * (bs.length - r1.length) + weight t * (1 + 2 * r1.length)
              = weight t * (1 + 2 * bs.length) := by
            have : bs.length = (bs.length - r1.length) + r1.length := by omega
            generalize bs.length - r1.length = c at *
            rw [this]
            grind
          omega
      | some q =>
        obtain ⟨vs, r2⟩ := q
        obtain ⟨h3, h4⟩ := ihs vs r2 hl
        simp only
        constructor
        · intro vs' r h
          simp only [Option.some.injEq, Prod.mk.injEq] at h
          obtain ⟨_, rfl⟩ := h
          refine ⟨by omega, ?_⟩
          have e2 : 2 * weight t * (bs.length - r1.length) + 2 * weight t * (r1.length - r2.length)
              = 2 * weight t * (bs.length - r2.length) := by
            have a1 : bs.length - r2.length = (bs.length - r1.length) + (r1.length - r2.length) := by omega
            rw [a1]; grind
          omega
        · intro h; cases h

/-- elements of a fixed array (possibly of zero width: the count is a schema constant) -/
theorem readsList_any (t : Ty) (hb : Bound t) (k : Nat) (bs : Bits) :
    (∀ vs r, decList (dec t) k bs = some (vs, r) →
      r.length + k * minBits t ≤ bs.length ∧
      readsList (reads t) (dec t) k bs ≤ weight t * (k + (bs.length - r.length))) ∧
    (decList (dec t) k bs = none →
      readsList (reads t) (dec t) k bs ≤ weight t * (k + bs.length)) := by
  induction k generalizing bs with
  | zero =>
    simp only [decList, readsList]
    constructor
    · intro vs r h
      simp only [Option.some.injEq, Prod.mk.injEq] at h
      obtain ⟨_, rfl⟩ := h
      simp
    · intro h; cases h
  | succ k ih =>
    simp only [decList, readsList]
    obtain ⟨hs, hn⟩ := hb bs
    cases hd : dec t bs with
    | none =>
      have := hn hd
      simp only
      constructor
      · intro vs r h; cases h
      · intro _
        have := Nat.mul_le_mul_left (weight t) (show 1 + bs.length ≤ k + 1 + bs.length by omega)
        omega
    | some p =>
      obtain ⟨v, r1⟩ := p
      obtain ⟨h1, h2⟩ := hs v r1 hd
      obtain ⟨ihs, ihn⟩ := ih r1
      simp only
      cases hl : decList (dec t) k r1 with
      | none =>
        have := ihn hl
        simp only
        constructor
        · intro vs r h; cases h
        · intro _
          have e2 : weight t * (1 + (bs.length - r1.length)) + weight t * (k + r1.length)
              = weight t * (k + 1 + bs.length) := by
            have a1 : bs.length = (bs.length - r1.length) + r1.length := by omega
            generalize bs.length - r1.length = c at *
            rw [a1]
            grind
          omega
      | some q =>
        obtain ⟨vs, r2⟩ := q
        obtain ⟨h3, h4⟩ := ihs vs r2 hl
        simp only
        constructor
        · intro vs' r h
          simp only [Option.some.injEq, Prod.mk.injEq] at h
          obtain ⟨_, rfl⟩ := h
          have hm : (k + 1) * minBits t = k * minBits t + minBits t := by grind
          refine ⟨by omega, ?_⟩
          have e2 : weight t * (1 + (bs.length - r1.length)) + weight t * (k + (r1.length - r2.length))
              = weight t * (k + 1 + (bs.length - r2.length)) := by
            have a1 : bs.length - r2.length = (bs.length - r1.length) + (r1.length - r2.length) := by omega
            rw [a1]; grind
          omega
        · intro h; cases h

/-- the invariant holds for every type without zero-width elements under a dynamic array -/
theorem bound_all (t : Ty) : PosWidth t = true → Bound t := by
  induction t with
  | uint n => intro _; exact Bound.scalar _ n (fun bs => ⟨fun w => .int w, rfl⟩) (fun _ => rfl) rfl rfl
  | sint n => intro _; exact Bound.scalar _ n (fun bs => ⟨fun w => .int (ofTwos n w), rfl⟩) (fun _ => rfl) rfl rfl
  | f32 => intro _; exact Bound.scalar _ 32 (fun bs => ⟨fun w => .int w, rfl⟩) (fun _ => rfl) rfl rfl
  | f64 => intro _; exact Bound.scalar _ 64 (fun bs => ⟨fun w => .int w, rfl⟩) (fun _ => rfl) rfl rfl
  | enum b => intro _; exact Bound.scalar _ b (fun bs => ⟨fun w => .int w, rfl⟩) (fun _ => rfl) rfl rfl
  | unit =>
    intro _ bs
    simp [dec, reads, weight, minBits]
  | str =>
    intro _ bs
    simp only [dec, reads, weight, minBits]
    cases h : readN 32 bs with
    | none => simp; omega
    | some p =>
      obtain ⟨n, r1⟩ := p
      have hl := readN_len h
      obtain ⟨c1, c2⟩ := readsChars_le n r1
      simp only
      constructor
      · intro v r hd
        split at hd
        · cases hd
        · rename_i cs r' hcs
          obtain ⟨e1, e2⟩ := decChars_consumes _ _ _ _ hcs
          have : r1.length = 8 * n + r'.length := by
            rw [e1, List.length_append, encChars_length, e2]
          split at hd
          · simp only [Option.some.injEq, Prod.mk.injEq] at hd
            obtain ⟨_, rfl⟩ := hd
            omega
          · cases hd
      · intro _; omega
  | arr t n ih =>
    intro hp bs
    simp only [PosWidth] at hp
    obtain ⟨hs, hn⟩ := readsList_any t (ih hp) n bs
    simp only [dec, reads, weight, minBits]
    constructor
    · intro v r hd
      obtain ⟨h1, h2⟩ := hs v r hd
      refine ⟨h1, ?_⟩
      cases n with
      | zero => simp [readsList]
      | succ m =>
        have : weight t * (m + 1 + (bs.length - r.length)) ≤ (m + 1) * weight t * (1 + (bs.length - r.length)) := by
          generalize bs.length - r.length = c
          have := Nat.mul_le_mul_left (weight t) (show m + 1 + c ≤ (m + 1) * (1 + c) by
            have : (m + 1) * (1 + c) = m + 1 + c + m * c := by grind
            omega)
          grind
        omega
    · intro hd
      have h2 := hn hd
      cases n with
      | zero => simp [readsList]
      | succ m =>
        have : weight t * (m + 1 + bs.length) ≤ (m + 1) * weight t * (1 + bs.length) := by
          generalize bs.length = c
          have := Nat.mul_le_mul_left (weight t) (show m + 1 + c ≤ (m + 1) * (1 + c) by
            have : (m + 1) * (1 + c) = m + 1 + c + m * c := by grind
            omega)
          grind
        omega
  | dyn t ih =>
    intro hp bs
    simp only [PosWidth, Bool.and_eq_true, decide_eq_true_eq] at hp
    simp only [dec, reads, weight, minBits]
    cases h : readN 32 bs with
    | none => simp; grind
    | some p =>
      obtain ⟨n, r1⟩ := p
      have hl := readN_len h
      obtain ⟨hs, hn⟩ := readsList_pos t (ih hp.1) hp.2 n r1
      simp only
      constructor
      · intro v r hd
        obtain ⟨h1, h2⟩ := hs v r hd
        refine ⟨by omega, ?_⟩
        have a1 : bs.length - r.length = 32 + (r1.length - r.length) := by omega
        rw [a1]
        grind
      · intro hd
        have h2 := hn hd
        rw [hl]
        grind
  | opt t ih =>
    intro hp bs
    simp only [PosWidth] at hp
    simp only [dec, reads, weight, minBits]
    cases h : readN 8 bs with
    | none => simp; grind
    | some p =>
      obtain ⟨f, r1⟩ := p
      have hl := readN_len h
      obtain ⟨hs, hn⟩ := ih hp r1
      simp only
      by_cases hf : f = 0
      · simp only [hf, ↓reduceIte]
        constructor
        · intro v r hd
          simp only [Option.some.injEq, Prod.mk.injEq] at hd
          obtain ⟨_, rfl⟩ := hd
          refine ⟨by omega, by grind⟩
        · intro hd; cases hd
      · simp only [hf, ↓reduceIte]
        constructor
        · intro v r hd
          simp only [Option.map_eq_some_iff, Prod.exists] at hd
          obtain ⟨v', r', hd', he⟩ := hd
          simp only [Prod.mk.injEq] at he
          obtain ⟨_, rfl⟩ := he
          obtain ⟨h1, h2⟩ := hs v' r' hd'
          refine ⟨by omega, ?_⟩
          have a1 : bs.length - r'.length = 8 + (r1.length - r'.length) := by omega
          rw [a1]
          grind
        · intro hd
          simp only [Option.map_eq_none_iff] at hd
          have h2 := hn hd
          rw [hl]
          grind
  | field nm id t rest iht ihr =>
    intro hp bs
    simp only [PosWidth, Bool.and_eq_true] at hp
    simp only [dec, reads, weight, minBits]
    obtain ⟨hs, hn⟩ := iht hp.1 bs
    cases h : dec t bs with
    | none =>
      have := hn h
      simp only
      constructor
      · intro v r hd; cases hd
      · intro _; grind
    | some p =>
      obtain ⟨v1, r1⟩ := p
      obtain ⟨h1, h2⟩ := hs v1 r1 h
      obtain ⟨hs2, hn2⟩ := ihr hp.2 r1
      simp only
      constructor
      · intro v r hd
        simp only [Option.map_eq_some_iff, Prod.exists] at hd
        obtain ⟨v', r', hd', he⟩ := hd
        simp only [Prod.mk.injEq] at he
        obtain ⟨_, rfl⟩ := he
        obtain ⟨h3, h4⟩ := hs2 v' r' hd'
        refine ⟨by omega, ?_⟩
        have a1 : bs.length - r'.length = (bs.length - r1.length) + (r1.length - r'.length) := by omega
        rw [a1]
        grind
      · intro hd
        simp only [Option.map_eq_none_iff] at hd
        have h4 := hn2 hd
        have a1 : bs.length = (bs.length - r1.length) + r1.length := by omega
        generalize bs.length - r1.length = c at *
        rw [a1]
        grind

/-- **work bound**: the number of reads is at most `weight t * (1 + number of input bits)`,
whatever the length prefixes in the input announce -/
theorem reads_le (t : Ty) (hp : PosWidth t = true) (bs : Bits) :
    reads t bs ≤ weight t * (1 + bs.length) := by
  obtain ⟨hs, hn⟩ := bound_all t hp bs
  cases h : dec t bs with
  | none => exact hn h
  | some p =>
    obtain ⟨v, r⟩ := p
    obtain ⟨_, h2⟩ := hs v r h
    have := Nat.mul_le_mul_left (weight t) (show 1 + (bs.length - r.length) ≤ 1 + bs.length by omega)
    omega

end Fcp
