import FcpModel.SyntaxLemmas
/-!
# Parsing inverts printing for the flat productions and for whole files (token level)

Every production gets a printing relation (`…Toks tree tokens`): the token lists the
production can be written as, with the optional separators of the grammar (`|` before and
between parameters, the comma after a parameter argument, `as` in front of a binding's
name) and arbitrary line numbers, the tree recording the line of the tokens it keeps.
`parseFile_print`: parsing any printing of a file returns the file.
-/
namespace Fcp.Syntax

/-! ## sizes: fuel is never the reason for an error -/

mutual
theorem ValToks.depth_le : ∀ (v : PVal) (ts : List LTok), ValToks v ts → v.depth ≤ 2 * ts.length ∧ 1 ≤ ts.length
  | _, _, .num _ _ => by simp [PVal.depth]
  | _, _, .str _ _ => by simp [PVal.depth]
  | _, _, .ident _ _ => by simp [PVal.depth]
  | _, _, .arr items ts _ h => by
    have := ItemsToks.depth_le items ts h
    simp only [PVal.depth, List.length_cons]; omega
theorem ItemsToks.depth_le : ∀ (items : PVal) (ts : List LTok), ItemsToks items ts → items.depth ≤ 2 * ts.length
  | _, _, .last v ts _ h => by
    have := ValToks.depth_le v ts h
    simp only [PVal.depth, List.length_append, List.length_singleton]; omega
  | _, _, .more v r ts rs _ h hr => by
    have := ValToks.depth_le v ts h
    have := ItemsToks.depth_le r rs hr
    simp only [PVal.depth, List.length_append, List.length_cons]; omega
end

theorem TyToks.depth_le (t : PTy) (ts : List LTok) (h : TyToks t ts) : t.depth ≤ ts.length ∧ 1 ≤ ts.length := by
  induction h <;> simp [PTy.depth] <;> omega

/-- the first token of a value is not a closing parenthesis, a comma, a brace or a bar -/
theorem ValToks.head (v : PVal) (ts : List LTok) (h : ValToks v ts) :
    ∃ t r, ts = t :: r ∧ ((∃ s, t.tok = .num s) ∨ (∃ s, t.tok = .str s) ∨ (∃ s, t.tok = .ident s) ∨ t.tok = .sym '[') := by
  cases h with
  | num s l => exact ⟨_, _, rfl, .inl ⟨s, rfl⟩⟩
  | str s l => exact ⟨_, _, rfl, .inr (.inl ⟨s, rfl⟩)⟩
  | ident s l => exact ⟨_, _, rfl, .inr (.inr (.inl ⟨s, rfl⟩))⟩
  | arr items ts l h => exact ⟨_, _, rfl, .inr (.inr (.inr rfl))⟩

/-- parsing a value in front of any continuation -/
theorem parseValue_ok (v : PVal) (ts : List LTok) (h : ValToks v ts) (f last : Nat) (rest : List LTok)
    (hf : 2 * ts.length ≤ f) : parseValue f last (ts ++ rest) = .ok (v, rest) :=
  parseValue_print v ts h f last rest (Nat.le_trans (ValToks.depth_le v ts h).1 hf)

/-! ## parameter arguments: `value ","?` … `)` -/

inductive ArgsToks : List PVal → List LTok → Prop where
  | nil (l : Nat) : ArgsToks [] [⟨.sym ')', l⟩]
  | comma (v : PVal) (vs : List PVal) (tv ts : List LTok) (l : Nat) (h : ValToks v tv) (hr : ArgsToks vs ts) :
      ArgsToks (v :: vs) (tv ++ ⟨.sym ',', l⟩ :: ts)
  | bare (v : PVal) (vs : List PVal) (tv ts : List LTok) (h : ValToks v tv) (hr : ArgsToks vs ts) :
      ArgsToks (v :: vs) (tv ++ ts)

theorem ArgsToks.head_not_comma (vs : List PVal) (ts : List LTok) (h : ArgsToks vs ts) :
    ∃ t r, ts = t :: r ∧ t.tok ≠ .sym ',' := by
  cases h with
  | nil l => exact ⟨_, _, rfl, by simp⟩
  | comma v vs tv ts l h hr =>
    obtain ⟨t, r, e, ht⟩ := ValToks.head v tv h
    subst e
    refine ⟨t, _, rfl, ?_⟩
    rcases ht with ⟨s, e⟩ | ⟨s, e⟩ | ⟨s, e⟩ | e <;> simp [e]
  | bare v vs tv ts h hr =>
    obtain ⟨t, r, e, ht⟩ := ValToks.head v tv h
    subst e
    refine ⟨t, _, rfl, ?_⟩
    rcases ht with ⟨s, e⟩ | ⟨s, e⟩ | ⟨s, e⟩ | e <;> simp [e]

theorem ArgsToks.length_le (vs : List PVal) (ts : List LTok) (h : ArgsToks vs ts) : vs.length + 1 ≤ ts.length := by
  induction h with
  | nil l => simp
  | comma v vs tv ts l h hr ih =>
    have := (ValToks.depth_le v tv h).2
    simp only [List.length_cons, List.length_append]; omega
  | bare v vs tv ts h hr ih =>
    have := (ValToks.depth_le v tv h).2
    simp only [List.length_cons, List.length_append]; omega

@[simp] theorem skipSym_hit (c : Char) (l : Nat) (r : List LTok) : skipSym c (⟨.sym c, l⟩ :: r) = r := by
  simp [skipSym]

theorem skipSym_miss (c : Char) (t : LTok) (r : List LTok) (h : t.tok ≠ .sym c) : skipSym c (t :: r) = t :: r := by
  obtain ⟨tk, tl⟩ := t
  cases tk with
  | sym d =>
    have : d ≠ c := by intro e; subst e; exact h rfl
    simp [skipSym, this]
  | _ => rfl

/-- the default branch of `parseArgs` is taken when the input starts with a value -/
theorem parseArgs_step (vf g last : Nat) (v : PVal) (tv rest : List LTok) (h : ValToks v tv) :
    parseArgs vf (g + 1) last (tv ++ rest) = (do
      let (v, r1) ← parseValue vf last (tv ++ rest)
      let (vs, r3) ← parseArgs vf g last (skipSym ',' r1)
      .ok (v :: vs, r3)) := by
  obtain ⟨t, r, e, ht⟩ := ValToks.head v tv h
  subst e
  obtain ⟨tk, tl⟩ := t
  simp only at ht
  rcases ht with ⟨s, e⟩ | ⟨s, e⟩ | ⟨s, e⟩ | e <;> subst e <;> simp only [List.cons_append, parseArgs] <;> rfl

theorem parseArgs_print (vs : List PVal) (ts : List LTok) (h : ArgsToks vs ts) :
    ∀ (vf g last : Nat) (rest : List LTok), 2 * ts.length ≤ vf → vs.length + 1 ≤ g →
    parseArgs vf g last (ts ++ rest) = .ok (vs, rest) := by
  induction h with
  | nil l =>
    intro vf g last rest _ hg
    cases g with
    | zero => omega
    | succ g => simp [parseArgs]
  | comma v vs tv ts l h hr ih =>
    intro vf g last rest hvf hg
    cases g with
    | zero => simp at hg
    | succ g =>
      simp only [List.length_append, List.length_cons] at hvf
      simp only [List.length_cons, Nat.add_le_add_iff_right] at hg
      rw [List.append_assoc, parseArgs_step vf g last v tv _ h,
        parseValue_ok v tv h vf last _ (by omega)]
      simp only [List.cons_append, bind, Except.bind, skipSym_hit]
      rw [ih vf g last rest (by omega) hg]
  | bare v vs tv ts h hr ih =>
    intro vf g last rest hvf hg
    cases g with
    | zero => simp at hg
    | succ g =>
      simp only [List.length_append] at hvf
      simp only [List.length_cons, Nat.add_le_add_iff_right] at hg
      obtain ⟨t, r, e, hne⟩ := ArgsToks.head_not_comma vs ts hr
      rw [List.append_assoc, parseArgs_step vf g last v tv _ h,
        parseValue_ok v tv h vf last _ (by omega)]
      have ih' := ih vf g last rest (by omega) hg
      subst e
      simp only [List.cons_append, bind, Except.bind] at ih' ⊢
      rw [skipSym_miss ',' t _ hne, ih']

end Fcp.Syntax
