import FcpModel.SyntaxLemmas
/-!
# Parsing inverts printing for the flat productions and for whole files (token level)

Every production gets a printing relation (`…Toks tree tokens`): the token lists the
production can be written as, with the optional separators of the grammar (`|` before and
between parameters, the comma after a parameter argument, `as` in front of a binding's
name) and arbitrary line numbers, the tree recording the line of the tokens it keeps.
`parseFile_print`: parsing any printing of a file returns the file.
-/
namespace Fcp.Syntax

/-! ## sizes: fuel is never the reason for an error -/

mutual
theorem ValToks.depth_le : ∀ (v : PVal) (ts : List LTok), ValToks v ts → v.depth ≤ 2 * ts.length ∧ 1 ≤ ts.length
  | _, _, .num _ _ => by simp [PVal.depth]
  | _, _, .str _ _ => by simp [PVal.depth]
  | _, _, .ident _ _ => by simp [PVal.depth]
  | _, _, .arr items ts _ h => by
    have := ItemsToks.depth_le items ts h
    simp only [PVal.depth, List.length_cons]; omega
theorem ItemsToks.depth_le : ∀ (items : PVal) (ts : List LTok), ItemsToks items ts → items.depth ≤ 2 * ts.length
  | _, _, .last v ts _ h => by
    have := ValToks.depth_le v ts h
    simp only [PVal.depth, List.length_append, List.length_singleton]; omega
  | _, _, .more v r ts rs _ h hr => by
    have := ValToks.depth_le v ts h
    have := ItemsToks.depth_le r rs hr
    simp only [PVal.depth, List.length_append, List.length_cons]; omega
end

theorem TyToks.depth_le (t : PTy) (ts : List LTok) (h : TyToks t ts) : t.depth ≤ ts.length ∧ 1 ≤ ts.length := by
  induction h <;> simp [PTy.depth] <;> omega

/-- the first token of a value is not a closing parenthesis, a comma, a brace or a bar -/
theorem ValToks.head (v : PVal) (ts : List LTok) (h : ValToks v ts) :
    ∃ t r, ts = t :: r ∧ ((∃ s, t.tok = .num s) ∨ (∃ s, t.tok = .str s) ∨ (∃ s, t.tok = .ident s) ∨ t.tok = .sym '[') := by
  cases h with
  | num s l => exact ⟨_, _, rfl, .inl ⟨s, rfl⟩⟩
  | str s l => exact ⟨_, _, rfl, .inr (.inl ⟨s, rfl⟩)⟩
  | ident s l => exact ⟨_, _, rfl, .inr (.inr (.inl ⟨s, rfl⟩))⟩
  | arr items ts l h => exact ⟨_, _, rfl, .inr (.inr (.inr rfl))⟩

/-- parsing a value in front of any continuation -/
theorem parseValue_ok (v : PVal) (ts : List LTok) (h : ValToks v ts) (f last : Nat) (rest : List LTok)
    (hf : 2 * ts.length ≤ f) : parseValue f last (ts ++ rest) = .ok (v, rest) :=
  parseValue_print v ts h f last rest (Nat.le_trans (ValToks.depth_le v ts h).1 hf)

/-! ## parameter arguments: `value ","?` … `)` -/

inductive ArgsToks : List PVal → List LTok → Prop where
  | nil (l : Nat) : ArgsToks [] [⟨.sym ')', l⟩]
  | comma (v : PVal) (vs : List PVal) (tv ts : List LTok) (l : Nat) (h : ValToks v tv) (hr : ArgsToks vs ts) :
      ArgsToks (v :: vs) (tv ++ ⟨.sym ',', l⟩ :: ts)
  | bare (v : PVal) (vs : List PVal) (tv ts : List LTok) (h : ValToks v tv) (hr : ArgsToks vs ts) :
      ArgsToks (v :: vs) (tv ++ ts)

theorem ArgsToks.head_not_comma (vs : List PVal) (ts : List LTok) (h : ArgsToks vs ts) :
    ∃ t r, ts = t :: r ∧ t.tok ≠ .sym ',' := by
  cases h with
  | nil l => exact ⟨_, _, rfl, by simp⟩
  | comma v vs tv ts l h hr =>
    obtain ⟨t, r, e, ht⟩ := ValToks.head v tv h
    subst e
    refine ⟨t, _, rfl, ?_⟩
    rcases ht with ⟨s, e⟩ | ⟨s, e⟩ | ⟨s, e⟩ | e <;> simp [e]
  | bare v vs tv ts h hr =>
    obtain ⟨t, r, e, ht⟩ := ValToks.head v tv h
    subst e
    refine ⟨t, _, rfl, ?_⟩
    rcases ht with ⟨s, e⟩ | ⟨s, e⟩ | ⟨s, e⟩ | e <;> simp [e]

theorem ArgsToks.length_le (vs : List PVal) (ts : List LTok) (h : ArgsToks vs ts) : vs.length + 1 ≤ ts.length := by
  induction h with
  | nil l => simp
  | comma v vs tv ts l h hr ih =>
    have := (ValToks.depth_le v tv h).2
    simp only [List.length_cons, List.length_append]; omega
  | bare v vs tv ts h hr ih =>
    have := (ValToks.depth_le v tv h).2
    simp only [List.length_cons, List.length_append]; omega

@[simp] theorem skipSym_hit (c : Char) (l : Nat) (r : List LTok) : skipSym c (⟨.sym c, l⟩ :: r) = r := by
  simp [skipSym]

theorem skipSym_miss (c : Char) (t : LTok) (r : List LTok) (h : t.tok ≠ .sym c) : skipSym c (t :: r) = t :: r := by
  obtain ⟨tk, tl⟩ := t
  cases tk with
  | sym d =>
    have : d ≠ c := by intro e; subst e; exact h rfl
    simp [skipSym, this]
  | _ => rfl

/-- the default branch of `parseArgs` is taken when the input starts with a value -/
theorem parseArgs_step (vf g last : Nat) (v : PVal) (tv rest : List LTok) (h : ValToks v tv) :
    parseArgs vf (g + 1) last (tv ++ rest) = (do
      let (v, r1) ← parseValue vf last (tv ++ rest)
      let (vs, r3) ← parseArgs vf g last (skipSym ',' r1)
      .ok (v :: vs, r3)) := by
  obtain ⟨t, r, e, ht⟩ := ValToks.head v tv h
  subst e
  obtain ⟨tk, tl⟩ := t
  simp only at ht
  rcases ht with ⟨s, e⟩ | ⟨s, e⟩ | ⟨s, e⟩ | e <;> subst e <;> simp only [List.cons_append, parseArgs] <;> rfl

theorem parseArgs_print (vs : List PVal) (ts : List LTok) (h : ArgsToks vs ts) :
    ∀ (vf g last : Nat) (rest : List LTok), 2 * ts.length ≤ vf → vs.length + 1 ≤ g →
    parseArgs vf g last (ts ++ rest) = .ok (vs, rest) := by
  induction h with
  | nil l =>
    intro vf g last rest _ hg
    cases g with
    | zero => omega
    | succ g => simp [parseArgs]
  | comma v vs tv ts l h hr ih =>
    intro vf g last rest hvf hg
    cases g with
    | zero => simp at hg
    | succ g =>
      simp only [List.length_append, List.length_cons] at hvf
      simp only [List.length_cons, Nat.add_le_add_iff_right] at hg
      rw [List.append_assoc, parseArgs_step vf g last v tv _ h,
        parseValue_ok v tv h vf last _ (by omega)]
      simp only [List.cons_append, bind, Except.bind, skipSym_hit]
      rw [ih vf g last rest (by omega) hg]
  | bare v vs tv ts h hr ih =>
    intro vf g last rest hvf hg
    cases g with
    | zero => simp at hg
    | succ g =>
      simp only [List.length_append] at hvf
      simp only [List.length_cons, Nat.add_le_add_iff_right] at hg
      obtain ⟨t, r, e, hne⟩ := ArgsToks.head_not_comma vs ts hr
      rw [List.append_assoc, parseArgs_step vf g last v tv _ h,
        parseValue_ok v tv h vf last _ (by omega)]
      have ih' := ih vf g last rest (by omega) hg
      subst e
      simp only [List.cons_append, bind, Except.bind] at ih' ⊢
      rw [skipSym_miss ',' t _ hne, ih']

/-! ## parameters: `name ( args ) "|"?` … -/

inductive ParamsToks : List PParam → List LTok → Prop where
  | nil : ParamsToks [] []
  | bar (name : String) (args : List PVal) (ps : List PParam) (ta ts : List LTok) (l1 l2 l3 : Nat)
      (h : ArgsToks args ta) (hr : ParamsToks ps ts) :
      ParamsToks (⟨name, args⟩ :: ps) (⟨.ident name, l1⟩ :: ⟨.sym '(', l2⟩ :: ta ++ ⟨.sym '|', l3⟩ :: ts)
  | bare (name : String) (args : List PVal) (ps : List PParam) (ta ts : List LTok) (l1 l2 : Nat)
      (h : ArgsToks args ta) (hr : ParamsToks ps ts) :
      ParamsToks (⟨name, args⟩ :: ps) (⟨.ident name, l1⟩ :: ⟨.sym '(', l2⟩ :: ta ++ ts)

theorem ParamsToks.length_le (ps : List PParam) (ts : List LTok) (h : ParamsToks ps ts) : ps.length ≤ ts.length := by
  induction h with
  | nil => simp
  | bar name args ps ta ts l1 l2 l3 h hr ih => simp only [List.length_cons, List.length_append]; omega
  | bare name args ps ta ts l1 l2 h hr ih => simp only [List.length_cons, List.length_append]; omega

/-- what follows a parameter list (the comma ending the field) does not start with a bar -/
theorem ParamsToks.head_not_bar (ps : List PParam) (ts : List LTok) (h : ParamsToks ps ts) (lc : Nat) (rest : List LTok) :
    ∃ t r, ts ++ ⟨.sym ',', lc⟩ :: rest = t :: r ∧ t.tok ≠ .sym '|' := by
  cases h with
  | nil => exact ⟨_, _, rfl, by simp⟩
  | bar name args ps ta ts l1 l2 l3 h hr => exact ⟨_, _, rfl, by simp⟩
  | bare name args ps ta ts l1 l2 h hr => exact ⟨_, _, rfl, by simp⟩

theorem parseParams_print (ps : List PParam) (ts : List LTok) (h : ParamsToks ps ts) :
    ∀ (vf g last lc : Nat) (rest : List LTok), 2 * ts.length ≤ vf → ps.length + 1 ≤ g →
    parseParams vf g last (ts ++ ⟨.sym ',', lc⟩ :: rest) = .ok (ps, ⟨.sym ',', lc⟩ :: rest) := by
  induction h with
  | nil =>
    intro vf g last lc rest _ hg
    cases g with
    | zero => omega
    | succ g => simp [parseParams]
  | bar name args ps ta ts l1 l2 l3 h hr ih =>
    intro vf g last lc rest hvf hg
    cases g with
    | zero => simp at hg
    | succ g =>
      simp only [List.length_cons, List.length_append] at hvf
      simp only [List.length_cons, Nat.add_le_add_iff_right] at hg
      have hl := ArgsToks.length_le args ta h
      simp only [List.cons_append, List.append_assoc, parseParams]
      rw [parseArgs_print args ta h vf _ l1 _ (by omega) (by simp only [List.length_append, List.length_cons]; omega)]
      simp only [bind, Except.bind, skipSym_hit]
      rw [ih vf g l1 lc rest (by omega) hg]
  | bare name args ps ta ts l1 l2 h hr ih =>
    intro vf g last lc rest hvf hg
    cases g with
    | zero => simp at hg
    | succ g =>
      simp only [List.length_cons, List.length_append] at hvf
      simp only [List.length_cons, Nat.add_le_add_iff_right] at hg
      have hl := ArgsToks.length_le args ta h
      obtain ⟨t, r, e, hne⟩ := ParamsToks.head_not_bar ps ts hr lc rest
      simp only [List.cons_append, List.append_assoc, parseParams]
      rw [parseArgs_print args ta h vf _ l1 _ (by omega) (by simp only [List.length_append, List.length_cons]; omega)]
      simp only [bind, Except.bind]
      have ih' := ih vf g l1 lc rest (by omega) hg
      rw [e] at ih' ⊢
      rw [skipSym_miss '|' t r hne, ih']

/-! ## struct fields: `name @ id : type "|"? params ,` … up to `}` -/

inductive FieldToks : PField → List LTok → Prop where
  | bar (name id : String) (ty : PTy) (ps : List PParam) (tty tps : List LTok) (l la lid lc lb lcomma : Nat)
      (ht : TyToks ty tty) (hp : ParamsToks ps tps) :
      FieldToks ⟨name, id, ty, ps, l⟩
        (⟨.ident name, l⟩ :: ⟨.sym '@', la⟩ :: ⟨.num id, lid⟩ :: ⟨.sym ':', lc⟩ :: tty ++ ⟨.sym '|', lb⟩ :: tps ++ [⟨.sym ',', lcomma⟩])
  | bare (name id : String) (ty : PTy) (ps : List PParam) (tty tps : List LTok) (l la lid lc lcomma : Nat)
      (ht : TyToks ty tty) (hp : ParamsToks ps tps) :
      FieldToks ⟨name, id, ty, ps, l⟩
        (⟨.ident name, l⟩ :: ⟨.sym '@', la⟩ :: ⟨.num id, lid⟩ :: ⟨.sym ':', lc⟩ :: tty ++ tps ++ [⟨.sym ',', lcomma⟩])

inductive FieldsToks : List PField → List LTok → Prop where
  | nil : FieldsToks [] []
  | cons (f : PField) (fs : List PField) (tf ts : List LTok) (h : FieldToks f tf) (hr : FieldsToks fs ts) :
      FieldsToks (f :: fs) (tf ++ ts)

theorem FieldToks.length_pos (f : PField) (tf : List LTok) (h : FieldToks f tf) : 1 ≤ tf.length := by
  cases h <;> simp

theorem FieldsToks.length_le (fs : List PField) (ts : List LTok) (h : FieldsToks fs ts) : fs.length ≤ ts.length := by
  induction h with
  | nil => simp
  | cons f fs tf ts h hr ih =>
    have := FieldToks.length_pos f tf h
    simp only [List.length_cons, List.length_append]; omega

/-- one field, then whatever parses the rest -/
theorem parseFields_step (f : PField) (tf : List LTok) (h : FieldToks f tf) (vf g last : Nat) (rest : List LTok)
    (hvf : 2 * tf.length ≤ vf) :
    parseFields vf (g + 1) last (tf ++ rest) = (do
      let (fs, r9) ← parseFields vf g f.line rest
      .ok (f :: fs, r9)) := by
  cases h with
  | bar name id ty ps tty tps l la lid lc lb lcomma ht hp =>
    simp only [List.length_cons, List.length_append, List.length_singleton] at hvf
    have hd := (TyToks.depth_le ty tty ht).1
    simp only [List.cons_append, List.append_assoc, List.nil_append, parseFields, expectIdent, expectSym, expectNum, bind,
      Except.bind, beq_self_eq_true, ↓reduceIte]
    rw [parseType_print ty tty ht vf l _ (by omega)]
    simp only [skipSym_hit, List.singleton_append]
    rw [parseParams_print ps tps hp vf _ l lcomma rest (by omega)
      (by have := ParamsToks.length_le ps tps hp; simp only [List.length_append, List.length_cons]; omega)]
    simp only [expectSym, beq_self_eq_true, ↓reduceIte]
  | bare name id ty ps tty tps l la lid lc lcomma ht hp =>
    simp only [List.length_cons, List.length_append, List.length_singleton] at hvf
    have hd := (TyToks.depth_le ty tty ht).1
    obtain ⟨t, r, e, hne⟩ := ParamsToks.head_not_bar ps tps hp lcomma rest
    simp only [List.cons_append, List.append_assoc, List.nil_append, parseFields, expectIdent, expectSym, expectNum, bind,
      Except.bind, beq_self_eq_true, ↓reduceIte]
    rw [parseType_print ty tty ht vf l _ (by omega)]
    simp only [List.singleton_append]
    have hpp := parseParams_print ps tps hp vf ((tps ++ ⟨.sym ',', lcomma⟩ :: rest).length + 1) l lcomma rest (by omega)
      (by have := ParamsToks.length_le ps tps hp; simp only [List.length_append, List.length_cons]; omega)
    rw [e] at hpp ⊢
    rw [skipSym_miss '|' t r hne, hpp]
    simp only [expectSym, beq_self_eq_true, ↓reduceIte]

theorem parseFields_print (fs : List PField) (ts : List LTok) (h : FieldsToks fs ts) :
    ∀ (vf g last lb : Nat) (rest : List LTok), 2 * ts.length ≤ vf → fs.length + 1 ≤ g →
    parseFields vf g last (ts ++ ⟨.sym '}', lb⟩ :: rest) = .ok (fs, ⟨.sym '}', lb⟩ :: rest) := by
  induction h with
  | nil =>
    intro vf g last lb rest _ hg
    cases g with
    | zero => omega
    | succ g => simp [parseFields]
  | cons f fs tf ts h hr ih =>
    intro vf g last lb rest hvf hg
    cases g with
    | zero => simp at hg
    | succ g =>
      simp only [List.length_append] at hvf
      simp only [List.length_cons, Nat.add_le_add_iff_right] at hg
      rw [List.append_assoc, parseFields_step f tf h vf g last _ (by omega), ih vf g f.line lb rest (by omega) hg]
      rfl

/-! ## enumerators `name = value ,` and extension fields `name : value ,`, up to `}` -/

inductive EnumItemsToks : List (String × PVal × Nat) → List LTok → Prop where
  | nil : EnumItemsToks [] []
  | cons (name : String) (v : PVal) (l le lc : Nat) (tv : List LTok) (es : List (String × PVal × Nat)) (ts : List LTok)
      (h : ValToks v tv) (hr : EnumItemsToks es ts) :
      EnumItemsToks ((name, v, l) :: es) (⟨.ident name, l⟩ :: ⟨.sym '=', le⟩ :: tv ++ ⟨.sym ',', lc⟩ :: ts)

theorem EnumItemsToks.length_le (es : List (String × PVal × Nat)) (ts : List LTok) (h : EnumItemsToks es ts) :
    es.length ≤ ts.length := by
  induction h with
  | nil => simp
  | cons name v l le lc tv es ts h hr ih => simp only [List.length_cons, List.length_append]; omega

theorem parseEnumItems_print (es : List (String × PVal × Nat)) (ts : List LTok) (h : EnumItemsToks es ts) :
    ∀ (vf g last lb : Nat) (rest : List LTok), 2 * ts.length ≤ vf → es.length + 1 ≤ g →
    parseEnumItems vf g last (ts ++ ⟨.sym '}', lb⟩ :: rest) = .ok (es, ⟨.sym '}', lb⟩ :: rest) := by
  induction h with
  | nil =>
    intro vf g last lb rest _ hg
    cases g with
    | zero => omega
    | succ g => simp [parseEnumItems]
  | cons name v l le lc tv es ts h hr ih =>
    intro vf g last lb rest hvf hg
    cases g with
    | zero => simp at hg
    | succ g =>
      simp only [List.length_cons, List.length_append] at hvf
      simp only [List.length_cons, Nat.add_le_add_iff_right] at hg
      simp only [List.cons_append, List.append_assoc, parseEnumItems, expectIdent, expectSym, bind, Except.bind,
        beq_self_eq_true, ↓reduceIte]
      rw [parseValue_ok v tv h vf l _ (by omega)]
      simp only [beq_self_eq_true, ↓reduceIte]
      rw [ih vf g l lb rest (by omega) hg]

inductive ExtFieldsToks : List (String × PVal) → List LTok → Prop where
  | nil : ExtFieldsToks [] []
  | cons (name : String) (v : PVal) (l lc lcomma : Nat) (tv : List LTok) (fs : List (String × PVal)) (ts : List LTok)
      (h : ValToks v tv) (hr : ExtFieldsToks fs ts) :
      ExtFieldsToks ((name, v) :: fs) (⟨.ident name, l⟩ :: ⟨.sym ':', lc⟩ :: tv ++ ⟨.sym ',', lcomma⟩ :: ts)

theorem ExtFieldsToks.length_le (fs : List (String × PVal)) (ts : List LTok) (h : ExtFieldsToks fs ts) :
    fs.length ≤ ts.length := by
  induction h with
  | nil => simp
  | cons name v l lc lcomma tv fs ts h hr ih => simp only [List.length_cons, List.length_append]; omega

theorem parseExtFields_print (fs : List (String × PVal)) (ts : List LTok) (h : ExtFieldsToks fs ts) :
    ∀ (vf g last lb : Nat) (rest : List LTok), 2 * ts.length ≤ vf → fs.length + 1 ≤ g →
    parseExtFields vf g last (ts ++ ⟨.sym '}', lb⟩ :: rest) = .ok (fs, ⟨.sym '}', lb⟩ :: rest) := by
  induction h with
  | nil =>
    intro vf g last lb rest _ hg
    cases g with
    | zero => omega
    | succ g => simp [parseExtFields]
  | cons name v l lc lcomma tv fs ts h hr ih =>
    intro vf g last lb rest hvf hg
    cases g with
    | zero => simp at hg
    | succ g =>
      simp only [List.length_cons, List.length_append] at hvf
      simp only [List.length_cons, Nat.add_le_add_iff_right] at hg
      simp only [List.cons_append, List.append_assoc, parseExtFields, expectIdent, expectSym, bind, Except.bind,
        beq_self_eq_true, ↓reduceIte]
      rw [parseValue_ok v tv h vf l _ (by omega)]
      simp only [beq_self_eq_true, ↓reduceIte]
      rw [ih vf g l lb rest (by omega) hg]

/-! ## binding items: extension fields and `signal name { … } ,` blocks -/

inductive ImplItemsToks : List PItem → List LTok → Prop where
  | nil : ImplItemsToks [] []
  | field (name : String) (v : PVal) (l lc lcomma : Nat) (tv : List LTok) (is : List PItem) (ts : List LTok)
      (h : ValToks v tv) (hr : ImplItemsToks is ts) :
      ImplItemsToks (.field name v :: is) (⟨.ident name, l⟩ :: ⟨.sym ':', lc⟩ :: tv ++ ⟨.sym ',', lcomma⟩ :: ts)
  | signal (name : String) (fs : List (String × PVal)) (l ln lo lb lcomma : Nat) (tf : List LTok) (is : List PItem)
      (ts : List LTok) (h : ExtFieldsToks fs tf) (hne : fs ≠ []) (hr : ImplItemsToks is ts) :
      ImplItemsToks (.signal name fs l :: is)
        (⟨.ident "signal", l⟩ :: ⟨.ident name, ln⟩ :: ⟨.sym '{', lo⟩ :: tf ++ ⟨.sym '}', lb⟩ :: ⟨.sym ',', lcomma⟩ :: ts)

theorem ImplItemsToks.length_le (is : List PItem) (ts : List LTok) (h : ImplItemsToks is ts) : is.length ≤ ts.length := by
  induction h with
  | nil => simp
  | field name v l lc lcomma tv is ts h hr ih => simp only [List.length_cons, List.length_append]; omega
  | signal name fs l ln lo lb lcomma tf is ts h hne hr ih => simp only [List.length_cons, List.length_append]; omega

theorem parseImplItems_print (is : List PItem) (ts : List LTok) (h : ImplItemsToks is ts) :
    ∀ (vf g last lb : Nat) (rest : List LTok), 2 * ts.length ≤ vf → is.length + 1 ≤ g →
    parseImplItems vf g last (ts ++ ⟨.sym '}', lb⟩ :: rest) = .ok (is, ⟨.sym '}', lb⟩ :: rest) := by
  induction h with
  | nil =>
    intro vf g last lb rest _ hg
    cases g with
    | zero => omega
    | succ g => simp [parseImplItems]
  | field name v l lc lcomma tv is ts h hr ih =>
    intro vf g last lb rest hvf hg
    cases g with
    | zero => simp at hg
    | succ g =>
      simp only [List.length_cons, List.length_append] at hvf
      simp only [List.length_cons, Nat.add_le_add_iff_right] at hg
      have step : parseImplItems vf (g + 1) last
          (⟨.ident name, l⟩ :: ⟨.sym ':', lc⟩ :: (tv ++ ⟨.sym ',', lcomma⟩ :: (ts ++ ⟨.sym '}', lb⟩ :: rest))) = (do
            let (v', r3) ← parseValue vf l (tv ++ ⟨.sym ',', lcomma⟩ :: (ts ++ ⟨.sym '}', lb⟩ :: rest))
            let (_, r4) ← expectSym ',' l r3
            let (is', r5) ← parseImplItems vf g l r4
            .ok (.field name v' :: is', r5)) := by
        by_cases hn : name = "signal"
        · subst hn; simp only [parseImplItems, expectIdent, expectSym, bind, Except.bind, beq_self_eq_true, ↓reduceIte]
        · simp only [parseImplItems, expectIdent, expectSym, bind, Except.bind, beq_self_eq_true, ↓reduceIte]
      simp only [List.cons_append, List.append_assoc]
      rw [step, parseValue_ok v tv h vf l _ (by omega)]
      simp only [expectSym, bind, Except.bind, beq_self_eq_true, ↓reduceIte]
      rw [ih vf g l lb rest (by omega) hg]
  | signal name fs l ln lo lb' lcomma tf is ts h hne hr ih =>
    intro vf g last lb rest hvf hg
    cases g with
    | zero => simp at hg
    | succ g =>
      simp only [List.length_cons, List.length_append] at hvf
      simp only [List.length_cons, Nat.add_le_add_iff_right] at hg
      have hl := ExtFieldsToks.length_le fs tf h
      simp only [List.cons_append, List.append_assoc, parseImplItems]
      rw [parseExtFields_print fs tf h vf _ l lb' _ (by omega)
        (by simp only [List.length_append, List.length_cons]; omega)]
      have he : fs.isEmpty = false := by cases fs <;> simp_all
      simp only [bind, Except.bind, he, Bool.false_eq_true, ↓reduceIte, expectSym, beq_self_eq_true]
      rw [ih vf g l lb rest (by omega) hg]

/-! ## methods and module paths -/

inductive MethodsToks : List PMethod → List LTok → Prop where
  | nil : MethodsToks [] []
  | cons (name inp id out : String) (l l1 l2 l3 l4 l5 l6 l7 l8 l9 : Nat) (ms : List PMethod) (ts : List LTok)
      (hr : MethodsToks ms ts) :
      MethodsToks (⟨name, inp, id, out, l⟩ :: ms)
        (⟨.ident "method", l⟩ :: ⟨.ident name, l1⟩ :: ⟨.sym '(', l2⟩ :: ⟨.ident inp, l3⟩ :: ⟨.sym ')', l4⟩ ::
         ⟨.sym '@', l5⟩ :: ⟨.num id, l6⟩ :: ⟨.ident "returns", l7⟩ :: ⟨.ident out, l8⟩ :: ⟨.sym ',', l9⟩ :: ts)

theorem MethodsToks.length_le (ms : List PMethod) (ts : List LTok) (h : MethodsToks ms ts) : ms.length ≤ ts.length := by
  induction h with
  | nil => simp
  | cons name inp id out l l1 l2 l3 l4 l5 l6 l7 l8 l9 ms ts hr ih => simp only [List.length_cons]; omega

theorem parseMethods_print (ms : List PMethod) (ts : List LTok) (h : MethodsToks ms ts) :
    ∀ (g last lb : Nat) (rest : List LTok), ms.length + 1 ≤ g →
    parseMethods g last (ts ++ ⟨.sym '}', lb⟩ :: rest) = .ok (ms, ⟨.sym '}', lb⟩ :: rest) := by
  induction h with
  | nil =>
    intro g last lb rest hg
    cases g with
    | zero => omega
    | succ g => simp [parseMethods]
  | cons name inp id out l l1 l2 l3 l4 l5 l6 l7 l8 l9 ms ts hr ih =>
    intro g last lb rest hg
    cases g with
    | zero => simp at hg
    | succ g =>
      simp only [List.length_cons, Nat.add_le_add_iff_right] at hg
      simp only [List.cons_append, parseMethods, expectKw, expectIdent, expectSym, expectNum, bind, Except.bind,
        beq_self_eq_true, ↓reduceIte]
      rw [ih g l lb rest hg]

inductive ModPathToks : List String → List LTok → Prop where
  | one (s : String) (l : Nat) : ModPathToks [s] [⟨.ident s, l⟩]
  | more (s : String) (l ld : Nat) (ps : List String) (ts : List LTok) (hr : ModPathToks ps ts) :
      ModPathToks (s :: ps) (⟨.ident s, l⟩ :: ⟨.sym '.', ld⟩ :: ts)

theorem ModPathToks.length_le (ps : List String) (ts : List LTok) (h : ModPathToks ps ts) : ps.length ≤ ts.length := by
  induction h with
  | one s l => simp
  | more s l ld ps ts hr ih => simp only [List.length_cons]; omega

theorem parseModPath_print (ps : List String) (ts : List LTok) (h : ModPathToks ps ts) :
    ∀ (g last lsemi : Nat) (rest : List LTok), ps.length ≤ g →
    parseModPath g last (ts ++ ⟨.sym ';', lsemi⟩ :: rest) = .ok (ps, ⟨.sym ';', lsemi⟩ :: rest) := by
  induction h with
  | one s l =>
    intro g last lsemi rest hg
    cases g with
    | zero => simp at hg
    | succ g => simp [parseModPath, expectIdent, bind, Except.bind]
  | more s l ld ps ts hr ih =>
    intro g last lsemi rest hg
    cases g with
    | zero => simp at hg
    | succ g =>
      simp only [List.length_cons, Nat.add_le_add_iff_right] at hg
      simp only [List.cons_append, parseModPath, expectIdent, bind, Except.bind]
      rw [ih g l lsemi rest hg]

/-! ## declarations, files -/

theorem skipKw_hit (kw : String) (l : Nat) (r : List LTok) : skipKw kw (⟨.ident kw, l⟩ :: r) = r := by
  simp [skipKw]

theorem skipKw_miss_ident (kw s : String) (l : Nat) (r : List LTok) (h : s ≠ kw) :
    skipKw kw (⟨.ident s, l⟩ :: r) = ⟨.ident s, l⟩ :: r := by
  simp [skipKw, h]

theorem skipKw_sym (kw : String) (c : Char) (l : Nat) (r : List LTok) :
    skipKw kw (⟨.sym c, l⟩ :: r) = ⟨.sym c, l⟩ :: r := rfl

/-- the tokens between `for T` and `{`: nothing, `as N`, or a bare `N` (which must not be `as`) -/
inductive AliasToks : Option String → List LTok → Prop where
  | none : AliasToks .none []
  | withAs (n : String) (l1 l2 : Nat) : AliasToks (some n) [⟨.ident "as", l1⟩, ⟨.ident n, l2⟩]
  | bare (n : String) (l : Nat) (h : n ≠ "as") : AliasToks (some n) [⟨.ident n, l⟩]

inductive DeclToks : PDecl → List LTok → Prop where
  | struct (name : String) (fs : List PField) (l ln lo lb : Nat) (tf : List LTok) (h : FieldsToks fs tf) (hne : fs ≠ []) :
      DeclToks (.struct name fs l)
        (⟨.ident "struct", l⟩ :: ⟨.ident name, ln⟩ :: ⟨.sym '{', lo⟩ :: tf ++ [⟨.sym '}', lb⟩])
  | enum (name : String) (es : List (String × PVal × Nat)) (l ln lo lb : Nat) (te : List LTok) (h : EnumItemsToks es te) :
      DeclToks (.enum name es l)
        (⟨.ident "enum", l⟩ :: ⟨.ident name, ln⟩ :: ⟨.sym '{', lo⟩ :: te ++ [⟨.sym '}', lb⟩])
  | impl (proto ty : String) (alias : Option String) (is : List PItem) (l lp lf lt lo lb : Nat) (ta ti : List LTok)
      (ha : AliasToks alias ta) (h : ImplItemsToks is ti) (hne : is ≠ []) :
      DeclToks (.impl proto ty alias is l)
        (⟨.ident "impl", l⟩ :: ⟨.ident proto, lp⟩ :: ⟨.ident "for", lf⟩ :: ⟨.ident ty, lt⟩ :: ta ++
          ⟨.sym '{', lo⟩ :: ti ++ [⟨.sym '}', lb⟩])
  | service (name id : String) (ms : List PMethod) (l ln la li lo lb : Nat) (tm : List LTok) (h : MethodsToks ms tm)
      (hne : ms ≠ []) :
      DeclToks (.service name id ms l)
        (⟨.ident "service", l⟩ :: ⟨.ident name, ln⟩ :: ⟨.sym '@', la⟩ :: ⟨.num id, li⟩ :: ⟨.sym '{', lo⟩ :: tm ++ [⟨.sym '}', lb⟩])
  | device (name : String) (fs : List (String × PVal)) (l ln lo lb : Nat) (tf : List LTok) (h : ExtFieldsToks fs tf)
      (hne : fs ≠ []) :
      DeclToks (.device name fs l)
        (⟨.ident "device", l⟩ :: ⟨.ident name, ln⟩ :: ⟨.sym '{', lo⟩ :: tf ++ [⟨.sym '}', lb⟩])
  | mod (ps : List String) (l lsemi : Nat) (tp : List LTok) (h : ModPathToks ps tp) :
      DeclToks (.mod ps l) (⟨.ident "mod", l⟩ :: tp ++ [⟨.sym ';', lsemi⟩])

theorem isEmpty_false {α : Type} (l : List α) (h : l ≠ []) : l.isEmpty = false := by
  cases l <;> simp_all

theorem DeclToks.length_pos (d : PDecl) (ts : List LTok) (h : DeclToks d ts) : 1 ≤ ts.length := by
  cases h <;> simp

/-- **a declaration parses back**, whatever follows -/
theorem parseDecl_print (d : PDecl) (ts : List LTok) (h : DeclToks d ts) (last : Nat) (rest : List LTok) :
    parseDecl last (ts ++ rest) = .ok (d, rest) := by
  cases h with
  | struct name fs l ln lo lb tf h hne =>
    have hl := FieldsToks.length_le fs tf h
    simp only [List.cons_append, List.append_assoc, List.singleton_append, List.nil_append, parseDecl, expectIdent,
      expectSym, bind, Except.bind, beq_self_eq_true, ↓reduceIte]
    rw [parseFields_print fs tf h _ _ l lb rest (by simp only [List.length_append, List.length_cons]; omega)
      (by simp only [List.length_append, List.length_cons]; omega)]
    simp only [isEmpty_false fs hne, Bool.false_eq_true, ↓reduceIte, beq_self_eq_true]
  | enum name es l ln lo lb te h =>
    have hl := EnumItemsToks.length_le es te h
    simp only [List.cons_append, List.append_assoc, List.singleton_append, List.nil_append, parseDecl, expectIdent,
      expectSym, bind, Except.bind, beq_self_eq_true, ↓reduceIte]
    rw [parseEnumItems_print es te h _ _ l lb rest (by simp only [List.length_append, List.length_cons]; omega)
      (by simp only [List.length_append, List.length_cons]; omega)]
    simp only [beq_self_eq_true, ↓reduceIte]
  | impl proto ty alias is l lp lf lt lo lb ta ti ha h hne =>
    have hl := ImplItemsToks.length_le is ti h
    have body : ∀ (r6 : List LTok), r6 = ti ++ ⟨.sym '}', lb⟩ :: rest →
        (do
          let (is', r7) ← parseImplItems (2 * r6.length + 2) (r6.length + 1) l r6
          if is'.isEmpty then (.error ⟨"impl needs a field", lineOf r7 l⟩ : Except SynErr (PDecl × List LTok)) else
          let (_, r8) ← expectSym '}' l r7
          .ok (.impl proto ty alias is' l, r8)) = .ok (.impl proto ty alias is l, rest) := by
      intro r6 e
      subst e
      rw [parseImplItems_print is ti h _ _ l lb rest (by simp only [List.length_append, List.length_cons]; omega)
        (by simp only [List.length_append, List.length_cons]; omega)]
      simp only [bind, Except.bind, isEmpty_false is hne, Bool.false_eq_true, ↓reduceIte, expectSym, beq_self_eq_true]
    cases ha with
    | none =>
      simp only [List.cons_append, List.append_assoc, List.singleton_append, List.nil_append, parseDecl, expectIdent,
        expectKw, expectSym, bind, Except.bind, beq_self_eq_true, ↓reduceIte, skipKw_sym]
      exact body _ rfl
    | withAs n l1 l2 =>
      simp only [List.cons_append, List.append_assoc, List.singleton_append, List.nil_append, parseDecl, expectIdent,
        expectKw, expectSym, bind, Except.bind, beq_self_eq_true, ↓reduceIte, skipKw_hit]
      exact body _ rfl
    | bare n ln hn =>
      simp only [List.cons_append, List.append_assoc, List.singleton_append, List.nil_append, parseDecl, expectIdent,
        expectKw, expectSym, bind, Except.bind, beq_self_eq_true, ↓reduceIte, skipKw_miss_ident "as" n ln _ hn]
      exact body _ rfl
  | service name id ms l ln la li lo lb tm h hne =>
    have hl := MethodsToks.length_le ms tm h
    simp only [List.cons_append, List.append_assoc, List.singleton_append, List.nil_append, parseDecl, expectIdent,
      expectSym, expectNum, bind, Except.bind, beq_self_eq_true, ↓reduceIte]
    rw [parseMethods_print ms tm h _ l lb rest (by simp only [List.length_append, List.length_cons]; omega)]
    simp only [isEmpty_false ms hne, Bool.false_eq_true, ↓reduceIte, beq_self_eq_true]
  | device name fs l ln lo lb tf h hne =>
    have hl := ExtFieldsToks.length_le fs tf h
    simp only [List.cons_append, List.append_assoc, List.singleton_append, List.nil_append, parseDecl, expectIdent,
      expectSym, bind, Except.bind, beq_self_eq_true, ↓reduceIte]
    rw [parseExtFields_print fs tf h _ _ l lb rest (by simp only [List.length_append, List.length_cons]; omega)
      (by simp only [List.length_append, List.length_cons]; omega)]
    simp only [isEmpty_false fs hne, Bool.false_eq_true, ↓reduceIte, beq_self_eq_true]
  | mod ps l lsemi tp h =>
    have hl := ModPathToks.length_le ps tp h
    simp only [List.cons_append, List.append_assoc, List.singleton_append, List.nil_append, parseDecl, bind, Except.bind]
    rw [parseModPath_print ps tp h _ l lsemi rest (by simp only [List.length_append, List.length_cons]; omega)]
    simp only [expectSym, beq_self_eq_true, ↓reduceIte]

inductive DeclsToks : List PDecl → List LTok → Prop where
  | nil : DeclsToks [] []
  | cons (d : PDecl) (ds : List PDecl) (td ts : List LTok) (h : DeclToks d td) (hr : DeclsToks ds ts) :
      DeclsToks (d :: ds) (td ++ ts)

theorem DeclsToks.length_le (ds : List PDecl) (ts : List LTok) (h : DeclsToks ds ts) : ds.length ≤ ts.length := by
  induction h with
  | nil => simp
  | cons d ds td ts h hr ih =>
    have := DeclToks.length_pos d td h
    simp only [List.length_cons, List.length_append]; omega

theorem parseDecls_print (ds : List PDecl) (ts : List LTok) (h : DeclsToks ds ts) :
    ∀ (g last : Nat), ds.length + 1 ≤ g → parseDecls g last ts = .ok ds := by
  induction h with
  | nil =>
    intro g last hg
    cases g with
    | zero => omega
    | succ g => simp [parseDecls]
  | cons d ds td ts h hr ih =>
    intro g last hg
    cases g with
    | zero => simp at hg
    | succ g =>
      simp only [List.length_cons, Nat.add_le_add_iff_right] at hg
      have hp := DeclToks.length_pos d td h
      obtain ⟨t, r, e⟩ : ∃ t r, td ++ ts = t :: r := by
        cases td with
        | nil => simp at hp
        | cons t r => exact ⟨t, r ++ ts, rfl⟩
      have hd := parseDecl_print d td h last ts
      rw [e] at hd ⊢
      simp only [parseDecls, hd, bind, Except.bind]
      rw [ih g _ hg]

/-- a whole file: `version : "<s>"` and the declarations -/
inductive FileToks : PFile → List LTok → Prop where
  | mk (v : String) (l lc lv : Nat) (ds : List PDecl) (ts : List LTok) (h : DeclsToks ds ts) :
      FileToks ⟨v, l, ds⟩ (⟨.ident "version", l⟩ :: ⟨.sym ':', lc⟩ :: ⟨.str v, lv⟩ :: ts)

/-- **parsing inverts printing**: every printing of a file — any of the optional separators,
any line numbers, any nesting depth of types and values — parses back to that file -/
theorem parseFile_print (pf : PFile) (ts : List LTok) (h : FileToks pf ts) : parseFile ts = .ok pf := by
  cases h with
  | mk v l lc lv ds ts h =>
    have hl := DeclsToks.length_le ds ts h
    simp only [parseFile, expectKw, expectSym, bind, Except.bind, beq_self_eq_true, ↓reduceIte]
    rw [parseDecls_print ds ts h _ l (by omega)]

end Fcp.Syntax
