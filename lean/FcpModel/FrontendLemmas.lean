import FcpModel.Frontend
/-!
# Front-end invariants: no dangling or mis-kinded references (C08)
-/
namespace Fcp.Frontend
open Fcp.Syntax

/-- every user-type reference inside `ty` resolves in `t` to a declaration of the tagged kind -/
def RefsOk (t : Tree) : STy → Prop
  | .struct n => (t.getStruct n).isSome
  | .enum n => (t.getEnum n).isSome
  | .arr e _ => RefsOk t e
  | .dyn e => RefsOk t e
  | .opt e => RefsOk t e
  | _ => True

/-- the invariant of accepted trees -/
def TreeOk (t : Tree) : Prop := ∀ st ∈ t.structs, ∀ f ∈ st.fields, RefsOk t f.ty

/-- `t'` declares at least the structs and enums of `t` (lookups that succeed keep succeeding) -/
def Extends (t t' : Tree) : Prop :=
  (∀ n, (t.getStruct n).isSome → (t'.getStruct n).isSome) ∧
  (∀ n, (t.getEnum n).isSome → (t'.getEnum n).isSome)

theorem Extends.refl (t : Tree) : Extends t t := ⟨fun _ h => h, fun _ h => h⟩

theorem Extends.trans {a b c : Tree} (h1 : Extends a b) (h2 : Extends b c) : Extends a c :=
  ⟨fun n h => h2.1 n (h1.1 n h), fun n h => h2.2 n (h1.2 n h)⟩

theorem RefsOk.mono {t t' : Tree} (h : Extends t t') : ∀ ty, RefsOk t ty → RefsOk t' ty := by
  intro ty
  induction ty with
  | struct n => exact h.1 n
  | enum n => exact h.2 n
  | arr e _ ih => exact ih
  | dyn e ih => exact ih
  | opt e ih => exact ih
  | _ => intro _; trivial

theorem find?_append_isSome_left {α : Type} (p : α → Bool) (a b : List α)
    (h : (a.find? p).isSome) : ((a ++ b).find? p).isSome := by
  rw [List.find?_append]
  cases ha : a.find? p with
  | none => rw [ha] at h; cases h
  | some x => simp

theorem find?_append_isSome_right {α : Type} (p : α → Bool) (a b : List α)
    (h : (b.find? p).isSome) : ((a ++ b).find? p).isSome := by
  rw [List.find?_append]
  cases ha : a.find? p with
  | none => simpa using h
  | some x => simp

/-- an accepted `type` only refers to what is declared so far -/
theorem elabType_refsOk (t : Tree) (file : String) : ∀ (p : PTy) (ty : STy),
    elabType t file p = .ok ty → RefsOk t ty := by
  intro p
  induction p with
  | named s line =>
    intro ty h
    simp only [elabType] at h
    split at h
    · rename_i hs; cases h; exact hs
    · split at h
      · rename_i he; cases h; exact he
      · cases h
  | arr e size ih =>
    intro ty h
    simp only [elabType] at h
    split at h
    · cases h
    · rename_i e' he
      split at h
      · cases h; exact ih e' he
      · cases h
  | dyn e ih =>
    intro ty h
    simp only [elabType] at h
    split at h
    · cases h
    · rename_i e' he; cases h; exact ih e' he
  | opt e ih =>
    intro ty h
    simp only [elabType] at h
    split at h
    · cases h
    · rename_i e' he; cases h; exact ih e' he
  | u n => intro ty h; simp only [elabType] at h; cases h; trivial
  | i n => intro ty h; simp only [elabType] at h; cases h; trivial
  | f32 => intro ty h; simp only [elabType] at h; cases h; trivial
  | f64 => intro ty h; simp only [elabType] at h; cases h; trivial
  | str => intro ty h; simp only [elabType] at h; cases h; trivial

/-- a reference to a name that is not declared so far is an error whose first message names
the type -/
theorem elabType_undeclared (t : Tree) (file s : String) (line : Nat)
    (hs : t.getStruct s = none) (he : t.getEnum s = none) :
    elabType t file (.named s line) =
      .error [⟨"type-not-found", s!"Type '{s}' cannot be found.", some file, some line⟩] := by
  simp [elabType, hs, he]

theorem elabField_refsOk (t : Tree) (file sname : String) (f : PField) (tf : TField)
    (h : elabField t file sname f = .ok tf) : RefsOk t tf.ty := by
  unfold elabField at h
  simp only [bind, Except.bind, pure, Except.pure] at h
  split at h
  · cases h
  · split at h
    · split at h
      · cases h
      · rename_i ty hty
        simp only [Except.ok.injEq] at h
        subst h
        exact elabType_refsOk t file _ _ hty
    · cases h

theorem mapM_ok_forall {α β ε : Type} (f : α → Except ε β) (P : β → Prop)
    (hf : ∀ a b, f a = .ok b → P b) :
    ∀ (l : List α) (r : List β), l.mapM f = .ok r → ∀ b ∈ r, P b := by
  intro l
  induction l with
  | nil => intro r h b hb; simp [List.mapM_nil, pure, Except.pure] at h; subst h; cases hb
  | cons a as ih =>
    intro r h b hb
    simp only [List.mapM_cons, bind, Except.bind] at h
    split at h
    · cases h
    · rename_i b0 hb0
      split at h
      · cases h
      · rename_i bs hbs
        simp only [pure, Except.pure, Except.ok.injEq] at h
        subst h
        rcases List.mem_cons.mp hb with rfl | hm
        · exact hf a _ hb0
        · exact ih bs hbs b hm

theorem getStruct_congr (t t' : Tree) (h : t'.structs = t.structs) (n : String) :
    t'.getStruct n = t.getStruct n := by unfold Tree.getStruct; rw [h]

theorem getEnum_congr (t t' : Tree) (h : t'.enums = t.enums) (n : String) :
    t'.getEnum n = t.getEnum n := by unfold Tree.getEnum; rw [h]

theorem extends_of_append (t t' : Tree) (s2 : List TStruct) (e2 : List Enum)
    (hs : t'.structs = t.structs ++ s2) (he : t'.enums = t.enums ++ e2) : Extends t t' := by
  constructor
  · intro n h; unfold Tree.getStruct at h ⊢; rw [hs]; exact find?_append_isSome_left _ _ _ h
  · intro n h; unfold Tree.getEnum at h ⊢; rw [he]; exact find?_append_isSome_left _ _ _ h

theorem extends_of_append_right (t t' : Tree) (s1 : List TStruct) (e1 : List Enum)
    (hs : t'.structs = s1 ++ t.structs) (he : t'.enums = e1 ++ t.enums) : Extends t t' := by
  constructor
  · intro n h; unfold Tree.getStruct at h ⊢; rw [hs]; exact find?_append_isSome_right _ _ _ h
  · intro n h; unfold Tree.getEnum at h ⊢; rw [he]; exact find?_append_isSome_right _ _ _ h

/-- adding declarations (and one struct whose references resolve) keeps the invariant -/
theorem treeOk_grow (t t' : Tree) (news : List TStruct) (e2 : List Enum)
    (hs : t'.structs = t.structs ++ news) (he : t'.enums = t.enums ++ e2)
    (hok : TreeOk t) (hnew : ∀ st ∈ news, ∀ f ∈ st.fields, RefsOk t f.ty) : TreeOk t' := by
  have hext := extends_of_append t t' news e2 hs he
  intro st hst f hf
  rw [hs] at hst
  rcases List.mem_append.mp hst with h | h
  · exact RefsOk.mono hext _ (hok st h f hf)
  · exact RefsOk.mono hext _ (hnew st h f hf)

/-- **one declaration preserves the invariant**, provided imported modules satisfy it -/
theorem elabDecl_treeOk (loader : List String → String → Except Err Tree)
    (hl : ∀ p src t, loader p src = .ok t → TreeOk t)
    (fs : FS) (path : List String) (s : St) (d : PDecl) (hs : TreeOk s.tree) :
    TreeOk (elabDecl loader fs path s d).tree := by
  cases d with
  | struct name fields line =>
    simp only [elabDecl]
    split
    · exact hs
    · rename_i fs' hfs
      apply treeOk_grow s.tree _ [⟨name, fs'⟩] [] (by simp) (by simp) hs
      intro st hst f hf
      simp only [List.mem_singleton] at hst
      subst hst
      exact mapM_ok_forall _ (fun tf => RefsOk s.tree tf.ty)
        (fun a b h => elabField_refsOk s.tree _ name a b h) fields fs' hfs f hf
  | enum name items line =>
    simp only [elabDecl]
    split
    · exact hs
    · split
      · exact hs
      · rename_i es _
        exact treeOk_grow s.tree _ [] [⟨name, es⟩] (by simp) (by simp) hs (by intro st h; cases h)
  | impl proto ty name items line =>
    simp only [elabDecl]
    exact treeOk_grow s.tree _ [] [] (by simp) (by simp) hs (by intro st h; cases h)
  | service name id methods line =>
    simp only [elabDecl]
    split
    · exact treeOk_grow s.tree _ [] [] (by simp) (by simp) hs (by intro st h; cases h)
    · exact hs
    · exact hs
  | device name fields line =>
    simp only [elabDecl]
    exact treeOk_grow s.tree _ [] [] (by simp) (by simp) hs (by intro st h; cases h)
  | mod mpath line =>
    simp only [elabDecl]
    split
    · exact hs
    · split
      · exact hs
      · rename_i src _ sub hsub
        have hsubok := hl _ _ _ hsub
        have e1 : Extends s.tree (s.tree.merge sub) :=
          extends_of_append _ _ sub.structs sub.enums (by simp [Tree.merge]) (by simp [Tree.merge])
        have e2 : Extends sub (s.tree.merge sub) :=
          extends_of_append_right _ _ s.tree.structs s.tree.enums (by simp [Tree.merge]) (by simp [Tree.merge])
        intro st hst f hf
        simp only [Tree.merge] at hst
        rcases List.mem_append.mp hst with h | h
        · exact RefsOk.mono e1 _ (hs st h f hf)
        · exact RefsOk.mono e2 _ (hsubok st h f hf)

theorem foldl_treeOk (loader : List String → String → Except Err Tree)
    (hl : ∀ p src t, loader p src = .ok t → TreeOk t) (fs : FS) (path : List String)
    (ds : List PDecl) (s : St) (hs : TreeOk s.tree) :
    TreeOk (ds.foldl (fun s d => elabDecl loader fs path s d) s).tree := by
  induction ds generalizing s with
  | nil => exact hs
  | cons d ds ih => exact ih _ (elabDecl_treeOk loader hl fs path s d hs)

theorem St.fail_tree (s : St) (e : Err) : (s.fail e).tree = s.tree := rfl

theorem elabFile_treeOk (loader : List String → String → Except Err Tree)
    (hl : ∀ p src t, loader p src = .ok t → TreeOk t) (fs : FS) (path : List String)
    (pf : PFile) (t : Tree) (h : elabFile loader fs path pf = .ok t) : TreeOk t := by
  unfold elabFile at h
  simp only at h
  split at h
  · cases h
  · simp only [Except.ok.injEq] at h
    subst h
    apply foldl_treeOk loader hl
    split
    · intro st hst; cases hst
    · intro st hst; cases hst

/-- **C08**: every tree the front end accepts — across any depth of module imports — has no
dangling or mis-kinded type reference -/
theorem loadFile_treeOk (fs : FS) : ∀ (fuel : Nat) (path : List String) (src : String) (t : Tree),
    loadFile fs fuel path src = .ok t → TreeOk t := by
  intro fuel
  induction fuel with
  | zero => intro path src t h; simp [loadFile] at h
  | succ fuel ih =>
    intro path src t h
    simp only [loadFile] at h
    split at h
    · cases h
    · exact elabFile_treeOk (loadFile fs fuel) (fun p s t h => ih p s t h) fs path _ t h

/-- the user-type name at the leaf of a `type`, if any -/
def leafNamed : PTy → Option (String × Nat)
  | .named s l => some (s, l)
  | .arr e _ => leafNamed e
  | .dyn e => leafNamed e
  | .opt e => leafNamed e
  | _ => none

/-- a reference, at any nesting depth, to a name not declared so far is rejected, and the
first message of the error names the type -/
theorem elabType_undeclared_deep (t : Tree) (file : String) : ∀ (p : PTy) (s : String) (l : Nat),
    leafNamed p = some (s, l) → t.getStruct s = none → t.getEnum s = none →
    ∃ rest, elabType t file p =
      .error (⟨"type-not-found", s!"Type '{s}' cannot be found.", some file, some l⟩ :: rest) := by
  intro p
  induction p with
  | named n line =>
    intro s l h hs he
    simp only [leafNamed, Option.some.injEq, Prod.mk.injEq] at h
    obtain ⟨rfl, rfl⟩ := h
    exact ⟨[], elabType_undeclared t file n line hs he⟩
  | arr e size ih =>
    intro s l h hs he
    obtain ⟨rest, hr⟩ := ih s l h hs he
    exact ⟨rest ++ [⟨"array", "Error parsing array type", none, none⟩], by simp [elabType, hr]⟩
  | dyn e ih =>
    intro s l h hs he
    obtain ⟨rest, hr⟩ := ih s l h hs he
    exact ⟨rest ++ [⟨"dynamic-array", "Error parsing dynamic array type", none, none⟩], by simp [elabType, hr]⟩
  | opt e ih =>
    intro s l h hs he
    obtain ⟨rest, hr⟩ := ih s l h hs he
    exact ⟨rest ++ [⟨"optional", "Error parsing optional type", none, none⟩], by simp [elabType, hr]⟩
  | u n => intro s l h; simp [leafNamed] at h
  | i n => intro s l h; simp [leafNamed] at h
  | f32 => intro s l h; simp [leafNamed] at h
  | f64 => intro s l h; simp [leafNamed] at h
  | str => intro s l h; simp [leafNamed] at h

/-- … and the field's error chain ends by naming the enclosing struct -/
theorem elabField_undeclared (t : Tree) (file sname : String) (f : PField) (s : String) (l : Nat)
    (hp : ∃ r, elabParams file f.line f.params = .ok r) (hid : ∃ i, pyInt? f.id = some i)
    (h : leafNamed f.ty = some (s, l)) (hs : t.getStruct s = none) (he : t.getEnum s = none) :
    ∃ mid, elabField t file sname f =
      .error (⟨"type-not-found", s!"Type '{s}' cannot be found.", some file, some l⟩ :: mid ++
        [⟨"field", s!"Failed to parse field in struct {sname}", none, none⟩]) := by
  obtain ⟨r, hr⟩ := hp
  obtain ⟨i, hi⟩ := hid
  obtain ⟨rest, hrest⟩ := elabType_undeclared_deep t file f.ty s l h hs he
  refine ⟨rest ++ [⟨"field-type", "Error parsing type in struct field", none, none⟩], ?_⟩
  unfold elabField
  simp [bind, Except.bind, pure, Except.pure, hr, hi, hrest]

end Fcp.Frontend
