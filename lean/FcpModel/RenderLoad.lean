import FcpModel.Render
import FcpModel.Frontend
/-!
# Every error value of the reference loader cites existing lines of known files

`loadFile` returns error chains whose entries were created in different files: a syntax or
elaboration error inside a module cites the module, the `mod` statement that imported it cites
the importing file, and so on up to the root.  `loadFile_cites`: whatever the file system, the
root, the text and the import depth, every entry that carries a file and a line names a file
that is the root or is in the file system, and the line is between 1 and the number of lines of
*that* file.  The proof composes `parseText_lines` (syntax stage), `parseText_ok` (the lines kept
inside parsed nodes) and a walk through every elaboration action.
-/
namespace Fcp.Frontend
open Fcp.Syntax

/-- `p` with text `s` is the root file or a file of the file system -/
def Known (fs : FS) (rp : List String) (rs : String) (p : List String) (s : String) : Prop :=
  (p = rp ∧ s = rs) ∨ fs.read p = some s

/-- an entry's citation, if it has one, names a known file and an existing line of it -/
def CitesOk (fs : FS) (rp : List String) (rs : String) (m : EMsg) : Prop :=
  ∀ f l, m.file = some f → m.line = some l →
    ∃ p s, Known fs rp rs p s ∧ p.getLast?.getD "" = f ∧ InB (1 + nl s.toList) l

/-- an entry created while elaborating the file `fname`, whose lines are bounded by `N` -/
def LocalOk (N : Nat) (fname : String) (m : EMsg) : Prop :=
  ∀ f l, m.file = some f → m.line = some l → f = fname ∧ InB N l

theorem LocalOk.nocite {N : Nat} {fname kind text : String} : LocalOk N fname ⟨kind, text, none, none⟩ := by
  intro f l hf _; cases hf

theorem LocalOk.mk {N : Nat} {fname kind text : String} {l : Nat} (h : InB N l) :
    LocalOk N fname ⟨kind, text, some fname, some l⟩ := by
  intro f l' hf hl; cases hf; cases hl; exact ⟨rfl, h⟩

theorem LocalOk.cites {fs : FS} {rp : List String} {rs : String} {path : List String} {src : String}
    (hk : Known fs rp rs path src) {m : EMsg}
    (h : LocalOk (1 + nl src.toList) (path.getLast?.getD "") m) : CitesOk fs rp rs m := by
  intro f l hf hl
  obtain ⟨rfl, hb⟩ := h f l hf hl
  exact ⟨path, src, hk, rfl, hb⟩

/-! ## elaboration actions -/

theorem elabType_local {N : Nat} (t : Tree) (file : String) : ∀ (ty : PTy), TyOk N ty →
    ∀ e, elabType t file ty = .error e → ∀ m ∈ e, LocalOk N file m := by
  intro ty
  induction ty with
  | named s line =>
    intro h e he m hm
    simp only [elabType] at he
    split at he
    · cases he
    · split at he
      · cases he
      · simp only [Except.error.injEq] at he
        subst he
        simp only [List.mem_singleton] at hm
        subst hm
        exact LocalOk.mk h
  | arr e' size ih =>
    intro h e he m hm
    simp only [elabType] at he
    cases hx : elabType t file e' with
    | error err =>
      rw [hx] at he
      simp only [Except.error.injEq] at he
      subst he
      rcases List.mem_append.mp hm with hm | hm
      · exact ih h err hx m hm
      · simp only [List.mem_singleton] at hm; subst hm; exact LocalOk.nocite
    | ok v =>
      rw [hx] at he
      simp only at he
      split at he
      · cases he
      · simp only [Except.error.injEq] at he
        subst he
        simp only [List.mem_singleton] at hm; subst hm; exact LocalOk.nocite
  | dyn e' ih =>
    intro h e he m hm
    simp only [elabType] at he
    cases hx : elabType t file e' with
    | error err =>
      rw [hx] at he
      simp only [Except.error.injEq] at he
      subst he
      rcases List.mem_append.mp hm with hm | hm
      · exact ih h err hx m hm
      · simp only [List.mem_singleton] at hm; subst hm; exact LocalOk.nocite
    | ok v => rw [hx] at he; cases he
  | opt e' ih =>
    intro h e he m hm
    simp only [elabType] at he
    cases hx : elabType t file e' with
    | error err =>
      rw [hx] at he
      simp only [Except.error.injEq] at he
      subst he
      rcases List.mem_append.mp hm with hm | hm
      · exact ih h err hx m hm
      · simp only [List.mem_singleton] at hm; subst hm; exact LocalOk.nocite
    | ok v => rw [hx] at he; cases he
  | u n => intro _ e he; simp [elabType] at he
  | i n => intro _ e he; simp [elabType] at he
  | f32 => intro _ e he; simp [elabType] at he
  | f64 => intro _ e he; simp [elabType] at he
  | str => intro _ e he; simp [elabType] at he

/-- an error of a monadic left fold is an error of one of its steps -/
theorem foldlM_error {α β : Type} (P : Err → Prop) (step : β → α → Except Err β)
    (hstep : ∀ acc x e, step acc x = .error e → P e) :
    ∀ (l : List α) (acc : β) (e : Err), l.foldlM step acc = .error e → P e := by
  intro l
  induction l with
  | nil => intro acc e h; simp [List.foldlM, pure, Except.pure] at h
  | cons x xs ih =>
    intro acc e h
    simp only [List.foldlM_cons, bind, Except.bind] at h
    cases hs : step acc x with
    | error e' => rw [hs] at h; simp only [Except.error.injEq] at h; subst h; exact hstep acc x e' hs
    | ok acc' => rw [hs] at h; exact ih acc' e h

/-- an error of `mapM` is an error of one of the elements -/
theorem mapM_error {α β : Type} (f : α → Except Err β) :
    ∀ (l : List α) (e : Err), l.mapM f = .error e → ∃ x ∈ l, f x = .error e := by
  intro l
  induction l with
  | nil => intro e h; simp [pure, Except.pure] at h
  | cons x xs ih =>
    intro e h
    simp only [List.mapM_cons, bind, Except.bind] at h
    cases hx : f x with
    | error e' =>
      rw [hx] at h
      simp only [Except.error.injEq] at h
      subst h
      exact ⟨x, List.mem_cons_self, hx⟩
    | ok b =>
      rw [hx] at h
      simp only at h
      cases hxs : xs.mapM f with
      | error e' =>
        rw [hxs] at h
        simp only [Except.error.injEq] at h
        subst h
        obtain ⟨y, hy, hfy⟩ := ih e' hxs
        exact ⟨y, List.mem_cons_of_mem _ hy, hfy⟩
      | ok bs => rw [hxs] at h; simp [pure, Except.pure] at h

theorem elabParams_local {N : Nat} (file : String) (line : Nat) (hl : InB N line) (ps : List PParam) :
    ∀ e, elabParams file line ps = .error e → ∀ m ∈ e, LocalOk N file m := by
  intro e he
  unfold elabParams at he
  refine foldlM_error (fun e => ∀ m ∈ e, LocalOk N file m) _ ?_ _ _ e he
  intro acc x e' hs m hm
  obtain ⟨name, args⟩ := x
  dsimp only at hs
  have hbad : ∀ (txt : String) (e'' : Err),
      (Except.error [⟨"semantic", txt, some file, some line⟩] : Except Err (Option String × Option String × Option String)) = .error e'' →
      ∀ m ∈ e'', LocalOk N file m := by
    intro txt e'' h m hm
    simp only [Except.error.injEq] at h
    subst h
    simp only [List.mem_singleton] at hm
    subst hm
    exact LocalOk.mk hl
  split at hs
  · split at hs
    · cases hs
    · cases hs
    · exact hbad _ _ hs m hm
  · split at hs
    · split at hs
      · split at hs
        · cases hs
        · exact hbad _ _ hs m hm
      · exact hbad _ _ hs m hm
    · exact hbad _ _ hs m hm

theorem elabField_local {N : Nat} (t : Tree) (file sname : String) (f : PField) (hf : FieldOk N f) :
    ∀ e, elabField t file sname f = .error e → ∀ m ∈ e, LocalOk N file m := by
  intro e he
  unfold elabField at he
  simp only [bind, Except.bind] at he
  cases hp : elabParams file f.line f.params with
  | error e' =>
    rw [hp] at he
    simp only [Except.error.injEq] at he
    subst he
    exact elabParams_local file f.line hf.1 f.params e' hp
  | ok v =>
    rw [hp] at he
    obtain ⟨unit, mn, mx⟩ := v
    simp only at he
    cases hid : pyInt? f.id with
    | none =>
      rw [hid] at he
      simp only [Except.error.injEq] at he
      subst he
      intro m hm
      simp only [List.mem_singleton] at hm
      subst hm
      exact LocalOk.mk hf.1
    | some i =>
      rw [hid] at he
      simp only [pure, Except.pure] at he
      cases hty : elabType t file f.ty with
      | error err =>
        rw [hty] at he
        simp only [Except.error.injEq] at he
        subst he
        intro m hm
        rcases List.mem_append.mp hm with hm | hm
        · exact elabType_local t file f.ty hf.2 err hty m hm
        · simp only [List.mem_cons, List.mem_nil_iff, or_false] at hm
          rcases hm with rfl | rfl <;> exact LocalOk.nocite
      | ok ty => rw [hty] at he; cases he

theorem elabEnumItem_local {N : Nat} (fname : String) (it : String × PVal × Nat) (h : InB N it.2.2) :
    ∀ e, elabEnumItem fname it = .error e → ∀ m ∈ e, LocalOk N fname m := by
  intro e he m hm
  have key : ∀ e', (Except.error (err1 "semantic" "enum value must be an integer" fname it.2.2) : Except Err Enumerator) = .error e' →
      ∀ m ∈ e', LocalOk N fname m := by
    intro e' h' m hm
    simp only [Except.error.injEq, err1] at h'
    subst h'
    simp only [List.mem_singleton] at hm
    subst hm
    exact LocalOk.mk h
  unfold elabEnumItem at he
  split at he
  · split at he
    · cases he
    · exact key e he m hm
  · exact key e he m hm

theorem elabMethod_local {N : Nat} (fname : String) (mt : PMethod) (h : InB N mt.line) :
    ∀ e, elabMethod fname mt = .error e → ∀ m ∈ e, LocalOk N fname m := by
  intro e he m hm
  unfold elabMethod at he
  split at he
  · cases he
  · simp only [Except.error.injEq, err1] at he
    subst he
    simp only [List.mem_singleton] at hm
    subst hm
    exact LocalOk.mk h

/-! ## the walk over a file -/

/-- the error recorded so far, if any, cites well -/
def StOk (fs : FS) (rp : List String) (rs : String) (s : St) : Prop :=
  ∀ e, s.firstErr = some e → ∀ m ∈ e, CitesOk fs rp rs m

theorem StOk.fail {fs : FS} {rp : List String} {rs : String} {s : St} {e : Err}
    (hs : StOk fs rp rs s) (he : ∀ m ∈ e, CitesOk fs rp rs m) : StOk fs rp rs (s.fail e) := by
  intro e' h
  unfold St.fail at h
  cases hf : s.firstErr with
  | none => rw [hf] at h; simp [Option.orElse] at h; subst h; exact he
  | some e0 => rw [hf] at h; simp [Option.orElse] at h; subst h; exact hs e0 hf

theorem StOk.tree {fs : FS} {rp : List String} {rs : String} {s : St} (t : Tree)
    (hs : StOk fs rp rs s) : StOk fs rp rs { s with tree := t } := hs

theorem elabDecl_ok {fs : FS} {rp : List String} {rs : String}
    (loader : List String → String → Except Err Tree)
    (hload : ∀ p s, fs.read p = some s → ∀ e, loader p s = .error e → ∀ m ∈ e, CitesOk fs rp rs m)
    (path : List String) (src : String) (hk : Known fs rp rs path src)
    (s : St) (d : PDecl) (hd : DeclOk (1 + nl src.toList) d) (hs : StOk fs rp rs s) :
    StOk fs rp rs (elabDecl loader fs path s d) := by
  have loc : ∀ {e : Err}, (∀ m ∈ e, LocalOk (1 + nl src.toList) (path.getLast?.getD "") m) →
      ∀ m ∈ e, CitesOk fs rp rs m := fun h m hm => LocalOk.cites hk (h m hm)
  cases d with
  | struct name fields line =>
    simp only [elabDecl]
    cases hm : fields.mapM (elabField s.tree (path.getLast?.getD "") name) with
    | error e =>
      simp only
      apply hs.fail
      obtain ⟨f, hf, hfe⟩ := mapM_error _ fields e hm
      exact loc (elabField_local _ _ _ f (hd f hf) e hfe)
    | ok fs' => exact hs
  | «enum» name items line =>
    simp only [elabDecl]
    split
    · apply hs.fail
      apply loc
      intro m hm
      simp only [err1, List.mem_singleton] at hm
      subst hm
      exact LocalOk.mk hd.1
    · cases hm : items.mapM (elabEnumItem (path.getLast?.getD "")) with
      | error e =>
        simp only
        apply hs.fail
        obtain ⟨it, hit, hie⟩ := mapM_error _ items e hm
        exact loc (elabEnumItem_local _ it (hd.2 it hit) e hie)
      | ok es => exact hs
  | impl proto ty name items line => simp only [elabDecl]; exact hs
  | service name id methods line =>
    simp only [elabDecl]
    split
    · exact hs
    · apply hs.fail
      apply loc
      intro m hm
      simp only [err1, List.mem_singleton] at hm
      subst hm
      exact LocalOk.mk hd.1
    · rename_i e hme _
      apply hs.fail
      obtain ⟨mt, hmt, hmte⟩ := mapM_error _ methods e hme
      exact loc (elabMethod_local _ mt (hd.2 mt hmt) e hmte)
  | device name fields line => simp only [elabDecl]; exact hs
  | mod mpath line =>
    simp only [elabDecl]
    split
    · apply hs.fail
      intro m hm
      simp only [List.mem_singleton] at hm
      subst hm
      intro f l hf _; cases hf
    · rename_i src' hread
      split
      · rename_i e hle
        apply hs.fail
        intro m hm
        rcases List.mem_append.mp hm with hm | hm
        · exact hload _ src' hread e hle m hm
        · simp only [List.mem_singleton] at hm
          subst hm
          exact LocalOk.cites hk (LocalOk.mk hd)
      · exact hs

theorem foldl_elabDecl_ok {fs : FS} {rp : List String} {rs : String}
    (loader : List String → String → Except Err Tree)
    (hload : ∀ p s, fs.read p = some s → ∀ e, loader p s = .error e → ∀ m ∈ e, CitesOk fs rp rs m)
    (path : List String) (src : String) (hk : Known fs rp rs path src) :
    ∀ (ds : List PDecl), (∀ d ∈ ds, DeclOk (1 + nl src.toList) d) → ∀ s, StOk fs rp rs s →
      StOk fs rp rs (ds.foldl (fun s d => elabDecl loader fs path s d) s) := by
  intro ds
  induction ds with
  | nil => intro _ s hs; exact hs
  | cons d ds ih =>
    intro hds s hs
    simp only [List.foldl_cons]
    exact ih (fun x hx => hds x (List.mem_cons_of_mem _ hx)) _
      (elabDecl_ok loader hload path src hk s d (hds d List.mem_cons_self) hs)

theorem elabFile_cites {fs : FS} {rp : List String} {rs : String}
    (loader : List String → String → Except Err Tree)
    (hload : ∀ p s, fs.read p = some s → ∀ e, loader p s = .error e → ∀ m ∈ e, CitesOk fs rp rs m)
    (path : List String) (src : String) (hk : Known fs rp rs path src) (pf : PFile)
    (hpf : FileOk (1 + nl src.toList) pf) :
    ∀ e, elabFile loader fs path pf = .error e → ∀ m ∈ e, CitesOk fs rp rs m := by
  intro e he
  unfold elabFile at he
  have h0 : StOk fs rp rs
      (if pf.version == "3" then ({} : St)
       else ({} : St).fail [⟨"version", "Expected IDL version 3", some (path.getLast?.getD ""), some pf.versionLine⟩]) := by
    split
    · intro e' h; cases h
    · apply StOk.fail
      · intro e' h; cases h
      · intro m hm
        simp only [List.mem_singleton] at hm
        subst hm
        exact LocalOk.cites hk (LocalOk.mk hpf.1)
  have hfin := foldl_elabDecl_ok loader hload path src hk pf.decls hpf.2 _ h0
  simp only at he
  split at he
  · rename_i e0 hfe
    simp only [Except.error.injEq] at he
    subst he
    intro m hm
    rcases List.mem_append.mp hm with hm | hm
    · exact hfin e0 hfe m hm
    · simp only [List.mem_singleton] at hm
      subst hm
      intro f l hf _; cases hf
  · cases he

/-- **every entry of every error chain of the reference loader cites an existing line of a known
file** — syntax errors, elaboration errors and the `mod` statements above them, to any import
depth -/
theorem loadFile_cites (fs : FS) (rp : List String) (rs : String) :
    ∀ (fuel : Nat) (path : List String) (src : String), Known fs rp rs path src →
      ∀ e, loadFile fs fuel path src = .error e → ∀ m ∈ e, CitesOk fs rp rs m := by
  intro fuel
  induction fuel with
  | zero =>
    intro path src _ e he m hm
    simp only [loadFile, Except.error.injEq] at he
    subst he
    simp only [List.mem_singleton] at hm
    subst hm
    intro f l _ hl; cases hl
  | succ fuel ih =>
    intro path src hk e he
    simp only [loadFile] at he
    cases hp : parseText src with
    | error se =>
      rw [hp] at he
      simp only [Except.error.injEq] at he
      subst he
      intro m hm
      simp only [List.mem_singleton] at hm
      subst hm
      exact LocalOk.cites hk (LocalOk.mk (parseText_lines src se hp))
    | ok pf =>
      rw [hp] at he
      simp only at he
      exact elabFile_cites (loadFile fs fuel)
        (fun p s hr e' he' => ih p s (Or.inr hr) e' he') path src hk pf (parseText_ok src pf hp) e he

end Fcp.Frontend
