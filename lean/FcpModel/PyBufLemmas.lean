import FcpModel.PyCodec
import FcpModel.Wire
/-!
# `_Buffer` refines bit lists

`Rep buffer B`: the byte list `buffer` holds exactly the bits `B` (LSB first), is as
long as needed and no longer, and every bit past `B` is zero.
-/
namespace Fcp

def bitAt (buffer : List Nat) (p : Nat) : Bool := (buffer.getD (p / 8) 0).testBit (p % 8)

structure Rep (buffer : List Nat) (B : Bits) : Prop where
  len : buffer.length = (B.length + 7) / 8
  ok : bytesOk buffer
  bits : ∀ p, bitAt buffer p = B.getD p false

theorem natBits_getElem? (k x i : Nat) :
    (natBits k x)[i]? = if i < k then some (x.testBit i) else none := by
  induction k generalizing x i with
  | zero => simp [natBits]
  | succ k ih =>
    cases i with
    | zero => by_cases hx : x % 2 = 1 <;> simp [natBits, Nat.testBit_zero, hx]
    | succ i =>
      simp only [natBits, List.getElem?_cons_succ, ih, Nat.add_lt_add_iff_right]
      rw [Nat.testBit_succ]

theorem unpack_getElem? (bs : List Nat) (p : Nat) :
    (unpack bs)[p]? = if p / 8 < bs.length then some (bitAt bs p) else none := by
  induction bs generalizing p with
  | nil => simp [unpack]
  | cons b bs ih =>
    simp only [unpack, List.length_cons]
    by_cases hp : p < 8
    · rw [List.getElem?_append_left (by simpa using hp), natBits_getElem?]
      have h0 : p / 8 = 0 := by omega
      have h1 : p % 8 = p := by omega
      simp [hp, bitAt, h0, h1]
    · rw [List.getElem?_append_right (by simpa using Nat.le_of_not_lt hp), natBits_length, ih]
      have h0 : p / 8 = (p - 8) / 8 + 1 := by omega
      have h1 : (p - 8) % 8 = p % 8 := by omega
      simp only [bitAt, h0, h1, Nat.add_lt_add_iff_right, List.getD_cons_succ]

theorem Rep.unpack_eq {buffer : List Nat} {B : Bits} (h : Rep buffer B) :
    unpack buffer = B ++ List.replicate (8 * buffer.length - B.length) false := by
  apply List.ext_getElem?
  intro p
  rw [unpack_getElem?, h.bits p]
  have hl := h.len
  by_cases hp : p < B.length
  · have : p / 8 < buffer.length := by omega
    simp [this, hp, List.getElem?_append_left, List.getD_eq_getElem?_getD]
  · by_cases hq : p / 8 < buffer.length
    · have : p - B.length < 8 * buffer.length - B.length := by omega
      simp [hq, List.getElem?_append_right (Nat.le_of_not_lt hp), List.getElem?_replicate, this,
        List.getD_eq_getElem?_getD, List.getElem?_eq_none (Nat.le_of_not_lt hp)]
    · have : ¬ (p - B.length < 8 * buffer.length - B.length) := by omega
      simp [hq, List.getElem?_append_right (Nat.le_of_not_lt hp), List.getElem?_replicate, this]

/-- a buffer that represents `B` is `pack B` -/
theorem Rep.eq_pack {buffer : List Nat} {B : Bits} (h : Rep buffer B) : buffer = pack B := by
  apply eq_pack_of_unpack buffer B (8 * buffer.length - B.length) h.ok
  · have := h.len; omega
  · exact h.unpack_eq

theorem Rep.nil : Rep [] [] := by
  constructor
  · rfl
  · intro b hb; cases hb
  · intro p; simp [bitAt]

theorem testBit_le_one_succ (bit n : Nat) (h : bit ≤ 1) : bit.testBit (n + 1) = false := by
  rw [Nat.testBit_succ]
  have : bit / 2 = 0 := by omega
  simp [this]

theorem testBit_shl_le_one (bit s j : Nat) (h : bit ≤ 1) :
    (bit <<< s).testBit j = (decide (j = s) && decide (bit = 1)) := by
  rw [Nat.testBit_shiftLeft]
  by_cases hj : j = s
  · subst hj
    have hb : bit = 0 ∨ bit = 1 := by omega
    rcases hb with rfl | rfl <;> simp
  · by_cases hge : j ≥ s
    · have : j - s = (j - s - 1) + 1 := by omega
      rw [this, testBit_le_one_succ _ _ h]
      simp [hj]
    · simp [hge, hj]

theorem or_shl_lt_256 (old bit s : Nat) (ho : old < 256) (hb : bit ≤ 1) (hs : s < 8) :
    old ||| (bit <<< s) < 256 := by
  have h1 : bit <<< s < 2 ^ 8 := by
    rw [Nat.shiftLeft_eq]
    have : 2 ^ s ≤ 2 ^ 7 := Nat.pow_le_pow_right (by omega) (by omega)
    have hb' : bit * 2 ^ s ≤ 1 * 2 ^ s := Nat.mul_le_mul_right _ hb
    omega
  exact Nat.or_lt_two_pow (by simpa using ho) h1

/-- the byte list after the optional growth by one zero byte -/
def grow (buffer : List Nat) (a : Nat) : List Nat :=
  if buffer.length ≤ a then buffer ++ [0] else buffer

theorem setBit_eq (buffer : List Nat) (bit p : Nat) :
    setBit buffer bit p =
      if p / 8 < (grow buffer (p / 8)).length then
        some ((grow buffer (p / 8)).set (p / 8)
          ((grow buffer (p / 8)).getD (p / 8) 0 ||| (bit <<< (p % 8))))
      else none := by
  have hshift : p >>> 3 = p / 8 := by rw [Nat.shiftRight_eq_div_pow]
  have hand : p &&& 7 = p % 8 := by simpa using Nat.and_two_pow_sub_one_eq_mod p 3
  unfold setBit grow
  simp only [hshift, hand]

theorem grow_getD (buffer : List Nat) (a j : Nat) : (grow buffer a).getD j 0 = buffer.getD j 0 := by
  unfold grow
  split
  · simp only [List.getD_eq_getElem?_getD]
    by_cases hj : j < buffer.length
    · rw [List.getElem?_append_left hj]
    · rw [List.getElem?_append_right (Nat.le_of_not_lt hj),
        List.getElem?_eq_none (Nat.le_of_not_lt hj)]
      by_cases hz : j - buffer.length = 0
      · simp [hz]
      · have : [0][j - buffer.length]? = none := by
          apply List.getElem?_eq_none; simp; omega
        simp [this]
  · rfl

theorem grow_mem (buffer : List Nat) (a x : Nat) (hx : x ∈ grow buffer a) : x ∈ buffer ∨ x = 0 := by
  unfold grow at hx
  split at hx
  · rcases List.mem_append.mp hx with hx | hx
    · exact Or.inl hx
    · simp at hx; exact Or.inr hx
  · exact Or.inl hx

theorem getD_false_of_le (B : Bits) (q : Nat) (h : B.length ≤ q) : B.getD q false = false := by
  simp [List.getD_eq_getElem?_getD, List.getElem?_eq_none h]

/-- `set_bit` at the end of the represented bits appends one bit -/
theorem setBit_rep {buffer : List Nat} {B : Bits} (h : Rep buffer B) (bit : Nat) (hb : bit ≤ 1) :
    ∃ buffer', setBit buffer bit B.length = some buffer' ∧
      Rep buffer' (B ++ [decide (bit = 1)]) := by
  have hl := h.len
  have hlen1 : (grow buffer (B.length / 8)).length = B.length / 8 + 1 := by
    unfold grow; split
    · simp; omega
    · omega
  have hidx : B.length / 8 < (grow buffer (B.length / 8)).length := by omega
  rw [setBit_eq, if_pos hidx]
  refine ⟨_, rfl, ?_⟩
  rw [grow_getD]
  have hold_lt : buffer.getD (B.length / 8) 0 < 256 := by
    by_cases hq : B.length / 8 < buffer.length
    · rw [List.getD_eq_getElem?_getD, List.getElem?_eq_getElem hq]
      exact h.ok _ (List.getElem_mem _)
    · rw [List.getD_eq_getElem?_getD, List.getElem?_eq_none (Nat.le_of_not_lt hq)]; simp
  constructor
  · simp only [List.length_set, hlen1, List.length_append, List.length_cons, List.length_nil]
    omega
  · intro x hx
    rcases List.mem_or_eq_of_mem_set hx with hx | rfl
    · rcases grow_mem _ _ _ hx with hx | rfl
      · exact h.ok x hx
      · omega
    · exact or_shl_lt_256 _ _ _ hold_lt hb (by omega)
  · intro q
    unfold bitAt
    rw [List.getD_eq_getElem?_getD, List.getElem?_set]
    have hb0 := h.bits q
    unfold bitAt at hb0
    by_cases hq : B.length / 8 = q / 8
    · rw [if_pos hq, if_pos hidx]
      simp only [Option.getD_some]
      rw [Nat.testBit_or, testBit_shl_le_one _ _ _ hb, hq, hb0]
      by_cases hqp : q < B.length
      · have : q % 8 ≠ B.length % 8 := by omega
        simp [List.getD_eq_getElem?_getD, List.getElem?_append_left hqp, this]
      · by_cases hqe : q = B.length
        · subst hqe; simp [List.getD_eq_getElem?_getD, getD_false_of_le]
        · have h1 : q % 8 ≠ B.length % 8 := by omega
          have h2 := getD_false_of_le B q (Nat.le_of_not_lt hqp)
          have h3 := getD_false_of_le (B ++ [decide (bit = 1)]) q (by simp; omega)
          rw [h2, h3]; simp [h1]
    · rw [if_neg hq, ← List.getD_eq_getElem?_getD, grow_getD, hb0]
      by_cases hqp : q < B.length
      · simp [List.getD_eq_getElem?_getD, List.getElem?_append_left hqp]
      · have hne : q ≠ B.length := by intro e; subst e; exact hq rfl
        rw [getD_false_of_le B q (Nat.le_of_not_lt hqp),
          getD_false_of_le (B ++ [decide (bit = 1)]) q (by simp; omega)]

/-! ## `push_word` -/

theorem intBit_le_one (w : Int) (i : Nat) : intBit w i ≤ 1 := by
  unfold intBit
  have := Int.emod_two_eq (w >>> i)
  omega

/-- the bits `push_word` writes from iteration `i` on -/
def intBitsFrom (w : Int) : Nat → Nat → Bits
  | _, 0 => []
  | i, rem+1 => decide (intBit w i = 1) :: intBitsFrom w (i+1) rem

theorem intBit_succ (w : Int) (i : Nat) : intBit w (i+1) = intBit (w / 2) i := by
  unfold intBit
  have : w >>> (i + 1) = (w >>> 1) >>> i := by rw [Nat.add_comm, Int.shiftRight_add]
  rw [this]
  have h1 : w >>> 1 = w / 2 := by
    rw [Int.shiftRight_eq_div_pow]; rfl
  rw [h1]

theorem intBitsFrom_succ (w : Int) (i rem : Nat) :
    intBitsFrom w (i+1) rem = intBitsFrom (w / 2) i rem := by
  induction rem generalizing i with
  | zero => rfl
  | succ rem ih => simp only [intBitsFrom, intBit_succ, ih]

theorem toTwos_succ_mod (n : Nat) (w : Int) : toTwos (n+1) w % 2 = (w % 2).toNat := by
  unfold toTwos
  have hp : (0:Int) < 2 ^ n := Int.pow_pos (by omega)
  have e : (2:Int) ^ (n+1) = 2 * 2 ^ n := by rw [Int.pow_succ]; omega
  rw [e]
  have h0 := Int.emod_nonneg w (show (2 * 2 ^ n : Int) ≠ 0 by omega)
  have hdiv : (w % (2 * 2 ^ n)) % 2 = w % 2 := Int.emod_emod_of_dvd w (Int.dvd_mul_right 2 _)
  have h2 := Int.emod_nonneg w (show (2 : Int) ≠ 0 by omega)
  have : ((w % (2 * 2 ^ n)).toNat : Int) % 2 = ((w % 2).toNat : Int) := by
    rw [Int.toNat_of_nonneg h0, Int.toNat_of_nonneg h2, hdiv]
  omega

theorem toTwos_succ_div (n : Nat) (w : Int) : toTwos (n+1) w / 2 = toTwos n (w / 2) := by
  unfold toTwos
  have hp : (0:Int) < 2 ^ n := Int.pow_pos (by omega)
  have e : (2:Int) ^ (n+1) = 2 * 2 ^ n := by rw [Int.pow_succ]; omega
  rw [e]
  have h0 := Int.emod_nonneg w (show (2 * 2 ^ n : Int) ≠ 0 by omega)
  have h1 := Int.emod_nonneg (w / 2) (show ((2:Int) ^ n) ≠ 0 by omega)
  have key : (w % (2 * 2 ^ n)) / 2 = (w / 2) % 2 ^ n := by
    rw [Int.emod_def, Int.emod_def, ← Int.ediv_ediv_of_nonneg (x := w) (show (0:Int) ≤ 2 by omega)]
    have : w - 2 * 2 ^ n * (w / 2 / 2 ^ n) = w + (-(2 ^ n * (w / 2 / 2 ^ n))) * 2 := by
      rw [Int.neg_mul, Int.mul_comm (2 ^ n * _) 2, ← Int.mul_assoc]; omega
    rw [this, Int.add_mul_ediv_right _ _ (show (2:Int) ≠ 0 by omega)]
    omega
  have : ((w % (2 * 2 ^ n)).toNat : Int) / 2 = (((w / 2) % 2 ^ n).toNat : Int) := by
    rw [Int.toNat_of_nonneg h0, Int.toNat_of_nonneg h1, key]
  omega

theorem intBitsFrom_eq (n : Nat) (w : Int) : intBitsFrom w 0 n = natBits n (toTwos n w) := by
  induction n generalizing w with
  | zero => rfl
  | succ n ih =>
    simp only [intBitsFrom, natBits]
    rw [intBitsFrom_succ, ih, toTwos_succ_div, toTwos_succ_mod]
    congr 1
    unfold intBit
    rw [Int.shiftRight_zero]
    have := Int.emod_two_eq w
    rcases this with h | h <;> simp [h]

theorem pushLoop_rep (w : Int) (addr : Nat) (rem i : Nat) {buffer : List Nat} {B : Bits}
    (h : Rep buffer B) (hB : B.length = addr + i) :
    ∃ buffer', pushLoop w addr rem i buffer = some buffer' ∧
      Rep buffer' (B ++ intBitsFrom w i rem) := by
  induction rem generalizing i buffer B with
  | zero => exact ⟨buffer, rfl, by simpa [intBitsFrom] using h⟩
  | succ rem ih =>
    obtain ⟨b1, hb1, hr1⟩ := setBit_rep h (intBit w i) (intBit_le_one w i)
    simp only [pushLoop]
    rw [← hB, hb1]
    obtain ⟨b2, hb2, hr2⟩ := ih (i+1) hr1 (by simp; omega)
    refine ⟨b2, hb2, ?_⟩
    simpa [intBitsFrom] using hr2

/-- invariant of a buffer being written: it represents `B` and the cursor is at the end -/
structure BufRep (b : Buf) (B : Bits) : Prop where
  rep : Rep b.buffer B
  addr : b.bitaddr = B.length

theorem pushWord_rep {b : Buf} {B : Bits} (h : BufRep b B) (w : Int) (n : Nat) :
    ∃ b', b.pushWord w n = .ok b' ∧ BufRep b' (B ++ natBits n (toTwos n w)) := by
  obtain ⟨buf', h1, h2⟩ := pushLoop_rep w b.bitaddr n 0 h.rep (by simpa using h.addr.symm)
  unfold Buf.pushWord
  rw [h1]
  refine ⟨_, rfl, ?_⟩
  rw [intBitsFrom_eq] at h2
  exact ⟨h2, by simp [h.addr]⟩

theorem toTwos_of_inRange (n : Nat) (i : Int) (h0 : 0 ≤ i) (h1 : i < 2 ^ n) :
    toTwos n i = i.toNat := by
  unfold toTwos
  rw [Int.emod_eq_of_lt h0 h1]

/-! ## `read_word` -/

def b2n (b : Bool) : Nat := if b then 1 else 0

theorem shr_and_one (x j : Nat) : (x >>> j) &&& 1 = b2n (x.testBit j) := by
  rw [Nat.and_one_is_mod, Nat.testBit_eq_decide_div_mod_eq, Nat.shiftRight_eq_div_pow]
  unfold b2n
  by_cases h : x / 2 ^ j % 2 = 1
  · simp [h]
  · have : x / 2 ^ j % 2 = 0 := by omega
    simp [this]

theorem getBit_eq (buffer : List Nat) (p : Nat) :
    getBit buffer p = ((unpack buffer)[p]?).map b2n := by
  have hshift : p >>> 3 = p / 8 := by rw [Nat.shiftRight_eq_div_pow]
  have hand : p &&& 7 = p % 8 := by simpa using Nat.and_two_pow_sub_one_eq_mod p 3
  unfold getBit
  simp only [hshift, hand, unpack_getElem?, shr_and_one]
  split <;> simp [bitAt]

theorem readN_cons (k : Nat) (b : Bool) (bs : Bits) :
    readN (k+1) (b :: bs) = (readN k bs).map fun (x, r) => (b2n b + 2 * x, r) := by
  rw [readN_eq, readN_eq]
  simp only [List.length_cons, Nat.add_lt_add_iff_right, List.take_succ_cons, bitsNat,
    List.drop_succ_cons]
  split <;> simp [b2n]

theorem readLoop_spec (buffer : List Nat) (addr : Nat) (rem i word : Nat) (hw : word < 2 ^ i) :
    readLoop buffer addr rem i word =
      (readN rem ((unpack buffer).drop (addr + i))).map fun (x, _) => word + 2 ^ i * x := by
  induction rem generalizing i word with
  | zero => simp [readLoop, readN, bitsNat]
  | succ rem ih =>
    simp only [readLoop, getBit_eq]
    cases hget : (unpack buffer)[addr + i]? with
    | none =>
      have hlen : (unpack buffer).length ≤ addr + i := by
        by_cases hh : (unpack buffer).length ≤ addr + i
        · exact hh
        · rw [List.getElem?_eq_getElem (Nat.lt_of_not_le hh)] at hget; cases hget
      have : (unpack buffer).drop (addr + i) = [] := List.drop_of_length_le hlen
      simp [this, readN]
    | some b =>
      have hlt : addr + i < (unpack buffer).length := by
        by_cases hh : addr + i < (unpack buffer).length
        · exact hh
        · rw [List.getElem?_eq_none (Nat.le_of_not_lt hh)] at hget; cases hget
      have hb : (unpack buffer)[addr + i] = b := by
        rw [List.getElem?_eq_getElem hlt] at hget; simpa using hget
      have hdrop : (unpack buffer).drop (addr + i) = b :: (unpack buffer).drop (addr + (i + 1)) := by
        rw [← hb, ← Nat.add_assoc]; exact List.drop_eq_getElem_cons hlt
      simp only [Option.map_some]
      have hbit : b2n b <<< i < 2 ^ (i + 1) := by
        rw [Nat.shiftLeft_eq, Nat.pow_succ]
        unfold b2n; split <;> omega
      have hor : word ||| (b2n b <<< i) = word + 2 ^ i * b2n b := by
        rw [Nat.or_comm, ← Nat.shiftLeft_add_eq_or_of_lt hw, Nat.shiftLeft_eq, Nat.add_comm,
          Nat.mul_comm]
      have hw' : word ||| (b2n b <<< i) < 2 ^ (i + 1) := by
        rw [hor, Nat.pow_succ]; unfold b2n; split <;> omega
      rw [ih (i + 1) _ hw', hdrop, readN_cons, hor]
      cases readN rem ((unpack buffer).drop (addr + (i + 1))) with
      | none => rfl
      | some xr =>
        simp only [Option.map_some, Option.some.injEq]
        rw [Nat.pow_succ, Nat.mul_add, Nat.add_assoc, Nat.mul_assoc]

/-- the bits a reading buffer still has in front of its cursor -/
def Buf.bits (b : Buf) : Bits := (unpack b.buffer).drop b.bitaddr

theorem readWord_spec (b : Buf) (n : Nat) :
    b.readWord n = match readN n b.bits with
      | none => .error .overrun
      | some (x, _) => .ok (x, { b with bitaddr := b.bitaddr + n }) := by
  unfold Buf.readWord Buf.bits
  rw [readLoop_spec _ _ _ _ _ (by simp)]
  simp only [Nat.add_zero, Nat.pow_zero, Nat.one_mul, Nat.zero_add]
  cases readN n ((unpack b.buffer).drop b.bitaddr) with
  | none => rfl
  | some xr => rfl

theorem readN_rest {n : Nat} {bs : Bits} {x : Nat} {r : Bits} (h : readN n bs = some (x, r)) :
    r = bs.drop n ∧ n ≤ bs.length := by
  rw [readN_eq] at h
  split at h
  · cases h
  · simp only [Option.some.injEq, Prod.mk.injEq] at h
    exact ⟨h.2.symm, by omega⟩

end Fcp
