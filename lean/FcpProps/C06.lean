import FcpModel
/-!
# C06 — the generated C CAN code packs and unpacks frames per the packed layout

The runtime model works on the `uint64_t` word exactly as `can_signal_parser.c` does
(mask, shift, OR; shift, mask, sign-extend).  On the advertised subset: flat layouts of at
most 64 bits, scale 1, offset 0, little-endian.
-/
namespace Fcp
open CanC

/-- **encode = layout packing**: the word the generated encode function builds by OR-ing the
masked, shifted signals is the number whose bits are the layout packing of the values -/
theorem C06_encode_is_packing (S : Schema) (fuel : Nat) (i : Impl) (ls : List Leaf) (e : Nat)
    (hg : generate S true fuel i = some (ls, e)) (he : e ≤ 64) (vs : List Int)
    (hv : vs.length = ls.length) : encodeWord ls vs = bitsNat (packLeaves ls vs) :=
  encodeWord_is_packing ls vs e (generate_tiles S true fuel i ls e hg) hv he

/-- data byte `k` of the frame is the `k`-th group of 8 bits of the layout packing; the
DLC is `⌈bits/8⌉` and the identifier the binding's id -/
theorem C06_frame (S : Schema) (fuel : Nat) (i : Impl) (ls : List Leaf) (e : Nat)
    (hg : generate S true fuel i = some (ls, e)) (he : e ≤ 64) (vs : List Int)
    (hv : vs.length = ls.length) (id : Int) :
    (encodeMsg id ls e vs).id = id ∧ (encodeMsg id ls e vs).dlc = (e + 7) / 8 ∧
    ∀ k (hk : k < 8), ((encodeMsg id ls e vs).data)[k]'(by simp [encodeMsg, wordBytes, hk]) =
      bitsNat (((packLeaves ls vs).drop (8 * k)).take 8) :=
  ⟨rfl, rfl, fun k hk => frame_byte ls vs e (generate_tiles S true fuel i ls e hg) hv he k hk⟩

/-- **decode ∘ encode = id** for every in-range message value -/
theorem C06_decode_encode (S : Schema) (fuel : Nat) (i : Impl) (ls : List Leaf) (e : Nat)
    (hg : generate S true fuel i = some (ls, e)) (he : e ≤ 64) (vs : List Int)
    (hv : vs.length = ls.length)
    (hr : ∀ k (hk : k < ls.length), leafInRange ls[k] (vs[k]'(by omega))) :
    decodeWord (encodeWord ls vs) ls = vs :=
  decode_encode ls vs e (generate_tiles S true fuel i ls e hg) hv he hr

/-! non-vacuity: `i5` at bit 3 holding its minimum, behind a `u3` -/
def C06_ls : List Leaf :=
  [{ name := "a", field := "a", ty := .u 3, start := 0, len := 3, endian := "little", opts := [], unit := none },
   { name := "b", field := "b", ty := .i 5, start := 3, len := 5, endian := "little", opts := [], unit := none }]
example : Tiles 0 C06_ls 8 := ⟨rfl, rfl, rfl⟩
example : (encodeMsg 7 C06_ls 8 [5, -16]).data = [133, 0, 0, 0, 0, 0, 0, 0] ∧
    decodeWord (encodeWord C06_ls [5, -16]) C06_ls = [5, -16] := by decide

end Fcp
