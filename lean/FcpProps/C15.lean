import FcpModel
/-!
# C15 — field ids, not declaration order, fix the wire order in every back end

`Twin S S'`: the two schemas give every struct name the same fields up to declaration order
(same ids).  The canonical resolver, the Python codec model, the packed layout and the DBC
description are all functions of the *sorted* field list, hence equal for twins.
-/
namespace Fcp

/-- with distinct ids the sorted field list does not depend on the order of declaration -/
theorem C15_sort (fs fs' : List Field) (p : fs.Perm fs') (hn : (fs.map (·.id)).Nodup) :
    sortFields fs = sortFields fs' := sortFields_eq_of_perm fs fs' p hn

/-- the closed type tree (hence the canonical encoding of every value) is the same -/
theorem C15_resolve (S S' : Schema) (h : Twin S S') (f : Nat) (t : STy) :
    resolve S f t = resolve S' f t := resolve_twin S S' h f t

/-- the Python codec produces the same bytes for both declarations -/
theorem C15_python (S S' : Schema) (h : Twin S S') (f : Nat) (name : String) (ty : Ty) (v : Val)
    (hr : resolve S f (.struct name) = some ty) (hv : wf ty v = true) :
    pyEncode S f name v = pyEncode S' f name v := by
  rw [pyEncode_refines S f name ty v hr hv,
    pyEncode_refines S' f name ty v (by rw [← resolve_twin S S' h]; exact hr) hv]

/-- the packed CAN layout is the same -/
theorem C15_layout (S S' : Schema) (h : Twin S S') (unroll : Bool) (fuel : Nat) (i : Impl) :
    generate S unroll fuel i = generate S' unroll fuel i := generate_twin S S' unroll fuel i h

/-- the DBC description of a binding is the same -/
theorem C15_dbc (S S' : Schema) (h : Twin S S') (fuel : Nat) (i : Impl) :
    dbcMessage S fuel i = dbcMessage S' fuel i := by
  unfold dbcMessage
  rw [generate_twin S S' true fuel i h]


/-- the generated C++ codecs (static and reflection-loaded, encoders and decoders) are functions
of the closed type tree, which twins share: same bytes, same decoded values -/
theorem C15_cpp (S S' : Schema) (h : Twin S S') (f : Nat) (name : String) (ty ty' : Ty)
    (hr : resolve S f (.struct name) = some ty) (hr' : resolve S' f (.struct name) = some ty') :
    ty = ty' ∧
    (∀ v, Cpp.cppEnc ty v = Cpp.cppEnc ty' v ∧ Cpp.dynEnc ty v = Cpp.dynEnc ty' v) ∧
    (∀ bs, Cpp.cppDec ty bs = Cpp.cppDec ty' bs ∧ Cpp.dynDec ty bs = Cpp.dynDec ty' bs) := by
  have e : ty = ty' := by
    rw [resolve_twin S S' h] at hr
    rw [hr] at hr'
    exact Option.some.inj hr'
  subst e
  exact ⟨rfl, fun _ => ⟨rfl, rfl⟩, fun _ => ⟨rfl, rfl⟩⟩

/-- ... and every one of them writes the canonical bytes of the id-sorted struct, whichever way
the fields were declared (the refinement theorems of C03 / C13 at the twin) -/
theorem C15_cpp_canonical (S S' : Schema) (h : Twin S S') (f : Nat) (name : String) (ty : Ty) (v : Val)
    (hr : resolve S f (.struct name) = some ty) (hv : wf ty v = true) :
    ∃ ty', resolve S' f (.struct name) = some ty' ∧
      Cpp.cppEnc ty' v = enc ty v ∧ Cpp.dynEnc ty' v = enc ty v := by
  refine ⟨ty, by rw [← resolve_twin S S' h]; exact hr, Cpp.cppEnc_eq ty v hv, ?_⟩
  rw [Cpp.dynEnc_eq_cppEnc ty v, Cpp.cppEnc_eq ty v hv]

/-- the generated C packs a frame from the layout leaves, which twins share: whatever layout the
twin yields, it is the same one, hence the same frame for every list of values -/
theorem C15_c (S S' : Schema) (h : Twin S S') (fuel : Nat) (i : Impl) (ls ls' : List Leaf) (e e' : Nat)
    (hg : generate S true fuel i = some (ls, e)) (hg' : generate S' true fuel i = some (ls', e'))
    (id : Int) (vs : List Int) :
    CanC.encodeMsg id ls' e' vs = CanC.encodeMsg id ls e vs ∧
    CanC.decodeWord (CanC.encodeWord ls' vs) ls' = CanC.decodeWord (CanC.encodeWord ls vs) ls := by
  rw [generate_twin S S' true fuel i h, hg'] at hg
  obtain ⟨rfl, rfl⟩ := Prod.mk.inj (Option.some.inj hg)
  exact ⟨rfl, rfl⟩

/-- structs pairwise equal up to the order of their fields -/
def StructsTwin : List Struct → List Struct → Prop
  | [], [] => True
  | a :: l1, b :: l2 => (a.name = b.name ∧ a.fields.Perm b.fields ∧ (a.fields.map (·.id)).Nodup) ∧
      StructsTwin l1 l2
  | _, _ => False

/-- building a twin: permuting the fields of each struct (distinct ids) gives a `Twin` -/
theorem C15_twin_of_perm (S S' : Schema) (he : S.enums = S'.enums)
    (hs : StructsTwin S.structs S'.structs) : Twin S S' := by
  constructor
  · intro n
    unfold Schema.sortedFields Schema.getStruct
    generalize S.structs = l1 at hs
    generalize S'.structs = l2 at hs
    induction l1 generalizing l2 with
    | nil => cases l2 <;> simp_all [StructsTwin]
    | cons a l1 ih =>
      cases l2 with
      | nil => simp [StructsTwin] at hs
      | cons b l2 =>
        obtain ⟨hab, hrest⟩ := hs
        simp only [List.find?_cons, ← hab.1]
        by_cases hn : (a.name == n) = true
        · simp only [hn, Option.map_some]
          rw [sortFields_eq_of_perm a.fields b.fields hab.2.1 hab.2.2]
        · have : (a.name == n) = false := by simpa using hn
          simp only [this]
          exact ih l2 hrest
  · intro n; unfold Schema.getEnum; rw [he]

/-! non-vacuity: a struct and its twin -/
def C15_A : Schema := { structs := [{ name := "A", fields := [
  { name := "b", id := 2, ty := .u 16 }, { name := "a", id := 1, ty := .i 3 }] }] }
def C15_B : Schema := { structs := [{ name := "A", fields := [
  { name := "a", id := 1, ty := .i 3 }, { name := "b", id := 2, ty := .u 16 }] }] }
example : resolve C15_A 3 (.struct "A") = resolve C15_B 3 (.struct "A") := by decide

end Fcp
