import FcpModel
/-!
# C16 — the Python decoder detects truncated input
-/
namespace Fcp

theorem take_unpack_pack_lt (bits : Bits) (k : Nat) (hk : k < (pack bits).length) :
    unpack ((pack bits).take k) = bits.take (8 * k) ∧ 8 * k < bits.length := by
  have hlen := pack_length bits
  have h8 : 8 * k < bits.length := by omega
  refine ⟨?_, h8⟩
  have h1 : unpack ((pack bits).take k) = (unpack (pack bits)).take (8 * k) := by
    have := unpack_append ((pack bits).take k) ((pack bits).drop k)
    rw [List.take_append_drop] at this
    have hl : (unpack ((pack bits).take k)).length = 8 * k := by
      rw [unpack_length, List.length_take]; omega
    rw [this, List.take_append_of_le_length (by omega),
      List.take_of_length_le (l := unpack ((pack bits).take k)) (by omega)]
  rw [h1, unpack_pack, List.take_append_of_le_length (by omega)]

/-- **C16, truncation**: decoding any strict byte prefix of a valid encoding is an error;
no value is returned -/
theorem C16_truncation (S : Schema) (fuel : Nat) (name : String) (ty : Ty) (v : Val)
    (hr : resolve S fuel (.struct name) = some ty) (hv : wf ty v = true)
    (k : Nat) (hk : k < (encBytes ty v).length) :
    ∃ e, pyDecode S fuel name ((encBytes ty v).take k) = .error e := by
  have h := pyDecode_refines S fuel name ty ((encBytes ty v).take k) hr
  obtain ⟨h1, h2⟩ := take_unpack_pack_lt (enc ty v) k hk
  have hnone : decBytes ty ((encBytes ty v).take k) = none := by
    unfold decBytes encBytes
    rw [h1, dec_prefix_none ty v (8 * k) hv h2]
    rfl
  rw [hnone] at h
  exact h

/-- **C16, accounting**: whenever the decoder returns a value, the input really contained
all the bits of that value's canonical encoding — nothing is built from absent bytes -/
theorem C16_no_fabrication (S : Schema) (fuel : Nat) (name : String) (ty : Ty) (bytes : List Nat)
    (v : Val) (hr : resolve S fuel (.struct name) = some ty)
    (h : pyDecode S fuel name bytes = .ok v) :
    (enc ty v).length ≤ 8 * bytes.length := by
  have h0 := pyDecode_refines S fuel name ty bytes hr
  cases hd : dec ty (unpack bytes) with
  | none =>
    simp only [decBytes, hd, Option.map_none] at h0
    obtain ⟨e, he⟩ := h0
    rw [he] at h; cases h
  | some vr =>
    obtain ⟨v', r⟩ := vr
    simp only [decBytes, hd, Option.map_some] at h0
    rw [h0] at h
    cases h
    have := (dec_consumes ty _ _ _ hd).1
    simp only [unpack_length] at this
    omega

/-- **C16, short payload**: a byte string shorter than the encoding its own length prefixes
announce is an error — whatever the prefixes say, a value is returned only if the bits are there.
Stated contrapositively on the canonical decoder (any value it returns re-encodes to at most
the available bits); with `C02_decode_agrees` the Python decoder errs on every other input. -/
theorem C16_short_payload (ty : Ty) (bytes : List Nat) (h : decBytes ty bytes = none) (S : Schema)
    (fuel : Nat) (name : String) (hr : resolve S fuel (.struct name) = some ty) :
    ∃ e, pyDecode S fuel name bytes = .error e := by
  have h0 := pyDecode_refines S fuel name ty bytes hr
  rw [h] at h0
  exact h0

/-- **C16, work**: the number of `read_word` calls the decoder makes (`reads`, the same
recursion as the decoder, a failing read included) is at most `weight ty * (1 + 8 * #bytes)`
where `weight` depends on the schema only — for every type in which no dynamic array has a
zero-width element type.  A length prefix of 2^32−1 with nothing behind it costs one failing
read. -/
theorem C16_work_bounded (ty : Ty) (hp : PosWidth ty = true) (bytes : List Nat) :
    reads ty (unpack bytes) ≤ weight ty * (1 + 8 * bytes.length) := by
  have := reads_le ty hp (unpack bytes)
  rwa [unpack_length] at this

/-- the guard is necessary: `[[u8,0]]` announcing `n` elements costs `n` steps on 4 bytes
(the recorded finding `zero-width-elements`) -/
theorem C16_zero_width_counterexample :
    PosWidth (.dyn (.arr (.uint 8) 0)) = false ∧
    (decBytes (.dyn (.arr (.uint 8) 0)) [200, 0, 0, 0]).map vlen = some 200 := by decide +kernel

example : PosWidth (.field "a" 0 (.dyn (.opt (.sint 3))) (.field "s" 1 .str .unit)) = true := by decide
example : reads (.field "a" 0 (.dyn (.uint 8)) .unit) (unpack [255, 255, 255, 255, 7]) = 3 := by decide

/-! non-vacuity: `[u8]` announcing 2^32-1 elements with one byte of payload is rejected -/
example : decBytes (.field "a" 0 (.dyn (.uint 8)) .unit) [255, 255, 255, 255, 7] = none := by
  decide

end Fcp
