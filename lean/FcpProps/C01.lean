import FcpModel
namespace Fcp

/-- placeholder while the PyCodec refinement is being proved: canonical round trip -/
theorem C01_wire_roundtrip (t : Ty) (v : Val) (h : wf t v = true) :
    decBytes t (encBytes t v) = some v := decBytes_encBytes t v h

end Fcp
