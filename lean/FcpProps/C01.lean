import FcpModel
/-!
# C01 — Python codec round trip

`pyEncode`/`pyDecode` are the transliteration of `fcp.serde.encode/decode` over the
byte-level `_Buffer`.  For every schema, every struct that resolves (at any fuel, i.e.
any nesting depth), and every in-range value, decoding the encoded bytes returns the
value.  No bound on widths, nesting, lengths or alignment: the bit cursor is arbitrary
at every field because the underlying lemmas carry an arbitrary prefix and suffix.
-/
namespace Fcp

/-- **C01**: `decode(encode(v)) = v` -/
theorem C01_roundtrip (S : Schema) (fuel : Nat) (name : String) (ty : Ty) (v : Val)
    (hr : resolve S fuel (.struct name) = some ty) (hv : wf ty v = true) :
    ∃ bytes, pyEncode S fuel name v = .ok bytes ∧ pyDecode S fuel name bytes = .ok v := by
  refine ⟨encBytes ty v, pyEncode_refines S fuel name ty v hr hv, ?_⟩
  have h := pyDecode_refines S fuel name ty (encBytes ty v) hr
  rw [decBytes_encBytes ty v hv] at h
  exact h

/-- **every text is in range**: a string value is the UTF-8 bytes of its characters; whatever the
characters (Unicode scalar values — Python cannot encode a lone surrogate), it is in the codec's
domain as long as it has fewer than 2^32 bytes.  So the round trip holds for all strings, not for
a 7-bit subset -/
theorem C01_every_text (cs : List Nat) (hc : cs.all isScalar = true) (hl : (utf8Bytes cs).length < 2 ^ 32) :
    wf .str (.str (utf8Bytes cs)) = true := by
  simp only [wf, Bool.and_eq_true, decide_eq_true_eq]
  exact ⟨hl, utf8Bytes_valid cs hc⟩

/-- non-vacuity: `"°C €"` with the smiling face, as a struct field between two sub-byte fields -/
example : wf (.field "a" 0 (.uint 3) (.field "s" 1 .str (.field "b" 2 (.uint 5) .unit)))
    (.cons (.int 5) (.cons (.str (utf8Bytes [0xB0, 0x43, 0x20, 0x20AC, 0x1F600])) (.cons (.int 17) .nil))) = true := by
  decide

/-- the encoder never fails on an in-range value and its output has `⌈bits/8⌉` bytes -/
theorem C01_encode_total (S : Schema) (fuel : Nat) (name : String) (ty : Ty) (v : Val)
    (hr : resolve S fuel (.struct name) = some ty) (hv : wf ty v = true) :
    ∃ bytes, pyEncode S fuel name v = .ok bytes ∧ bytes.length = ((enc ty v).length + 7) / 8 :=
  ⟨encBytes ty v, pyEncode_refines S fuel name ty v hr hv, pack_length _⟩

/-- byte-level `_Buffer`: a `push_word` on a buffer that represents the bit string `B`
yields a buffer that represents `B` followed by the two's-complement bits of the word -/
theorem C01_buffer_push (b : Buf) (B : Bits) (h : BufRep b B) (w : Int) (n : Nat) :
    ∃ b', b.pushWord w n = .ok b' ∧ BufRep b' (B ++ natBits n (toTwos n w)) :=
  pushWord_rep h w n

/-- byte-level `_Buffer`: `read_word` returns the addressed bits, or overruns exactly
when fewer than `n` bits remain -/
theorem C01_buffer_read (b : Buf) (n : Nat) :
    b.readWord n = match readN n b.bits with
      | none => .error .overrun
      | some (x, _) => .ok (x, { b with bitaddr := b.bitaddr + n }) :=
  readWord_spec b n

/-- two's complement: signed decode inverts signed encode on the whole range, including
the minimum `-2^(n-1)` -/
theorem C01_signed_boundary (n : Nat) (hn : 0 < n) :
    pySigned n (toTwos n (-(2 ^ (n - 1) : Int))) = -(2 ^ (n - 1) : Int) := by
  have h : inRangeS n (-(2 ^ (n - 1) : Int)) := by
    constructor
    · omega
    · have : (0 : Int) < 2 ^ (n - 1) := Int.pow_pos (by omega)
      omega
  exact ofTwos_toTwos n hn _ h

/-! ### recorded finding (open): the code as it stands decodes the signed minimum wrongly

The model above is the property-satisfying codec (`>=` in `_decode_builtin_signed`).  The
shipped code compares with `>`; that version is transcribed here and shown to violate the
round trip on the witness replayed by the harness.  The repair cannot be committed because
the repository's own test `test_roundtrip_decoding_8_byte_types` demands the opposite on the
same bit pattern (see known_findings.json). -/

/-- `_decode_builtin_signed` as shipped: `if word > max / 2` -/
def pySignedAsIs (length : Nat) (word : Nat) : Int :=
  if 2 * word > 2 ^ length then (word : Int) - 2 ^ length else word

theorem C01_signed_min_counterexample : pySignedAsIs 8 (toTwos 8 (-128)) = 128 := by decide

/-- the open finding `negative-enumerator`: an enum field is packed as an *unsigned* field of the
bit length of the largest enumerator (`_encode_enum` = `push_word(value, packed_size)`).  For
`enum E { A = -1, B = 3 }` that is 2 bits: the enumerator −1 is written as its low two bits and
read back as 3, another enumerator.  The schema is accepted, the value is in range, and
`decode (encode v) ≠ v`; `wf` excludes exactly this (an enum value lies in `0 .. 2^bits − 1`) -/
theorem C01_negative_enumerator_counterexample :
    bitsNat (natBits 2 (toTwos 2 (-1))) = 3 ∧ ((3 : Nat) : Int) ≠ -1 ∧
      wf (.field "e" 0 (.enum 2) .unit) (.cons (.int (-1)) .nil) = false := by decide

/-- … and it is the only value on which the shipped decoder differs from the model -/
theorem C01_asis_differs_only_at_min (n : Nat) (w : Nat) (h : 2 * w ≠ 2 ^ n) :
    pySignedAsIs n w = pySigned n w := by
  unfold pySignedAsIs pySigned
  by_cases h1 : 2 * w > 2 ^ n
  · have : 2 * w ≥ 2 ^ n := by omega
    simp [h1, this]
  · have : ¬ (2 * w ≥ 2 ^ n) := by omega
    simp [h1, this]

/-! non-vacuity: a struct `u3, f32, str, [i5], Optional[[u7,2]]`, ids out of declaration
order, with the minimum signed value — the hypotheses are satisfiable -/
def C01_S : Schema := { structs := [{ name := "A", fields := [
  { name := "o", id := 9, ty := .opt (.arr (.u 7) 2) },
  { name := "a", id := 1, ty := .u 3 },
  { name := "f", id := 2, ty := .f32 },
  { name := "s", id := 3, ty := .str },
  { name := "d", id := 4, ty := .dyn (.i 5) }] }] }
def C01_T : Ty := .field "a" 1 (.uint 3) (.field "f" 2 .f32 (.field "s" 3 .str
  (.field "d" 4 (.dyn (.sint 5)) (.field "o" 9 (.opt (.arr (.uint 7) 2)) .unit))))
def C01_V : Val := .cons (.int 5) (.cons (.int 0xBF800000) (.cons (.str [104, 105])
  (.cons (.cons (.int (-16)) (.cons (.int 15) .nil))
  (.cons (.some (.cons (.int 127) (.cons (.int 0) .nil))) .nil))))
example : resolve C01_S 5 (.struct "A") = some C01_T ∧ wf C01_T C01_V = true := by decide
example : (pyEncode C01_S 5 "A" C01_V).toOption =
    some [5, 0, 0, 252, 21, 0, 0, 0, 64, 75, 19, 0, 0, 0, 128, 47, 224, 15, 0] := by decide

end Fcp
