import FcpModel
/-!
# C07 — parsing is the inverse of printing

Proved at **token level for the whole grammar**: `C07_parse_print` — every printing of a
file (relation `FileToks`: every production, every choice of the optional separators — `|`
before and between parameters, the comma after a parameter argument, `as` before a binding's
name —, arbitrary line numbers, types and values nested to any depth) parses back to exactly
that file with the reference recursive-descent parser; fuel is never the reason for an error
(`ValToks.depth_le`, `TyToks.depth_le`, the `…length_le` lemmas).  Printing is a relation, so
all spellings are covered at once.  `C07_default_impl` ties the declared structs to their
default bindings; `C07_lexer_lines` (in C11) bounds the lexer's line bookkeeping.

Proved at **character level** for the reference front end as well: `C07_lex_print` — the
lexer maps every printing of a token list (relation `Render`: any run of spaces, tabs, line
feeds, `//` and `/* */` comments before each token and at the end of the text; identifiers;
numbers with sign, fraction and exponent; string literals with escapes; the thirteen symbols;
every token followed by something that cannot continue it) back to exactly that list with the
line each token starts on; `C07_text_to_file` composes the two levels: a text that prints the
tokens of a printing of `pf` parses to `pf`.

Still by correspondence only (hence the level note stays "partial"): that the real
Lark/Earley front end agrees with the reference lexer and parser; exercised on every run on
generated texts under three formatting regimes.
-/
namespace Fcp
open Syntax

/-- **`type`**: parsing inverts printing, to any nesting depth of `[T, n]`, `[T]`, `Optional[T]` -/
theorem C07_type_partial (t : PTy) (ts : List LTok) (h : TyToks t ts) (f last : Nat) (rest : List LTok)
    (hf : t.depth ≤ f) : parseType f last (ts ++ rest) = .ok (t, rest) :=
  parseType_print t ts h f last rest hf

/-- **`value`**: parsing inverts printing for numbers, strings, identifiers and arrays nested
to any depth -/
theorem C07_value_partial (v : PVal) (ts : List LTok) (h : ValToks v ts) (f last : Nat) (rest : List LTok)
    (hf : v.depth ≤ f) : parseValue f last (ts ++ rest) = .ok (v, rest) :=
  parseValue_print v ts h f last rest hf

/-- **the whole file**: parsing inverts printing for every production of the grammar -/
theorem C07_parse_print (pf : PFile) (ts : List LTok) (h : FileToks pf ts) : parseFile ts = .ok pf :=
  parseFile_print pf ts h

/-- every declaration kind parses back in front of any continuation -/
theorem C07_decl_print (d : PDecl) (ts : List LTok) (h : DeclToks d ts) (last : Nat) (rest : List LTok) :
    parseDecl last (ts ++ rest) = .ok (d, rest) :=
  parseDecl_print d ts h last rest

/-- one default binding per struct, named after it, is added where the struct is declared -/
theorem C07_default_impl (loader : List String → String → Except Frontend.Err Frontend.Tree)
    (fs : Frontend.FS) (path : List String) (s : Frontend.St) (name : String) (fields : List PField)
    (line : Nat) (fs' : List Frontend.TField)
    (h : fields.mapM (Frontend.elabField s.tree (path.getLast?.getD "") name) = .ok fs') :
    (Frontend.elabDecl loader fs path s (.struct name fields line)).tree.impls =
      s.tree.impls ++ [⟨name, "default", name, [], []⟩] ∧
    (Frontend.elabDecl loader fs path s (.struct name fields line)).tree.structs =
      s.tree.structs ++ [⟨name, fs'⟩] := by
  simp [Frontend.elabDecl, h]

/-! non-vacuity: `Optional[[[str, 4]]]` and `[1, [x, "s"]]` -/
example : TyToks (.opt (.dyn (.arr .str "4")))
    [⟨.ident "Optional", 1⟩, ⟨.sym '[', 1⟩, ⟨.sym '[', 2⟩, ⟨.sym '[', 2⟩, ⟨.ident "str", 3⟩, ⟨.sym ',', 3⟩,
     ⟨.num "4", 3⟩, ⟨.sym ']', 3⟩, ⟨.sym ']', 4⟩, ⟨.sym ']', 4⟩] :=
  .opt _ _ 1 1 4 (.dyn _ _ 2 4 (.arr _ _ "4" 2 3 3 3 (.str 3)))
example : ValToks (.arr (.cons (.num "1") (.cons (.arr (.cons (.ident "x") (.cons (.str "s") .nil))) .nil)))
    [⟨.sym '[', 1⟩, ⟨.num "1", 1⟩, ⟨.sym ',', 1⟩, ⟨.sym '[', 1⟩, ⟨.ident "x", 1⟩, ⟨.sym ',', 1⟩,
     ⟨.str "s", 1⟩, ⟨.sym ']', 1⟩, ⟨.sym ']', 1⟩] :=
  .arr _ _ 1 (.more _ _ [_] _ 1 (.num "1" 1)
    (.last _ [_, _, _, _, _] 1 (.arr _ _ 1 (.more _ _ [_] _ 1 (.ident "x" 1) (.last _ [_] 1 (.str "s" 1))))))

/-! non-vacuity for the whole file: a module import, a struct whose field has a unit parameter
written with the optional bar, a binding renamed without `as` — the relation is inhabited and
the reference parser returns the file on that very token list -/
def C07_file : PFile := ⟨"3", 1, [.mod ["a", "b"] 2,
  .struct "S" [⟨"x", "0", .f32, [⟨"unit", [.str "V"]⟩], 3⟩] 3,
  .impl "can" "S" (some "T") [.field "id" (.num "10")] 4]⟩

theorem C07_file_printing : ∃ ts, FileToks C07_file ts ∧ ts.length = 34 :=
  ⟨_, .mk "3" 1 1 1 _ _
    (.cons _ _ _ _ (.mod _ 2 2 _ (.more "a" 2 2 _ _ (.one "b" 2)))
    (.cons _ _ _ _ (.struct "S" _ 3 3 3 3 _ (.cons _ _ _ _
        (.bar "x" "0" .f32 _ _ _ 3 3 3 3 3 3 (.f32 3)
          (.bare "unit" [.str "V"] [] _ [] 3 3 (.bare _ _ _ _ (.str "V" 3) (.nil 3)) .nil)) .nil) (by simp))
    (.cons _ _ _ _ (.impl "can" "S" (some "T") [.field "id" (.num "10")] 4 4 4 4 4 4 _ _
        (.bare "T" 4 (by decide)) (.field "id" (.num "10") 4 4 4 _ [] [] (.num "10" 4) .nil) (by simp))
      .nil))), by simp⟩

/-- **character level, lexer**: every printing of a token list — any run of spaces, tabs, line
feeds, `//` and `/* */` comments before each token and at the end, identifiers, numbers with
sign / fraction / exponent, string literals with escapes, the thirteen symbols, each token
followed by something that cannot continue it — lexes back to exactly that token list, with
the line every token starts on -/
theorem C07_lex_print (ts : List LTok) (cs : List Char) (h : Render ts 1 cs) :
    Syntax.lex (String.ofList cs) = .ok ts :=
  lex_render ts cs h

/-- **from characters to the tree**: a text that prints the tokens of a printing of the file
`pf` is parsed to `pf` by the reference front end (lexer, then recursive descent) -/
theorem C07_text_to_file (pf : PFile) (ts : List LTok) (cs : List Char) (hr : Render ts 1 cs)
    (hf : FileToks pf ts) : parseText (String.ofList cs) = .ok pf := by
  rw [parseText, lex_render ts cs hr]
  exact parseFile_print pf ts hf

/-! non-vacuity: the text `x1 /* c */// k⏎-2.5e+3,"q\"" ` prints four tokens on two lines -/
example : Render [⟨.ident "x1", 1⟩, ⟨.num "-2.5e+3", 2⟩, ⟨.sym ',', 2⟩, ⟨.str "q\\\"", 2⟩] 1
    (['x', '1'] ++ ([' ', '/', '*', ' ', 'c', ' ', '*', '/', '/', '/', ' ', 'k', '\n'] ++
      (['-', '2', '.', '5', 'e', '+', '3'] ++ ([','] ++ (['"', 'q', '\\', '"', '"'] ++ [' ']))))) :=
  .cons [] 0 _ ['x', '1'] _ _ 1 .nil (.ident 'x' ['1'] (by decide) (by decide)) (by unfold TokSep; decide)
    (.cons [' ', '/', '*', ' ', 'c', ' ', '*', '/', '/', '/', ' ', 'k', '\n'] 1 _
      ['-', '2', '.', '5', 'e', '+', '3'] _ _ 1
      (.space _ _ (.block [' ', 'c', ' '] _ 1 (by decide) (.line [' ', 'k'] [] 0 (by decide) .nil)))
      (.snum '-' ['2'] ['.', '5'] ['e', '+', '3'] (.inr rfl) (by decide) (by decide) (.some ['5'] (by decide))
        (.mk 'e' ['+'] ['3'] (.inl rfl) (.inr (.inl rfl)) (by decide) (by decide)))
      (by unfold TokSep; decide)
      (.cons [] 0 _ [','] _ _ 2 .nil (.sym ',' (by decide)) (by intro h; cases h)
        (.cons [] 0 _ ['"', 'q', '\\', '"', '"'] _ _ 2 .nil (.str ['q', '\\', '"'] (by decide)) trivial
          (.nil [' '] 0 2 (.space _ _ .nil)))))

end Fcp
