import FcpModel
/-!
# C07 — parsing is the inverse of printing

Partial, and labelled so.  Proved here, at token level, for the two *recursive* productions
of the grammar (`type`, nested to any depth, and `value`, arrays nested to any depth) against
the reference recursive-descent parser: every printing of a tree parses back to that tree and
leaves exactly the suffix.  Printing is a relation, so all spellings and all line numbers are
covered at once.  The flat productions (struct / enum / impl / service / device / mod) and
the character level (whitespace, comments, optional separators) are not proved: they are
exercised on every run by comparing the real Lark front end, this reference front end and
the printed description on generated texts under three formatting regimes.
-/
namespace Fcp
open Syntax

/-- **`type`**: parsing inverts printing, to any nesting depth of `[T, n]`, `[T]`, `Optional[T]` -/
theorem C07_type_partial (t : PTy) (ts : List LTok) (h : TyToks t ts) (f last : Nat) (rest : List LTok)
    (hf : t.depth ≤ f) : parseType f last (ts ++ rest) = .ok (t, rest) :=
  parseType_print t ts h f last rest hf

/-- **`value`**: parsing inverts printing for numbers, strings, identifiers and arrays nested
to any depth -/
theorem C07_value_partial (v : PVal) (ts : List LTok) (h : ValToks v ts) (f last : Nat) (rest : List LTok)
    (hf : v.depth ≤ f) : parseValue f last (ts ++ rest) = .ok (v, rest) :=
  parseValue_print v ts h f last rest hf

/-- one default binding per struct, named after it, is added where the struct is declared -/
theorem C07_default_impl (loader : List String → String → Except Frontend.Err Frontend.Tree)
    (fs : Frontend.FS) (path : List String) (s : Frontend.St) (name : String) (fields : List PField)
    (line : Nat) (fs' : List Frontend.TField)
    (h : fields.mapM (Frontend.elabField s.tree (path.getLast?.getD "") name) = .ok fs') :
    (Frontend.elabDecl loader fs path s (.struct name fields line)).tree.impls =
      s.tree.impls ++ [⟨name, "default", name, [], []⟩] ∧
    (Frontend.elabDecl loader fs path s (.struct name fields line)).tree.structs =
      s.tree.structs ++ [⟨name, fs'⟩] := by
  simp [Frontend.elabDecl, h]

/-! non-vacuity: `Optional[[[str, 4]]]` and `[1, [x, "s"]]` -/
example : TyToks (.opt (.dyn (.arr .str "4")))
    [⟨.ident "Optional", 1⟩, ⟨.sym '[', 1⟩, ⟨.sym '[', 2⟩, ⟨.sym '[', 2⟩, ⟨.ident "str", 3⟩, ⟨.sym ',', 3⟩,
     ⟨.num "4", 3⟩, ⟨.sym ']', 3⟩, ⟨.sym ']', 4⟩, ⟨.sym ']', 4⟩] :=
  .opt _ _ 1 1 4 (.dyn _ _ 2 4 (.arr _ _ "4" 2 3 3 3 (.str 3)))
example : ValToks (.arr (.cons (.num "1") (.cons (.arr (.cons (.ident "x") (.cons (.str "s") .nil))) .nil)))
    [⟨.sym '[', 1⟩, ⟨.num "1", 1⟩, ⟨.sym ',', 1⟩, ⟨.sym '[', 1⟩, ⟨.ident "x", 1⟩, ⟨.sym ',', 1⟩,
     ⟨.str "s", 1⟩, ⟨.sym ']', 1⟩, ⟨.sym ']', 1⟩] :=
  .arr _ _ 1 (.more _ _ [_] _ 1 (.num "1" 1)
    (.last _ [_, _, _, _, _] 1 (.arr _ _ 1 (.more _ _ [_] _ 1 (.ident "x" 1) (.last _ [_] 1 (.str "s" 1))))))

end Fcp
