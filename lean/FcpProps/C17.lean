import FcpModel
/-!
# C17 — generated artifacts are a deterministic function of the schema

What a theorem can carry here is small: the `{path: contents}` map of a file list does not
depend on the order in which a generator emitted the files (the C++ generator iterates a
Python `set` of protocol names, whose order depends on the hash seed).  That each generator
is a function of the schema alone — no hidden process state, no mutation of the parsed
schema, no hash-order-dependent *contents* — is CPython behaviour and is exercised by the
harness (fresh processes under several hash seeds, and a long-lived process with a history).
Label: partial.
-/
namespace Fcp
open Codegen

/-- emitting the same files in another order yields the same map -/
theorem C17_order_indep_partial (files files' : List (String × String)) (h : files.Perm files')
    (hn : (files.map (·.1)).Nodup) : toMap files = toMap files' :=
  gen_order_indep files files' h hn

/-- writing the same files in another order yields the same directory contents -/
theorem C17_write_order_partial (files files' : List (String × String)) (h : files.Perm files')
    (hn : (files.map (·.1)).Nodup) (fs : FS) (p : String) :
    (writeAll files fs).get p = (writeAll files' fs).get p := by
  have hn' : (files'.map (·.1)).Nodup := (h.map _).nodup_iff.mp hn
  by_cases hp : p ∈ files.map (·.1)
  · obtain ⟨⟨q, c⟩, hm, rfl⟩ := List.mem_map.mp hp
    rw [get_writeAll_mem files fs q c hn hm, get_writeAll_mem files' fs q c hn' (h.mem_iff.mp hm)]
  · have hp' : p ∉ files'.map (·.1) := fun h' => hp ((h.map _).mem_iff.mpr h')
    rw [get_writeAll_not_mem files fs p hp, get_writeAll_not_mem files' fs p hp']

/-- what was in the output directory before does not show in the files a generation returns:
every returned path reads back as the returned contents, whatever the directory held (the model
of the file sink overwrites; a sink that does not truncate breaks the correspondence, trials
C10-r2 and C17-r10) -/
theorem C17_disk_history_indep_partial (files : List (String × String)) (hn : (files.map (·.1)).Nodup)
    (fs fs' : FS) (p c : String) (hm : (p, c) ∈ files) :
    (writeAll files fs).get p = some c ∧ (writeAll files fs).get p = (writeAll files fs').get p := by
  rw [get_writeAll_mem files fs p c hn hm, get_writeAll_mem files fs' p c hn hm]
  exact ⟨rfl, rfl⟩

example : toMap [("fcp_can.h", "a"), ("fcp_uart.h", "b")] "fcp_uart.h" =
    toMap [("fcp_uart.h", "b"), ("fcp_can.h", "a")] "fcp_uart.h" := by decide

end Fcp
