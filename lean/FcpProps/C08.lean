import FcpModel
/-!
# C08 — accepted schemas have no dangling or mis-kinded type references

`loadFile` is the reference front end: lexer, recursive-descent parser, the transformer's
actions in source order and module loading over an abstract file system.
-/
namespace Fcp
open Syntax Frontend

/-- **C08**: in every tree the front end accepts — for any file system, any root file and
any depth of `mod` imports — each user-type reference in a field, at any nesting depth
(arrays, dynamic arrays, optionals), resolves to a declared struct when tagged `Struct` and
to a declared enum when tagged `Enum` -/
theorem C08_no_dangling (fs : FS) (fuel : Nat) (path : List String) (src : String) (t : Tree)
    (h : loadFile fs fuel path src = .ok t) :
    ∀ st ∈ t.structs, ∀ f ∈ st.fields, RefsOk t f.ty :=
  loadFile_treeOk fs fuel path src t h

/-- the lookup that tags a reference: structs first, then enums, among what is declared so far -/
theorem C08_tag (t : Tree) (file s : String) (line : Nat) :
    elabType t file (.named s line) =
      if (t.getStruct s).isSome then .ok (.struct s)
      else if (t.getEnum s).isSome then .ok (.enum s)
      else .error [⟨"type-not-found", s!"Type '{s}' cannot be found.", some file, some line⟩] := by
  simp only [elabType]

/-- a reference — at any depth — to a name not declared before its use (forward, self or
undeclared: none of them is in the tree collected so far) is an error whose first message
names the type -/
theorem C08_undeclared (t : Tree) (file : String) (p : PTy) (s : String) (l : Nat)
    (h : leafNamed p = some (s, l)) (hs : t.getStruct s = none) (he : t.getEnum s = none) :
    ∃ rest, elabType t file p =
      .error (⟨"type-not-found", s!"Type '{s}' cannot be found.", some file, some l⟩ :: rest) :=
  elabType_undeclared_deep t file p s l h hs he

/-- … and the field's error chain ends by naming the enclosing struct -/
theorem C08_error_names_struct (t : Tree) (file sname : String) (f : PField) (s : String) (l : Nat)
    (hp : ∃ r, elabParams file f.line f.params = .ok r) (hid : ∃ i, pyInt? f.id = some i)
    (h : leafNamed f.ty = some (s, l)) (hs : t.getStruct s = none) (he : t.getEnum s = none) :
    ∃ mid, elabField t file sname f =
      .error (⟨"type-not-found", s!"Type '{s}' cannot be found.", some file, some l⟩ :: mid ++
        [⟨"field", s!"Failed to parse field in struct {sname}", none, none⟩]) :=
  elabField_undeclared t file sname f s l hp hid h hs he

/-- a struct is visible to later declarations only: while its own fields are elaborated it
is not yet in the tree (so a self reference is an undeclared reference) -/
theorem C08_self_reference (loader : List String → String → Except Err Tree) (fs : FS)
    (path : List String) (s : St) (name : String) (fields : List PField) (line : Nat)
    (e : Err) (h : fields.mapM (elabField s.tree (path.getLast?.getD "") name) = .error e) :
    (elabDecl loader fs path s (.struct name fields line)).tree = s.tree := by
  simp only [elabDecl, h]
  rfl

end Fcp
