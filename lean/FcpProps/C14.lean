import FcpModel
/-!
# C14 — CAN messages that do not fit a frame are rejected, never truncated
-/
namespace Fcp

/-- a binding whose struct has a variable-size field (string, dynamic array, optional — at
any depth, in any position) has no layout -/
theorem C14_variable_no_layout (S : Schema) (fuel : Nat) (i : Impl) (ty : Ty)
    (hr : resolve S (fuel + 1) (.struct i.type) = some ty) (hv : staticBits ty = none) :
    generate S true fuel i = none := by
  cases hg : generate S true fuel i with
  | none => rfl
  | some r =>
    obtain ⟨ls, e⟩ := r
    have := generate_static S true fuel i ls e ty hg hr
    rw [hv] at this; cases this

/-- … and therefore DBC generation fails for it -/
theorem C14_variable_rejected_dbc (S : Schema) (fuel : Nat) (i : Impl) (ty : Ty)
    (hr : resolve S (fuel + 1) (.struct i.type) = some ty) (hv : staticBits ty = none) :
    dbcMessage S fuel i = .error .noLayout := by
  unfold dbcMessage
  rw [C14_variable_no_layout S fuel i ty hr hv]

/-- … and the C plug-in's verification rejects the schema when the binding is a CAN binding -/
theorem C14_variable_rejected_c (S : Schema) (fuel : Nat) (i : Impl) (ty : Ty) (hi : i ∈ S.impls)
    (hc : i.protocol = "can") (hr : resolve S (fuel + 1) (.struct i.type) = some ty)
    (hv : staticBits ty = none) : verifyModel .canC fuel S ≠ .ok () := by
  intro h
  obtain ⟨_, cok⟩ := (verify_iff_c fuel S).mp h
  obtain ⟨n, hn, _⟩ := cok.size i hi hc
  unfold implBits at hn
  rw [C14_variable_no_layout S fuel i ty hr hv] at hn
  cases hn

/-- a binding whose packed size exceeds 64 bits — wherever the excess sits — is rejected by
the DBC writer -/
theorem C14_oversize_rejected_dbc (S : Schema) (fuel : Nat) (i : Impl) (ls : List Leaf) (e : Nat)
    (hg : generate S true fuel i = some (ls, e)) (he : 64 < e) :
    ∃ err, dbcMessage S fuel i = .error err := by
  cases h : dbcMessage S fuel i with
  | error err => exact ⟨err, rfl⟩
  | ok m =>
    have := (C05_len S fuel i m ls e hg h).1
    omega
where
  C05_len (S : Schema) (fuel : Nat) (i : Impl) (m : DbcMessage) (ls : List Leaf)
      (e : Nat) (hg : generate S true fuel i = some (ls, e)) (h : dbcMessage S fuel i = .ok m) :
      e ≤ 64 ∧ m.dlc = (e + 7) / 8 := by
    unfold dbcMessage at h
    rw [hg] at h
    simp only at h
    cases hm : makeSignals ls with
    | error err => rw [hm] at h; cases h
    | ok r =>
      obtain ⟨sigs, dlc⟩ := r
      rw [hm] at h
      simp only at h
      have := makeSignals_ok_fits ls sigs dlc 0 e (generate_tiles S true fuel i ls e hg) rfl hm
      split at h
      · simp only [Except.ok.injEq] at h; subst h; exact this
      · cases h

/-- … and by the C plug-in's verification -/
theorem C14_oversize_rejected_c (S : Schema) (fuel : Nat) (i : Impl) (ls : List Leaf) (e : Nat)
    (hi : i ∈ S.impls) (hc : i.protocol = "can")
    (hg : generate S true fuel i = some (ls, e)) (he : 64 < e) :
    verifyModel .canC fuel S ≠ .ok () := by
  intro h
  obtain ⟨_, cok⟩ := (verify_iff_c fuel S).mp h
  obtain ⟨n, hn, hle⟩ := cok.size i hi hc
  unfold implBits at hn
  rw [hg] at hn
  simp only [Option.map_some, Option.some.injEq] at hn
  omega

/-- every emitted signal lies inside its message and non-overlapping: leaves tile `[0, e)`
with `e ≤ 8·dlc ≤ 64` -/
theorem C14_emitted_fit (S : Schema) (fuel : Nat) (i : Impl) (m : DbcMessage) (ls : List Leaf)
    (e : Nat) (hg : generate S true fuel i = some (ls, e)) (h : dbcMessage S fuel i = .ok m)
    (l : Leaf) (hl : l ∈ ls) :
    l.start + l.len ≤ 8 * m.dlc ∧ 8 * m.dlc ≤ 64 ∧
      ls.Pairwise (fun a b => a.start + a.len ≤ b.start) := by
  have ht := generate_tiles S true fuel i ls e hg
  have hr := ht.mem_range l hl
  have hd := C14_oversize_rejected_dbc.C05_len S fuel i m ls e hg h
  exact ⟨by omega, by omega, ht.pairwise_disjoint⟩

/-! non-vacuity: 65 bits are rejected, 64 are not -/
def C14_S (w : Nat) : Schema := {
  structs := [{ name := "A", fields := [{ name := "a", id := 0, ty := .u w }, { name := "b", id := 1, ty := .u 1 }] }],
  impls := [{ name := "A", protocol := "can", type := "A", fields := [("id", .int 1)], signals := [] }] }
example : (dbcMessage (C14_S 64) 5 (C14_S 64).impls.head!).toOption.isSome = false := by decide
example : (dbcMessage (C14_S 63) 5 (C14_S 63).impls.head!).toOption.isSome = true := by decide

end Fcp
