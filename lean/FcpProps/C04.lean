import FcpModel
/-!
# C04 — the packed CAN layout tiles the message
-/
namespace Fcp

/-- **C04, tiling**: the leaves of any successfully computed layout occupy consecutive bit
ranges starting at bit 0 -/
theorem C04_tiles (S : Schema) (unroll : Bool) (fuel : Nat) (impl : Impl) (ls : List Leaf) (e : Nat)
    (h : generate S unroll fuel impl = some (ls, e)) : Tiles 0 ls e :=
  generate_tiles S unroll fuel impl ls e h

/-- no overlaps: every leaf ends before each later leaf starts -/
theorem C04_no_overlap (S : Schema) (unroll : Bool) (fuel : Nat) (impl : Impl) (ls : List Leaf)
    (e : Nat) (h : generate S unroll fuel impl = some (ls, e)) :
    ls.Pairwise (fun a b => a.start + a.len ≤ b.start) :=
  (generate_tiles S unroll fuel impl ls e h).pairwise_disjoint

/-- no gaps: every bit below the message length belongs to a leaf -/
theorem C04_no_gap (S : Schema) (unroll : Bool) (fuel : Nat) (impl : Impl) (ls : List Leaf)
    (e : Nat) (h : generate S unroll fuel impl = some (ls, e)) (p : Nat) (hp : p < e) :
    ∃ l ∈ ls, l.start ≤ p ∧ p < l.start + l.len :=
  (generate_tiles S unroll fuel impl ls e h).covers p ⟨Nat.zero_le _, hp⟩

/-- the message length is the sum of the leaf widths -/
theorem C04_total (S : Schema) (unroll : Bool) (fuel : Nat) (impl : Impl) (ls : List Leaf)
    (e : Nat) (h : generate S unroll fuel impl = some (ls, e)) : (ls.map (·.len)).sum = e := by
  have := (generate_tiles S unroll fuel impl ls e h).total
  omega

/-- each leaf's width is the wire width of its own type, its options are exactly the
signal block declared under its field's name (so a block named `f` never decorates a leaf
of a differently named field), and its byte order is read from those options -/
theorem C04_leaf_ok (S : Schema) (unroll : Bool) (fuel : Nat) (impl : Impl) (ls : List Leaf)
    (e : Nat) (h : generate S unroll fuel impl = some (ls, e)) (l : Leaf) (hl : l ∈ ls) :
    typeLength S l.ty = some l.len ∧ l.opts = impl.signalOpts l.field ∧
      l.endian = endianOf l.opts :=
  let ok := generate_ok S unroll fuel impl ls e h l hl
  ⟨ok.width, ok.opts, ok.endian⟩

/-- history independence: what `generate` returns does not depend on the encoder's state,
hence not on any earlier `generate` calls -/
theorem C04_history_indep (S : Schema) (unroll : Bool) (fuel : Nat) (e1 e2 : Encoder) (impl : Impl) :
    (e1.generate S unroll fuel impl).2 = (e2.generate S unroll fuel impl).2 := rfl

theorem C04_history (S : Schema) (unroll : Bool) (fuel : Nat) (hist : List Impl) (impl : Impl) :
    ((hist.foldl (fun (e : Encoder) i => (e.generate S unroll fuel i).1) ({} : Encoder)).generate S unroll fuel impl).2 =
      (({} : Encoder).generate S unroll fuel impl).2 := rfl

/-! non-vacuity: nested struct, enum of max 5 (3 bits), unrolled array with a signal block -/
def C04_S : Schema := {
  structs := [{ name := "I", fields := [{ name := "x", id := 0, ty := .u 5 }] },
              { name := "A", fields := [{ name := "b", id := 2, ty := .arr (.i 7) 2 },
                                        { name := "a", id := 1, ty := .enum "E" },
                                        { name := "c", id := 3, ty := .struct "I" }] }],
  enums := [{ name := "E", enumeration := [⟨"P", 0⟩, ⟨"Q", 5⟩] }],
  impls := [{ name := "A", protocol := "can", type := "A", fields := [("id", .int 10)],
              signals := [{ name := "b", fields := [("endianess", .str "big")] }] }] }
example : (generate C04_S true 5 C04_S.impls.head!).map
    (fun r => (r.1.map (fun l => (l.name, l.start, l.len, l.endian)), r.2)) =
    some ([("a", 0, 3, "little"), ("b_0", 3, 7, "big"), ("b_1", 10, 7, "big"),
           ("c::x", 17, 5, "little")], 22) := by decide

end Fcp
