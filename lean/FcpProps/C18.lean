import FcpModel
import FcpProps.C13
/-!
# C18 — the C++ CAN frame wrapper

`Cpp.encodeFrame` / `Cpp.decodeFrame` model `Can::Encode(name, json)` / `Can::Decode(frame)`
over the binding table (rendered as `if` chains by the static schema, searched in the
reflected impl list by the run-time one: first match wins in both).
-/
namespace Fcp
open Cpp

/-- **frame contents**: identifier, bus tag, DLC and data are the binding's id, its bus
(NUL padded to 4), the number of canonical payload bytes and those bytes (zero padded to 8) -/
theorem C18_frame (bs : List Binding) (hok : BindingsOk bs) (b : Binding) (hb : b ∈ bs) (v : Val) :
    encodeFrame bs b.name v = some
      { bus := pad 4 b.tag, sid := b.id, dlc := (encBytes b.ty v).length, data := pad 8 (encBytes b.ty v) } := by
  unfold encodeFrame; rw [find_name bs hok.names b hb]; rfl

/-- **decode ∘ encode**: decoding the frame gives back the binding's name and the value -/
theorem C18_decode_encode (bs : List Binding) (hok : BindingsOk bs) (b : Binding) (hb : b ∈ bs) (v : Val)
    (hv : wf b.ty v = true) :
    (encodeFrame bs b.name v).bind (decodeFrame bs) = some (b.name, v) := by
  rw [C18_frame bs hok b hb v]
  simp only [Option.bind_some, decodeFrame, busName_pad b.tag (fun c hc => hok.bus b hb c (List.mem_of_mem_take hc))]
  rw [find_key bs hok.keys b hb]
  simp only [decBytes_pad b.ty v hv, Option.map_some]

/-- **unknown**: a frame whose (id, bus) matches no binding is reported as unknown -/
theorem C18_unknown (bs : List Binding) (f : Frame)
    (h : ∀ b ∈ bs, ¬ (b.id = f.sid ∧ b.tag = busName f.bus)) : decodeFrame bs f = none := by
  unfold decodeFrame
  have : bs.find? (fun b => b.id == f.sid && b.tag == busName f.bus) = none := by
    rw [List.find?_eq_none]
    intro b hb
    have := h b hb
    simp only [Bool.and_eq_true, beq_iff_eq]; exact this
  rw [this]

/-- the DLC of a payload of `n` bits is `⌈n/8⌉` -/
theorem C18_dlc (t : Ty) (v : Val) : (encBytes t v).length = ((enc t v).length + 7) / 8 := pack_length _

/-- **static = run-time**: both wrappers are the same function of the binding table once the
payload codecs agree — decoding always, encoding wherever C13's encode half holds -/
theorem C18_static_eq_dynamic_decode (t : Ty) (h : Widths t = true) (data : List Nat) :
    (dynDec t (unpack data)).map (·.1) = (cppDec t (unpack data)).map (·.1) := by
  rw [C13_decode_same t h]

/-- the wrappers before fix 6533a8d compared the frame's tag with the whole bus name: a binding
on a bus with a longer name never recognised its own frames -/
def oldDecodeFrame (bs : List Binding) (f : Frame) : Option (String × Val) :=
  match bs.find? (fun b => b.id == f.sid && b.bus == busName f.bus) with
  | none => none
  | some b => (decBytes b.ty f.data).map fun v => (b.name, v)

def C18_long : List Binding := [⟨"S1", 10, [99, 104, 97, 115, 115, 105, 115], .field "a" 0 (.uint 8) .unit⟩]  -- bus "chassis"

theorem C18_old_long_bus_counterexample :
    (encodeFrame C18_long "S1" (.cons (.int 5) .nil)).bind (oldDecodeFrame C18_long) = none ∧
    (encodeFrame C18_long "S1" (.cons (.int 5) .nil)).bind (decodeFrame C18_long) = some ("S1", .cons (.int 5) .nil) := by
  decide

example : BindingsOk C18_long := ⟨by decide, by decide, by decide⟩

/-! non-vacuity: two bindings on different buses sharing an id, a 2-character bus -/
def C18_bs : List Binding :=
  [⟨"A", 10, [98, 49], .field "x" 0 (.sint 12) .unit⟩, ⟨"B", 10, [98, 50], .field "y" 0 (.uint 8) .unit⟩]
example : BindingsOk C18_bs := ⟨by decide, by decide, by decide⟩
example : encodeFrame C18_bs "A" (.cons (.int (-2)) .nil) =
    some { bus := [98, 49, 0, 0], sid := 10, dlc := 2, data := [254, 15, 0, 0, 0, 0, 0, 0] } := by decide
example : decodeFrame C18_bs { bus := [98, 50, 0, 0], sid := 10, dlc := 1, data := [7, 0, 0, 0, 0, 0, 0, 0] } =
    some ("B", .cons (.int 7) .nil) := by decide
example : decodeFrame C18_bs { bus := [98, 51, 0, 0], sid := 10, dlc := 1, data := [7, 0, 0, 0, 0, 0, 0, 0] } = none := by decide

end Fcp
