import FcpModel
/-!
# C20 — module imports are transparent

Partial in one respect, stated in the theorem: the moved declarations form a *prefix* of the
file (a prefix is always closed under declare-before-use), recursively to any import depth.
Moving an arbitrary declare-before-use-closed subset needs a frame lemma (elaboration of a
self-contained block does not depend on what precedes it) that holds only when type names do
not clash; it is exercised by the harness but not proved.
-/
namespace Fcp
open Syntax Frontend

/-- **C20 (prefix splits, any depth)**: if the declarations of the root file are a split of
`flat` into a tree of module files of `fs` (import depth ≤ n ≤ fuel, module paths of any
length resolved relative to the importing file), loading the root gives the same tree as the
single file holding `flat` — and fails exactly when that one fails -/
theorem C20_split_partial (fs : FS) (n : Nat) (path : List String) (vl vl2 : Nat) (ds flat : List PDecl)
    (h : SplitOf fs n path ds flat) (fuel : Nat) (hf : n ≤ fuel)
    (l2 : List String → String → Except Err Tree) (fs2 : FS) (p2 : List String) :
    (elabFile (loadFile fs fuel) fs path ⟨"3", vl, ds⟩).toOption =
      (elabFile l2 fs2 p2 ⟨"3", vl2, flat⟩).toOption :=
  split_equiv fs n path vl vl2 ds flat h fuel hf l2 fs2 p2

/-- `mod a.b.c;` in the file `dir/x.fcp` names the file `dir/a/b/c.fcp` -/
theorem C20_path (dir : List String) (x : String) :
    modTarget (dir ++ [x]) ["a", "b", "c"] = dir ++ ["a", "b", "c.fcp"] := by
  simp [modTarget]

/-- a missing module file is an error that names the file -/
theorem C20_missing (loader : List String → String → Except Err Tree) (fs : FS) (path mpath : List String)
    (line : Nat) (h : fs.read (modTarget path mpath) = none) :
    (elabDecl loader fs path {} (.mod mpath line)).firstErr =
      some [⟨"file-not-found", s!"File not found: {(modTarget path mpath).getLast?.getD ""}", none, none⟩] := by
  have hr : fs.read (path.dropLast ++ mpath.dropLast ++ [mpath.getLast?.getD "" ++ ".fcp"]) = none := h
  simp only [elabDecl]
  rw [hr]
  simp [St.fail, modTarget, Option.orElse]

/-- an error inside an imported module (syntax or resolution, at any depth below) is
returned wrapped in an error that names the module and cites the importing line -/
theorem C20_error_in_module (loader : List String → String → Except Err Tree) (fs : FS)
    (path mpath : List String) (line : Nat) (src : String) (e : Err)
    (h : fs.read (modTarget path mpath) = some src) (hl : loader (modTarget path mpath) src = .error e) :
    (elabDecl loader fs path {} (.mod mpath line)).firstErr =
      some (e ++ [⟨"import", s!"Failed to import {(modTarget path mpath).getLast?.getD ""}",
                   some (path.getLast?.getD ""), some line⟩]) := by
  have hr : fs.read (path.dropLast ++ mpath.dropLast ++ [mpath.getLast?.getD "" ++ ".fcp"]) = some src := h
  have hl' : loader (path.dropLast ++ mpath.dropLast ++ [mpath.getLast?.getD "" ++ ".fcp"]) src = .error e := hl
  simp only [elabDecl]
  rw [hr]
  simp only []
  rw [hl']
  simp [St.fail, modTarget, Option.orElse]

/-- all five declaration lists of a module are merged at the point of the import -/
theorem C20_merge_all (a b : Tree) :
    (a.merge b).structs = a.structs ++ b.structs ∧ (a.merge b).enums = a.enums ++ b.enums ∧
    (a.merge b).impls = a.impls ++ b.impls ∧ (a.merge b).services = a.services ++ b.services ∧
    (a.merge b).devices = a.devices ++ b.devices := ⟨rfl, rfl, rfl, rfl, rfl⟩

end Fcp
