import FcpModel
/-!
# C20 — module imports are transparent

`C20_split_general`: a file may import any number of modules at any positions between its
own declarations, each module again split the same way to any depth (`Split2`).  Each moved
block is self-contained — it refers to no type name declared before it outside the module
(`hfresh`), which is what being a module means, since a module sees only its own
declarations.  Then loading the root gives the same tree as the single file, and fails
exactly when the single file fails.  The proof rests on a frame lemma (`foldDecls_frame`:
after a context whose type names a block does not mention, the block elaborates to the
context merged with its own result).  `C20_split_partial` is the earlier special case (one
module at the top of the file), kept because it needs no freshness hypothesis.
-/
namespace Fcp
open Syntax Frontend

/-- **C20 (prefix splits, any depth)**: if the declarations of the root file are a split of
`flat` into a tree of module files of `fs` (import depth ≤ n ≤ fuel, module paths of any
length resolved relative to the importing file), loading the root gives the same tree as the
single file holding `flat` — and fails exactly when that one fails -/
theorem C20_split_partial (fs : FS) (n : Nat) (path : List String) (vl vl2 : Nat) (ds flat : List PDecl)
    (h : SplitOf fs n path ds flat) (fuel : Nat) (hf : n ≤ fuel)
    (l2 : List String → String → Except Err Tree) (fs2 : FS) (p2 : List String) :
    (elabFile (loadFile fs fuel) fs path ⟨"3", vl, ds⟩).toOption =
      (elabFile l2 fs2 p2 ⟨"3", vl2, flat⟩).toOption :=
  split_equiv fs n path vl vl2 ds flat h fuel hf l2 fs2 p2

/-- **C20 (general position, any number of modules, any depth)** -/
theorem C20_split_general (fs : FS) (n : Nat) (path : List String) (vl vl2 : Nat) (ds flat : List PDecl)
    (h : Split2 fs n path [] ds flat) (fuel : Nat) (hf : n ≤ fuel)
    (l2 : List String → String → Except Err Tree) (fs2 : FS) (p2 : List String) :
    (elabFile (loadFile fs fuel) fs path ⟨"3", vl, ds⟩).toOption =
      (elabFile l2 fs2 p2 ⟨"3", vl2, flat⟩).toOption :=
  split2_equiv fs n path vl vl2 ds flat h fuel hf l2 fs2 p2

/-- the frame property behind it: a `mod`-free block that mentions none of the context's type
names elaborates, after the context, to the context merged with its own result -/
theorem C20_frame (l : List String → String → Except Err Tree) (fs : FS) (p : List String) (T : Tree)
    (ds : List PDecl) (hm : ModFree ds) (hf : Fresh T ds) (t : Tree) (e : Option Err) :
    foldDecls l fs p ⟨T.merge t, e⟩ ds =
      ⟨T.merge (foldDecls l fs p ⟨t, e⟩ ds).tree, (foldDecls l fs p ⟨t, e⟩ ds).firstErr⟩ :=
  foldDecls_frame l fs p T ds hm hf t e

/-- the premises combine: a struct, then a module holding an enum and a struct that uses it,
then a binding — given that the module file reads and parses as stated -/
example (fs : FS) (src : String) (vl : Nat)
    (hread : fs.read (modTarget ["main.fcp"] ["lib", "m"]) = some src)
    (hparse : parseText src = .ok ⟨"3", vl,
      [.enum "E" [("A", .num "0", 2)] 2, .struct "B" [⟨"e", "0", .named "E" 3, [], 3⟩] 3]⟩) :
    Split2 fs 1 ["main.fcp"] []
      [.struct "A" [⟨"x", "0", .u 8, [], 2⟩] 2, .mod ["lib", "m"] 3, .impl "can" "A" none [.field "id" (.num "1")] 4]
      ([.struct "A" [⟨"x", "0", .u 8, [], 2⟩] 2] ++
       ([.enum "E" [("A", .num "0", 2)] 2, .struct "B" [⟨"e", "0", .named "E" 3, [], 3⟩] 3] ++
        [.impl "can" "A" none [.field "id" (.num "1")] 4])) := by
  refine .decl _ _ _ _ _ _ rfl ?_
  refine .mod 0 _ _ ["lib", "m"] 3 vl src
    [.enum "E" [("A", .num "0", 2)] 2, .struct "B" [⟨"e", "0", .named "E" 3, [], 3⟩] 3]
    [.enum "E" [("A", .num "0", 2)] 2, .struct "B" [⟨"e", "0", .named "E" 3, [], 3⟩] 3]
    [.impl "can" "A" none [.field "id" (.num "1")] 4] [.impl "can" "A" none [.field "id" (.num "1")] 4] hread hparse
    (.decl _ _ _ _ _ _ rfl (.decl _ _ _ _ _ _ rfl (.nil _ _ _))) ?_ ?_
  · intro d hd x hx
    simp only [List.mem_cons, List.not_mem_nil, or_false] at hd
    rcases hd with rfl | rfl
    · simp [declRefs] at hx
    · simp only [declRefs, tyRefs, List.flatMap_cons, List.flatMap_nil, List.append_nil, List.mem_singleton] at hx
      subst hx
      simp [declNames, declName]
  · exact .decl _ _ _ _ _ _ rfl (.nil _ _ _)

/-- `mod a.b.c;` in the file `dir/x.fcp` names the file `dir/a/b/c.fcp` -/
theorem C20_path (dir : List String) (x : String) :
    modTarget (dir ++ [x]) ["a", "b", "c"] = dir ++ ["a", "b", "c.fcp"] := by
  simp [modTarget]

/-- a missing module file is an error that names the file -/
theorem C20_missing (loader : List String → String → Except Err Tree) (fs : FS) (path mpath : List String)
    (line : Nat) (h : fs.read (modTarget path mpath) = none) :
    (elabDecl loader fs path {} (.mod mpath line)).firstErr =
      some [⟨"file-not-found", s!"File not found: {(modTarget path mpath).getLast?.getD ""}", none, none⟩] := by
  have hr : fs.read (path.dropLast ++ mpath.dropLast ++ [mpath.getLast?.getD "" ++ ".fcp"]) = none := h
  simp only [elabDecl]
  rw [hr]
  simp [St.fail, modTarget, Option.orElse]

/-- an error inside an imported module (syntax or resolution, at any depth below) is
returned wrapped in an error that names the module and cites the importing line -/
theorem C20_error_in_module (loader : List String → String → Except Err Tree) (fs : FS)
    (path mpath : List String) (line : Nat) (src : String) (e : Err)
    (h : fs.read (modTarget path mpath) = some src) (hl : loader (modTarget path mpath) src = .error e) :
    (elabDecl loader fs path {} (.mod mpath line)).firstErr =
      some (e ++ [⟨"import", s!"Failed to import {(modTarget path mpath).getLast?.getD ""}",
                   some (path.getLast?.getD ""), some line⟩]) := by
  have hr : fs.read (path.dropLast ++ mpath.dropLast ++ [mpath.getLast?.getD "" ++ ".fcp"]) = some src := h
  have hl' : loader (path.dropLast ++ mpath.dropLast ++ [mpath.getLast?.getD "" ++ ".fcp"]) src = .error e := hl
  simp only [elabDecl]
  rw [hr]
  simp only []
  rw [hl']
  simp [St.fail, modTarget, Option.orElse]

/-- all five declaration lists of a module are merged at the point of the import -/
theorem C20_merge_all (a b : Tree) :
    (a.merge b).structs = a.structs ++ b.structs ∧ (a.merge b).enums = a.enums ++ b.enums ∧
    (a.merge b).impls = a.impls ++ b.impls ∧ (a.merge b).services = a.services ++ b.services ∧
    (a.merge b).devices = a.devices ++ b.devices := ⟨rfl, rfl, rfl, rfl, rfl⟩

end Fcp
