import FcpModel
/-!
# C19 — the generated C scheduler honours periods over every call history
-/
namespace Fcp
open Sched

/-- **C19, refinement**: for every device (list of periods) and every call history, the
scheduler's behaviour for message `i` is exactly the reference automaton of the statement:
sent on a call iff the timestamp differs from the previous call's and at least `P_i`
(unsigned, mod 2^32) has elapsed since that message's previous transmission (since 0 for
the first) -/
theorem C19_refines (periods : List Int) (i : Nat) (hi : i < periods.length) (ts : List Nat) :
    (run periods (init periods) ts).map (fun row => row.getD i false) =
      spec (periods.getD i 0) 0 0 ts := by
  have h := run_refines_spec periods i hi ts (init periods) (by simp [init])
  simpa [init, List.getD_eq_getElem?_getD, hi] using h

/-- never sent twice within less than `P`: consecutive transmissions (and the first one,
counted from time 0) are at least `P` apart -/
theorem C19_spacing (p : Int) (ts : List Nat) :
    Chain (fun a b => periodU p ≤ (b + W - a) % W) 0 (txTimes ts (spec p 0 0 ts)) :=
  spec_spacing p 0 0 ts

/-- with true, non-wrapped clock values less than 2^32 apart, the wrapped difference is the
real elapsed time, so the spacing is a spacing in real time -/
theorem C19_real_time (T1 T2 : Nat) (h : T1 ≤ T2) (hlt : T2 - T1 < W) :
    ((T2 % W) + W - (T1 % W)) % W = T2 - T1 := wrapped_diff T1 T2 h hlt

/-- messages without a period are never sent -/
theorem C19_no_period (ts : List Nat) : ∀ b ∈ spec (-1) 0 0 ts, b = false :=
  spec_no_period 0 0 ts

/-- a due message is sent -/
theorem C19_due_sent (p : Int) (prevT lastTx t : Nat) (ts : List Nat) (hp : p ≠ -1)
    (ht : t ≠ prevT) (hd : periodU p ≤ (t + W - lastTx) % W) :
    (spec p prevT lastTx (t :: ts)).head? = some true :=
  spec_due_sent p prevT lastTx t ts hp ht hd

/-! non-vacuity: periods 15, 20, -1 over the history of the repository's own test -/
example : run [15, 20, -1] (init [15, 20, -1]) [0, 15, 15, 20, 25, 30] =
    [[false, false, false], [true, false, false], [false, false, false], [false, true, false],
     [false, false, false], [true, false, false]] := by decide

end Fcp
