import FcpModel
/-!
# C09 — verifier verdict = well-formedness specification (both ways)
-/
namespace Fcp

/-- **C09**: the general verifier accepts exactly the well-formed schemas -/
theorem C09_general (fuel : Nat) (S : Schema) :
    verifyModel .general fuel S = .ok () ↔ WellFormed S := verify_iff_general fuel S

/-- with the DBC checks it additionally requires every binding's struct to exist and the
frame ids of CAN bindings to be distinct -/
theorem C09_dbc (fuel : Nat) (S : Schema) :
    verifyModel .dbc fuel S = .ok () ↔ WellFormed S ∧ DbcOk S := verify_iff_dbc fuel S

/-- with the C checks it additionally requires every binding's struct to exist and every
CAN message to have a static size of at most 64 bits -/
theorem C09_c (fuel : Nat) (S : Schema) :
    verifyModel .canC fuel S = .ok () ↔ WellFormed S ∧ COk S fuel := verify_iff_c fuel S

/-- the code's `count(x) > 1` idiom is exactly "no duplicates" -/
theorem C09_count_idiom {α : Type} [BEq α] [LawfulBEq α] (l : List α) :
    (∀ x ∈ l, l.count x ≤ 1) ↔ l.Nodup := all_count_le_one_iff_nodup l

/-- the verdict does not depend on declaration order, for every check set -/
theorem C09_order_general (fuel : Nat) (S S' : Schema) (p : SchemaPerm S S') :
    (verifyModel .general fuel S = .ok ()) ↔ (verifyModel .general fuel S' = .ok ()) :=
  verify_perm_general fuel S S' p

theorem C09_order_dbc (fuel : Nat) (S S' : Schema) (p : SchemaPerm S S') :
    (verifyModel .dbc fuel S = .ok ()) ↔ (verifyModel .dbc fuel S' = .ok ()) :=
  verify_perm_dbc fuel S S' p

theorem C09_order_c (fuel : Nat) (S S' : Schema) (p : SchemaPerm S S') :
    (verifyModel .canC fuel S = .ok ()) ↔ (verifyModel .canC fuel S' = .ok ()) :=
  verify_perm_c fuel S S' p

/-- beyond the property's list: the C++ plug-in's check set (a `service` check added to the
plug-in with fix 35b0f7d, so that "accepted" means the rpc layer can be generated: service and
method ids in 0..255, unique ids and names, payloads that are declared structs; and a `field`
check added with fix 6f85ba7: integer fields of 1 to 64 bits), as an iff and
invariant under declaration order like the other sets -/
theorem C09_cpp (fuel : Nat) (S : Schema) :
    verifyModel .cpp fuel S = .ok () ↔ WellFormed S ∧ WidthsOk S ∧ CppOk S := verify_iff_cpp fuel S

theorem C09_order_cpp (fuel : Nat) (S S' : Schema) (p : SchemaPerm S S') :
    (verifyModel .cpp fuel S = .ok ()) ↔ (verifyModel .cpp fuel S' = .ok ()) :=
  verify_perm_cpp fuel S S' p

/-! non-vacuity: an accepted and a rejected schema -/
def C09_good : Schema := {
  structs := [{ name := "A", fields := [{ name := "x", id := 0, ty := .u 8 }] }],
  enums := [{ name := "E", enumeration := [⟨"P", 0⟩, ⟨"Q", 1⟩] }],
  impls := [{ name := "A", protocol := "can", type := "A", fields := [("id", .int 1)], signals := [] }] }
def C09_bad : Schema := { C09_good with
  enums := [{ name := "A", enumeration := [⟨"P", 0⟩] }] }
example : (verifyModel .canC 5 C09_good).toOption = some () := by decide
example : (verifyModel .general 5 C09_bad).toOption = none := by decide
def C09_svc (id : Int) : Schema := { C09_good with
  services := [{ name := "S", id := id, methods := [⟨"m", 0, "A", "A"⟩] }] }
example : (verifyModel .cpp 5 (C09_svc 255)).toOption = some () ∧ (verifyModel .cpp 5 (C09_svc 256)).toOption = none ∧
    (verifyModel .general 5 (C09_svc 256)).toOption = some () := by decide

end Fcp
