import FcpModel
/-!
# C12 — reflection is a lossless, faithful description of the schema
-/
namespace Fcp
open Refl

/-- **lossless**: whenever the reflection record fits the reflection schema (`wf reflTy`),
serializing it with the Python codec and decoding the bytes returns the record.  `R` is any
schema in which struct `Fcp` resolves to `reflTy`; that the shipped reflection.fcp does is
re-checked by the kernel on every run (`Generated/ReflSchema.lean`). -/
theorem C12_lossless (R : Schema) (fuel : Nat) (hR : resolve R fuel (.struct "Fcp") = some reflTy)
    (S : RSchema) (hwf : wf reflTy (reflect S) = true) :
    ∃ bytes, pyEncode R fuel "Fcp" (reflect S) = .ok bytes ∧
      pyDecode R fuel "Fcp" bytes = .ok (reflect S) :=
  C01_rt R fuel hR (reflect S) hwf
where
  C01_rt (R : Schema) (fuel : Nat) (hR : resolve R fuel (.struct "Fcp") = some reflTy) (v : Val)
      (hv : wf reflTy v = true) :
      ∃ bytes, pyEncode R fuel "Fcp" v = .ok bytes ∧ pyDecode R fuel "Fcp" bytes = .ok v := by
    refine ⟨encBytes reflTy v, pyEncode_refines R fuel "Fcp" reflTy v hR hv, ?_⟩
    have h := pyDecode_refines R fuel "Fcp" reflTy (encBytes reflTy v) hR
    rw [decBytes_encBytes reflTy v hv] at h
    exact h

/-- **faithful, type chains**: the flattened type chain of a field determines its type —
containers in nesting order with their sizes, the scalar family, user type names -/
theorem C12_chain_faithful (t : RTy) (h : leafNonNumeric t = true) : unchain (chain t) = some t :=
  unchain_chain t h

/-- the record lists every struct, enum, binding and service, in declaration order -/
theorem C12_lists_everything (S : RSchema) :
    reflect S = mkList [mkList [.int 0x66, .int 0x63, .int 0x70], .int S.version,
      mkList (S.structs.map structVal), mkList (S.enums.map enumVal),
      mkList (S.impls.map implVal), mkList (S.services.map serviceVal)] := rfl

/-- a field's record carries its name, id, type chain, unit and range exactly as declared -/
theorem C12_field_faithful (f : RField) :
    fieldVal f = mkList [.str f.name, .int f.id, mkList (chain f.ty), vOpt (f.unit.map Val.str),
      vOpt (f.min.map fun w => .int w), vOpt (f.max.map fun w => .int w), optMeta f.pos] := rfl

/-! non-vacuity: a schema whose record fits the reflection schema, and the recorded
counterexample outside it (negative field id, accepted by the parser) -/
def C12_F (id : Int) : RField :=
  { name := [120], id := id, ty := .arr (.opt (.enum [69])) 3, unit := some [86], min := some 0,
    max := none, pos := some ⟨2, 2, 5, 9, 20, 24, [109]⟩ }
def C12_I : RImpl :=
  { name := [65], protocol := [99], type := [65], fields := [([105, 100], XV.int (-7))],
    signals := [], pos := none }
def C12_S (id : Int) : RSchema :=
  { structs := [{ name := [65], pos := none, fields := [C12_F id] }], impls := [C12_I] }
example : wf reflTy (reflect (C12_S 1)) = true := by decide
theorem C12_negative_id_counterexample : wf reflTy (reflect (C12_S (-1))) = false := by decide

/-- the class of `C12_lossless`, described on the schema: the record fits reflection.fcp exactly
when ids are in `u32`, enumerators and positions in `i32`, the version in `u16`, texts valid UTF-8 and
lists shorter than 2^32 (`InReflRange` spells the bounds out declaration by declaration) -/
theorem C12_in_range_exact (S : RSchema) : wf reflTy (reflect S) = InReflRange S := wf_reflect S

/-- **lossless, on the schema**: every schema within those bounds round-trips -/
theorem C12_lossless_in_range (R : Schema) (fuel : Nat) (hR : resolve R fuel (.struct "Fcp") = some reflTy)
    (S : RSchema) (h : InReflRange S = true) :
    ∃ bytes, pyEncode R fuel "Fcp" (reflect S) = .ok bytes ∧
      pyDecode R fuel "Fcp" bytes = .ok (reflect S) :=
  C12_lossless R fuel hR S (by rw [wf_reflect]; exact h)

/-- the type part of the bounds holds for every type the language can write: widths and array
sizes below 2^32 − 2, UTF-8 type names, nesting shallower than 2^32 -/
theorem C12_types_in_range (t : RTy) (h : smallTy t = true) (hd : t.depth + 1 < 2^32) : okTy t = true :=
  okTy_of_small t h hd

example : InReflRange (C12_S 1) = true := by decide

/-- recorded finding `enumerator-beyond-i32`: an enumerator of 2^32 + 5 (accepted by parser and
verifier, 33 bits on the wire) leaves the class, and the bytes of its record decode to
another record (the enumerator comes back as 5) -/
def C12_E (v : Int) : RSchema :=
  { enums := [{ name := [69], pos := none, items := [{ name := [66], value := v, pos := none }] }] }
theorem C12_enumerator_beyond_i32_counterexample :
    InReflRange (C12_E 4294967301) = false ∧
    decBytes reflTy (encBytes reflTy (reflect (C12_E 4294967301))) = some (reflect (C12_E 5)) := by
  constructor <;> decide +kernel
example : InReflRange (C12_E 2147483647) = true := by decide

end Fcp
